(* GenFnDatalogProofs.v — the source-level tie, stage E: the predicate and fact-set functions and
   the carry step of the join odometer of datalog/datalog.go.

   /verif/genfn translates Predicate.Equal, Predicate.Match, FactSet.Insert, FactSet.InsertAll,
   FactSet.Equal and advanceIndexes into GeneratedFn.v (go_Predicate_Equal, ...).  This file proves
   each generated definition EQUAL to the hand-written model (Model/Token.v: dpred_geqb, dfact_in;
   Model/DEval.v: dpred_match, dinsert_fact, dinsert_all; Model/Odometer.v: advance) for all inputs
   in the ranges of the Go types.

   Representation: Predicate{Name String; Terms []Term} is the model's record dpred (field reads are
   the projections dp_name / dp_terms), Fact{Predicate} is its single field, FactSet = []Fact is
   list dpred; a *FactSet / *int / *[]int that the function writes through is threaded (the new
   pointee is returned beside the result).

   Method, as in GenFnProofs.v / GenFnSetProofs.v: the generated definition is unfolded (helpers
   through the hint database go_fn; functions already proved are opaque and rewritten with their
   theorem); every loop is replaced wherever it stands by a lemma proved once for every body that
   satisfies a semantic condition, and the condition is proved for the body found in the goal by
   splitting its tests, so neither bound names nor the order of branches matter:
   - [range_from_zip q r l2]: the body compares the element v with l2[i] (when that index is in
     range) and leaves the function with r when q v l2[i] fails;
   - GenFnSetProofs.range_from_any / range_from_flag / range_from_flag_break / range_from_fold_all;
   - [down_from_advance]: a descending loop whose step is the step of Odometer.advance_loop. *)
From Coq Require Import ZifyN ZifyNat ZifyBool Arith.
From BV Require Import Base Term Expr DTerm Symbols Datalog Authz Wire Token DEval Odometer GoSem.
From BV Require Import GeneratedFn GenFnProofs GenFnSetProofs.
From BV Require Generated.

Ltac Zify.zify_post_hook ::= Z.to_euclidean_division_equations.

Local Open Scope Z_scope.

(* ------------------------------------------------------------------ *)
(** * 1. Lists read by position *)

Lemma idx_from_nth_error {A} (l : list A) : forall k : nat, idx_from l (Z.of_nat k) = nth_error l k.
Proof.
  induction l as [|x l IH]; intros k; destruct k as [|k]; cbn [idx_from nth_error]; try reflexivity.
  destruct (Z.eqb_spec (Z.of_nat (S k)) 0) as [E|E]; [lia|].
  replace (Z.of_nat (S k) - 1) with (Z.of_nat k) by lia. apply IH.
Qed.

(* l[k] for a natural k is nth_error: no range condition *)
Lemma idx_nth_error {A} (l : list A) (k : nat) : idx l (Z.of_nat k) = nth_error l k.
Proof.
  unfold idx. destruct (Z.ltb_spec (Z.of_nat k) 0) as [H|H]; [lia|]. apply idx_from_nth_error.
Qed.

Lemma skipn_nth_error {A} (l : list A) : forall k y, nth_error l k = Some y -> skipn k l = y :: skipn (S k) l.
Proof.
  induction l as [|x l IH]; intros k y H; destruct k as [|k]; cbn [nth_error] in H; try discriminate.
  - injection H as H. subst y. reflexivity.
  - cbn [skipn]. apply IH. exact H.
Qed.

Lemma nth_error_in_range {A} (l : list A) (k : nat) : (k < length l)%nat -> exists y, nth_error l k = Some y.
Proof.
  intros H. destruct (nth_error l k) as [y|] eqn:E; [eauto|]. apply nth_error_None in E. lia.
Qed.

(* the conjunction of q over the positions both lists have *)
Fixpoint zipb {A B} (q : A -> B -> bool) (l1 : list A) (l2 : list B) : bool :=
  match l1, l2 with
  | v :: l1', y :: l2' => q v y && zipb q l1' l2'
  | _, _ => true
  end.

(* ZIP: [for i, v := range l1 { if !q(v, l2[i]) { return r } }] with l2 at least as long as l1.
   The body is constrained only where l2[i] exists, so a body that reads l2[i] early, late or
   twice satisfies the same condition. *)
Lemma range_from_zip {A B R} (q : A -> B -> bool) (r : R) (l2 : list B)
    (body : Z -> A -> unit -> step unit R) :
  (forall i v y, idx l2 i = Some y -> body i v tt = if q v y then Continue tt else Done r) ->
  forall l1 k, (k + length l1 <= length l2)%nat ->
    range_from body (Z.of_nat k) l1 tt = if zipb q l1 (skipn k l2) then Continue tt else Done r.
Proof.
  intros H l1. induction l1 as [|v l1 IH]; intros k Hk; cbn [range_from]; [reflexivity|].
  cbn [length] in Hk.
  destruct (nth_error_in_range l2 k ltac:(lia)) as [y Hy].
  rewrite (H (Z.of_nat k) v y) by (rewrite idx_nth_error; exact Hy).
  rewrite (skipn_nth_error l2 k y Hy). cbn [zipb].
  destruct (q v y); cbn [andb]; [|reflexivity].
  replace (Z.of_nat k + 1) with (Z.of_nat (S k)) by lia. apply IH. lia.
Qed.

Lemma zipb_list_eqb {A} (q : A -> A -> bool) (a b : list A) :
  length a = length b -> zipb q a b = list_eqb q a b.
Proof.
  revert b. induction a as [|x a IH]; intros b H; destruct b as [|y b]; cbn [length] in H;
    try discriminate; cbn [zipb list_eqb]; [reflexivity|].
  rewrite IH by lia. reflexivity.
Qed.

Lemma list_eqb_length_neq {A} (q : A -> A -> bool) (a b : list A) :
  length a <> length b -> list_eqb q a b = false.
Proof.
  revert b. induction a as [|x a IH]; intros b H; destruct b as [|y b]; cbn [length] in H;
    cbn [list_eqb]; try reflexivity; try congruence.
  rewrite IH by lia. apply Bool.andb_false_r.
Qed.

Definition dterm_matchb (x y : dterm) : bool := dis_var x || dis_var y || dterm_geqb x y.

Lemma zipb_dterms_match (a b : list dterm) :
  length a = length b -> zipb dterm_matchb a b = dterms_match a b.
Proof.
  revert b. induction a as [|x a IH]; intros b H; destruct b as [|y b]; cbn [length] in H;
    try discriminate; cbn [zipb dterms_match]; [reflexivity|].
  rewrite IH by lia. reflexivity.
Qed.

Lemma dterms_match_length_neq (a b : list dterm) :
  length a <> length b -> dterms_match a b = false.
Proof.
  revert b. induction a as [|x a IH]; intros b H; destruct b as [|y b]; cbn [length] in H;
    cbn [dterms_match]; try reflexivity; try congruence.
  rewrite IH by lia. apply Bool.andb_false_r.
Qed.

(* ------------------------------------------------------------------ *)
(** * 2. The script for the bodies *)

(* calls of the functions proved so far; extended after each theorem *)
Ltac dl_calls := rewrite ?go_Term_Equal_eq.

Ltac dl_bool_atom :=
  match goal with
  | |- context [dpred_geqb ?a ?b] => destruct (dpred_geqb a b)
  | |- context [dterm_geqb ?a ?b] => destruct (dterm_geqb a b)
  | |- context [dfact_in ?a ?b] => destruct (dfact_in a b)
  | |- context [existsb ?f ?l] => destruct (existsb f l)
  | |- context [if negb ?c then _ else _] => destruct c
  | |- context [if ?c then _ else _] => destruct c
  end.
Ltac dl_bools := cbn [negb andb orb]; go_red; repeat (dl_bool_atom; cbn [negb andb orb]; go_red).

(* the shape of a term, as far as a type switch / comma-ok assertion can see it *)
Ltac dl_shapes :=
  repeat match goal with
  | |- context [match ?x with DA _ => _ | DSet _ => _ end] =>
      is_var x; let a := fresh "a" in let l := fresh "l" in destruct x as [a|l]; go_red
  | |- context [match ?x with DVar _ => _ | DInt _ => _ | DStr _ => _ | DDate _ => _ | DBytes _ => _ | DBool _ => _ end] =>
      is_var x; destruct x; go_red
  end.

(* condition of [range_from_zip] for the body of the goal: read l2[i] (wherever the body does),
   look at the shapes, replace the calls, split the tests *)
Ltac dl_zip_body :=
  let i := fresh "i" in let v := fresh "v" in let y := fresh "y" in let Hy := fresh "Hy" in
  intros i v y Hy; go_red; rewrite ?Hy; go_red; unfold dterm_matchb;
  dl_shapes; cbn [dis_var negb andb orb]; go_red; rewrite ?Hy; go_red; dl_calls; go_red;
  dl_bools; reflexivity.

Ltac dl_zip_loop1 q r l2 :=
  match goal with
  | |- context [range_loop ?body ?L ?s0] =>
      let H := fresh "Hzip" in
      assert (H : forall i v y, idx l2 i = Some y -> body i v tt = if q v y then Continue tt else Done r)
        by dl_zip_body;
      change (range_loop body L s0) with (range_from body (Z.of_nat 0) L tt);
      rewrite (range_from_zip q r l2 body H L 0%nat) by (cbn [Nat.add]; lia);
      clear H; cbn [skipn]; go_red
  end.

(* ------------------------------------------------------------------ *)
(** * 3. Predicate.Equal, Predicate.Match *)

(** Predicate.Equal: no range condition (the index is in range because the lengths were compared) *)
Theorem go_Predicate_Equal_eq : forall (p q : dpred),
  go_Predicate_Equal p q = Ok (dpred_geqb p q).
Proof.
  intros p q. unfold go_Predicate_Equal, dpred_geqb. autounfold with go_fn. go_red.
  rewrite ?len_int_eqb_length.
  rewrite ?(Nat.eqb_sym (length (dp_terms q)) (length (dp_terms p))), ?(N.eqb_sym (dp_name q) (dp_name p)).
  destruct (Nat.eqb_spec (length (dp_terms p)) (length (dp_terms q))) as [El|El];
    destruct (N.eqb (dp_name p) (dp_name q)); cbn [negb andb orb]; go_red;
    rewrite ?(list_eqb_length_neq dterm_geqb _ _ El); try reflexivity.
  dl_zip_loop1 dterm_geqb (Ok false : res bool) (dp_terms q).
  rewrite (zipb_list_eqb dterm_geqb _ _ El).
  destruct (list_eqb dterm_geqb (dp_terms p) (dp_terms q)); reflexivity.
Qed.
Print Assumptions go_Predicate_Equal_eq.
Global Opaque go_Predicate_Equal.

Example go_Predicate_Equal_ex :
  go_Predicate_Equal (Build_dpred 1030 [DA (DInt 1); DSet [DInt 1; DInt 2]; DA (DVar 3)])
                     (Build_dpred 1030 [DA (DInt 1); DSet [DInt 2; DInt 1]; DA (DVar 3)]) = Ok true /\
  go_Predicate_Equal (Build_dpred 1030 [DA (DInt 1)]) (Build_dpred 1031 [DA (DInt 1)]) = Ok false /\
  go_Predicate_Equal (Build_dpred 1030 [DA (DInt 1)]) (Build_dpred 1030 [DA (DInt 1); DA (DInt 2)]) = Ok false /\
  go_Predicate_Equal (Build_dpred 1030 [DA (DInt 1); DA (DInt 2)]) (Build_dpred 1030 [DA (DInt 1)]) = Ok false /\
  go_Predicate_Equal (Build_dpred 1030 [DA (DVar 1)]) (Build_dpred 1030 [DA (DInt 1)]) = Ok false /\
  go_Predicate_Equal (Build_dpred 1030 []) (Build_dpred 1030 []) = Ok true.
Proof. vm_compute. repeat split. Qed.

(** Predicate.Match: a variable on either side matches anything *)
Theorem go_Predicate_Match_eq : forall (p q : dpred),
  go_Predicate_Match p q = Ok (dpred_match p q).
Proof.
  intros p q. unfold go_Predicate_Match, dpred_match. autounfold with go_fn. go_red.
  rewrite ?len_int_eqb_length.
  rewrite ?(Nat.eqb_sym (length (dp_terms q)) (length (dp_terms p))), ?(N.eqb_sym (dp_name q) (dp_name p)).
  destruct (Nat.eqb_spec (length (dp_terms p)) (length (dp_terms q))) as [El|El];
    destruct (N.eqb (dp_name p) (dp_name q)); cbn [negb andb orb]; go_red;
    rewrite ?(dterms_match_length_neq _ _ El); try reflexivity.
  dl_zip_loop1 dterm_matchb (Ok false : res bool) (dp_terms q).
  rewrite (zipb_dterms_match _ _ El).
  destruct (dterms_match (dp_terms p) (dp_terms q)); reflexivity.
Qed.
Print Assumptions go_Predicate_Match_eq.
Global Opaque go_Predicate_Match.

Example go_Predicate_Match_ex :
  go_Predicate_Match (Build_dpred 1030 [DA (DInt 1); DA (DVar 7); DA (DStr 5)])
                     (Build_dpred 1030 [DA (DVar 2); DA (DInt 9); DA (DStr 5)]) = Ok true /\
  go_Predicate_Match (Build_dpred 1030 [DA (DInt 1); DA (DStr 4)])
                     (Build_dpred 1030 [DA (DVar 2); DA (DStr 5)]) = Ok false /\
  go_Predicate_Match (Build_dpred 1030 [DA (DVar 2)]) (Build_dpred 1031 [DA (DVar 2)]) = Ok false /\
  go_Predicate_Match (Build_dpred 1030 [DA (DVar 2)]) (Build_dpred 1030 [DA (DVar 2); DA (DVar 3)]) = Ok false /\
  go_Predicate_Match (Build_dpred 1030 [DSet [DInt 1]]) (Build_dpred 1030 [DSet [DInt 1; DInt 1]]) = Ok false.
Proof. vm_compute. repeat split. Qed.

Ltac dl_calls ::= rewrite ?go_Term_Equal_eq, ?go_Predicate_Equal_eq, ?go_Predicate_Match_eq.

(* ------------------------------------------------------------------ *)
(** * 4. Symmetry of the model's equality (FactSet.Equal compares the other way round) *)

Lemma dset_equal_sym (s c : list datom) : dset_equal s c = dset_equal c s.
Proof.
  unfold dset_equal. rewrite (Nat.eqb_sym (length c) (length s)).
  destruct (Nat.eqb (length s) (length c)); cbn [andb]; [|reflexivity].
  apply Bool.andb_comm.
Qed.

Lemma dterm_geqb_sym (a b : dterm) : dterm_geqb a b = dterm_geqb b a.
Proof.
  destruct a as [x|x], b as [y|y]; cbn [dterm_geqb]; try reflexivity.
  - apply datom_eqb_sym.
  - apply dset_equal_sym.
Qed.

Lemma list_eqb_sym {A} (q : A -> A -> bool) (Hq : forall x y, q x y = q y x) (a b : list A) :
  list_eqb q a b = list_eqb q b a.
Proof.
  revert b. induction a as [|x a IH]; intros b; destruct b as [|y b]; cbn [list_eqb]; try reflexivity.
  rewrite Hq, IH. reflexivity.
Qed.

Lemma dpred_geqb_sym (p q : dpred) : dpred_geqb p q = dpred_geqb q p.
Proof.
  unfold dpred_geqb. rewrite N.eqb_sym, (list_eqb_sym dterm_geqb dterm_geqb_sym). reflexivity.
Qed.

Lemma dterms_match_sym (a b : list dterm) : dterms_match a b = dterms_match b a.
Proof.
  revert b. induction a as [|x a IH]; intros b; destruct b as [|y b]; cbn [dterms_match]; try reflexivity.
  rewrite IH, (dterm_geqb_sym x y). destruct (dis_var x), (dis_var y); reflexivity.
Qed.

Lemma dpred_match_sym (p q : dpred) : dpred_match p q = dpred_match q p.
Proof. unfold dpred_match. rewrite N.eqb_sym, dterms_match_sym. reflexivity. Qed.

(* ------------------------------------------------------------------ *)
(** * 5. FactSet.Insert, InsertAll, Equal *)

Ltac dl_body_close := go_red; dl_calls; go_red; dl_bools; reflexivity.

Ltac dl_any_loop1 p r :=
  match goal with
  | |- context [range_loop ?body ?L ?s0] =>
      let H := fresh "Hany" in
      assert (H : forall i v st, body i v st = if p v then Done r else Continue st)
        by (let i := fresh "i" in let v := fresh "v" in let st := fresh "st" in
            intros i v st; go_units; dl_body_close);
      change (range_loop body L s0) with (range_from body 0 L s0);
      rewrite (range_from_any p r body H L 0 s0); clear H; go_red
  end.

Ltac dl_flag_side b := go_red; dl_calls; go_red; dl_bools; destruct b; reflexivity.
Ltac dl_flag_loop1 q :=
  match goal with
  | |- context [range_loop ?body ?L ?s0] =>
      let H := fresh "Hflag" in
      first
        [ assert (H : forall i v b, body i v b = Continue (q v || b))
            by (let i := fresh "i" in let v := fresh "v" in let b := fresh "b" in
                intros i v b; dl_flag_side b);
          change (range_loop body L s0) with (range_from body 0 L s0);
          rewrite (range_from_flag q body H L 0 s0)
        | assert (H : forall i v b, body i v b = if q v then Break true else Continue b)
            by (let i := fresh "i" in let v := fresh "v" in let b := fresh "b" in
                intros i v b; dl_flag_side b);
          change (range_loop body L s0) with (range_from body 0 L s0);
          rewrite (range_from_flag_break q body H L 0 s0) ];
      clear H; go_red
  end.

Ltac dl_fold_all_loop1 g :=
  match goal with
  | |- context [range_loop ?body ?L ?s0] =>
      let H := fresh "Hfold" in
      assert (H : forall i v st, body i v st = Continue (g st v))
        by (let i := fresh "i" in let v := fresh "v" in let st := fresh "st" in
            intros i v st; dl_body_close);
      change (range_loop body L s0) with (range_from body 0 L s0);
      rewrite (range_from_fold_all g body H L 0 s0); clear H; go_red
  end.

(** FactSet.Insert: the new set and "was it new" *)
Theorem go_FactSet_Insert_eq : forall (s : list dpred) (f : dpred),
  go_FactSet_Insert s f = (dinsert_fact s f, Ok (negb (dfact_in f s))).
Proof.
  intros s f. unfold go_FactSet_Insert, dinsert_fact, dfact_in. autounfold with go_fn. go_red.
  dl_any_loop1 (fun g : dpred => dpred_geqb g f) ((s, Ok false) : list dpred * res bool).
  destruct (existsb (fun g : dpred => dpred_geqb g f) s); reflexivity.
Qed.
Print Assumptions go_FactSet_Insert_eq.
Global Opaque go_FactSet_Insert.

Example go_FactSet_Insert_ex :
  let a := Build_dpred 1030 [DA (DInt 1)] in
  let b := Build_dpred 1030 [DSet [DInt 1; DInt 2]] in
  let b' := Build_dpred 1030 [DSet [DInt 2; DInt 1]] in
  go_FactSet_Insert [a; b] b' = ([a; b], Ok false) /\
  go_FactSet_Insert [a] b = ([a; b], Ok true) /\
  go_FactSet_Insert [] a = ([a], Ok true).
Proof. vm_compute. repeat split. Qed.

Ltac dl_calls ::=
  rewrite ?go_Term_Equal_eq, ?go_Predicate_Equal_eq, ?go_Predicate_Match_eq, ?go_FactSet_Insert_eq.

(** FactSet.InsertAll *)
Theorem go_FactSet_InsertAll_eq : forall (s facts : list dpred),
  go_FactSet_InsertAll s facts = (dinsert_all s facts, Ok tt).
Proof.
  intros s facts. unfold go_FactSet_InsertAll, dinsert_all. autounfold with go_fn. go_red.
  dl_fold_all_loop1 dinsert_fact.
  reflexivity.
Qed.
Print Assumptions go_FactSet_InsertAll_eq.
Global Opaque go_FactSet_InsertAll.

Example go_FactSet_InsertAll_ex :
  let a := Build_dpred 1030 [DA (DInt 1)] in
  let b := Build_dpred 1030 [DA (DInt 2)] in
  let c := Build_dpred 1031 [DA (DInt 1)] in
  go_FactSet_InsertAll [a] [b; a; c; b] = ([a; b; c], Ok tt).
Proof. vm_compute. reflexivity. Qed.

(** FactSet.Equal: same length, and every fact of x is in s (no model function; the
    specification is the boolean below) *)
Theorem go_FactSet_Equal_eq : forall (s x : list dpred),
  go_FactSet_Equal s x = Ok (Nat.eqb (length s) (length x) && forallb (fun f => dfact_in f s) x).
Proof.
  intros s x. unfold go_FactSet_Equal. autounfold with go_fn. go_red.
  rewrite ?len_int_eqb_length, ?(Nat.eqb_sym (length x) (length s)).
  destruct (Nat.eqb (length s) (length x)); cbn [negb andb]; go_red; [|reflexivity].
  match goal with
  | |- context [range_loop ?body x ?s0] =>
      assert (Hany : forall i v st, body i v st =
                if negb (dfact_in v s) then Done (Ok false : res bool) else Continue st)
  end.
  { intros i v st. go_units. go_red.
    dl_flag_loop1 (fun g : dpred => dpred_geqb v g).
    unfold dfact_in. rewrite (existsb_ext_eq (fun g => dpred_geqb g v) (fun g => dpred_geqb v g))
      by (intros g; apply dpred_geqb_sym).
    dl_bools; reflexivity. }
  match goal with
  | |- context [range_loop ?body x ?s0] =>
      change (range_loop body x s0) with (range_from body 0 x s0);
      rewrite (range_from_any (fun v => negb (dfact_in v s)) (Ok false : res bool) body Hany x 0 s0)
  end.
  rewrite existsb_negb. destruct (forallb (fun f => dfact_in f s) x); reflexivity.
Qed.
Print Assumptions go_FactSet_Equal_eq.
Global Opaque go_FactSet_Equal.

Example go_FactSet_Equal_ex :
  let a := Build_dpred 1030 [DA (DInt 1)] in
  let b := Build_dpred 1030 [DA (DInt 2)] in
  let c := Build_dpred 1031 [DA (DInt 1)] in
  go_FactSet_Equal [a; b; c] [c; a; b] = Ok true /\
  go_FactSet_Equal [a; b] [a; c] = Ok false /\
  go_FactSet_Equal [a; b] [a] = Ok false /\
  go_FactSet_Equal [a; b] [a; a] = Ok true /\      (* x with a repeated fact: only inclusion of x in s is tested *)
  go_FactSet_Equal [] [] = Ok true.
Proof. vm_compute. repeat split. Qed.

(* ------------------------------------------------------------------ *)
(** * 6. advanceIndexes: the carry step of the join odometer *)

Local Open Scope nat_scope.

Lemma set_nth_length (i v : nat) (l : list nat) : length (set_nth i v l) = length l.
Proof.
  revert i. induction l as [|x l IH]; intros i; destruct i as [|i]; cbn [set_nth length]; try reflexivity.
  rewrite IH. reflexivity.
Qed.

Lemma nth_error_nth_nat (l : list nat) (i : nat) : i < length l -> nth_error l i = Some (nth i l 0).
Proof.
  revert i. induction l as [|x l IH]; intros i H; destruct i as [|i]; cbn [length] in H;
    cbn [nth_error nth]; try lia; [reflexivity|]. apply IH. lia.
Qed.

(* indexes[i] on the Go side (a []int holding naturals) *)
Lemma idx_map_of_nat (l : list nat) (i : nat) : i < length l ->
  idx (map Z.of_nat l) (Z.of_nat i) = Some (Z.of_nat (nth i l 0)).
Proof.
  intros H. rewrite idx_nth_error, nth_error_map, (nth_error_nth_nat l i H). reflexivity.
Qed.

Lemma set_idx_from_map_of_nat (l : list nat) : forall (i : nat) (z : Z), i < length l -> (0 <= z)%Z ->
  set_idx_from (map Z.of_nat l) (Z.of_nat i) z = Some (map Z.of_nat (set_nth i (Z.to_nat z) l)).
Proof.
  induction l as [|x l IH]; intros i z H Hz; cbn [length] in H; [lia|].
  destruct i as [|i]; cbn [map set_idx_from set_nth].
  - cbn [Z.of_nat Z.eqb]. rewrite Z2Nat.id by exact Hz. reflexivity.
  - destruct (Z.eqb_spec (Z.of_nat (S i)) 0) as [E|E]; [lia|].
    replace (Z.of_nat (S i) - 1)%Z with (Z.of_nat i) by lia.
    rewrite IH by lia. reflexivity.
Qed.

(* indexes[i] = z on the Go side *)
Lemma set_idx_map_of_nat (l : list nat) (i : nat) (z : Z) : i < length l -> (0 <= z)%Z ->
  set_idx (map Z.of_nat l) (Z.of_nat i) z = Some (map Z.of_nat (set_nth i (Z.to_nat z) l)).
Proof.
  intros H Hz. unfold set_idx. destruct (Z.ltb_spec (Z.of_nat i) 0) as [L|L]; [lia|].
  apply set_idx_from_map_of_nat; assumption.
Qed.

(* what the carries leave behind when position 0 overflows too: positions i, i-1, ..., 1 reset *)
Fixpoint reset_down (i : nat) (idx : list nat) : list nat :=
  match i with
  | O => idx
  | S i' => reset_down i' (set_nth i 0 idx)
  end.

(* ADVANCE: a descending loop whose step is the step of Odometer.advance_loop.  [mk c idx] is the
   tuple of loop-carried variables holding *current = c and *indexes = idx (whatever their order),
   [succ c idx] / [fail c idx] the function results at a [return true] / [return false] inside the
   loop.  After the successful increment the body may leave the loop ([break]) or the function
   ([return true]). *)
Lemma down_from_advance {St R} (body : Z -> St -> step St R) (mk : nat -> list nat -> St)
    (succ fail : nat -> list nat -> R) (nf : nat) :
  (forall i idx, i < length idx -> (Z.of_nat i < two63)%Z ->
     if S (nth i idx 0) <? nf
     then body (Z.of_nat i) (mk i idx) = Break (mk i (set_nth i (S (nth i idx 0)) idx)) \/
          body (Z.of_nat i) (mk i idx) = Done (succ i (set_nth i (S (nth i idx 0)) idx))
     else body (Z.of_nat i) (mk i idx) =
          match i with
          | S _ => Continue (mk (i - 1) (set_nth i 0 idx))
          | O => Done (fail i idx)
          end) ->
  forall n idx, n < length idx -> (Z.of_nat n < two63)%Z ->
    match advance_loop n n idx nf with
    | Some (c, idx') =>
        down_from body (S n) (Z.of_nat n) (mk n idx) = Break (mk c idx') \/
        down_from body (S n) (Z.of_nat n) (mk n idx) = Done (succ c idx')
    | None => down_from body (S n) (Z.of_nat n) (mk n idx) = Done (fail 0 (reset_down n idx))
    end.
Proof.
  intros H n. induction n as [|n IH]; intros idx Hn Hr.
  - cbn [down_from advance_loop reset_down]. assert (H0 := H 0 idx Hn Hr).
    destruct (S (nth 0 idx 0) <? nf).
    + destruct H0 as [H0|H0]; rewrite H0; [left | right]; reflexivity.
    + rewrite H0. reflexivity.
  - cbn [down_from]. assert (H0 := H (S n) idx Hn Hr). cbn [advance_loop reset_down].
    destruct (S (nth (S n) idx 0) <? nf).
    + destruct H0 as [H0|H0]; rewrite H0; [left | right]; reflexivity.
    + rewrite H0.
      replace (S n - 1) with n by lia.
      replace (Z.of_nat (S n) - 1)%Z with (Z.of_nat n) by lia.
      apply IH; [rewrite set_nth_length; lia | lia].
Qed.

Local Open Scope Z_scope.

(* one equation of the step condition, for the body found in the goal *)
Ltac dl_step_close idx0 i Hi :=
  let i' := fresh "i" in
  go_red; rewrite ?(idx_map_of_nat idx0 i Hi); go_red;
  destruct i as [|i'];
  repeat (go_split_if; go_red);
  try (exfalso; go_consts; lia);
  repeat match goal with
  | |- context [i64_add (Z.of_nat ?x) 1] =>
      replace (i64_add (Z.of_nat x) 1) with (Z.of_nat (S x)) by (go_consts; lia)
  end;
  rewrite ?set_idx_map_of_nat by (first [ exact Hi | lia ]); go_red;
  rewrite ?Nat2Z.id; change (Z.to_nat 0) with 0%nat;
  try reflexivity;
  repeat match goal with
  | |- Continue _ = Continue _ => apply f_equal
  | |- Break _ = Break _ => apply f_equal
  | |- Done _ = Done _ => apply f_equal
  | |- (_, _) = (_, _) => apply f_equal2
  end; try reflexivity; go_consts; lia.

(* the step condition of [down_from_advance] for the body found in the goal *)
Ltac dl_advance_step facts :=
  let i := fresh "i" in let idx0 := fresh "idx0" in let Hi := fresh "Hi" in let Hr := fresh "Hr" in
  let Hlen := fresh "Hlen" in let Hlt := fresh "Hlt" in
  intros i idx0 Hi Hr;
  assert (Hlen : len_int facts = Z.of_nat (length facts)) by apply len_int_length;
  destruct (Nat.ltb_spec (S (nth i idx0 0%nat)) (length facts)) as [Hlt|Hlt]; go_red;
  [ first [ left; solve [dl_step_close idx0 i Hi] | right; solve [dl_step_close idx0 i Hi] ]
  | dl_step_close idx0 i Hi ].

(** advanceIndexes(&current, &indexes, facts): for current inside indexes, the odometer's carry step;
    on [false] (position 0 overflows too) current is 0 and the positions current..1 have been reset.
    Range conditions: len(facts) and current are ints; the entries of indexes are naturals (no
    upper bound is needed: an entry that is not < len(facts)-1 is reset). *)
Theorem go_advanceIndexes_eq : forall (cur : nat) (idx : list nat) (facts : list dpred),
  (cur < length idx)%nat -> Z.of_nat cur < two63 -> len_ok facts ->
  go_advanceIndexes (Z.of_nat cur) (map Z.of_nat idx) facts =
  match advance cur idx (length facts) with
  | Some (c, idx') => (Z.of_nat c, map Z.of_nat idx', Ok true)
  | None => (0, map Z.of_nat (reset_down cur idx), Ok false)
  end.
Proof.
  intros cur idx facts Hcur Hr Hf. unfold go_advanceIndexes, advance. autounfold with go_fn. go_red.
  unfold down_loop. replace (Z.to_nat (Z.of_nat cur + 1)) with (S cur) by lia.
  match goal with
  | |- context [down_from ?body (S cur) (Z.of_nat cur) ?s0] =>
      first
        [ assert (Hadv := down_from_advance body (fun c l => (map Z.of_nat l, Z.of_nat c))
                     (fun c l => (Z.of_nat c, map Z.of_nat l, Ok true))
                     (fun c l => (Z.of_nat c, map Z.of_nat l, Ok false)) (length facts)
                     ltac:(dl_advance_step facts) cur idx Hcur Hr)
        | assert (Hadv := down_from_advance body (fun c l => (Z.of_nat c, map Z.of_nat l))
                     (fun c l => (Z.of_nat c, map Z.of_nat l, Ok true))
                     (fun c l => (Z.of_nat c, map Z.of_nat l, Ok false)) (length facts)
                     ltac:(dl_advance_step facts) cur idx Hcur Hr) ]
  end.
  cbv beta in Hadv.
  destruct (advance_loop cur cur idx (length facts)) as [[c idx']|];
    [ destruct Hadv as [Hadv|Hadv] | ]; rewrite Hadv; reflexivity.
Qed.
Print Assumptions go_advanceIndexes_eq.
Global Opaque go_advanceIndexes.

Example go_advanceIndexes_ex :
  let f := Build_dpred 1030 [] in
  (* three facts: simple increment at the current position *)
  go_advanceIndexes 2 [0; 1; 1] [f; f; f] = (2, [0; 1; 2], Ok true) /\
  (* carry: position 2 overflows, it is reset, current becomes 1 *)
  go_advanceIndexes 2 [0; 1; 2] [f; f; f] = (1, [0; 2; 0], Ok true) /\
  (* double carry *)
  go_advanceIndexes 2 [0; 2; 2] [f; f; f] = (0, [1; 0; 0], Ok true) /\
  (* exhausted: false, current = 0, positions 2 and 1 reset, position 0 left alone *)
  go_advanceIndexes 2 [2; 2; 2] [f; f; f] = (0, [2; 0; 0], Ok false) /\
  (* positions above current are not touched *)
  go_advanceIndexes 1 [0; 2; 2] [f; f; f] = (0, [1; 0; 2], Ok true) /\
  (* no facts: false at once *)
  go_advanceIndexes 0 [0] [] = (0, [0], Ok false) /\
  (* current outside indexes: the index expression panics (outside the theorem's hypothesis) *)
  go_advanceIndexes 3 [0; 0; 0] [f; f] = (3, [0; 0; 0], Panic site_index) /\
  (* the hypotheses of the theorem hold for the second case and the model says the same *)
  advance 2 [0; 1; 2]%nat 3 = Some (1, [0; 2; 0])%nat /\
  advance 2 [2; 2; 2]%nat 3 = None /\ reset_down 2 [2; 2; 2]%nat = [2; 0; 0]%nat.
Proof. vm_compute. repeat split. Qed.

(* ------------------------------------------------------------------ *)
(** * 7. Corollaries about the generated definitions alone *)

(* no two facts of the set are Equal (Predicate.Equal), as a boolean *)
Fixpoint factset_nodupb (l : list dpred) : bool :=
  match l with
  | [] => true
  | x :: l' => negb (existsb (fun g => dpred_geqb g x) l') && factset_nodupb l'
  end.

Lemma factset_nodupb_snoc (s : list dpred) (f : dpred) :
  factset_nodupb (s ++ [f]) = factset_nodupb s && negb (dfact_in f s).
Proof.
  unfold dfact_in. induction s as [|x s IH]; [reflexivity|].
  cbn [app factset_nodupb existsb]. rewrite IH, existsb_app. cbn [existsb].
  rewrite Bool.orb_false_r, (dpred_geqb_sym f x).
  destruct (existsb (fun g => dpred_geqb g x) s), (dpred_geqb x f), (factset_nodupb s),
    (existsb (fun g => dpred_geqb g f) s); reflexivity.
Qed.

(** inserting never creates two Equal facts when there were none *)
Theorem go_FactSet_Insert_no_duplicates : forall (s : list dpred) (f : dpred),
  factset_nodupb s = true -> factset_nodupb (fst (go_FactSet_Insert s f)) = true.
Proof.
  intros s f H. rewrite go_FactSet_Insert_eq. cbn [fst]. unfold dinsert_fact.
  destruct (dfact_in f s) eqn:E; [exact H|].
  rewrite factset_nodupb_snoc, H, E. reflexivity.
Qed.
Print Assumptions go_FactSet_Insert_no_duplicates.

(** the existing facts stay, in order; at most f is appended, and exactly when Insert says true *)
Theorem go_FactSet_Insert_keeps_existing : forall (s : list dpred) (f : dpred),
  (go_FactSet_Insert s f = (s, Ok false) /\ dfact_in f s = true) \/
  (go_FactSet_Insert s f = (s ++ [f], Ok true) /\ dfact_in f s = false).
Proof.
  intros s f. rewrite go_FactSet_Insert_eq. unfold dinsert_fact.
  destruct (dfact_in f s); [left | right]; split; reflexivity.
Qed.
Print Assumptions go_FactSet_Insert_keeps_existing.

(** after Insert the fact is in the set (as Predicate.Equal sees it) *)
Theorem go_FactSet_Insert_then_member : forall (s : list dpred) (f : dpred),
  dpred_geqb f f = true -> dfact_in f (fst (go_FactSet_Insert s f)) = true.
Proof.
  intros s f Hf. rewrite go_FactSet_Insert_eq. cbn [fst]. unfold dinsert_fact.
  destruct (dfact_in f s) eqn:E; [exact E|].
  unfold dfact_in. rewrite existsb_app. cbn [existsb]. rewrite Hf. apply Bool.orb_true_r.
Qed.
Print Assumptions go_FactSet_Insert_then_member.

(** InsertAll keeps the absence of duplicates *)
Theorem go_FactSet_InsertAll_no_duplicates : forall (facts s : list dpred),
  factset_nodupb s = true -> factset_nodupb (fst (go_FactSet_InsertAll s facts)) = true.
Proof.
  intros facts s H. rewrite go_FactSet_InsertAll_eq. cbn [fst]. unfold dinsert_all.
  revert s H. induction facts as [|f facts IH]; intros s H; cbn [fold_left]; [exact H|].
  apply IH. assert (Hi := go_FactSet_Insert_no_duplicates s f H).
  rewrite go_FactSet_Insert_eq in Hi. exact Hi.
Qed.
Print Assumptions go_FactSet_InsertAll_no_duplicates.

(** Match and Equal do not depend on the order of their operands *)
Theorem go_Predicate_Match_symmetric : forall (p q : dpred),
  go_Predicate_Match p q = go_Predicate_Match q p.
Proof. intros p q. rewrite !go_Predicate_Match_eq, dpred_match_sym. reflexivity. Qed.
Print Assumptions go_Predicate_Match_symmetric.

Theorem go_Predicate_Equal_symmetric : forall (p q : dpred),
  go_Predicate_Equal p q = go_Predicate_Equal q p.
Proof. intros p q. rewrite !go_Predicate_Equal_eq, dpred_geqb_sym. reflexivity. Qed.
Print Assumptions go_Predicate_Equal_symmetric.

(** Equal facts Match *)
Lemma dterms_geqb_match (a b : list dterm) : list_eqb dterm_geqb a b = true -> dterms_match a b = true.
Proof.
  revert b. induction a as [|x a IH]; intros b H; destruct b as [|y b]; cbn [list_eqb] in H;
    try discriminate; cbn [dterms_match]; [reflexivity|].
  apply andb_prop in H. destruct H as [H1 H2]. rewrite H1, (IH b H2).
  destruct (dis_var x), (dis_var y); reflexivity.
Qed.

Theorem go_Predicate_Equal_implies_Match : forall (p q : dpred),
  go_Predicate_Equal p q = Ok true -> go_Predicate_Match p q = Ok true.
Proof.
  intros p q H. rewrite go_Predicate_Equal_eq in H. rewrite go_Predicate_Match_eq.
  assert (E : dpred_geqb p q = true) by congruence. unfold dpred_geqb in E. unfold dpred_match.
  apply andb_prop in E. destruct E as [E1 E2]. rewrite E1, (dterms_geqb_match _ _ E2). reflexivity.
Qed.
Print Assumptions go_Predicate_Equal_implies_Match.

(** advanceIndexes never panics and never leaves current outside indexes, for current inside *)
Theorem go_advanceIndexes_total : forall (cur : nat) (idx : list nat) (facts : list dpred),
  (cur < length idx)%nat -> Z.of_nat cur < two63 -> len_ok facts ->
  exists (c : nat) (idx' : list nat) (b : bool),
    go_advanceIndexes (Z.of_nat cur) (map Z.of_nat idx) facts = (Z.of_nat c, map Z.of_nat idx', Ok b) /\
    (b = true <-> advance cur idx (length facts) = Some (c, idx')).
Proof.
  intros cur idx facts Hc Hr Hf. rewrite (go_advanceIndexes_eq cur idx facts Hc Hr Hf).
  destruct (advance cur idx (length facts)) as [[c idx']|].
  - exists c, idx', true. split; [reflexivity|]. split; reflexivity.
  - exists 0%nat, (reset_down cur idx), false. split; [reflexivity|]. split; discriminate.
Qed.
Print Assumptions go_advanceIndexes_total.
