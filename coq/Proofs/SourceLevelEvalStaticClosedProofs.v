(* SourceLevelEvalStaticClosedProofs.v — the static-premise statements of
   Proofs/SourceLevelEvalStaticProofs.v with the premise [set_ops_eq rx] discharged
   (Proofs/SourceLevelEvalClosedProofs.v: set_ops_eq_holds, from Proofs/GenFnSetProofs.v). *)
From BV Require Import Base Term Expr DTerm Symbols DEval GoSem GeneratedFn.
From BV Require Import ExprProofs SymbolsProofs DEvalProofs GenFnProofs GenFnEvalProofs SourceLevelEvalProofs.
From BV Require Import GenFnEvalStaticProofs SourceLevelEvalStaticProofs SourceLevelEvalClosedProofs.
Local Open Scope Z_scope.

Theorem src_evaluate_is_model_static_closed : forall rx (b : dbindings) (t : table) (e : dexpr),
  rx_uniform rx -> static_pre t e b ->
  go_Expression_Evaluate rx e b t = eval_D rx t e b.
Proof. intros rx b t e Hrx Hs. exact (src_evaluate_is_model_static rx b t e Hrx (set_ops_eq_holds rx) Hs). Qed.

Theorem src_evaluate_total_static_closed : forall rx (b : dbindings) (t : table) (e : dexpr) (n : N),
  rx_uniform rx -> static_pre t e b ->
  snd (go_Expression_Evaluate rx e b t) <> Panic n.
Proof. intros rx b t e n Hrx Hs. exact (src_evaluate_total_static rx b t e n Hrx (set_ops_eq_holds rx) Hs). Qed.

Theorem src_evaluate_malformed_is_error_static_closed : forall rx (b : dbindings) (t : table) (e : dexpr),
  rx_uniform rx -> static_pre t e b ->
  table_wf t -> CL closed_bnd t b -> CL closed_op t e ->
  (forall tr, map (resolve_op t) e <> postfix tr) ->
  exists x, snd (go_Expression_Evaluate rx e b t) = Err x.
Proof.
  intros rx b t e Hrx Hs Hwf Hb He Hn.
  exact (src_evaluate_malformed_is_error_static rx b t e Hrx (set_ops_eq_holds rx) Hs Hwf Hb He Hn).
Qed.

Theorem src_evaluate_result_in_range_static_closed : forall rx (b : dbindings) (t : table) (e : dexpr) t' v,
  rx_uniform rx -> static_pre t e b ->
  go_Expression_Evaluate rx e b t = (t', Ok v) -> wf_dterm v /\ table_fits t'.
Proof.
  intros rx b t e t' v Hrx Hs Hev.
  exact (src_evaluate_result_in_range_static rx b t e t' v Hrx (set_ops_eq_holds rx) Hs Hev).
Qed.
