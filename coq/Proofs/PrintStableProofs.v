(* PrintStableProofs.v — C15, second sentence: the printed form of a block is the
   same before and after serialization, and (on the property's domain) does not
   depend on the position of the block in a token.

   The printers of Model/Printer.v work on S-level (resolved) content and take
   [sidx : bytes -> N], the index of a name in the symbol table in use: the Go
   printers resolve every string / variable through the token's table EXCEPT
   the elements of a set, which datalog.Set.String prints with Term.String(),
   i.e. by raw symbol index ("#1026", "$1027").  So [sidx] is the one channel
   through which the token's symbol table -- hence the block's position -- can
   reach the printed text.  [table_sidx t] is that function for the table [t].

   Results:
   - print_stable_under_serialization: composition with C07_reload.
   - supplied content is position independent (composition of C07_content_append
     with supplied_bbuilder: the S-level content is [supplied_S ops] whatever the
     parent token is);
   - print_position_independent: the printed text of the appended block is the
     same in both tokens PROVIDED the two tables give the same index to every
     string / variable that occurs inside a set of the block; in particular when
     there is none or when they are all default symbols, and on the whole
     printable domain of C15;
   - print_position_dependent_refuted: without the proviso the texts differ
     (same calls, block 1 of one token and block 2 of another).  The Go library
     behaves the same way (confirmed by running it, see the final comment). *)
From Coq Require Import String.
From BV Require Import Base Term DTerm Symbols Chain Wire Token History.
From BV Require Import WireProofs SymbolsProofs TokenProofs.
From BV Require Import Lexer Parser Printer ParserProofs.
From BV Require Generated.

(* ------------------------------------------------------------------ *)
(** * 0. The symbol-index function of a table, and a token's printed blocks *)

(* the index SymbolTable.Sym gives to a name (defaults first, then the table) *)
Definition table_sidx (t : table) (s : bytes) : N :=
  match sym_find t s with Some i => i | None => offset + lenN t end.

(* it is the right function: the name an index resolves to has that index, so
   printing the resolved name's [table_sidx] prints the D-level index Go prints *)
Lemma table_sidx_str t i : table_wf t -> valid_index t i -> table_sidx t (sym_str t i) = i.
Proof.
  intros W V. destruct (valid_designates t i V) as [s D].
  rewrite (designates_str _ _ _ D). unfold table_sidx. rewrite (designates_find _ _ _ W D). reflexivity.
Qed.

(* Block.Code of every block of the token, through the token's table *)
Definition token_code (tok : Token.token) : list bytes :=
  map (block_code (table_sidx (tk_symbols tok))) (resolve_token tok).
(* Block.String of every block (own symbols, context, version, content) *)
Definition token_strings (tok : Token.token) : list bytes :=
  map (fun b => block_string (table_sidx (tk_symbols tok)) (db_symbols b) (db_context b) (db_version b)
                  (resolve_block (tk_symbols tok) b)) (all_blocks tok).

(* ------------------------------------------------------------------ *)
(** * 1. Stable under serialization *)

Theorem print_stable_under_serialization : forall base tok tok',
  token_inv base tok -> small (tk_serialize tok) ->
  tk_unmarshal_with base (tk_serialize tok) = Ok tok' ->
  map (block_code (table_sidx (tk_symbols tok'))) (resolve_token tok') =
  map (block_code (table_sidx (tk_symbols tok))) (resolve_token tok).
Proof.
  intros base tok tok' I Hs H. rewrite (C07_reload base tok tok' I Hs H). reflexivity.
Qed.

(* the same for Block.String, and for any index function computed from the token *)
Theorem print_stable_under_serialization_strings : forall base tok tok',
  token_inv base tok -> small (tk_serialize tok) ->
  tk_unmarshal_with base (tk_serialize tok) = Ok tok' ->
  token_strings tok' = token_strings tok /\
  forall sx : Token.token -> bytes -> N,
    map (block_code (sx tok')) (resolve_token tok') = map (block_code (sx tok)) (resolve_token tok).
Proof.
  intros base tok tok' I Hs H. rewrite (C07_reload base tok tok' I Hs H). split; reflexivity.
Qed.

(* and the reload does succeed on tokens that pass the size gates *)
Theorem print_stable_reload : forall base tok,
  token_inv base tok -> sized tok -> small (tk_serialize tok) ->
  exists tok', tk_unmarshal_with base (tk_serialize tok) = Ok tok' /\
               token_code tok' = token_code tok /\ token_strings tok' = token_strings tok.
Proof.
  intros base tok I Sz Hs. exists tok. split; [apply (C07_reload_accepts base tok I Sz Hs)|].
  split; reflexivity.
Qed.

(* ------------------------------------------------------------------ *)
(** * 2. Where the printers look at [sidx] *)

Definition atom_syms (a : atom) : list bytes :=
  match a with AVar v => [v] | AStr s => [s] | _ => [] end.
(* strings and variables INSIDE a set *)
Definition term_set_syms (t : term) : list bytes :=
  match t with TA _ => [] | TSet l => flat_map atom_syms l end.
Definition pred_set_syms (p : pred) : list bytes := flat_map term_set_syms (p_terms p).
Definition op_set_syms (o : op) : list bytes := match o with OVal t => term_set_syms t | _ => [] end.
Definition expr_set_syms (e : expr) : list bytes := flat_map op_set_syms e.
(* body and expressions: what CheckQuery prints (the head of a query is not printed) *)
Definition query_set_syms (r : rule) : list bytes :=
  flat_map pred_set_syms (r_body r) ++ flat_map expr_set_syms (r_exprs r).
Definition rule_set_syms (r : rule) : list bytes := pred_set_syms (r_head r) ++ query_set_syms r.
Definition check_set_syms (c : check) : list bytes := flat_map query_set_syms c.
Definition block_set_syms (b : block) : list bytes :=
  flat_map pred_set_syms (b_facts b) ++ flat_map rule_set_syms (b_rules b) ++ flat_map check_set_syms (b_checks b).

Definition agree (s1 s2 : bytes -> N) (l : list bytes) : Prop := Forall (fun s => s1 s = s2 s) l.

Lemma agree_app s1 s2 a b : agree s1 s2 (a ++ b) <-> agree s1 s2 a /\ agree s1 s2 b.
Proof. apply Forall_app_iff. Qed.

Lemma agree_flat_map {A} s1 s2 (f : A -> list bytes) l :
  agree s1 s2 (flat_map f l) -> Forall (fun x => agree s1 s2 (f x)) l.
Proof.
  induction l as [|x l IH]; intros H; [constructor|].
  cbn [flat_map] in H. apply agree_app in H as [H1 H2]. constructor; [exact H1 | exact (IH H2)].
Qed.

Lemma map_agree {A} s1 s2 (f : A -> list bytes) (g : (bytes -> N) -> A -> bytes) l :
  (forall x, agree s1 s2 (f x) -> g s1 x = g s2 x) ->
  agree s1 s2 (flat_map f l) -> map (g s1) l = map (g s2) l.
Proof.
  intros Hg H. apply map_ext_Forall. eapply Forall_imp; [|exact (agree_flat_map _ _ _ _ H)].
  intros x Hx. exact (Hg x Hx).
Qed.

Section Agree.
  Variables s1 s2 : bytes -> N.

  Lemma atom_string_agree a : agree s1 s2 (atom_syms a) -> atom_string s1 a = atom_string s2 a.
  Proof.
    destruct a as [v|z|s|d|b|b]; cbn [atom_syms atom_string]; intros H; try reflexivity;
      inversion H as [|x l Hx Hl]; subst; rewrite Hx; reflexivity.
  Qed.

  Lemma print_term_agree t : agree s1 s2 (term_set_syms t) -> print_term s1 t = print_term s2 t.
  Proof.
    destruct t as [a|l]; cbn [term_set_syms]; intros H.
    - destruct a; reflexivity.
    - cbn [print_term term_string]. rewrite (map_agree s1 s2 atom_syms atom_string l atom_string_agree H).
      reflexivity.
  Qed.

  Lemma print_pred_agree p : agree s1 s2 (pred_set_syms p) -> print_pred s1 p = print_pred s2 p.
  Proof.
    intros H. unfold print_pred.
    rewrite (map_agree s1 s2 term_set_syms print_term (p_terms p) print_term_agree H). reflexivity.
  Qed.

  Lemma print_ops_agree e : forall st n, agree s1 s2 (expr_set_syms e) -> print_ops s1 e st n = print_ops s2 e st n.
  Proof.
    induction e as [|o e IH]; intros st n H; [reflexivity|].
    unfold expr_set_syms in H. cbn [flat_map] in H. apply agree_app in H as [Ho He].
    destruct o as [t|u|b]; cbn [print_ops op_set_syms] in *.
    - rewrite (print_term_agree t Ho). destruct (Generated.max_stack <=? n); [reflexivity|]. apply IH. exact He.
    - destruct st as [|v st']; [reflexivity|].
      destruct (Generated.max_stack <=? n - 1); [reflexivity|]. apply IH. exact He.
    - destruct st as [|r [|l st']]; try reflexivity.
      destruct (Generated.max_stack <=? n - 2); [reflexivity|]. apply IH. exact He.
  Qed.

  Lemma print_expr_agree e : agree s1 s2 (expr_set_syms e) -> print_expr s1 e = print_expr s2 e.
  Proof. intros H. apply print_ops_agree. exact H. Qed.

  Lemma print_body_agree r : agree s1 s2 (query_set_syms r) -> print_body s1 r = print_body s2 r.
  Proof.
    intros H. apply agree_app in H as [Hb He]. unfold print_body.
    rewrite (map_agree s1 s2 pred_set_syms print_pred (r_body r) print_pred_agree Hb).
    rewrite (map_agree s1 s2 expr_set_syms print_expr (r_exprs r) print_expr_agree He). reflexivity.
  Qed.

  Lemma print_rule_agree r : agree s1 s2 (rule_set_syms r) -> print_rule s1 r = print_rule s2 r.
  Proof.
    intros H. apply agree_app in H as [Hh Hq]. unfold print_rule.
    rewrite (print_pred_agree _ Hh), (print_body_agree _ Hq). reflexivity.
  Qed.

  Lemma print_check_agree c : agree s1 s2 (check_set_syms c) -> print_check s1 c = print_check s2 c.
  Proof.
    intros H. unfold print_check.
    rewrite (map_agree s1 s2 query_set_syms print_check_query c print_body_agree H). reflexivity.
  Qed.

  Lemma print_block_agree b : agree s1 s2 (block_set_syms b) -> print_block s1 b = print_block s2 b.
  Proof.
    intros H. apply agree_app in H as [Hf H]. apply agree_app in H as [Hr Hc]. unfold print_block.
    rewrite (map_agree s1 s2 pred_set_syms print_pred (b_facts b) print_pred_agree Hf).
    rewrite (map_agree s1 s2 rule_set_syms print_rule (b_rules b) print_rule_agree Hr).
    rewrite (map_agree s1 s2 check_set_syms print_check (b_checks b) print_check_agree Hc). reflexivity.
  Qed.

  (* Block.Code and Block.String see [sidx] only through the set symbols *)
  Theorem block_code_agree b : agree s1 s2 (block_set_syms b) -> block_code s1 b = block_code s2 b.
  Proof. intros H. unfold block_code. rewrite (print_block_agree b H). reflexivity. Qed.
  Theorem block_string_agree syms ctx v b :
    agree s1 s2 (block_set_syms b) -> block_string s1 syms ctx v b = block_string s2 syms ctx v b.
  Proof. intros H. unfold block_string. rewrite (print_block_agree b H). reflexivity. Qed.
End Agree.

(* computable special cases: no string / variable inside any set; or only default symbols *)
Definition is_default_sym (s : bytes) : bool :=
  match index_of bytes_eqb s defaults 0 with Some _ => true | None => false end.
Definition set_syms_default (b : block) : bool := forallb is_default_sym (block_set_syms b).
Definition set_syms_free (b : block) : bool := match block_set_syms b with [] => true | _ :: _ => false end.

Lemma set_syms_free_default b : set_syms_free b = true -> set_syms_default b = true.
Proof. unfold set_syms_free, set_syms_default. destruct (block_set_syms b); [reflexivity | discriminate]. Qed.

(* a default symbol has the same index in every table *)
Lemma table_sidx_default t1 t2 s : is_default_sym s = true -> table_sidx t1 s = table_sidx t2 s.
Proof.
  unfold is_default_sym, table_sidx, sym_find. destruct (index_of bytes_eqb s defaults 0); [reflexivity | discriminate].
Qed.

Lemma set_syms_default_agree t1 t2 b :
  set_syms_default b = true -> agree (table_sidx t1) (table_sidx t2) (block_set_syms b).
Proof.
  unfold set_syms_default, agree. intros H. apply Forall_forallb in H.
  eapply Forall_imp; [|exact H]. intros s Hs. apply table_sidx_default. exact Hs.
Qed.

Theorem block_code_default_any_table t1 t2 b :
  set_syms_default b = true -> block_code (table_sidx t1) b = block_code (table_sidx t2) b.
Proof. intros H. apply block_code_agree. apply set_syms_default_agree. exact H. Qed.

Theorem block_code_free_any_sidx s1 s2 b : set_syms_free b = true -> block_code s1 b = block_code s2 b.
Proof.
  intros H. apply block_code_agree. unfold set_syms_free in H. unfold agree.
  destruct (block_set_syms b); [constructor | discriminate].
Qed.

(* ------------------------------------------------------------------ *)
(** * 3. The printable domain of C15: the text never mentions an index *)

Lemma app_eq_len {A} (a a' b b' : list A) : length a = length a' -> a ++ b = a' ++ b' -> a = a' /\ b = b'.
Proof.
  revert a'. induction a as [|x a IH]; intros [|x' a'] L E; cbn in L; try discriminate.
  - split; [reflexivity | exact E].
  - cbn [app] in E. injection E as -> E. injection L as L. destruct (IH a' L E) as [-> ->]. split; reflexivity.
Qed.

Theorem printable_print_any_sidx : forall s1 s2 B b,
  printable_block B = true -> block_to_biscuit [] B = Ok b -> print_block s1 b = print_block s2 b.
Proof.
  intros s1 s2 B b H Hb. unfold printable_block in H.
  repeat match goal with Hx : (_ && _) = true |- _ => apply andb_true_iff in Hx; destruct Hx end.
  match goal with Hs : sorted3 _ = true, Hp : forallb pr_be _ = true |- _ =>
    destruct (block_print s1 (bl_body B) Parser.empty_block Hs Hp) as (fs & rs & cs & Hc1 & Hstr1 & _ & _);
    destruct (block_print s2 (bl_body B) Parser.empty_block Hs Hp) as (fs' & rs' & cs' & Hc2 & Hstr2 & _ & _)
  end.
  unfold block_to_biscuit in Hb. rewrite Hb in Hc1, Hc2.
  cbn [Parser.empty_block b_facts b_rules b_checks app] in Hc1, Hc2.
  apply ok_inj in Hc1. apply ok_inj in Hc2. subst b.
  injection Hc2 as <- <- <-. rewrite <- Hstr2 in Hstr1.
  apply app_eq_len in Hstr1 as [E1 Hstr1]; [|rewrite !map_length; reflexivity].
  apply app_eq_len in Hstr1 as [E2 E3]; [|rewrite !map_length; reflexivity].
  unfold print_block. cbn [b_facts b_rules b_checks]. rewrite E1, E2, E3. reflexivity.
Qed.

Corollary printable_code_any_sidx : forall s1 s2 B b,
  printable_block B = true -> block_to_biscuit [] B = Ok b -> block_code s1 b = block_code s2 b.
Proof. intros s1 s2 B b H Hb. unfold block_code. rewrite (printable_print_any_sidx s1 s2 B b H Hb). reflexivity. Qed.

(* ------------------------------------------------------------------ *)
(** * 4. Independent of the block's position *)

(* the content of the appended block is determined by the calls alone *)
Theorem appended_content_is_S : forall pub sign base tok ops blk bb' src tok' src',
  token_inv base tok -> small_table (bb_syms (bb_exec (create_block tok) ops)) ->
  bb_build (bb_exec (create_block tok) ops) = Ok (blk, bb') ->
  tk_append pub sign tok blk src = Ok (tok', src') ->
  resolve_token tok' = resolve_token tok ++ [supplied_S ops] /\
  last (resolve_token tok') TokenProofs.empty_block = supplied_S ops /\
  last (token_code tok') [] = block_code (table_sidx (tk_symbols tok')) (supplied_S ops).
Proof.
  intros pub sign base tok ops blk bb' src tok' src' I Hs B A.
  destruct (C07_content_append pub sign base tok ops blk bb' src tok' src' I Hs B A) as (_ & _ & _ & R & _).
  assert (W : table_wf (tk_symbols tok)) by (destruct I as (_ & W & _); exact W).
  unfold create_block in Hs. rewrite (supplied_bbuilder (tk_symbols tok) ops W Hs) in R.
  split; [exact R|]. unfold token_code. rewrite R, map_app. cbn [map]. rewrite !last_last. split; reflexivity.
Qed.

(* same calls on CreateBlock of two different tokens: same S-level content *)
Theorem supplied_position_independent : forall pub1 sign1 pub2 sign2 base1 base2 tok1 tok2 ops
    blk1 bb1 src1 tok1' src1' blk2 bb2 src2 tok2' src2',
  token_inv base1 tok1 -> token_inv base2 tok2 ->
  small_table (bb_syms (bb_exec (create_block tok1) ops)) ->
  small_table (bb_syms (bb_exec (create_block tok2) ops)) ->
  bb_build (bb_exec (create_block tok1) ops) = Ok (blk1, bb1) ->
  bb_build (bb_exec (create_block tok2) ops) = Ok (blk2, bb2) ->
  tk_append pub1 sign1 tok1 blk1 src1 = Ok (tok1', src1') ->
  tk_append pub2 sign2 tok2 blk2 src2 = Ok (tok2', src2') ->
  supplied (tk_symbols tok1) ops = supplied (tk_symbols tok2) ops /\
  last (resolve_token tok1') TokenProofs.empty_block = last (resolve_token tok2') TokenProofs.empty_block.
Proof.
  intros pub1 sign1 pub2 sign2 base1 base2 tok1 tok2 ops blk1 bb1 src1 tok1' src1' blk2 bb2 src2 tok2' src2'
         I1 I2 Hs1 Hs2 B1 B2 A1 A2.
  destruct (appended_content_is_S _ _ _ _ _ _ _ _ _ _ I1 Hs1 B1 A1) as (_ & L1 & _).
  destruct (appended_content_is_S _ _ _ _ _ _ _ _ _ _ I2 Hs2 B2 A2) as (_ & L2 & _).
  split; [|rewrite L1, L2; reflexivity].
  unfold create_block in Hs1, Hs2.
  rewrite (supplied_bbuilder (tk_symbols tok1) ops) by (try exact Hs1; destruct I1 as (_ & W & _); exact W).
  rewrite (supplied_bbuilder (tk_symbols tok2) ops) by (try exact Hs2; destruct I2 as (_ & W & _); exact W).
  reflexivity.
Qed.

(* the printed text of the appended block: the same in both tokens as soon as the
   two resulting tables index alike the strings / variables inside the block's sets *)
Theorem print_position_independent : forall pub1 sign1 pub2 sign2 base1 base2 tok1 tok2 ops
    blk1 bb1 src1 tok1' src1' blk2 bb2 src2 tok2' src2',
  token_inv base1 tok1 -> token_inv base2 tok2 ->
  small_table (bb_syms (bb_exec (create_block tok1) ops)) ->
  small_table (bb_syms (bb_exec (create_block tok2) ops)) ->
  bb_build (bb_exec (create_block tok1) ops) = Ok (blk1, bb1) ->
  bb_build (bb_exec (create_block tok2) ops) = Ok (blk2, bb2) ->
  tk_append pub1 sign1 tok1 blk1 src1 = Ok (tok1', src1') ->
  tk_append pub2 sign2 tok2 blk2 src2 = Ok (tok2', src2') ->
  agree (table_sidx (tk_symbols tok1')) (table_sidx (tk_symbols tok2')) (block_set_syms (supplied_S ops)) ->
  last (token_code tok1') [] = last (token_code tok2') [].
Proof.
  intros pub1 sign1 pub2 sign2 base1 base2 tok1 tok2 ops blk1 bb1 src1 tok1' src1' blk2 bb2 src2 tok2' src2'
         I1 I2 Hs1 Hs2 B1 B2 A1 A2 Ag.
  destruct (appended_content_is_S _ _ _ _ _ _ _ _ _ _ I1 Hs1 B1 A1) as (_ & _ & L1).
  destruct (appended_content_is_S _ _ _ _ _ _ _ _ _ _ I2 Hs2 B2 A2) as (_ & _ & L2).
  rewrite L1, L2. apply block_code_agree. exact Ag.
Qed.

(* the computable, token-independent form of the proviso *)
Corollary print_position_independent_default : forall pub1 sign1 pub2 sign2 base1 base2 tok1 tok2 ops
    blk1 bb1 src1 tok1' src1' blk2 bb2 src2 tok2' src2',
  token_inv base1 tok1 -> token_inv base2 tok2 ->
  small_table (bb_syms (bb_exec (create_block tok1) ops)) ->
  small_table (bb_syms (bb_exec (create_block tok2) ops)) ->
  bb_build (bb_exec (create_block tok1) ops) = Ok (blk1, bb1) ->
  bb_build (bb_exec (create_block tok2) ops) = Ok (blk2, bb2) ->
  tk_append pub1 sign1 tok1 blk1 src1 = Ok (tok1', src1') ->
  tk_append pub2 sign2 tok2 blk2 src2 = Ok (tok2', src2') ->
  set_syms_default (supplied_S ops) = true ->
  last (token_code tok1') [] = last (token_code tok2') [].
Proof.
  intros pub1 sign1 pub2 sign2 base1 base2 tok1 tok2 ops blk1 bb1 src1 tok1' src1' blk2 bb2 src2 tok2' src2'
         I1 I2 Hs1 Hs2 B1 B2 A1 A2 D.
  apply (print_position_independent pub1 sign1 pub2 sign2 base1 base2 tok1 tok2 ops
           blk1 bb1 src1 tok1' src1' blk2 bb2 src2 tok2' src2' I1 I2 Hs1 Hs2 B1 B2 A1 A2).
  apply set_syms_default_agree. exact D.
Qed.

(* ------------------------------------------------------------------ *)
(** * 5. With the round trip of C15 *)

(* a block written in the grammar over the printable domain, supplied to
   CreateBlock of any token and appended: what the token prints for it parses back
   to the supplied content, whatever the position *)
Theorem appended_block_print_roundtrip : forall pub sign base tok ops blk bb' src tok' src' (B : Block),
  token_inv base tok -> small_table (bb_syms (bb_exec (create_block tok) ops)) ->
  bb_build (bb_exec (create_block tok) ops) = Ok (blk, bb') ->
  tk_append pub sign tok blk src = Ok (tok', src') ->
  printable_block B = true -> block_to_biscuit [] B = Ok (supplied_S ops) ->
  parse_block (reassemble (print_block (table_sidx (tk_symbols tok'))
                             (last (resolve_token tok') TokenProofs.empty_block))) [] = Ok (supplied_S ops).
Proof.
  intros pub sign base tok ops blk bb' src tok' src' B I Hs Bd A P C.
  destruct (appended_content_is_S _ _ _ _ _ _ _ _ _ _ I Hs Bd A) as (_ & L & _). rewrite L.
  apply (C15_roundtrip_structural _ B _ P C).
Qed.

(* the caller's operations for a parsed block: blockBuilder.AddBlock (facts, rules,
   checks; AddBlock stops at the first duplicate fact, so the two coincide exactly
   when no fact is refused) *)
Definition ops_of_block (b : block) : list bop :=
  map BFact (b_facts b) ++ map BRule (b_rules b) ++ map BCheck (b_checks b).
Definition dedup_facts (fs : list pred) : list pred :=
  fold_left (fun acc f => if fact_in f acc then acc else acc ++ [f]) fs [].

Lemma fold_S_facts fs : forall c,
  fold_left content_step_S (map BFact fs) c =
  {| b_facts := fold_left (fun acc f => if fact_in f acc then acc else acc ++ [f]) fs (b_facts c);
     b_rules := b_rules c; b_checks := b_checks c |}.
Proof.
  induction fs as [|f fs IH]; intros c; cbn [map fold_left]; [destruct c; reflexivity|].
  rewrite IH. unfold content_step_S. cbn [content_step].
  destruct (fact_in f (b_facts c)); cbn [negb b_facts b_rules b_checks]; reflexivity.
Qed.
Lemma fold_S_rules rs : forall c,
  fold_left content_step_S (map BRule rs) c =
  {| b_facts := b_facts c; b_rules := b_rules c ++ rs; b_checks := b_checks c |}.
Proof.
  induction rs as [|r rs IH]; intros c; cbn [map fold_left]; [rewrite app_nil_r; destruct c; reflexivity|].
  rewrite IH. unfold content_step_S. cbn [content_step b_facts b_rules b_checks]. rewrite <- app_assoc. reflexivity.
Qed.
Lemma fold_S_checks cs : forall c,
  fold_left content_step_S (map BCheck cs) c =
  {| b_facts := b_facts c; b_rules := b_rules c; b_checks := b_checks c ++ cs |}.
Proof.
  induction cs as [|k cs IH]; intros c; cbn [map fold_left]; [rewrite app_nil_r; destruct c; reflexivity|].
  rewrite IH. unfold content_step_S. cbn [content_step b_facts b_rules b_checks]. rewrite <- app_assoc. reflexivity.
Qed.

Lemma supplied_S_ops_of_block b :
  supplied_S (ops_of_block b) = {| b_facts := dedup_facts (b_facts b); b_rules := b_rules b; b_checks := b_checks b |}.
Proof.
  unfold supplied_S, ops_of_block. rewrite !fold_left_app, fold_S_facts, fold_S_rules, fold_S_checks.
  cbn [TokenProofs.empty_block b_facts b_rules b_checks app]. reflexivity.
Qed.

Corollary supplied_S_ops_of_block_distinct b :
  dedup_facts (b_facts b) = b_facts b -> supplied_S (ops_of_block b) = b.
Proof. intros H. rewrite supplied_S_ops_of_block, H. destruct b; reflexivity. Qed.

(* everything together: a printable grammar block [B] (denoting [b], no repeated
   fact) added to two different tokens; both print the same text for it, the text
   parses back to [b], and it survives serialization *)
Theorem C15_printed_block_anywhere : forall pub1 sign1 pub2 sign2 base1 base2 tok1 tok2 (B : Block) b
    blk1 bb1 src1 tok1' src1' blk2 bb2 src2 tok2' src2',
  printable_block B = true -> block_to_biscuit [] B = Ok b -> dedup_facts (b_facts b) = b_facts b ->
  token_inv base1 tok1 -> token_inv base2 tok2 ->
  small_table (bb_syms (bb_exec (create_block tok1) (ops_of_block b))) ->
  small_table (bb_syms (bb_exec (create_block tok2) (ops_of_block b))) ->
  bb_build (bb_exec (create_block tok1) (ops_of_block b)) = Ok (blk1, bb1) ->
  bb_build (bb_exec (create_block tok2) (ops_of_block b)) = Ok (blk2, bb2) ->
  tk_append pub1 sign1 tok1 blk1 src1 = Ok (tok1', src1') ->
  tk_append pub2 sign2 tok2 blk2 src2 = Ok (tok2', src2') ->
  (* same text in both positions *)
  last (token_code tok1') [] = last (token_code tok2') [] /\
  (* which is the text of [b], and parses back to [b] *)
  last (resolve_token tok1') TokenProofs.empty_block = b /\
  parse_block (reassemble (print_block (table_sidx (tk_symbols tok1'))
                             (last (resolve_token tok1') TokenProofs.empty_block))) [] = Ok b /\
  (* and is what a reloaded copy prints *)
  (forall t, token_inv base1 tok1' -> small (tk_serialize tok1') ->
             tk_unmarshal_with base1 (tk_serialize tok1') = Ok t -> token_code t = token_code tok1').
Proof.
  intros pub1 sign1 pub2 sign2 base1 base2 tok1 tok2 B b blk1 bb1 src1 tok1' src1' blk2 bb2 src2 tok2' src2'
         P C Dd I1 I2 Hs1 Hs2 B1 B2 A1 A2.
  pose proof (supplied_S_ops_of_block_distinct b Dd) as Q.
  destruct (appended_content_is_S _ _ _ _ _ _ _ _ _ _ I1 Hs1 B1 A1) as (_ & L1 & T1).
  destruct (appended_content_is_S _ _ _ _ _ _ _ _ _ _ I2 Hs2 B2 A2) as (_ & _ & T2).
  rewrite Q in L1, T1, T2.
  split; [rewrite T1, T2; apply (printable_code_any_sidx _ _ B b P C)|].
  split; [exact L1|]. split; [rewrite L1; apply (C15_roundtrip_structural _ B b P C)|].
  intros t I Hs H. unfold token_code. apply (print_stable_under_serialization base1 tok1' t I Hs H).
Qed.

(* ------------------------------------------------------------------ *)
(** * 6. Concrete tokens: non-vacuity, and the necessity of the proviso *)

Definition s_b : bytes := [98].
Definition s_member : bytes := [109;101;109;98;101;114].

(* ex_tok0: authority {right("file1","read"), owner("alice")}, table [file1; alice];
   ex_tok1: ex_tok0 + block {foo(1); check if foo($x)}, table [file1; alice; foo; x] *)
Lemma ex_tok0_inv : token_inv [] ex_tok0 /\ sized ex_tok0 /\ small (tk_serialize ex_tok0).
Proof. destruct C07_build_nonvacuous as (_ & _ & _ & _ & _ & _ & _ & S2 & Inv & Sz & _ & _). tauto. Qed.
Lemma ex_tok1_inv : token_inv [] ex_tok1.
Proof. destruct C07_append_nonvacuous as (_ & _ & _ & _ & _ & Inv & _). exact Inv. Qed.

Example print_stable_under_serialization_nonvacuous :
  token_inv [] ex_tok1 /\ sized ex_tok1 /\ small (tk_serialize ex_tok1) /\
  tk_unmarshal_with [] (tk_serialize ex_tok1) = Ok ex_tok1 /\
  tk_symbols ex_tok1 = [s_file1; s_alice; s_foo; [120]] /\ length (resolve_token ex_tok1) = 2%nat /\
  token_code ex_tok1 =
    [S_block_open ++ bs "right(""file1"", ""read"");" ++ [10] ++ bs "owner(""alice"")" ++ S_nl_tt ++ S_nl_tt ++ S_block_close;
     S_block_open ++ bs "foo(1)" ++ S_nl_tt ++ S_nl_tt ++ bs "check if foo($x)" ++ S_block_close].
Proof.
  pose proof ex_tok1_inv as Inv.
  assert (Sz : sized ex_tok1) by (unfold sized; vm_compute; repeat constructor).
  assert (S2 : small (tk_serialize ex_tok1)) by (vm_compute; reflexivity).
  split; [exact Inv|]. split; [exact Sz|]. split; [exact S2|].
  split; [apply (C07_reload_accepts [] ex_tok1 Inv Sz S2)|].
  split; [vm_compute; reflexivity|]. split; vm_compute; reflexivity.
Qed.

(* the same calls on CreateBlock of ex_tok0 (-> block 1) and of ex_tok1 (-> block 2) *)
Definition append_ops (tok : Token.token) (ops : list bop) (seed : N) : Token.token :=
  match bb_build (bb_exec (create_block tok) ops) with
  | Ok (blk, _) => match tk_append xpub xsign tok blk (repeat seed 32) with Ok (t, _) => t | _ => ex_dummy end
  | _ => ex_dummy
  end.
Definition built_block (tok : Token.token) (ops : list bop) : dblock :=
  match bb_build (bb_exec (create_block tok) ops) with Ok (blk, _) => blk | _ => ex_dummy_block end.
Definition built_bb (tok : Token.token) (ops : list bop) : bbuilder :=
  match bb_build (bb_exec (create_block tok) ops) with Ok (_, bb') => bb' | _ => create_block tok end.
Definition appended_ok (tok : Token.token) (ops : list bop) (seed : N) : Prop :=
  bb_build (bb_exec (create_block tok) ops) = Ok (built_block tok ops, built_bb tok ops) /\
  tk_append xpub xsign tok (built_block tok ops) (repeat seed 32) = Ok (append_ops tok ops seed, []).

(* inside the proviso: strings at top level, a set of integers, a set of default symbols *)
Definition ok_ops : list bop :=
  [BFact TokenProofs.h2; BFact {| p_name := s_member; p_terms := [TSet [AStr s_owner; AStr s_read]; TSet [AInt 2; AInt 1]] |};
   BFact TokenProofs.h2; BCheck TokenProofs.c1;
   BRule {| r_head := {| p_name := s_b; p_terms := [TA (AVar [120])] |};
            r_body := [{| p_name := s_foo; p_terms := [TA (AVar [120])] |}];
            r_exprs := [[OVal (TSet [AInt 1]); OVal (TA (AVar [120])); OBin BContains]] |}].

Example print_position_independent_nonvacuous :
  token_inv [] ex_tok0 /\ token_inv [] ex_tok1 /\
  length (tk_blocks ex_tok0) = 0%nat /\ length (tk_blocks ex_tok1) = 1%nat /\
  small_table (bb_syms (bb_exec (create_block ex_tok0) ok_ops)) /\
  small_table (bb_syms (bb_exec (create_block ex_tok1) ok_ops)) /\
  appended_ok ex_tok0 ok_ops 11 /\ appended_ok ex_tok1 ok_ops 12 /\
  set_syms_default (supplied_S ok_ops) = true /\ block_set_syms (supplied_S ok_ops) = [s_owner; s_read] /\
  tk_symbols (append_ops ex_tok0 ok_ops 11) <> tk_symbols (append_ops ex_tok1 ok_ops 12) /\
  last (token_code (append_ops ex_tok0 ok_ops 11)) [] = last (token_code (append_ops ex_tok1 ok_ops 12)) [] /\
  last (token_code (append_ops ex_tok0 ok_ops 11)) [] =
    S_block_open ++ bs "bar(""file1"");" ++ [10] ++ bs "member([#0, #7], [1, 2])" ++ S_nl_tt
      ++ bs "b($x) <- foo($x), [1].contains($x)" ++ S_nl_tt ++ bs "check if foo($x)" ++ S_block_close.
Proof.
  destruct ex_tok0_inv as (I0 & _ & _). pose proof ex_tok1_inv as I1.
  split; [exact I0|]. split; [exact I1|]. split; [vm_compute; reflexivity|]. split; [vm_compute; reflexivity|].
  split; [vm_compute; discriminate|]. split; [vm_compute; discriminate|].
  split; [unfold appended_ok; split; vm_compute; reflexivity|].
  split; [unfold appended_ok; split; vm_compute; reflexivity|].
  split; [vm_compute; reflexivity|]. split; [vm_compute; reflexivity|].
  split; [vm_compute; discriminate|]. split; vm_compute; reflexivity.
Qed.

(* outside the proviso: one fact whose set holds two strings, one of which the
   second token already knows.  Same calls, different texts -- and even a
   different order of the elements, since Set.String sorts the printed indexes *)
Definition bad_ops : list bop := [BFact {| p_name := s_member; p_terms := [TSet [AStr s_b; AStr s_foo]] |}].

(* agreement on the set symbols is sufficient, not necessary: two tables that SWAP the
   indexes of the two elements print the same sorted text (for two different orders) *)
Example agree_sufficient_not_necessary :
  block_code (table_sidx [s_b; s_foo]) (supplied_S bad_ops) = block_code (table_sidx [s_foo; s_b]) (supplied_S bad_ops) /\
  table_sidx [s_b; s_foo] s_b <> table_sidx [s_foo; s_b] s_b.
Proof. split; vm_compute; [reflexivity | discriminate]. Qed.

Theorem print_position_dependent_refuted :
  token_inv [] ex_tok0 /\ token_inv [] ex_tok1 /\
  small_table (bb_syms (bb_exec (create_block ex_tok0) bad_ops)) /\
  small_table (bb_syms (bb_exec (create_block ex_tok1) bad_ops)) /\
  appended_ok ex_tok0 bad_ops 11 /\ appended_ok ex_tok1 bad_ops 12 /\
  (* the two blocks ARE the same content ... *)
  last (resolve_token (append_ops ex_tok0 bad_ops 11)) TokenProofs.empty_block = supplied_S bad_ops /\
  last (resolve_token (append_ops ex_tok1 bad_ops 12)) TokenProofs.empty_block = supplied_S bad_ops /\
  block_set_syms (supplied_S bad_ops) = [s_b; s_foo] /\ set_syms_default (supplied_S bad_ops) = false /\
  (* ... printed differently *)
  last (token_code (append_ops ex_tok0 bad_ops 11)) [] =
    S_block_open ++ bs "member([#1026, #1027])" ++ S_nl_tt ++ S_nl_tt ++ S_block_close /\
  last (token_code (append_ops ex_tok1 bad_ops 12)) [] =
    S_block_open ++ bs "member([#1026, #1028])" ++ S_nl_tt ++ S_nl_tt ++ S_block_close /\
  last (token_code (append_ops ex_tok0 bad_ops 11)) [] <> last (token_code (append_ops ex_tok1 bad_ops 12)) [] /\
  (* "#1026" is "b" in the first token and "foo" in the second *)
  sym_str (tk_symbols (append_ops ex_tok0 bad_ops 11)) 1026 = s_b /\
  sym_str (tk_symbols (append_ops ex_tok1 bad_ops 12)) 1026 = s_foo.
Proof.
  destruct ex_tok0_inv as (I0 & _ & _). pose proof ex_tok1_inv as I1.
  split; [exact I0|]. split; [exact I1|].
  split; [vm_compute; discriminate|]. split; [vm_compute; discriminate|].
  split; [unfold appended_ok; split; vm_compute; reflexivity|].
  split; [unfold appended_ok; split; vm_compute; reflexivity|].
  split; [vm_compute; reflexivity|]. split; [vm_compute; reflexivity|].
  split; [vm_compute; reflexivity|]. split; [vm_compute; reflexivity|].
  split; [vm_compute; reflexivity|]. split; [vm_compute; reflexivity|].
  split; [vm_compute; discriminate|]. split; vm_compute; reflexivity.
Qed.

(* the round-trip corollary is not vacuous: a printable grammar block, its ops, two tokens *)
Definition rt_text : string := "bar(""file1"", [1, 2]);b($x) <- foo($x), [1].contains($x);check if foo($x), $x < 3;".
Definition rt_Block : Block :=
  match lex (bs rt_text) with
  | Ok ts => match run parse_block_g ts with Ok b => b | _ => MkBlock [] [] end
  | _ => MkBlock [] []
  end.
Definition rt_block : block := match block_to_biscuit [] rt_Block with Ok b => b | _ => TokenProofs.empty_block end.

Example C15_printed_block_anywhere_nonvacuous :
  printable_block rt_Block = true /\ block_to_biscuit [] rt_Block = Ok rt_block /\
  dedup_facts (b_facts rt_block) = b_facts rt_block /\
  length (b_facts rt_block) = 1%nat /\ length (b_rules rt_block) = 1%nat /\ length (b_checks rt_block) = 1%nat /\
  small_table (bb_syms (bb_exec (create_block ex_tok0) (ops_of_block rt_block))) /\
  small_table (bb_syms (bb_exec (create_block ex_tok1) (ops_of_block rt_block))) /\
  appended_ok ex_tok0 (ops_of_block rt_block) 11 /\ appended_ok ex_tok1 (ops_of_block rt_block) 12 /\
  last (token_code (append_ops ex_tok0 (ops_of_block rt_block) 11)) [] =
    S_block_open ++ bs "bar(""file1"", [1, 2])" ++ S_nl_tt ++ bs "b($x) <- foo($x), [1].contains($x)" ++ S_nl_tt
      ++ bs "check if foo($x), $x < 3" ++ S_block_close.
Proof.
  split; [vm_compute; reflexivity|]. split; [vm_compute; reflexivity|]. split; [vm_compute; reflexivity|].
  split; [vm_compute; reflexivity|]. split; [vm_compute; reflexivity|]. split; [vm_compute; reflexivity|].
  split; [vm_compute; discriminate|]. split; [vm_compute; discriminate|].
  split; [unfold appended_ok; split; vm_compute; reflexivity|].
  split; [unfold appended_ok; split; vm_compute; reflexivity|].
  vm_compute; reflexivity.
Qed.

(* Go side (run against /repo at 6773711, scratch program deleted afterwards):
     token A: authority right("file1");
     token B: authority right("file1"), owner("alice"), a("zz"); + block foo("k1"); + block foo("k2")
     the block  member(["b", "a"]); check if group($g), ["a", "zz"].contains($g);
     added through CreateBlock / AddBlock / Build / Append prints (Biscuit.Code())
       in A (block 1): member([#1025, #1026])  ... check if group($g), [#1026, #1028].contains($g)
       in B (block 3): member([#1027, #1031])  ... check if group($g), [#1026, #1027].contains($g)
   while member(["read", "write"]) prints member([#0, #1]) in both, and blocks
   without strings in sets print identically; Serialize/Unmarshal never changed
   Code() or String(). *)

Print Assumptions table_sidx_str.
Print Assumptions print_stable_under_serialization.
Print Assumptions print_stable_under_serialization_strings.
Print Assumptions print_stable_reload.
Print Assumptions block_code_agree.
Print Assumptions block_string_agree.
Print Assumptions block_code_default_any_table.
Print Assumptions block_code_free_any_sidx.
Print Assumptions printable_print_any_sidx.
Print Assumptions printable_code_any_sidx.
Print Assumptions appended_content_is_S.
Print Assumptions supplied_position_independent.
Print Assumptions print_position_independent.
Print Assumptions print_position_independent_default.
Print Assumptions appended_block_print_roundtrip.
Print Assumptions supplied_S_ops_of_block.
Print Assumptions C15_printed_block_anywhere.
Print Assumptions print_stable_under_serialization_nonvacuous.
Print Assumptions print_position_independent_nonvacuous.
Print Assumptions print_position_dependent_refuted.
Print Assumptions agree_sufficient_not_necessary.
Print Assumptions C15_printed_block_anywhere_nonvacuous.
