(* FootprintProofs.v -- property C19.
   Part 1: the generic interleaving theorem for disciplined threads.
   Part 2: the token operations respect the discipline (repaired code) and the
           pre-repair programs do not. *)
From Coq Require Import List NArith Bool Arith Lia.
From BV Require Import Footprint.
Import ListNotations.

(* ------------------------------------------------------------------ *)
(** * Basic facts                                                       *)
(* ------------------------------------------------------------------ *)

Lemma loc_eqb_eq : forall a b, loc_eqb a b = true <-> a = b.
Proof.
  intros a b; destruct a as [r o i|t k], b as [r' o' i'|t' k']; cbn [loc_eqb];
    split; intro H; try discriminate H.
  - apply andb_prop in H as [H H3]; apply andb_prop in H as [H1 H2].
    apply Nat.eqb_eq in H1, H2, H3; subst; reflexivity.
  - injection H as -> -> ->. now rewrite !Nat.eqb_refl.
  - apply andb_prop in H as [H1 H2]. apply Nat.eqb_eq in H1, H2; subst; reflexivity.
  - injection H as -> ->. now rewrite !Nat.eqb_refl.
Qed.

Lemma loc_eqb_refl : forall a, loc_eqb a a = true.
Proof. intro a; now apply loc_eqb_eq. Qed.

Lemma loc_eqb_neq : forall a b, a <> b -> loc_eqb a b = false.
Proof.
  intros a b Hne; destruct (loc_eqb a b) eqn:E; [|reflexivity].
  apply loc_eqb_eq in E; contradiction.
Qed.

Lemma hupd_same : forall h l v, hupd h l v l = v.
Proof. intros h l v; unfold hupd; now rewrite loc_eqb_refl. Qed.

Lemma hupd_other : forall h l v l', l' <> l -> hupd h l v l' = h l'.
Proof. intros h l v l' Hne; unfold hupd; now rewrite loc_eqb_neq. Qed.

Lemma fupd_same : forall A (f : tid -> A) t x, fupd f t x t = x.
Proof. intros A f t x; unfold fupd; now rewrite Nat.eqb_refl. Qed.

Lemma fupd_other : forall A (f : tid -> A) t x t', t' <> t -> fupd f t x t' = f t'.
Proof.
  intros A f t x t' Hne; unfold fupd.
  destruct (Nat.eqb t' t) eqn:E; [apply Nat.eqb_eq in E; contradiction|reflexivity].
Qed.

Lemma req_okb_ok : forall t c r, req_okb t c r = true <-> req_ok t c r.
Proof.
  intros t c r; destruct r as [l|l v|]; cbn [req_okb req_ok];
    try (destruct l as [r o i|t' k]; cbn [loc_owned]);
    try (split; intro H; [exact I|reflexivity]);
    try (split; intro H; [discriminate H|contradiction]).
  - rewrite andb_true_iff, Nat.eqb_eq, Nat.ltb_lt; tauto.
  - rewrite andb_true_iff, Nat.eqb_eq, Nat.ltb_lt; tauto.
Qed.

Lemma steps_of_app : forall t a b, steps_of t (a ++ b) = steps_of t a + steps_of t b.
Proof.
  intros t a b; induction a as [|x a IH]; cbn [steps_of app]; [reflexivity|].
  rewrite IH; lia.
Qed.

Lemma steps_of_snoc_same : forall t a, steps_of t (a ++ [t]) = S (steps_of t a).
Proof.
  intros t a; rewrite steps_of_app; cbn [steps_of]; rewrite Nat.eqb_refl; lia.
Qed.

Lemma steps_of_snoc_other : forall t t' a, t' <> t -> steps_of t' (a ++ [t]) = steps_of t' a.
Proof.
  intros t t' a Hne; rewrite steps_of_app; cbn [steps_of].
  destruct (Nat.eqb t t') eqn:E; [apply Nat.eqb_eq in E; subst; contradiction|lia].
Qed.

Lemma run_snoc : forall S (sys : system S) sched t w,
  run sys (sched ++ [t]) w = step sys (run sys sched w) t.
Proof. intros S sys sched t w; unfold run; now rewrite fold_left_app. Qed.

(* ------------------------------------------------------------------ *)
(** * Events that respect the discipline cannot race                    *)
(* ------------------------------------------------------------------ *)

Definition ev_ok (e : event) : Prop :=
  match e with
  | EvRead _ (LShared _ _ _) _ => True
  | EvRead t l _ => owner l = Some t
  | EvWrite t l _ => owner l = Some t
  | EvAlloc _ _ => True
  end.

Lemma ev_ok_access : forall e l, ev_ok e -> ev_access e = Some l ->
  (owner l = None /\ ev_is_write e = false) \/ owner l = Some (ev_tid e).
Proof.
  intros e l Hok Hacc; destruct e as [t l0 v|t l0 v|t l0]; cbn in Hacc; try discriminate Hacc;
    injection Hacc as ->; cbn [ev_ok ev_tid ev_is_write] in *.
  - destruct l as [r o i|t' k]; [left; split; reflexivity|right; exact Hok].
  - right; exact Hok.
Qed.

Lemma ok_trace_no_race : forall tr, Forall ev_ok tr -> ~ race tr.
Proof.
  intros tr Hall (e1 & e2 & Hin1 & Hin2 & Hne & (l & Ha1 & Ha2) & Hw).
  rewrite Forall_forall in Hall.
  pose proof (ev_ok_access e1 l (Hall e1 Hin1) Ha1) as H1.
  pose proof (ev_ok_access e2 l (Hall e2 Hin2) Ha2) as H2.
  destruct H1 as [[Ho1 Hw1]|Ho1], H2 as [[Ho2 Hw2]|Ho2].
  - destruct Hw as [Hw|Hw]; congruence.
  - congruence.
  - congruence.
  - apply Hne; congruence.
Qed.

Lemma ok_trace_no_shared_write : forall tr, Forall ev_ok tr -> no_shared_write tr.
Proof.
  intros tr Hall e Hin. rewrite Forall_forall in Hall. specialize (Hall e Hin).
  destruct e as [t l v|t l v|t l]; cbn [shared_write]; try reflexivity.
  destruct l as [r o i|t' k]; [cbn in Hall; discriminate Hall|reflexivity].
Qed.

Lemma exec_ev_ok : forall t c h r h' n' a e,
  req_ok t c r -> exec t c h r = (h', n', a, e) -> ev_ok e.
Proof.
  intros t c h r h' n' a e Hok Hex; destruct r as [l|l v|]; cbn [exec] in Hex;
    injection Hex as <- <- <- <-; cbn [ev_ok].
  - destruct l as [r o i|t' k]; [exact I|]. cbn in Hok. destruct Hok as [-> _]; reflexivity.
  - destruct l as [r o i|t' k]; cbn in Hok; [contradiction|]. destruct Hok as [-> _]; reflexivity.
  - exact I.
Qed.

(* an allowed request leaves every shared cell and every cell of the other
   threads untouched *)
Lemma exec_frame : forall t c h r h' n' a e l,
  req_ok t c r -> exec t c h r = (h', n', a, e) ->
  owner l <> Some t -> h' l = h l.
Proof.
  intros t c h r h' n' a e l Hok Hex Hown; destruct r as [l0|l0 v|]; cbn [exec] in Hex;
    injection Hex as <- <- <- <-.
  - reflexivity.
  - apply hupd_other. intros ->. destruct l0 as [r o i|t' k]; cbn in Hok; [contradiction|].
    destruct Hok as [-> _]; apply Hown; reflexivity.
  - apply hupd_other. intros ->. apply Hown; reflexivity.
Qed.

(* ------------------------------------------------------------------ *)
(** * Part 1 -- the interleaving theorem                                *)
(* ------------------------------------------------------------------ *)

Section Generic.
Context {S : Type}.
Variable sys : system S.
Variable h0 : heap.

(* what thread [t] sees of the world coincides with its solo configuration *)
Definition agree (t : tid) (w : world S) (c : solo S) : Prop :=
  w_st w t = so_st c /\
  w_cnt w t = so_cnt c /\
  (forall l, owner l = Some t -> w_heap w l = so_heap c l) /\
  (forall l, owner l = None -> w_heap w l = so_heap c l) /\
  by_tid t (w_trace w) = so_trace c.

Lemma agree_step_self : forall w c t,
  agree t w c ->
  oreq_ok t (so_cnt c) (t_next (sys t) (so_st c)) ->
  agree t (step sys w t) (solo_step (sys t) t c).
Proof.
  intros w c t (Hst & Hcnt & Hpriv & Hsh & Htr) Hok.
  unfold step, solo_step. rewrite Hst, Hcnt.
  destruct (t_next (sys t) (so_st c)) as [r|].
  2:{ repeat split; assumption. }
  cbn [oreq_ok] in Hok.
  assert (Hheap : forall l, owner l = None \/ owner l = Some t -> w_heap w l = so_heap c l).
  { intros l [Hl|Hl]; [apply Hsh; exact Hl|apply Hpriv; exact Hl]. }
  destruct r as [l|l v|]; cbn [exec].
  - (* read *)
    assert (Hl : w_heap w l = so_heap c l).
    { apply Hheap. destruct l as [r o i|t' k]; [left; reflexivity|].
      cbn in Hok; destruct Hok as [-> _]; right; reflexivity. }
    rewrite Hl. unfold agree; cbn [w_st w_cnt w_heap w_trace so_st so_cnt so_heap so_trace].
    rewrite !fupd_same. repeat split; try assumption.
    unfold by_tid; cbn [filter ev_tid]. rewrite Nat.eqb_refl. f_equal. exact Htr.
  - (* write *)
    unfold agree; cbn [w_st w_cnt w_heap w_trace so_st so_cnt so_heap so_trace].
    rewrite !fupd_same. repeat split.
    + intros l' Ho. unfold hupd. destruct (loc_eqb l' l); [reflexivity|]. apply Hpriv; assumption.
    + intros l' Ho. unfold hupd. destruct (loc_eqb l' l); [reflexivity|]. apply Hsh; assumption.
    + unfold by_tid; cbn [filter ev_tid]. rewrite Nat.eqb_refl. f_equal. exact Htr.
  - (* alloc *)
    unfold agree; cbn [w_st w_cnt w_heap w_trace so_st so_cnt so_heap so_trace].
    rewrite !fupd_same. repeat split.
    + intros l' Ho. unfold hupd. destruct (loc_eqb l' (LPriv t (so_cnt c))); [reflexivity|].
      apply Hpriv; assumption.
    + intros l' Ho. unfold hupd. destruct (loc_eqb l' (LPriv t (so_cnt c))); [reflexivity|].
      apply Hsh; assumption.
    + unfold by_tid; cbn [filter ev_tid]. rewrite Nat.eqb_refl. f_equal. exact Htr.
Qed.

Lemma agree_step_other : forall w c' t t',
  t' <> t ->
  agree t' w c' ->
  oreq_ok t (w_cnt w t) (t_next (sys t) (w_st w t)) ->
  agree t' (step sys w t) c'.
Proof.
  intros w c' t t' Hne (Hst & Hcnt & Hpriv & Hsh & Htr) Hok.
  unfold step.
  destruct (t_next (sys t) (w_st w t)) as [r|].
  2:{ repeat split; assumption. }
  cbn [oreq_ok] in Hok.
  destruct (exec t (w_cnt w t) (w_heap w) r) as [[[h' n'] a] e] eqn:Hex.
  assert (Hetid : ev_tid e = t).
  { destruct r as [l|l v|]; cbn [exec] in Hex; injection Hex as <- <- <- <-; reflexivity. }
  unfold agree; cbn [w_st w_cnt w_heap w_trace].
  rewrite !fupd_other by exact Hne. repeat split; try assumption.
  - intros l Ho. rewrite (exec_frame _ _ _ _ _ _ _ _ l Hok Hex).
    + apply Hpriv; assumption.
    + rewrite Ho. intros Heq; injection Heq as Heq; contradiction.
  - intros l Ho. rewrite (exec_frame _ _ _ _ _ _ _ _ l Hok Hex).
    + apply Hsh; assumption.
    + rewrite Ho; discriminate.
  - unfold by_tid; cbn [filter]. rewrite Hetid.
    destruct (Nat.eqb t t') eqn:E; [apply Nat.eqb_eq in E; subst; contradiction|].
    exact Htr.
Qed.

Lemma step_shared : forall w t l,
  oreq_ok t (w_cnt w t) (t_next (sys t) (w_st w t)) ->
  owner l = None -> w_heap (step sys w t) l = w_heap w l.
Proof.
  intros w t l Hok Ho. unfold step.
  destruct (t_next (sys t) (w_st w t)) as [r|]; [|reflexivity].
  destruct (exec t (w_cnt w t) (w_heap w) r) as [[[h' n'] a] e] eqn:Hex.
  cbn [w_heap]. apply (exec_frame _ _ _ _ _ _ _ _ l Hok Hex). rewrite Ho; discriminate.
Qed.

Lemma step_trace_ok : forall w t,
  oreq_ok t (w_cnt w t) (t_next (sys t) (w_st w t)) ->
  Forall ev_ok (w_trace w) -> Forall ev_ok (w_trace (step sys w t)).
Proof.
  intros w t Hok Hall. unfold step.
  destruct (t_next (sys t) (w_st w t)) as [r|]; [|exact Hall].
  destruct (exec t (w_cnt w t) (w_heap w) r) as [[[h' n'] a] e] eqn:Hex.
  cbn [w_trace]. constructor; [|exact Hall]. exact (exec_ev_ok _ _ _ _ _ _ _ _ Hok Hex).
Qed.

Hypothesis Hdisc : forall t, disciplined (sys t) t h0.

(* the invariant of interleaved runs *)
Definition winv (sched : list tid) (w : world S) : Prop :=
  (forall t, agree t w (solo_run (sys t) t h0 (steps_of t sched))) /\
  (forall l, owner l = None -> w_heap w l = h0 l) /\
  Forall ev_ok (w_trace w).

Lemma winv_init : winv [] (init_world sys h0).
Proof.
  split; [|split].
  - intro t; cbn [steps_of solo_run]. unfold agree, init_world, solo_init; cbn.
    repeat split; reflexivity.
  - intros l _; reflexivity.
  - constructor.
Qed.

Lemma winv_step : forall sched w t, winv sched w -> winv (sched ++ [t]) (step sys w t).
Proof.
  intros sched w t (Hag & Hsh & Htr).
  assert (Hok : oreq_ok t (w_cnt w t) (t_next (sys t) (w_st w t))).
  { destruct (Hag t) as (Hst & Hcnt & _). rewrite Hst, Hcnt. apply Hdisc. }
  split; [|split].
  - intro t'. destruct (Nat.eq_dec t' t) as [->|Hne].
    + rewrite steps_of_snoc_same. cbn [solo_run]. apply agree_step_self; [apply Hag|apply Hdisc].
    + rewrite steps_of_snoc_other by exact Hne. apply agree_step_other; [exact Hne|apply Hag|exact Hok].
  - intros l Ho. rewrite step_shared by assumption. apply Hsh; exact Ho.
  - apply step_trace_ok; assumption.
Qed.

Lemma winv_run : forall sched, winv sched (interleaved_run sys h0 sched).
Proof.
  intro sched; induction sched as [|t sched IH] using rev_ind.
  - exact winv_init.
  - unfold interleaved_run. rewrite run_snoc. apply winv_step. exact IH.
Qed.

(** Main theorem of Part 1.  For threads that respect the discipline, under
    EVERY schedule and for every thread [t]:
    - its local state is the state of its solo run after as many steps as it
      was scheduled;
    - the actions it executed, with the values it read, are exactly those of
      its solo run (in particular the values observed on shared cells);
    - the shared cells still hold their initial values;
    and the executed trace has no race. *)
Theorem interleave_readonly : forall sched,
  let w := interleaved_run sys h0 sched in
  (forall t, let c := solo_run (sys t) t h0 (steps_of t sched) in
     w_st w t = so_st c /\
     by_tid t (w_trace w) = so_trace c /\
     obs_shared t (w_trace w) = obs_shared t (so_trace c)) /\
  (forall l, owner l = None -> w_heap w l = h0 l) /\
  ~ race (w_trace w).
Proof.
  intros sched w. destruct (winv_run sched) as (Hag & Hsh & Htr). fold w in Hag, Hsh, Htr.
  split; [|split].
  - intros t c. destruct (Hag t) as (Hst & _ & _ & _ & Hby). fold c in Hst, Hby.
    split; [exact Hst|]. split; [exact Hby|].
    rewrite <- Hby. clear. induction (w_trace w) as [|e tr IH]; [reflexivity|].
    unfold by_tid in *; cbn [filter].
    destruct e as [t' l v|t' l v|t' l]; cbn [ev_tid obs_shared].
    + destruct l as [r o i|t'' k]; destruct (Nat.eqb t' t) eqn:E; cbn [obs_shared]; rewrite ?E, IH; reflexivity.
    + destruct (Nat.eqb t' t); cbn [obs_shared]; exact IH.
    + destruct (Nat.eqb t' t); cbn [obs_shared]; exact IH.
  - exact Hsh.
  - apply ok_trace_no_race; exact Htr.
Qed.

Theorem no_race_shared_readonly : forall sched,
  no_shared_write (w_trace (interleaved_run sys h0 sched)).
Proof.
  intro sched. destruct (winv_run sched) as (_ & _ & Htr).
  apply ok_trace_no_shared_write; exact Htr.
Qed.

End Generic.

(* a finished thread stays where it is, so "the result of the solo run" is
   well defined: it is the state at any sufficiently late step *)
Lemma solo_done_stable : forall S (th : thread S) t h n m,
  t_next th (so_st (solo_run th t h n)) = None -> n <= m ->
  solo_run th t h m = solo_run th t h n.
Proof.
  intros S th t h n m Hdone Hle. induction Hle as [|m Hle IH]; [reflexivity|].
  cbn [solo_run]. rewrite IH. unfold solo_step. now rewrite Hdone.
Qed.

Corollary interleave_final : forall S (sys : system S) h0,
  (forall t, disciplined (sys t) t h0) ->
  forall sched t,
    t_next (sys t) (w_st (interleaved_run sys h0 sched) t) = None ->
    forall m, steps_of t sched <= m ->
      w_st (interleaved_run sys h0 sched) t = so_st (solo_run (sys t) t h0 m).
Proof.
  intros S sys h0 Hdisc sched t Hdone m Hle.
  destruct (interleave_readonly sys h0 Hdisc sched) as (Hall & _).
  destruct (Hall t) as (Hst & _). cbn zeta in Hst.
  rewrite Hst in Hdone |- *.
  now rewrite (solo_done_stable _ _ _ _ _ m Hdone Hle).
Qed.

(* ------------------------------------------------------------------ *)
(** * Executable checkers used for the witnesses                        *)
(* ------------------------------------------------------------------ *)

Definition oreq_okb (t : tid) (c : nat) (o : option req) : bool :=
  match o with None => true | Some r => req_okb t c r end.

Definition solo_okb {S} (th : thread S) (t : tid) (h : heap) (n : nat) : bool :=
  forallb (fun m => let c := solo_run th t h m in oreq_okb t (so_cnt c) (t_next th (so_st c)))
          (seq 0 n).

Lemma disciplined_okb : forall S (th : thread S) t h,
  disciplined th t h -> forall n, solo_okb th t h n = true.
Proof.
  intros S th t h Hd n. unfold solo_okb. apply forallb_forall. intros m _.
  specialize (Hd m). cbn zeta in Hd |- *.
  destruct (t_next th (so_st (solo_run th t h m))) as [r|]; [|reflexivity].
  apply req_okb_ok. exact Hd.
Qed.

Definition conflictb (e1 e2 : event) : bool :=
  negb (Nat.eqb (ev_tid e1) (ev_tid e2)) &&
  match ev_access e1, ev_access e2 with
  | Some l1, Some l2 => loc_eqb l1 l2
  | _, _ => false
  end &&
  (ev_is_write e1 || ev_is_write e2).

Definition raceb (tr : list event) : bool :=
  existsb (fun e1 => existsb (fun e2 => conflictb e1 e2) tr) tr.

Lemma raceb_race : forall tr, raceb tr = true -> race tr.
Proof.
  intros tr H. unfold raceb in H.
  apply existsb_exists in H as (e1 & Hin1 & H).
  apply existsb_exists in H as (e2 & Hin2 & H).
  exists e1, e2. split; [exact Hin1|]. split; [exact Hin2|].
  unfold conflictb in H. apply andb_prop in H as [H Hw]. apply andb_prop in H as [Hne Hl].
  split; [|split].
  - intro Heq. rewrite Heq, Nat.eqb_refl in Hne. discriminate Hne.
  - destruct (ev_access e1) as [l1|]; [|discriminate Hl].
    destruct (ev_access e2) as [l2|]; [|discriminate Hl].
    apply loc_eqb_eq in Hl; subst. exists l2; split; reflexivity.
  - apply orb_prop in Hw. exact Hw.
Qed.

(* a heap with recognisable content everywhere (garbage in the private area,
   to exercise the zeroing of fresh cells) *)
Definition demo_heap : heap :=
  fun l => match l with
           | LShared r o i => N.of_nat (100 * r + 10 * o + i)
           | LPriv _ _ => 99%N
           end.

(* ------------------------------------------------------------------ *)
(** * Part 1 -- the converse witness                                    *)
(* ------------------------------------------------------------------ *)

(* thread 0 stores into a shared cell that thread 1 reads: the abstract shape
   of the pre-repair  append(block[:], ...)  and of interning into a header
   copy of the shared symbol table *)
Definition bad_sys : system sstate :=
  fun t => match t with
           | 0 => script_thread [IRead (AShared 0 0 1); IWrite (AShared 0 0 0)]
           | _ => script_thread [IRead (AShared 0 0 0)]
           end.

Theorem shared_write_races :
  let w1 := interleaved_run bad_sys demo_heap [0; 0; 1] in
  let w2 := interleaved_run bad_sys demo_heap [1; 0; 0] in
  (* both schedules let both threads finish *)
  sc_done (w_st w1 0) = true /\ sc_done (w_st w1 1) = true /\
  sc_done (w_st w2 0) = true /\ sc_done (w_st w2 1) = true /\
  (* thread 1 obtains its solo result under the second schedule only *)
  sc_result (w_st w2 1) = sc_result (so_st (solo_run (bad_sys 1) 1 demo_heap 1)) /\
  sc_result (w_st w1 1) <> sc_result (w_st w2 1) /\
  (* thread 1 observed two different values on the same shared cell *)
  obs_shared 1 (w_trace w1) <> obs_shared 1 (w_trace w2) /\
  race (w_trace w1) /\ race (w_trace w2) /\
  ~ disciplined (bad_sys 0) 0 demo_heap.
Proof.
  cbv zeta. repeat split; try (vm_compute; reflexivity); try (vm_compute; discriminate).
  - apply raceb_race; vm_compute; reflexivity.
  - apply raceb_race; vm_compute; reflexivity.
  - intro Hd. specialize (Hd 1). vm_compute in Hd. exact Hd.
Qed.

(* non-vacuity of Part 1: a two-thread system of data-dependent programs that
   satisfies the discipline, on which the theorem says something non-trivial *)
Definition good_sys : system sstate :=
  fun t => match t with
           | 0 => script_thread [IRead (AShared 0 0 1); IAlloc; IWrite (AOwn 0); IRead (AOwn 0)]
           | _ => script_thread [IAlloc; IRead (AShared 0 0 0); IWrite (AOwn 0); IRead (AShared 0 0 1)]
           end.

Example good_sys_runs :
  let w := interleaved_run good_sys demo_heap [1; 0; 1; 0; 0; 1; 0; 1] in
  sc_done (w_st w 0) = true /\ sc_done (w_st w 1) = true /\
  sc_result (w_st w 0) = 65%N /\ sc_result (w_st w 1) = 33%N /\
  length (w_trace w) = 8 /\ raceb (w_trace w) = false /\
  solo_okb (good_sys 0) 0 demo_heap 10 = true /\ solo_okb (good_sys 1) 1 demo_heap 10 = true.
Proof. vm_compute. repeat split; reflexivity. Qed.

(* ------------------------------------------------------------------ *)
(** * Part 2 -- scripts without shared stores respect the discipline    *)
(* ------------------------------------------------------------------ *)

Definition sinv (t : tid) (c : solo sstate) : Prop :=
  script_ok (sc_rest (so_st c)) = true /\
  Forall (loc_owned t (so_cnt c)) (sc_mine (so_st c)).

Lemma loc_owned_mono : forall t c c' l, c <= c' -> loc_owned t c l -> loc_owned t c' l.
Proof.
  intros t c c' l Hle Ho; destruct l as [r o i|t' k]; cbn [loc_owned] in *; [exact Ho|].
  destruct Ho as [-> Hk]; split; [reflexivity|lia].
Qed.

Lemma sinv_step : forall s t c,
  sinv t c -> sinv t (solo_step (script_thread s) t c).
Proof.
  intros s t c (Hok & Hmine). unfold solo_step. cbn [t_next t_resume script_thread].
  unfold sc_next, sc_resume.
  destruct (sc_rest (so_st c)) as [|i rest] eqn:Hrest; [split; [rewrite Hrest|]; assumption|].
  cbn [script_ok forallb] in Hok. apply andb_prop in Hok as [Hi Hok].
  destruct i as [a|a|].
  - destruct (resolve (so_st c) a) as [l|]; cbn [option_map];
      [|split; [rewrite Hrest; cbn [script_ok forallb]; now rewrite Hi|exact Hmine]].
    cbn [exec]. split; cbn [so_st so_cnt sc_rest sc_mine]; assumption.
  - destruct (resolve (so_st c) a) as [l|]; cbn [option_map];
      [|split; [rewrite Hrest; cbn [script_ok forallb]; now rewrite Hi|exact Hmine]].
    cbn [exec]. split; cbn [so_st so_cnt sc_rest sc_mine]; assumption.
  - cbn [exec]. split; cbn [so_st so_cnt sc_rest sc_mine]; [exact Hok|].
    apply Forall_app; split.
    + eapply Forall_impl; [|exact Hmine]. intros l Hl. apply (loc_owned_mono t (so_cnt c)); [lia|exact Hl].
    + constructor; [|constructor]. cbn [loc_owned]. split; [reflexivity|lia].
Qed.

Lemma sinv_run : forall s t h n,
  script_ok s = true -> sinv t (solo_run (script_thread s) t h n).
Proof.
  intros s t h n Hok; induction n as [|n IH].
  - split; cbn; [exact Hok|constructor].
  - cbn [solo_run]. apply sinv_step. exact IH.
Qed.

Lemma sinv_ok : forall t c, sinv t c -> oreq_ok t (so_cnt c) (sc_next (so_st c)).
Proof.
  intros t c (Hok & Hmine). unfold sc_next.
  destruct (sc_rest (so_st c)) as [|i rest]; [exact I|].
  cbn [script_ok forallb] in Hok. apply andb_prop in Hok as [Hi _].
  assert (Hown : forall k l, nth_error (sc_mine (so_st c)) k = Some l -> loc_owned t (so_cnt c) l).
  { intros k l Hk. rewrite Forall_forall in Hmine. apply Hmine. eapply nth_error_In; exact Hk. }
  destruct i as [a|a|]; [| |exact I].
  - destruct a as [r o i|k]; cbn [resolve option_map oreq_ok req_ok]; [exact I|].
    destruct (nth_error (sc_mine (so_st c)) k) as [l|] eqn:Hk; cbn [option_map oreq_ok]; [|exact I].
    specialize (Hown k l Hk). destruct l as [r o i|t' k']; [contradiction|exact Hown].
  - destruct a as [r o i|k]; [discriminate Hi|]. cbn [resolve].
    destruct (nth_error (sc_mine (so_st c)) k) as [l|] eqn:Hk; cbn [option_map oreq_ok req_ok]; [|exact I].
    exact (Hown k l Hk).
Qed.

Theorem script_disciplined : forall s,
  script_ok s = true -> writes_only_owned (script_thread s).
Proof.
  intros s Hok t h n. cbn zeta. apply (sinv_ok t). apply sinv_run. exact Hok.
Qed.

(* non-vacuity of [interleave_readonly]: its hypothesis holds of [good_sys]
   (whose run is computed in [good_sys_runs]) *)
Example good_sys_disciplined : forall t, disciplined (good_sys t) t demo_heap.
Proof.
  intro t. destruct t as [|t]; cbn [good_sys]; apply script_disciplined; reflexivity.
Qed.

(** ** compiled phases *)

Lemma fresh_instrs_ok : forall base m, script_ok (fresh_instrs base m) = true.
Proof.
  intros base m. unfold script_ok, fresh_instrs. apply forallb_forall. intros i Hin.
  apply in_app_or in Hin as [Hin|Hin].
  - apply in_flat_map in Hin as (j & _ & Hin). cbn [In] in Hin.
    destruct Hin as [<-|[<-|[]]]; reflexivity.
  - apply in_map_iff in Hin as (j & <- & _). reflexivity.
Qed.

Lemma map_IRead_ok : forall cs, script_ok (map (fun c => IRead (sh c)) cs) = true.
Proof.
  intro cs. unfold script_ok. apply forallb_forall. intros i Hin.
  apply in_map_iff in Hin as (a & <- & _). reflexivity.
Qed.

Lemma script_ok_app : forall a b, script_ok (a ++ b) = script_ok a && script_ok b.
Proof. intros a b. unfold script_ok. apply forallb_app. Qed.

Lemma compile_ok : forall ps base,
  forallb phase_ok ps = true -> script_ok (compile base ps) = true.
Proof.
  intros ps; induction ps as [|p ps IH]; intros base Hok; [reflexivity|].
  cbn [forallb] in Hok. apply andb_prop in Hok as [Hp Hok].
  destruct p as [cs|m|cs]; cbn [compile].
  - rewrite script_ok_app, map_IRead_ok, IH by exact Hok. reflexivity.
  - rewrite script_ok_app, fresh_instrs_ok, IH by exact Hok. reflexivity.
  - destruct cs as [|a cs]; [|discriminate Hp]. cbn [map app]. apply IH; exact Hok.
Qed.

(** ** every listed operation is free of shared stores *)

Definition clean (p : phase) : bool :=
  match p with PWriteShared _ => false | _ => true end.

Lemma clean_phase_ok : forall ps, forallb clean ps = true -> forallb phase_ok ps = true.
Proof.
  intros ps H. apply forallb_forall. intros p Hin.
  rewrite forallb_forall in H. specialize (H p Hin). destruct p as [cs|m|cs]; [reflexivity|reflexivity|discriminate H].
Qed.

Lemma iblocks_clean : forall (f : nat -> block_layout -> list phase),
  (forall o b, forallb clean (f o b) = true) ->
  forall bs o, forallb clean (iblocks f o bs) = true.
Proof.
  intros f Hf bs; induction bs as [|b bs IH]; intro o; cbn [iblocks]; [reflexivity|].
  rewrite forallb_app, Hf, IH. reflexivity.
Qed.

Lemma op_phases_clean : forall L op, forallb clean (op_phases L op) = true.
Proof.
  intros L op; destruct op as [| | | |nnew|nnew|blen| | |];
    unfold op_phases, clone_syms, read_parsed, whole_container, verify_block;
    cbn [forallb clean andb app];
    rewrite ?forallb_app; cbn [forallb clean andb app];
    rewrite ?iblocks_clean; try reflexivity; intros o b; reflexivity.
Qed.

Lemma goroutine_phases_clean : forall L ops, forallb clean (goroutine_phases L ops) = true.
Proof.
  intros L ops; unfold goroutine_phases; induction ops as [|op ops IH]; cbn [flat_map]; [reflexivity|].
  rewrite forallb_app, op_phases_clean, IH. reflexivity.
Qed.

(* C19_footprints of DESIGN.md: each listed operation stores only into memory
   it allocated itself, whatever the layout and the spare capacities *)
Theorem ops_write_only_owned : forall L op, writes_only_owned (op_program L op).
Proof.
  intros L op. apply script_disciplined, compile_ok, clean_phase_ok, op_phases_clean.
Qed.

Theorem goroutine_write_only_owned : forall L ops, writes_only_owned (goroutine_program L ops).
Proof.
  intros L ops. apply script_disciplined, compile_ok, clean_phase_ok, goroutine_phases_clean.
Qed.

(* ------------------------------------------------------------------ *)
(** * Compiled scripts never halt early                                 *)
(* ------------------------------------------------------------------ *)

(* [scoped a s]: with [a] cells allocated so far, every own-cell index used
   in [s] refers to a cell allocated before its use *)
Fixpoint scoped (a : nat) (s : list instr) : bool :=
  match s with
  | [] => true
  | IAlloc :: s' => scoped (S a) s'
  | IRead (AOwn k) :: s' => (k <? a) && scoped a s'
  | IWrite (AOwn k) :: s' => (k <? a) && scoped a s'
  | _ :: s' => scoped a s'
  end.

Fixpoint allocs (s : list instr) : nat :=
  match s with
  | [] => 0
  | IAlloc :: s' => S (allocs s')
  | _ :: s' => allocs s'
  end.

Lemma scoped_app : forall s1 s2 a,
  scoped a (s1 ++ s2) = scoped a s1 && scoped (a + allocs s1) s2.
Proof.
  intros s1 s2; induction s1 as [|i s1 IH]; intro a; cbn [app scoped allocs].
  - now rewrite Nat.add_0_r.
  - destruct i as [[r o i|k]|[r o i|k]|]; rewrite ?IH, ?andb_assoc; try reflexivity.
    now rewrite Nat.add_succ_r.
Qed.

Lemma shared_reads_scoped : forall cs a,
  scoped a (map (fun c => IRead (sh c)) cs) = true /\ allocs (map (fun c => IRead (sh c)) cs) = 0.
Proof.
  intros cs a; induction cs as [|[[r o] i] cs [IH1 IH2]]; cbn [map sh scoped allocs]; split; auto.
Qed.

Lemma shared_writes_scoped : forall cs a,
  scoped a (map (fun c => IWrite (sh c)) cs) = true /\ allocs (map (fun c => IWrite (sh c)) cs) = 0.
Proof.
  intros cs a; induction cs as [|[[r o] i] cs [IH1 IH2]]; cbn [map sh scoped allocs]; split; auto.
Qed.

Lemma fresh_fill_scoped : forall base m j0,
  let s := flat_map (fun j => [IAlloc; IWrite (AOwn (base + j))]) (seq j0 m) in
  scoped (base + j0) s = true /\ allocs s = m.
Proof.
  intros base m; induction m as [|m IH]; intro j0; cbn zeta; cbn [seq flat_map app scoped allocs].
  - split; reflexivity.
  - destruct (IH (S j0)) as [IH1 IH2]. rewrite Nat.add_succ_r in IH1.
    rewrite IH1, IH2. split; [|reflexivity].
    rewrite andb_true_r. apply Nat.ltb_lt; lia.
Qed.

Lemma own_reads_scoped : forall base a js,
  (forall j, In j js -> base + j < a) ->
  let s := map (fun j => IRead (AOwn (base + j))) js in
  scoped a s = true /\ allocs s = 0.
Proof.
  intros base a js; induction js as [|j js IH]; intro Hjs; cbn zeta; cbn [map scoped allocs].
  - split; reflexivity.
  - destruct IH as [IH1 IH2]; [intros j' Hj'; apply Hjs; right; exact Hj'|].
    cbn zeta in IH1, IH2. rewrite IH1, IH2. split; [|reflexivity].
    rewrite andb_true_r. apply Nat.ltb_lt. apply Hjs; left; reflexivity.
Qed.

Lemma fresh_instrs_scoped : forall base m,
  scoped base (fresh_instrs base m) = true /\ allocs (fresh_instrs base m) = m.
Proof.
  intros base m. unfold fresh_instrs.
  destruct (fresh_fill_scoped base m 0) as [F1 F2]. cbn zeta in F1, F2. rewrite Nat.add_0_r in F1.
  destruct (own_reads_scoped base (base + m) (seq 0 m)) as [R1 R2].
  { intros j Hj. apply in_seq in Hj. lia. }
  cbn zeta in R1, R2. split.
  - rewrite scoped_app, F1, F2, R1. reflexivity.
  - clear F1 R1. revert F2 R2.
    generalize (flat_map (fun j => [IAlloc; IWrite (AOwn (base + j))]) (seq 0 m)) as s1.
    generalize (map (fun j => IRead (AOwn (base + j))) (seq 0 m)) as s2.
    intros s2 s1 <- R2. induction s1 as [|i s1 IH]; cbn [app allocs]; [rewrite R2; reflexivity|].
    destruct i as [a|a|]; rewrite IH; reflexivity.
Qed.

Lemma compile_scoped : forall ps base, scoped base (compile base ps) = true.
Proof.
  intros ps; induction ps as [|p ps IH]; intro base; [reflexivity|].
  destruct p as [cs|m|cs]; cbn [compile].
  - destruct (shared_reads_scoped cs base) as [H1 H2].
    rewrite scoped_app, H1, H2, Nat.add_0_r. apply IH.
  - destruct (fresh_instrs_scoped base m) as [H1 H2].
    rewrite scoped_app, H1, H2. apply IH.
  - destruct (shared_writes_scoped cs base) as [W1 W2].
    destruct (shared_reads_scoped cs (base + 0)) as [H1 H2].
    rewrite scoped_app, W1, W2, scoped_app, H1, H2, !Nat.add_0_r. apply IH.
Qed.

Lemma skipn_S_tl : forall A (l : list A) n, skipn (S n) l = tl (skipn n l).
Proof.
  intros A l n; revert l; induction n as [|n IH]; intro l.
  - destruct l as [|x l]; reflexivity.
  - destruct l as [|x l]; [reflexivity|]. cbn [skipn] in *. apply IH.
Qed.

(* a well-scoped script consumes exactly one instruction per step *)
Lemma scoped_solo_step : forall s t c i rest,
  sc_rest (so_st c) = i :: rest ->
  scoped (length (sc_mine (so_st c))) (i :: rest) = true ->
  let c' := solo_step (script_thread s) t c in
  sc_rest (so_st c') = rest /\ scoped (length (sc_mine (so_st c'))) rest = true.
Proof.
  intros s t c i rest Hrest Hsc. cbn zeta. unfold solo_step.
  cbn [t_next t_resume script_thread]. unfold sc_next, sc_resume. rewrite Hrest.
  destruct i as [[r o j|k]|[r o j|k]|]; cbn [scoped] in Hsc; cbn [resolve option_map exec so_st sc_rest sc_mine].
  - split; [reflexivity|exact Hsc].
  - apply andb_prop in Hsc as [Hk Hsc]. apply Nat.ltb_lt in Hk.
    destruct (nth_error (sc_mine (so_st c)) k) as [l|] eqn:E.
    + cbn [option_map exec so_st sc_rest sc_mine]. split; [reflexivity|exact Hsc].
    + apply nth_error_None in E. lia.
  - split; [reflexivity|exact Hsc].
  - apply andb_prop in Hsc as [Hk Hsc]. apply Nat.ltb_lt in Hk.
    destruct (nth_error (sc_mine (so_st c)) k) as [l|] eqn:E.
    + cbn [option_map exec so_st sc_rest sc_mine]. split; [reflexivity|exact Hsc].
    + apply nth_error_None in E. lia.
  - split; [reflexivity|]. rewrite app_length; cbn [length]. rewrite Nat.add_1_r. exact Hsc.
Qed.

Lemma scoped_solo_run : forall s t h n,
  scoped 0 s = true ->
  let st := so_st (solo_run (script_thread s) t h n) in
  sc_rest st = skipn n s /\ scoped (length (sc_mine st)) (sc_rest st) = true.
Proof.
  intros s t h n Hsc; induction n as [|n IH]; cbn zeta in *.
  - cbn. split; [reflexivity|exact Hsc].
  - destruct IH as [IHr IHs]. cbn [solo_run].
    destruct (sc_rest (so_st (solo_run (script_thread s) t h n))) as [|i rest] eqn:Hrest.
    + assert (Hstay : solo_step (script_thread s) t (solo_run (script_thread s) t h n)
                      = solo_run (script_thread s) t h n).
      { unfold solo_step. cbn [t_next script_thread]. unfold sc_next. now rewrite Hrest. }
      rewrite Hstay, Hrest. split; [|reflexivity].
      rewrite skipn_S_tl, <- IHr. reflexivity.
    + destruct (scoped_solo_step s t _ i rest Hrest IHs) as [H1 H2]. cbn zeta in H1, H2.
      rewrite H1. split; [|exact H2].
      rewrite skipn_S_tl, <- IHr. reflexivity.
Qed.

(* every goroutine program runs to completion when it is given enough steps *)
Theorem goroutine_completes : forall L ops t h n,
  length (compile 0 (goroutine_phases L ops)) <= n ->
  sc_done (so_st (solo_run (goroutine_program L ops) t h n)) = true.
Proof.
  intros L ops t h n Hn. unfold goroutine_program.
  destruct (scoped_solo_run (compile 0 (goroutine_phases L ops)) t h n (compile_scoped _ 0)) as [Hr _].
  cbn zeta in Hr. unfold sc_done. rewrite Hr, skipn_all2 by exact Hn. reflexivity.
Qed.

(* ------------------------------------------------------------------ *)
(** * C19 for the repaired operations                                   *)
(* ------------------------------------------------------------------ *)

Lemma sc_done_next : forall st, sc_done st = true -> sc_next st = None.
Proof.
  intros st H. unfold sc_done in H. unfold sc_next.
  destruct (sc_rest st) as [|i r]; [reflexivity|discriminate H].
Qed.

(** Any number of goroutines (one per thread id), each running any list of the
    listed operations on one shared token of any layout (any number of blocks,
    any lengths, any spare capacities), from any heap content, under any
    schedule:
    - the executed trace has no race and contains no store to a shared cell,
      and the token's cells keep their values;
    - at every moment each goroutine is exactly where its solo run is after
      the same number of its own steps, having executed the same actions and
      read the same values;
    - a goroutine that has been scheduled at least as often as its program is
      long has finished, and its result is the result of its solo run. *)
Theorem C19_schedules :
  forall (L : token_layout) (ops : tid -> list opkind) (h0 : heap) (sched : list tid),
  let sys := fun t => goroutine_program L (ops t) in
  let w := interleaved_run sys h0 sched in
  ~ race (w_trace w) /\
  no_shared_write (w_trace w) /\
  (forall l, owner l = None -> w_heap w l = h0 l) /\
  forall t,
    w_st w t = so_st (solo_run (sys t) t h0 (steps_of t sched)) /\
    by_tid t (w_trace w) = so_trace (solo_run (sys t) t h0 (steps_of t sched)) /\
    (length (compile 0 (goroutine_phases L (ops t))) <= steps_of t sched ->
     sc_done (w_st w t) = true /\
     forall m, steps_of t sched <= m ->
       sc_result (w_st w t) = sc_result (so_st (solo_run (sys t) t h0 m))).
Proof.
  intros L ops h0 sched sys w.
  assert (Hdisc : forall t, disciplined (sys t) t h0).
  { intro t. apply goroutine_write_only_owned. }
  destruct (interleave_readonly sys h0 Hdisc sched) as (Hall & Hsh & Hrace).
  fold w in Hall, Hsh, Hrace.
  split; [exact Hrace|]. split; [apply no_race_shared_readonly; exact Hdisc|].
  split; [exact Hsh|].
  intro t. destruct (Hall t) as (Hst & Hby & _). cbn zeta in Hst, Hby.
  split; [exact Hst|]. split; [exact Hby|].
  intro Hlen.
  assert (Hdone : sc_done (w_st w t) = true).
  { rewrite Hst. apply goroutine_completes. exact Hlen. }
  split; [exact Hdone|].
  intros m Hm. rewrite Hst.
  rewrite (solo_done_stable _ (sys t) t h0 (steps_of t sched) m); [reflexivity| |exact Hm].
  rewrite <- Hst. apply sc_done_next. exact Hdone.
Qed.

Lemma op_program_goroutine : forall L op, op_program L op = goroutine_program L [op].
Proof.
  intros L op. unfold op_program, goroutine_program, goroutine_phases.
  cbn [flat_map]. now rewrite app_nil_r.
Qed.

(* the one-operation-per-goroutine instance, stated with [op_program] *)
Corollary C19_schedules_ops :
  forall (L : token_layout) (op : tid -> opkind) (h0 : heap) (sched : list tid),
  let sys := fun t => op_program L (op t) in
  let w := interleaved_run sys h0 sched in
  ~ race (w_trace w) /\ no_shared_write (w_trace w) /\
  forall t, w_st w t = so_st (solo_run (sys t) t h0 (steps_of t sched)).
Proof.
  intros L op h0 sched sys w.
  assert (Hdisc : forall t, disciplined (sys t) t h0).
  { intro t. apply ops_write_only_owned. }
  destruct (interleave_readonly sys h0 Hdisc sched) as (Hall & _ & Hrace).
  split; [exact Hrace|]. split; [apply no_race_shared_readonly; exact Hdisc|].
  intro t. destruct (Hall t) as (Hst & _). exact Hst.
Qed.

(** ** Non-vacuity: a concrete token, three goroutines, a concrete schedule *)

(* two blocks whose byte arrays have 40 and 100 spare cells; the symbol table
   has 2 spare cells *)
Definition L1 : token_layout :=
  {| tl_blocks := [ {| bl_len := 3; bl_spare := 40; bl_parsed := 2 |};
                    {| bl_len := 2; bl_spare := 100; bl_parsed := 1 |} ];
     tl_syms_len := 2; tl_syms_spare := 2; tl_proof_len := 32 |}.

Definition demo_ops (t : tid) : list opkind :=
  match t with
  | 0 => [OpVerify; OpAuthorize; OpQuery]
  | 1 => [OpGetBlockID 1; OpCreateBlock 2; OpAppend 5; OpPrint]
  | _ => [OpSeal; OpRevocationIds]
  end.

Definition round_robin (n : nat) : list tid := flat_map (fun _ => [0; 1; 2]) (seq 0 n).

Definition all_ops : list opkind :=
  [OpVerify; OpAuthorize; OpQuery; OpPrint; OpGetBlockID 1; OpCreateBlock 2; OpAppend 5;
   OpSeal; OpSerialize; OpRevocationIds].

Example demo_run :
  let sys := fun t => goroutine_program L1 (demo_ops t) in
  let w := interleaved_run sys demo_heap (round_robin 950) in
  (* all three goroutines finish, none halts early *)
  forallb (fun t => sc_done (w_st w t)) [0; 1; 2] = true /\
  forallb (fun t => length (compile 0 (goroutine_phases L1 (demo_ops t))) <=? 950) [0; 1; 2] = true /\
  (* results equal the solo results, computed independently *)
  forallb (fun t => N.eqb (sc_result (w_st w t))
                          (sc_result (so_st (solo_run (sys t) t demo_heap 950)))) [0; 1; 2] = true /\
  (* the results do depend on the token content: the theorem is not about constants *)
  N.eqb (sc_result (w_st w 0)) (sc_result (w_st w 2)) = false /\
  raceb (w_trace w) = false /\
  existsb shared_write (w_trace w) = false /\
  (* every operation's program actually allocates, writes and reads *)
  forallb (fun op => let c := solo_run (op_program L1 op) 0 demo_heap 950 in
                     sc_done (so_st c) && (0 <? so_cnt c) && existsb ev_is_write (so_trace c)) all_ops = true.
Proof. vm_compute. repeat split; reflexivity. Qed.

(* ------------------------------------------------------------------ *)
(** * The pre-repair programs are refuted                               *)
(* ------------------------------------------------------------------ *)

(* the same token without any spare capacity *)
Definition L0 : token_layout :=
  {| tl_blocks := [ {| bl_len := 3; bl_spare := 0; bl_parsed := 2 |};
                    {| bl_len := 2; bl_spare := 0; bl_parsed := 1 |} ];
     tl_syms_len := 2; tl_syms_spare := 0; tl_proof_len := 32 |}.

Definition alternate (n : nat) : list tid := flat_map (fun _ => [0; 1]) (seq 0 n).

(* goroutine 1 runs up to and including its store into the shared symbol
   slot, then goroutine 0 runs to completion, then goroutine 1 finishes *)
Definition preempting : list tid := repeat 1 3 ++ repeat 0 60 ++ repeat 1 60.
Definition sequential : list tid := repeat 1 60 ++ repeat 0 60.

Definition old_ops (t : tid) : list opkind :=
  match t with
  | 0 => [OpPrint; OpCreateBlock 1]
  | _ => [OpCreateBlock 1]
  end.

Theorem C19_old_refuted :
  (* 1. with spare capacity the pre-repair verify / seal / get-block-id /
        create-block store into the shared token ... *)
  (forall op, In op [OpVerify; OpSeal; OpGetBlockID 1; OpCreateBlock 1] ->
     script_ok (compile 0 (op_phases_old L1 op)) = false /\
     ~ writes_only_owned (op_program_old L1 op)) /\
  (* 2. ... two goroutines verifying the same token race on the block's spare
        cells (F15, biscuit.go:343 before 4046371) ... *)
  (let sys := fun _ : tid => op_program_old L1 OpVerify in
   let w := interleaved_run sys demo_heap (alternate 100) in
   race (w_trace w) /\ existsb shared_write (w_trace w) = true) /\
  (* 3. ... two goroutines looking a fact up race on the symbol slot (F16) ... *)
  (let sys := fun _ : tid => op_program_old L1 (OpGetBlockID 1) in
   race (w_trace (interleaved_run sys demo_heap (alternate 20)))) /\
  (* 4. ... and what a goroutine gets from create-block depends on the
        schedule (F3): goroutine 1 finishes under both schedules, obtains its
        solo result under one and a different result under the other *)
  (let sys := fun t => goroutine_program_old L1 (old_ops t) in
   let wa := interleaved_run sys demo_heap sequential in
   let wb := interleaved_run sys demo_heap preempting in
   sc_done (w_st wa 1) = true /\ sc_done (w_st wb 1) = true /\
   sc_result (w_st wa 1) = sc_result (so_st (solo_run (sys 1) 1 demo_heap 60)) /\
   sc_result (w_st wb 1) <> sc_result (w_st wa 1) /\
   race (w_trace wb)).
Proof.
  split; [|split; [|split]].
  - intros op Hin. split.
    + cbn [In] in Hin. destruct Hin as [<-|[<-|[<-|[<-|[]]]]]; vm_compute; reflexivity.
    + intro H.
      pose proof (disciplined_okb _ _ 0 demo_heap (H 0 demo_heap) 200) as Hb.
      cbn [In] in Hin. destruct Hin as [<-|[<-|[<-|[<-|[]]]]]; vm_compute in Hb; discriminate Hb.
  - cbv zeta. split; [apply raceb_race|]; vm_compute; reflexivity.
  - cbv zeta. apply raceb_race; vm_compute; reflexivity.
  - cbv zeta. repeat split; try (vm_compute; reflexivity); try (vm_compute; discriminate).
    apply raceb_race; vm_compute; reflexivity.
Qed.

(* without spare capacity append reallocates and the old programs happen to
   be harmless: the defect depends on what the allocator left behind, which
   is why [bl_spare] and [tl_syms_spare] are universally quantified in
   [C19_schedules] *)
Example old_harmless_without_spare :
  forallb (fun op => script_ok (compile 0 (op_phases_old L0 op)))
          [OpVerify; OpSeal; OpGetBlockID 1; OpCreateBlock 1] = true /\
  forallb (fun op => script_ok (compile 0 (op_phases L1 op)))
          [OpVerify; OpSeal; OpGetBlockID 1; OpCreateBlock 1] = true.
Proof. vm_compute. split; reflexivity. Qed.

Print Assumptions interleave_readonly.
Print Assumptions no_race_shared_readonly.
Print Assumptions interleave_final.
Print Assumptions shared_write_races.
Print Assumptions script_disciplined.
Print Assumptions ops_write_only_owned.
Print Assumptions goroutine_completes.
Print Assumptions C19_schedules.
Print Assumptions C19_schedules_ops.
Print Assumptions C19_old_refuted.
