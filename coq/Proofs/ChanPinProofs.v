(* ChanPinProofs.v — the channel skeleton of datalog/datalog.go as read by the translator on every run (C11).
   In a file of its own so that a change of the channel protocol breaks the C11 obligations only. *)
From Coq Require Import List NArith Ascii String Bool.
From BV Require Import Generated TableProofs.
Import ListNotations.
Open Scope string_scope.

(* ---- C11(c): the channel skeleton that Model/ChanLTS.v abstracts ----
   the result channel of World.Run is buffered (capacity 1), the combination
   channel is unbuffered, and EVERY send on the combination channel sits in a
   select that can also take the stop signal; the only other sends are on the
   buffered result channel *)
Fixpoint has_prefix_s (p s : string) : bool :=
  match p, s with
  | EmptyString, _ => true
  | String a p', String b s' => Ascii.eqb a b && has_prefix_s p' s'
  | _, EmptyString => false
  end.
Definition channel_protocol_stmt : Prop :=
  assoc "Run:done" dl_chan_makes = Some "1" /\
  assoc "combine:c" dl_chan_makes = Some "0" /\
  forallb (fun p => if String.eqb (fst p) "combine:c" then has_prefix_s "select:recv " (snd p) else true)
          dl_chan_sends = true /\
  forallb (fun p => String.eqb (fst p) "combine:c" || String.eqb (fst p) "Run:done") dl_chan_sends = true /\
  existsb (fun p => String.eqb (fst p) "combine:c") dl_chan_sends = true.
Theorem channel_protocol_pinned : channel_protocol_stmt.
Proof. vm_compute. repeat split. Qed.

