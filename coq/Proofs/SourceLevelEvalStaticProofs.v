(* SourceLevelEvalStaticProofs.v — the corollaries of Proofs/SourceLevelEvalProofs.v about the
   definition regenerated from the text of Expression.Evaluate (coq/GeneratedFn.v:
   go_Expression_Evaluate), with the DYNAMIC range hypothesis [run_pre] replaced by the STATIC
   condition [static_pre t e b] of Proofs/GenFnEvalStaticProofs.v (a condition on the table,
   the op sequence and the bindings alone; decidable: static_preb_sound). *)
From Coq Require Import ZifyN ZifyNat ZifyBool.
From BV Require Import Base Term Expr DTerm Symbols Datalog Authz Wire Token DEval GoSem GeneratedFn.
From BV Require Import ExprProofs SymbolsProofs DEvalProofs GenFnProofs GenFnEvalProofs SourceLevelEvalProofs.
From BV Require Import GenFnEvalStaticProofs.
Local Open Scope Z_scope.

Theorem src_evaluate_is_model_static : forall rx (b : dbindings) (t : table) (e : dexpr),
  rx_uniform rx -> set_ops_eq rx -> static_pre t e b ->
  go_Expression_Evaluate rx e b t = eval_D rx t e b.
Proof.
  intros rx b t e Hrx Hs Hpre.
  exact (src_evaluate_is_model rx b t e Hrx Hs (static_pre_run_pre rx b t e Hpre)).
Qed.

Theorem src_evaluate_total_static : forall rx (b : dbindings) (t : table) (e : dexpr) (n : N),
  rx_uniform rx -> set_ops_eq rx -> static_pre t e b ->
  snd (go_Expression_Evaluate rx e b t) <> Panic n.
Proof.
  intros rx b t e n Hrx Hs Hpre.
  exact (src_evaluate_total rx b t e n Hrx Hs (static_pre_run_pre rx b t e Hpre)).
Qed.

Theorem src_evaluate_malformed_is_error_static : forall rx (b : dbindings) (t : table) (e : dexpr),
  rx_uniform rx -> set_ops_eq rx -> static_pre t e b ->
  table_wf t -> CL closed_bnd t b -> CL closed_op t e ->
  (forall tr, map (resolve_op t) e <> postfix tr) ->
  exists x, snd (go_Expression_Evaluate rx e b t) = Err x.
Proof.
  intros rx b t e Hrx Hs Hpre.
  exact (src_evaluate_malformed_is_error rx b t e Hrx Hs (static_pre_run_pre rx b t e Hpre)).
Qed.

(* [src_evaluate_never_wrapped] has no dynamic premise (in_i64 a, in_i64 b, table_fits t are
   already conditions on the inputs); this version takes them from [static_pre], so that the
   four statements have the same premise.  It is the weaker of the two: static_pre also bounds
   the strings of the table, which integer arithmetic never reads. *)
Lemma static_pre_int_ops t a b o bnd :
  static_pre t [DOVal (DA (DInt a)); DOVal (DA (DInt b)); DOBin o] bnd ->
  in_i64 a /\ in_i64 b /\ table_fits t.
Proof.
  intros [B (H1 & H2 & H3 & H4 & H5)].
  inversion H5 as [|o1 e1 Ha H6]; subst. inversion H6 as [|o2 e2 Hb _]; subst.
  cbn [op_ok] in Ha, Hb. destruct Ha as [Ha _]. destruct Hb as [Hb _].
  cbn [wf_dterm wf_datom] in Ha, Hb. split; [exact Ha|]. split; [exact Hb|].
  assert (Hg := growth_nonneg [DOVal (DA (DInt a)); DOVal (DA (DInt b)); DOBin o]).
  unfold table_fits. lia.
Qed.

Theorem src_evaluate_never_wrapped_static : forall rx (bnd : dbindings) (t : table) (a b : Z) (o : binop) (v : dterm),
  rx_uniform rx -> set_ops_eq rx ->
  static_pre t [DOVal (DA (DInt a)); DOVal (DA (DInt b)); DOBin o] bnd ->
  o = BAdd \/ o = BSub \/ o = BMul \/ o = BDiv ->
  snd (go_Expression_Evaluate rx [DOVal (DA (DInt a)); DOVal (DA (DInt b)); DOBin o] bnd t) = Ok v ->
  v = DA (DInt (arith_exact o a b)) /\ in_int64 (arith_exact o a b) = true /\ (o = BDiv -> b <> 0).
Proof.
  intros rx bnd t a b o v Hrx Hs Hpre Ho E.
  destruct (static_pre_int_ops t a b o bnd Hpre) as (Ha & Hb & Ht).
  exact (src_evaluate_never_wrapped rx bnd t a b o v Hrx Hs Ha Hb Ht Ho E).
Qed.

(* the general form of "never a wrapped value", for EVERY op sequence: what Evaluate returns is
   in the ranges of the Go types (an Integer in int64, a String index in uint64, a Set shorter
   than 2^63), and the table it leaves still fits *)
Theorem src_evaluate_result_in_range_static : forall rx (b : dbindings) (t : table) (e : dexpr) t' v,
  rx_uniform rx -> set_ops_eq rx -> static_pre t e b ->
  go_Expression_Evaluate rx e b t = (t', Ok v) -> wf_dterm v /\ table_fits t'.
Proof.
  intros rx b t e t' v Hrx Hs Hpre E. rewrite (src_evaluate_is_model_static rx b t e Hrx Hs Hpre) in E.
  exact (eval_D_static_range rx b t e t' v Hpre E).
Qed.

(* ------------------------------------------------------------------ *)
(** * Non-vacuity *)

(* the hypotheses about the inputs, together, on the example of GenFnEvalStaticProofs
   ($a + "x" == "yx" && [1,2].union([3]).length() < 10) *)
Example static_hyps_ex :
  static_pre ex_table ex_expr ex_bindings /\ table_wf ex_table /\
  CL closed_bnd ex_table ex_bindings /\ CL closed_op ex_table ex_expr.
Proof.
  split; [exact static_pre_ex|]. split.
  - split.
    + repeat constructor; cbn [In]; intros H;
        repeat match goal with H : _ \/ _ |- _ => destruct H as [H|H] end; try discriminate H; exact H.
    + intros s Hs Hd. cbn [In ex_table] in Hs.
      assert (Hf : forallb (fun d => negb (bytes_eqb s d)) defaults = true).
      { repeat match goal with H : _ \/ _ |- _ => destruct H as [H|H] end; try contradiction;
          subst s; vm_compute; reflexivity. }
      rewrite forallb_forall in Hf. specialize (Hf s Hd).
      assert (Hr : bytes_eqb s s = true).
      { repeat match goal with H : _ \/ _ |- _ => destruct H as [H|H] end; try contradiction;
          subst s; vm_compute; reflexivity. }
      rewrite Hr in Hf. discriminate Hf.
  - split.
    + constructor; [|constructor]. split; cbn [fst snd closed_term closed_atom].
      * right. vm_compute. split; [discriminate | reflexivity].
      * right. vm_compute. split; [discriminate | reflexivity].
    + unfold CL, ex_expr.
      repeat (apply Forall_cons;
              [ cbn [closed_op closed_term closed_atom];
                first [ exact I
                      | right; vm_compute; split; [discriminate | reflexivity]
                      | repeat (apply Forall_cons; [exact I|]); apply Forall_nil ] | ]).
      apply Forall_nil.
Qed.

(* an op sequence that is not a postfix form, with the other hypotheses: a lone unary op *)
Lemma postfix_nonnil tr : postfix tr <> [].
Proof.
  destruct tr as [x|u tr|o l r]; cbn [postfix]; [discriminate | |].
  - intros H. symmetry in H. exact (app_cons_not_nil _ _ _ H).
  - rewrite app_assoc. intros H. symmetry in H. exact (app_cons_not_nil _ _ _ H).
Qed.

Example malformed_hyps_ex :
  static_pre [] [DOUn UNegate] [] /\ table_wf [] /\ CL closed_bnd [] [] /\ CL closed_op [] [DOUn UNegate] /\
  (forall tr, map (resolve_op []) [DOUn UNegate] <> postfix tr) /\
  go_Expression_Evaluate rx_ex [DOUn UNegate] [] [] = ([], Err EIllTyped).
Proof.
  split; [apply static_preb_sound; vm_compute; reflexivity|].
  split; [split; [constructor | intros s []]|].
  split; [constructor|]. split; [repeat constructor|]. split; [|vm_compute; reflexivity].
  intros tr H. cbn [map resolve_op] in H.
  destruct tr as [x|u tr|o l r]; cbn [postfix] in H; [discriminate H| |].
  - destruct (postfix tr) as [|y ys] eqn:Ep; [exact (postfix_nonnil tr Ep)|].
    cbn [app] in H. injection H as _ H. exact (app_cons_not_nil _ _ _ H).
  - destruct (postfix l) as [|y ys] eqn:Ep; [exact (postfix_nonnil l Ep)|].
    cbn [app] in H. injection H as _ H. rewrite app_assoc in H. exact (app_cons_not_nil _ _ _ H).
Qed.

(* integer arithmetic under the static condition: both outcomes *)
Example never_wrapped_static_ex :
  static_pre [] [DOVal (DA (DInt 9223372036854775807)); DOVal (DA (DInt 1)); DOBin BAdd] [] /\
  snd (go_Expression_Evaluate rx_ex [DOVal (DA (DInt 9223372036854775807)); DOVal (DA (DInt 1)); DOBin BAdd] [] [])
    = Err EOverflow /\
  snd (go_Expression_Evaluate rx_ex [DOVal (DA (DInt 9223372036854775806)); DOVal (DA (DInt 1)); DOBin BAdd] [] [])
    = Ok (DA (DInt 9223372036854775807)).
Proof. split; [apply static_preb_sound; vm_compute; reflexivity|]. vm_compute. split; reflexivity. Qed.

Print Assumptions src_evaluate_is_model_static.
Print Assumptions src_evaluate_total_static.
Print Assumptions src_evaluate_malformed_is_error_static.
Print Assumptions src_evaluate_never_wrapped_static.
Print Assumptions src_evaluate_result_in_range_static.
