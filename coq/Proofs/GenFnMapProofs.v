(* GenFnMapProofs.v — the source-level tie, stage G: maps with writes.

   genfn translates SymbolTable.IsDisjoint (datalog/symbol.go; a local map[string]struct{} filled
   in a loop, then tested with the comma-ok read) and MatchedVariables.Insert (datalog/datalog.go;
   single-value read m[k] compared with nil, the write m[k] = &v on the map receiver, *existing).
   This file proves the generated definitions EQUAL to the model: Symbols.sym_disjoint (used by
   Token.v for ErrSymbolTableOverlap) and one step of DEval.bind_terms_D.

   Representation (Model/GoMap.v): a set of strings is a list of strings (strset_add = cons,
   strset_mem = existsb); map[Variable]*Term is the model's dbindings holding exactly the keys
   with a non-nil value; the write is map_set (replace where the key stands, else append).
   MatchedVariables.Complete is NOT translated (it ranges over the map testing v == nil, which
   this representation cannot express). *)
From Coq Require Import List NArith ZArith Bool.
From BV Require Import Base Term Expr DTerm Symbols Token DEval GoSem GoMap.
From BV Require Import GeneratedFn GenFnProofs GenFnSetProofs.
Import ListNotations.

(* ------------------------------------------------------------------ *)
(** * 1. Sets of strings *)

Lemma strset_fold_mem : forall (t m : list bytes) (k : bytes),
  strset_mem (fold_left strset_add t m) k = existsb (bytes_eqb k) t || strset_mem m k.
Proof.
  intros t. induction t as [|x t IH]; intros m k; cbn [fold_left existsb]; [reflexivity|].
  rewrite IH. unfold strset_mem, strset_add. cbn [existsb].
  destruct (bytes_eqb k x), (existsb (bytes_eqb k) t), (existsb (bytes_eqb k) m); reflexivity.
Qed.

Lemma disjoint_as_exists : forall (t other : list bytes),
  (if existsb (fun v => strset_mem (fold_left strset_add t strset_empty) v) other
   then Ok false else Ok true) = (Ok (sym_disjoint t other) : res bool).
Proof.
  intros t other. unfold sym_disjoint.
  induction other as [|s other IH]; cbn [existsb forallb]; [reflexivity|].
  rewrite strset_fold_mem. unfold strset_mem at 1, strset_empty. cbn [existsb]. rewrite orb_false_r.
  destruct (existsb (bytes_eqb s) t); cbn [orb negb andb]; [reflexivity | exact IH].
Qed.

Theorem go_SymbolTable_IsDisjoint_eq : forall (t other : table),
  go_SymbolTable_IsDisjoint t other = Ok (sym_disjoint t other).
Proof.
  intros t other. unfold go_SymbolTable_IsDisjoint, range_loop.
  rewrite (range_from_fold_all strset_add) by (intros i v st; reflexivity).
  cbv beta iota.
  rewrite (range_from_any (fun v => strset_mem (fold_left strset_add t strset_empty) v) (Ok false))
    by (intros i v []; cbv zeta beta;
        destruct (strset_mem (fold_left strset_add t strset_empty) v); reflexivity).
  rewrite <- disjoint_as_exists.
  destruct (existsb (fun v => strset_mem (fold_left strset_add t strset_empty) v) other); reflexivity.
Qed.
Print Assumptions go_SymbolTable_IsDisjoint_eq.
Global Opaque go_SymbolTable_IsDisjoint.

(* the statement of the brief, with the model function unfolded *)
Corollary go_SymbolTable_IsDisjoint_spec : forall (t other : table),
  go_SymbolTable_IsDisjoint t other = Ok (forallb (fun s => negb (existsb (bytes_eqb s) t)) other).
Proof. exact go_SymbolTable_IsDisjoint_eq. Qed.
Print Assumptions go_SymbolTable_IsDisjoint_spec.

Example go_SymbolTable_IsDisjoint_ex :
  go_SymbolTable_IsDisjoint [[97]; [98; 99]]%N [[100]; [98]]%N = Ok true /\
  go_SymbolTable_IsDisjoint [[97]; [98; 99]]%N [[100]; [98; 99]]%N = Ok false /\
  go_SymbolTable_IsDisjoint []%N [[100]]%N = Ok true /\
  sym_disjoint [[97]; [98; 99]]%N [[100]; [98; 99]]%N = false.
Proof. rewrite !go_SymbolTable_IsDisjoint_eq. vm_compute. repeat split. Qed.

(* ------------------------------------------------------------------ *)
(** * 2. MatchedVariables.Insert *)

Lemma map_set_absent : forall (b : dbindings) (k : N) (v : dterm),
  dlookup b k = None -> map_set b k v = b ++ [(k, v)].
Proof.
  intros b k v. induction b as [|[k' v'] b IH]; cbn [dlookup map_set app]; intros H; [reflexivity|].
  destruct (N.eqb k' k); [discriminate H|]. rewrite (IH H). reflexivity.
Qed.

(* the write is Go's: afterwards the key reads as the value written, the other keys are unchanged
   (also when the key was already bound: map_set replaces, it does not shadow) *)
Lemma map_set_lookup_same : forall (b : dbindings) (k : N) (v : dterm),
  dlookup (map_set b k v) k = Some v.
Proof.
  intros b k v. induction b as [|[k' v'] b IH]; cbn [dlookup map_set].
  - rewrite N.eqb_refl. reflexivity.
  - destruct (N.eqb k' k) eqn:E; cbn [dlookup]; [rewrite N.eqb_refl; reflexivity | rewrite E; exact IH].
Qed.

Lemma map_set_lookup_other : forall (b : dbindings) (k k2 : N) (v : dterm),
  k2 <> k -> dlookup (map_set b k v) k2 = dlookup b k2.
Proof.
  intros b k k2 v Hne. induction b as [|[k' v'] b IH]; cbn [dlookup map_set].
  - destruct (N.eqb k k2) eqn:E; [apply N.eqb_eq in E; congruence | reflexivity].
  - destruct (N.eqb k' k) eqn:E; cbn [dlookup].
    + apply N.eqb_eq in E. subst k'.
      destruct (N.eqb k k2) eqn:E2; [apply N.eqb_eq in E2; congruence | reflexivity].
    + destruct (N.eqb k' k2); [reflexivity | exact IH].
Qed.

Theorem go_MatchedVariables_Insert_eq : forall (b : dbindings) (k : N) (v : dterm),
  go_MatchedVariables_Insert b k v =
  match dlookup b k with
  | None => (b ++ [(k, v)], Ok true)
  | Some ex => (b, Ok (dterm_geqb v ex))
  end.
Proof.
  intros b k v. unfold go_MatchedVariables_Insert.
  destruct (dlookup b k) as [ex|] eqn:E.
  - rewrite ?go_Term_Equal_eq. reflexivity.
  - cbv zeta. rewrite (map_set_absent b k v E). reflexivity.
Qed.
Print Assumptions go_MatchedVariables_Insert_eq.
Global Opaque go_MatchedVariables_Insert.

(* one step of the model's unification of a pattern with a fact *)
Theorem go_MatchedVariables_Insert_is_bind_step :
  forall (b : dbindings) (k : N) (v : dterm) (pt ft : list dterm),
  bind_terms_D (DA (DVar k) :: pt) (v :: ft) b =
  match go_MatchedVariables_Insert b k v with
  | (b', Ok true) => bind_terms_D pt ft b'
  | _ => None
  end.
Proof.
  intros b k v pt ft. rewrite go_MatchedVariables_Insert_eq. cbn [bind_terms_D].
  destruct (dlookup b k) as [ex|]; [destruct (dterm_geqb v ex); reflexivity | reflexivity].
Qed.
Print Assumptions go_MatchedVariables_Insert_is_bind_step.

Theorem go_MatchedVariables_Insert_consistent :
  forall (b : dbindings) (k : N) (v ex : dterm), dlookup b k = Some ex ->
  (dterm_geqb v ex = true -> go_MatchedVariables_Insert b k v = (b, Ok true)) /\
  (dterm_geqb v ex = false -> go_MatchedVariables_Insert b k v = (b, Ok false)).
Proof.
  intros b k v ex H. rewrite go_MatchedVariables_Insert_eq, H.
  split; intros Hq; rewrite Hq; reflexivity.
Qed.
Print Assumptions go_MatchedVariables_Insert_consistent.

(* a fresh variable: bound afterwards, the other variables untouched, never a panic *)
Theorem go_MatchedVariables_Insert_fresh :
  forall (b : dbindings) (k : N) (v : dterm), dlookup b k = None ->
  exists b', go_MatchedVariables_Insert b k v = (b', Ok true) /\ dlookup b' k = Some v /\
             forall k2, k2 <> k -> dlookup b' k2 = dlookup b k2.
Proof.
  intros b k v H. exists (map_set b k v).
  rewrite go_MatchedVariables_Insert_eq, H, <- (map_set_absent b k v H).
  split; [reflexivity | split; [apply map_set_lookup_same | intros k2 Hne; apply map_set_lookup_other; exact Hne]].
Qed.
Print Assumptions go_MatchedVariables_Insert_fresh.

Example go_MatchedVariables_Insert_ex :
  go_MatchedVariables_Insert [(1, DA (DInt 5))]%N 2%N (DA (DStr 1030%N)) =
    ([(1, DA (DInt 5)); (2, DA (DStr 1030))]%N, Ok true) /\
  go_MatchedVariables_Insert [(1, DA (DInt 5))]%N 1%N (DA (DInt 5)) = ([(1, DA (DInt 5))]%N, Ok true) /\
  go_MatchedVariables_Insert [(1, DA (DInt 5))]%N 1%N (DA (DInt 6)) = ([(1, DA (DInt 5))]%N, Ok false) /\
  bind_terms_D [DA (DVar 1); DA (DVar 2)]%N [DA (DInt 5); DA (DInt 7)] [(1, DA (DInt 5))]%N =
    Some [(1, DA (DInt 5)); (2, DA (DInt 7))]%N.
Proof. rewrite !go_MatchedVariables_Insert_eq. vm_compute. repeat split. Qed.
