(* SharedWritePinProofs.v — the write-site tables read by the translator on every run (C19).  In a file of its
   own so that a write through a shared token breaks the C19 obligations only, not the operator-table theorems
   that C06, C07 and others import. *)
From Coq Require Import List NArith Ascii String Bool.
From BV Require Import Generated TableProofs.
Import ListNotations.
Open Scope string_scope.

(* ---- C19: no method of *Biscuit, and no use of the authorizer's token, assigns,
   appends, copies or calls a mutating table/world method through the shared token ---- *)
Theorem no_shared_write_sites : shared_write_sites = [].
Proof. reflexivity. Qed.

(* ---- C19: no function of the library (root package, datalog, parser; init functions apart)
   assigns to, increments, deletes from or copies into a package-level variable: goroutines
   that share only a token do not share hidden package state (caches, counters) either ---- *)
Theorem no_package_state_writes : pkg_state_write_sites = [].
Proof. reflexivity. Qed.
