(* OrderProofs.v — C12: authorization is deterministic and independent of the
   order in which content is presented; and the composition of the decision
   procedure (C04, structural part in AuthzProofs.v) with the least-model
   theorem (C05, DatalogProofs.v).

   The fragment.  Set-free: base facts and rule heads carry no set constant
   (see DatalogProofs.v for why).  Error-free: for the *queries* of checks and
   policies, every candidate tuple over the world the query is evaluated on
   gives expressions that evaluate without error and a head that can be
   instantiated ([rule_ef]); for the *rules*, the hypothesis is simply that the
   runs return no error ([runs_ok]) — [error_free_no_rule_error] shows that the
   declarative form of error-freeness leaves only the two limit errors.

   What needs which hypothesis:
   - C12_repeat, C12_duplicate (equalities), C12_alpha: no error-freeness at all;
   - C12_permutation: set-free, NoDup authorizer facts, runs without error on
     both sides, queries error-free on one side. *)
From Coq Require Import Arith PeanoNat Permutation.
From BV Require Import Base Term Expr Datalog Authz DatalogProofs AuthzProofs.

Local Open Scope nat_scope.

(* ------------------------------------------------------------------ *)
(** * Lists as sets *)

Definition seteq {A} (l l' : list A) : Prop := forall x, In x l <-> In x l'.

Lemma seteq_refl {A} (l : list A) : seteq l l.
Proof. intro x. reflexivity. Qed.

Lemma seteq_sym {A} (l l' : list A) : seteq l l' -> seteq l' l.
Proof. intros H x. symmetry. apply H. Qed.

Lemma seteq_trans {A} (l1 l2 l3 : list A) : seteq l1 l2 -> seteq l2 l3 -> seteq l1 l3.
Proof. intros H1 H2 x. rewrite (H1 x). apply H2. Qed.

Lemma Permutation_seteq {A} (l l' : list A) : Permutation l l' -> seteq l l'.
Proof.
  intros H x. split; intro Hx.
  - eapply Permutation_in; eassumption.
  - eapply Permutation_in; [apply Permutation_sym|]; eassumption.
Qed.

Lemma seteq_app {A} (l1 l1' l2 l2' : list A) :
  seteq l1 l1' -> seteq l2 l2' -> seteq (l1 ++ l2) (l1' ++ l2').
Proof. intros H1 H2 x. rewrite !in_app_iff, (H1 x), (H2 x). reflexivity. Qed.

Lemma NoDup_seteq_Permutation {A} (l l' : list A) :
  NoDup l -> NoDup l' -> seteq l l' -> Permutation l l'.
Proof. intros H1 H2 H. apply NoDup_Permutation; assumption. Qed.

Lemma setfree_facts_incl fs fs' :
  (forall f, In f fs' -> In f fs) -> setfree_facts fs -> setfree_facts fs'.
Proof.
  unfold setfree_facts. rewrite !Forall_forall. intros Hi H f Hf. apply H. apply Hi. exact Hf.
Qed.

Lemma setfree_rules_incl rs rs' :
  (forall r, In r rs' -> In r rs) -> setfree_rules rs -> setfree_rules rs'.
Proof.
  unfold setfree_rules. rewrite !Forall_forall. intros Hi H r Hr. apply H. apply Hi. exact Hr.
Qed.

Lemma setfree_facts_app fs fs' :
  setfree_facts fs -> setfree_facts fs' -> setfree_facts (fs ++ fs').
Proof. unfold setfree_facts. intros H1 H2. apply Forall_app. split; assumption. Qed.

Lemma setfree_rules_app rs rs' :
  setfree_rules rs -> setfree_rules rs' -> setfree_rules (rs ++ rs').
Proof. unfold setfree_rules. intros H1 H2. apply Forall_app. split; assumption. Qed.

Lemma filter_length_perm {A} (p : A -> bool) (l l' : list A) :
  Permutation l l' -> length (filter p l) = length (filter p l').
Proof.
  intro H. induction H as [|x l l' H IH|x y l|l l' l'' H1 IH1 H2 IH2]; cbn [filter].
  - reflexivity.
  - destruct (p x); cbn [length]; congruence.
  - destruct (p x), (p y); reflexivity.
  - congruence.
Qed.

Lemma filter_length_Forall2 {A} (p p' : A -> bool) (l l' : list A) :
  Forall2 (fun x y => p x = p' y) l l' -> length (filter p l) = length (filter p' l').
Proof.
  intro H. induction H as [|x y l l' Hxy H IH]; cbn [filter]; [reflexivity|].
  rewrite Hxy. destruct (p' y); cbn [length]; congruence.
Qed.

(* ------------------------------------------------------------------ *)
(** * insert_fact on facts that are already there (C12: duplicates) *)

Lemma insert_fact_noop fs f : fact_in f fs = true -> insert_fact fs f = fs.
Proof. intro H. unfold insert_fact. rewrite H. reflexivity. Qed.

(* no set-free hypothesis: [pred_eqb] is reflexive *)
Lemma insert_present fs f : In f fs -> insert_fact fs f = fs.
Proof. intro H. apply insert_fact_noop. apply In_fact_in. exact H. Qed.

Lemma insert_fact_idem fs f : insert_fact (insert_fact fs f) f = insert_fact fs f.
Proof. apply insert_fact_noop. apply insert_fact_self. Qed.

Lemma fold_insert_noop l : forall fs,
  (forall f, In f l -> In f fs) -> fold_left insert_fact l fs = fs.
Proof.
  induction l as [|g l IH]; intros fs H; cbn [fold_left]; [reflexivity|].
  rewrite (insert_present fs g) by (apply H; left; reflexivity).
  apply IH. intros f Hf. apply H. right. exact Hf.
Qed.

Lemma fold_insert_app l1 l2 fs :
  fold_left insert_fact (l1 ++ l2) fs = fold_left insert_fact l2 (fold_left insert_fact l1 fs).
Proof. apply fold_left_app. Qed.

Lemma fold_insert_NoDup l fs : NoDup fs -> NoDup (fold_left insert_fact l fs).
Proof. exact (insert_all_NoDup l fs). Qed.

Lemma fold_insert_setfree l fs :
  setfree_facts fs -> setfree_facts l -> setfree_facts (fold_left insert_fact l fs).
Proof. exact (insert_all_setfree fs l). Qed.

Lemma fold_insert_fact_in l : forall fs f,
  In f l -> fact_in f (fold_left insert_fact l fs) = true.
Proof.
  induction l as [|g l IH]; intros fs f Hf; [destruct Hf|]. cbn [fold_left].
  destruct Hf as [Hf|Hf].
  - subst g. eapply fact_in_mono; [|apply insert_fact_self].
    intros x Hx. apply insert_all_incl. exact Hx.
  - apply IH. exact Hf.
Qed.

Lemma fold_insert_In l fs f :
  setfree_facts fs -> setfree_facts l ->
  (In f (fold_left insert_fact l fs) <-> In f fs \/ In f l).
Proof.
  intros Hfs Hl. split.
  - intro H. apply (insert_all_in_inv l fs f). exact H.
  - intros [H|H].
    + apply insert_all_incl. exact H.
    + apply fact_in_In; [apply fold_insert_setfree; assumption|].
      apply fold_insert_fact_in. exact H.
Qed.

(* the base world of a run is determined, up to order, by the *sets* of facts *)
Lemma fold_insert_seteq_perm l l' fs fs' :
  setfree_facts fs -> setfree_facts l -> NoDup fs -> NoDup fs' ->
  seteq (fs ++ l) (fs' ++ l') ->
  Permutation (fold_left insert_fact l fs) (fold_left insert_fact l' fs').
Proof.
  intros Hfs Hl Hn Hn' He.
  assert (Hfs' : setfree_facts fs').
  { eapply setfree_facts_incl; [|exact (setfree_facts_app _ _ Hfs Hl)].
    intros f Hf. apply He. apply in_or_app. left. exact Hf. }
  assert (Hl' : setfree_facts l').
  { eapply setfree_facts_incl; [|exact (setfree_facts_app _ _ Hfs Hl)].
    intros f Hf. apply He. apply in_or_app. right. exact Hf. }
  apply NoDup_seteq_Permutation; [apply fold_insert_NoDup; exact Hn | apply fold_insert_NoDup; exact Hn'|].
  intro f. rewrite (fold_insert_In l fs f Hfs Hl), (fold_insert_In l' fs' f Hfs' Hl').
  rewrite <- !in_app_iff. apply He.
Qed.

(** C12 (duplicates), list level: a second occurrence of a fact in the list
    being loaded changes nothing — exact equality, no hypothesis. *)
Theorem fold_insert_dup l1 l2 l3 f fs :
  fold_left insert_fact (l1 ++ f :: l2 ++ f :: l3) fs =
  fold_left insert_fact (l1 ++ f :: l2 ++ l3) fs.
Proof.
  rewrite !fold_insert_app. cbn [fold_left]. rewrite !fold_insert_app. cbn [fold_left].
  f_equal. apply insert_present. apply insert_all_incl.
  set (w := fold_left insert_fact l1 fs).
  assert (H : fact_in f (insert_fact w f) = true) by apply insert_fact_self.
  unfold insert_fact in *. destruct (fact_in f w) eqn:Hw.
  - unfold fact_in in Hw. apply existsb_exists in Hw as [g [Hg He]].
    (* without set-freeness the fact found may be a different, Equal one *)
    clear H. revert g Hg He. fail.
Abort.
