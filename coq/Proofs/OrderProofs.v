(* OrderProofs.v — C12: authorization is deterministic and independent of the
   order in which content is presented; and the composition of the decision
   procedure (C04, structural part in AuthzProofs.v) with the least-model
   theorem (C05, DatalogProofs.v).

   Worlds are compared up to Predicate.Equal ([equivlistA fact_eqv],
   [PermutationA fact_eqv]): a world keeps the first representative of each
   class of Equal facts, so two presentations need not give literally the same
   facts.  There is no hypothesis on set constants or set operators: every step
   of the evaluation respects Equal (DatalogProofs.v).  Error-free: for the
   *queries* of checks and policies, every candidate tuple over the world the
   query is evaluated on gives expressions that evaluate without error and a
   head that can be instantiated ([rule_ef]); for the *rules*, the hypothesis
   is simply that the runs return no error ([runs_ok]) —
   [error_free_no_rule_error] shows that the declarative form of error-freeness
   leaves only the two limit errors.

   What needs which hypothesis:
   - C12_repeat, C12_duplicate (equalities), C12_alpha: nothing at all;
   - C12_permutation: no two Equal authorizer facts, runs without error on both
     sides, queries error-free on one side. *)
From Coq Require Import Arith PeanoNat Permutation SetoidList SetoidPermutation.
From BV Require Import Base Term Expr Datalog Authz DatalogProofs AuthzProofs.

Local Open Scope nat_scope.

(* ------------------------------------------------------------------ *)
(** * Lists as sets *)

Definition seteq {A} (l l' : list A) : Prop := forall x, In x l <-> In x l'.

Lemma seteq_refl {A} (l : list A) : seteq l l.
Proof. intro x. reflexivity. Qed.

Lemma seteq_sym {A} (l l' : list A) : seteq l l' -> seteq l' l.
Proof. intros H x. symmetry. apply H. Qed.

Lemma seteq_trans {A} (l1 l2 l3 : list A) : seteq l1 l2 -> seteq l2 l3 -> seteq l1 l3.
Proof. intros H1 H2 x. rewrite (H1 x). apply H2. Qed.

Lemma Permutation_seteq {A} (l l' : list A) : Permutation l l' -> seteq l l'.
Proof.
  intros H x. split; intro Hx.
  - eapply Permutation_in; eassumption.
  - eapply Permutation_in; [apply Permutation_sym|]; eassumption.
Qed.

Lemma seteq_app {A} (l1 l1' l2 l2' : list A) :
  seteq l1 l1' -> seteq l2 l2' -> seteq (l1 ++ l2) (l1' ++ l2').
Proof. intros H1 H2 x. rewrite !in_app_iff, (H1 x), (H2 x). reflexivity. Qed.

Lemma NoDup_seteq_Permutation {A} (l l' : list A) :
  NoDup l -> NoDup l' -> seteq l l' -> Permutation l l'.
Proof. intros H1 H2 H. apply NoDup_Permutation; assumption. Qed.

(* facts as sets up to Predicate.Equal *)
Lemma seteq_equivlist (l l' : list pred) : seteq l l' -> equivlistA fact_eqv l l'.
Proof.
  intros H x. rewrite !InA_alt. split; intros [y [Hxy Hy]]; exists y; (split; [exact Hxy|]);
    apply H; exact Hy.
Qed.

Lemma Permutation_equivlist (l l' : list pred) : Permutation l l' -> equivlistA fact_eqv l l'.
Proof. intro H. apply seteq_equivlist. apply Permutation_seteq. exact H. Qed.

Lemma equivlist_refl (l : list pred) : equivlistA fact_eqv l l.
Proof. intro x. reflexivity. Qed.

Lemma equivlist_sym (l l' : list pred) : equivlistA fact_eqv l l' -> equivlistA fact_eqv l' l.
Proof. intros H x. symmetry. apply H. Qed.

Lemma equivlist_app (l1 l1' l2 l2' : list pred) :
  equivlistA fact_eqv l1 l1' -> equivlistA fact_eqv l2 l2' ->
  equivlistA fact_eqv (l1 ++ l2) (l1' ++ l2').
Proof. intros H1 H2 x. rewrite !InA_app_iff, (H1 x), (H2 x). reflexivity. Qed.

Lemma NoDupA_perm (l l' : list pred) :
  Permutation l l' -> NoDupA fact_eqv l -> NoDupA fact_eqv l'.
Proof.
  intros P. apply PermutationA_preserves_NoDupA; [exact fact_eqv_Equivalence|].
  apply Permutation_PermutationA; [exact fact_eqv_Equivalence | exact P].
Qed.

Lemma filter_length_perm {A} (p : A -> bool) (l l' : list A) :
  Permutation l l' -> length (filter p l) = length (filter p l').
Proof.
  intro H. induction H as [|x l l' H IH|x y l|l l' l'' H1 IH1 H2 IH2]; cbn [filter].
  - reflexivity.
  - destruct (p x); cbn [length]; congruence.
  - destruct (p x), (p y); reflexivity.
  - congruence.
Qed.

Lemma filter_length_Forall2 {A} (p p' : A -> bool) (l l' : list A) :
  Forall2 (fun x y => p x = p' y) l l' -> length (filter p l) = length (filter p' l').
Proof.
  intro H. induction H as [|x y l l' Hxy H IH]; cbn [filter]; [reflexivity|].
  rewrite Hxy. destruct (p' y); cbn [length]; congruence.
Qed.

(* ------------------------------------------------------------------ *)
(** * insert_fact on facts that are already there (C12: duplicates) *)

Lemma insert_fact_noop fs f : fact_in f fs = true -> insert_fact fs f = fs.
Proof. intro H. unfold insert_fact. rewrite H. reflexivity. Qed.

(* [pred_eqb] is reflexive *)
Lemma insert_present fs f : In f fs -> insert_fact fs f = fs.
Proof. intro H. apply insert_fact_noop. apply In_fact_in. exact H. Qed.

Lemma insert_fact_idem fs f : insert_fact (insert_fact fs f) f = insert_fact fs f.
Proof. apply insert_fact_noop. apply insert_fact_self. Qed.

(* loading facts that all have an Equal fact in the world changes nothing *)
Lemma fold_insert_noop l : forall fs,
  (forall f, In f l -> fact_in f fs = true) -> fold_left insert_fact l fs = fs.
Proof.
  induction l as [|g l IH]; intros fs H; cbn [fold_left]; [reflexivity|].
  rewrite (insert_fact_noop fs g) by (apply H; left; reflexivity).
  apply IH. intros f Hf. apply H. right. exact Hf.
Qed.

Lemma fold_insert_app l1 l2 fs :
  fold_left insert_fact (l1 ++ l2) fs = fold_left insert_fact l2 (fold_left insert_fact l1 fs).
Proof. apply fold_left_app. Qed.

Lemma fold_insert_NoDup l fs : NoDup fs -> NoDup (fold_left insert_fact l fs).
Proof. exact (insert_all_NoDup l fs). Qed.

Lemma fold_insert_NoDupA l fs : NoDupA fact_eqv fs -> NoDupA fact_eqv (fold_left insert_fact l fs).
Proof. exact (insert_all_NoDupA l fs). Qed.

Lemma fold_insert_fact_in l : forall fs f,
  In f l -> fact_in f (fold_left insert_fact l fs) = true.
Proof.
  induction l as [|g l IH]; intros fs f Hf; [destruct Hf|]. cbn [fold_left].
  destruct Hf as [Hf|Hf].
  - subst g. eapply fact_in_mono; [|apply insert_fact_self].
    intros x Hx. apply insert_all_incl. exact Hx.
  - apply IH. exact Hf.
Qed.

(* the loaded world, up to Equal: the old facts and the new ones *)
Lemma fold_insert_InA l fs f :
  InA fact_eqv f (fold_left insert_fact l fs) <-> InA fact_eqv f fs \/ InA fact_eqv f l.
Proof. exact (insert_all_InA l fs f). Qed.

(* syntactically, nothing else gets in *)
Lemma fold_insert_In_inv l fs f : In f (fold_left insert_fact l fs) -> In f fs \/ In f l.
Proof. exact (insert_all_in_inv l fs f). Qed.

(* the base world of a run is determined, up to Equal, by the *sets* of facts *)
Lemma fold_insert_equivlist l l' fs fs' :
  equivlistA fact_eqv (fs ++ l) (fs' ++ l') ->
  equivlistA fact_eqv (fold_left insert_fact l fs) (fold_left insert_fact l' fs').
Proof.
  intros He f. rewrite !fold_insert_InA, <- !InA_app_iff. apply He.
Qed.

(** C12 (duplicates), list level: a second occurrence of a fact in the list
    being loaded changes nothing — exact equality, no hypothesis. *)
Theorem fold_insert_dup l1 l2 l3 f fs :
  fold_left insert_fact (l1 ++ f :: l2 ++ f :: l3) fs =
  fold_left insert_fact (l1 ++ f :: l2 ++ l3) fs.
Proof.
  rewrite !fold_insert_app. cbn [fold_left]. rewrite !fold_insert_app. cbn [fold_left].
  f_equal. apply insert_fact_noop.
  eapply fact_in_mono; [|apply insert_fact_self].
  intros x Hx. apply insert_all_incl. exact Hx.
Qed.

(* likewise for a second fact that is merely Equal to an earlier one *)
Theorem fold_insert_dup_eqv l1 l2 l3 f f' fs :
  fact_eqv f f' ->
  fold_left insert_fact (l1 ++ f :: l2 ++ f' :: l3) fs =
  fold_left insert_fact (l1 ++ f :: l2 ++ l3) fs.
Proof.
  intro He. rewrite !fold_insert_app. cbn [fold_left]. rewrite !fold_insert_app. cbn [fold_left].
  f_equal. apply insert_fact_noop. rewrite <- (fact_in_eqv f f' _ He).
  eapply fact_in_mono; [|apply insert_fact_self].
  intros x Hx. apply insert_all_incl. exact Hx.
Qed.

Lemma insert_all_noop nf fs : (forall f, In f nf -> fact_in f fs = true) -> insert_all fs nf = fs.
Proof. exact (fold_insert_noop nf fs). Qed.

Section Order.
Variable rx : bytes -> bytes -> option bool.

(* ------------------------------------------------------------------ *)
(** * Runs over the same sets of facts and rules *)

Lemma Derivable_seteq rules rules' facts facts' :
  seteq rules rules' -> seteq facts facts' ->
  forall f, Derivable rx rules facts f <-> Derivable rx rules' facts' f.
Proof.
  intros Hr Hf f. split; apply Derivable_incl; intros x Hx;
    first [apply Hr; exact Hx | apply Hf; exact Hx].
Qed.

(* [run_perm] with "same facts up to Equal" instead of "permutation":
   duplicates in the rule list do not matter either *)
Theorem run_seteq lim lim' rules rules' facts facts' x y :
  NoDupA fact_eqv facts -> NoDupA fact_eqv facts' ->
  equivlistA fact_eqv facts facts' -> seteq rules rules' ->
  run rx lim rules facts = (x, None) -> run rx lim' rules' facts' = (y, None) ->
  PermutationA fact_eqv x y.
Proof.
  intros Hn Hn' He Hrr Hx Hy.
  apply NoDupA_equivlistA_PermutationA; [exact fact_eqv_Equivalence | | |].
  - exact (run_nodupA rx _ _ _ _ _ Hn Hx).
  - exact (run_nodupA rx _ _ _ _ _ Hn' Hy).
  - exact (run_equivlist rx lim lim' rules rules' facts facts' x y He Hrr Hx Hy).
Qed.

(* ------------------------------------------------------------------ *)
(** * 1. Error-free queries: emptiness of the result depends on the fact *set* only *)

(* every candidate tuple over [M] evaluates without error, and a tuple that
   passes the expressions can instantiate the head *)
Definition rule_ef_on (M : pred -> Prop) (r : rule) : Prop :=
  forall c b,
    Forall M c ->
    Forall2 (fun g p => pred_match g p = true) c (r_body r) ->
    bind_all (r_body r) c [] = Some b ->
    (exists v, eval_exprs rx (r_exprs r) b = Ok v) /\
    (eval_exprs rx (r_exprs r) b = Ok true -> inst_head (r_head r) b <> None).

Definition rule_ef (r : rule) (fs : list pred) : Prop := rule_ef_on (fun g => In g fs) r.

(* the declarative form: over the least model of a program *)
Definition error_free (rules : list rule) (facts : list pred) (qs : list rule) : Prop :=
  forall q, In q qs -> rule_ef_on (Derivable rx rules facts) q.

Lemma rule_ef_on_incl (M M' : pred -> Prop) r :
  (forall g, M' g -> M g) -> rule_ef_on M r -> rule_ef_on M' r.
Proof.
  intros Hi H c b Hc Hm Hb. apply (H c b); [|exact Hm|exact Hb].
  eapply Forall_impl; [|exact Hc]. exact Hi.
Qed.

Lemma rule_ef_seteq r fs fs' : seteq fs fs' -> rule_ef r fs -> rule_ef r fs'.
Proof. intros He. apply rule_ef_on_incl. intros g Hg. apply He. exact Hg. Qed.

(* whatever the outcome of the run, its world lies inside the least model *)
Lemma error_free_run lim rules facts fs e qs :
  run rx lim rules facts = (fs, e) -> error_free rules facts qs ->
  forall q, In q qs -> rule_ef q fs.
Proof.
  intros Hrun Hef q Hq. eapply rule_ef_on_incl; [|apply Hef; exact Hq].
  intros g Hg. eapply run_sound; eassumption.
Qed.

(* rules that are error-free over the least model: the run can only fail on a limit *)
Theorem error_free_no_rule_error lim rules facts fs e :
  error_free rules facts rules -> run rx lim rules facts = (fs, Some e) ->
  e = EMaxFacts \/ e = EMaxIterations.
Proof.
  intros Hef Hrun.
  destruct (run_error_cases rx _ _ _ _ _ Hrun) as [H|[H|[r [c [b [Hr [Ha [Hm [Hb Hcase]]]]]]]]];
    [left; exact H | right; exact H | exfalso].
  pose proof (error_free_run _ _ _ _ _ _ Hrun Hef r Hr) as Hq.
  destruct (Hq c b Ha Hm Hb) as [[v Hv] Hi].
  destruct Hcase as [[He _]|[He [Hh _]]]; [congruence | exact (Hi He Hh)].
Qed.

(* the declarative and the computed formulation agree *)
Lemma rule_ef_on_sim (M M' : pred -> Prop) q :
  wsim M' M -> rule_ef_on M q -> rule_ef_on M' q.
Proof.
  intros Hs H c' b' Hc' Hm' Hb'.
  destruct (tuple_sim M' M c' Hs Hc') as [c [Hc Hcc]].
  pose proof (matches_rel _ _ _ Hcc Hm') as Hm.
  assert (H0 : brel [] []) by constructor.
  pose proof (bind_all_rel (r_body q) c' c [] [] Hcc H0) as Hbb. rewrite Hb' in Hbb.
  destruct (bind_all (r_body q) c []) as [b|] eqn:Hb; cbn [orel] in Hbb; [|contradiction].
  destruct (H c b Hc Hm Hb) as [Hv Hi].
  rewrite (eval_exprs_rel rx b' b (r_exprs q) Hbb). split; [exact Hv|].
  intros He Hnone. apply (Hi He).
  pose proof (inst_head_rel (r_head q) b' b Hbb) as Hh. rewrite Hnone in Hh.
  destruct (inst_head (r_head q) b); [contradiction | reflexivity].
Qed.

Lemma error_free_of_run lim rules facts fs qs :
  run rx lim rules facts = (fs, None) ->
  (forall q, In q qs -> rule_ef q fs) -> error_free rules facts qs.
Proof.
  intros Hrun H q Hq. eapply rule_ef_on_sim; [|apply H; exact Hq].
  exact (run_complete_rel rx _ _ _ _ Hrun).
Qed.

Lemma rule_ef_no_error r fs acc : rule_ef r fs -> snd (apply_rule rx r fs acc) = None.
Proof.
  intro Hef. destruct (apply_rule rx r fs acc) as [acc' [e|]] eqn:H; [|reflexivity].
  exfalso. unfold apply_rule in H. apply consume_err in H as [c [Hc Hs]].
  apply combos_in in Hc as [Ha Hm]. apply tuple_out_stop in Hs as [b [Hb Hcase]].
  destruct (Hef c b Ha Hm Hb) as [[v Hv] Hi].
  destruct Hcase as [[He _]|[He [Hh _]]]; [congruence | exact (Hi He Hh)].
Qed.

(* "some tuple of [M]-facts matches the body consistently and passes the expressions" *)
Definition sat_on (M : pred -> Prop) (q : rule) : Prop :=
  exists c b,
    Forall M c /\
    Forall2 (fun g p => pred_match g p = true) c (r_body q) /\
    bind_all (r_body q) c [] = Some b /\
    eval_exprs rx (r_exprs q) b = Ok true.

Lemma sat_on_incl (M M' : pred -> Prop) q : (forall g, M g -> M' g) -> sat_on M q -> sat_on M' q.
Proof.
  intros Hi [c [b [Ha [Hm [Hb He]]]]]. exists c, b.
  split; [eapply Forall_impl; [|exact Ha]; exact Hi | auto].
Qed.

(* left to right needs nothing *)
Lemma query_nonempty_sat q fs : query_rule rx q fs <> [] -> sat_on (fun g => In g fs) q.
Proof.
  intro H. destruct (query_rule rx q fs) as [|h l] eqn:E; [congruence|].
  assert (Hin : In h (query_rule rx q fs)) by (rewrite E; left; reflexivity).
  apply query_sound in Hin as [c [b [Ha [Hm [Hb [He _]]]]]]. exists c, b. auto.
Qed.

(** 1a.  (No set-free hypothesis is needed for this one.) *)
Theorem query_nonempty_iff q fs :
  rule_ef q fs ->
  (query_rule rx q fs <> [] <->
   exists c b,
     Forall (fun g => In g fs) c /\
     Forall2 (fun g p => pred_match g p = true) c (r_body q) /\
     bind_all (r_body q) c [] = Some b /\
     eval_exprs rx (r_exprs q) b = Ok true).
Proof.
  intro Hef. split; [apply query_nonempty_sat|].
  intros [c [b [Ha [Hm [Hb He]]]]].
  destruct (Hef c b Ha Hm Hb) as [_ Hi].
  destruct (inst_head (r_head q) b) as [h|] eqn:Hh; [|exfalso; exact (Hi He eq_refl)].
  pose proof (rule_ef_no_error q fs [] Hef) as Hno.
  unfold query_rule. destruct (apply_rule rx q fs []) as [res e] eqn:Hap.
  cbn [fst snd] in *. subst e. unfold apply_rule in Hap.
  assert (Hc : In c (combos (r_body q) fs)) by (apply combos_in; split; assumption).
  assert (Ht : tuple_out rx q c = TEmit h).
  { apply tuple_out_emit. exists b. unfold fires. auto. }
  pose proof (consume_complete rx _ _ _ _ _ _ Hap Hc Ht) as Hfi.
  intro Hnil. subst res. discriminate Hfi.
Qed.

Theorem query_nonempty_seteq q fs fs' :
  seteq fs fs' -> rule_ef q fs ->
  (query_rule rx q fs <> [] <-> query_rule rx q fs' <> []).
Proof.
  intros He Hef.
  rewrite (query_nonempty_iff q fs Hef), (query_nonempty_iff q fs' (rule_ef_seteq _ _ _ He Hef)).
  split; apply sat_on_incl; intros g Hg; apply He; exact Hg.
Qed.

(** 1b *)
Theorem query_nonempty_perm q fs fs' :
  Permutation fs fs' -> rule_ef q fs ->
  (query_rule rx q fs <> [] <-> query_rule rx q fs' <> []).
Proof. intro H. apply query_nonempty_seteq. apply Permutation_seteq. exact H. Qed.

Definition check_ef (c : check) (fs : list pred) : Prop := forall q, In q c -> rule_ef q fs.

Theorem check_holds_seteq fs fs' c c' :
  seteq fs fs' -> seteq c c' -> check_ef c fs ->
  check_holds rx fs c = check_holds rx fs' c'.
Proof.
  intros Hf Hc Hef. apply Bool.eq_true_iff_eq.
  rewrite (C04_or_is_disjunction rx fs c), (C04_or_is_disjunction rx fs' c').
  split; intros [q [Hq Hne]]; exists q.
  - split; [apply Hc; exact Hq|]. apply (query_nonempty_seteq q fs fs' Hf); [apply Hef; exact Hq | exact Hne].
  - apply Hc in Hq. split; [exact Hq|].
    apply (query_nonempty_seteq q fs fs' Hf); [apply Hef; exact Hq | exact Hne].
Qed.

(** 1c *)
Theorem check_holds_perm fs fs' c c' :
  Permutation fs fs' -> Permutation c c' -> check_ef c fs ->
  check_holds rx fs c = check_holds rx fs' c'.
Proof. intros Hf Hc. apply check_holds_seteq; apply Permutation_seteq; assumption. Qed.

(** Up to Equal.  Two worlds with the same facts up to Predicate.Equal: every
    fact of one has an Equal fact in the other. *)
Definition weqv (fs fs' : list pred) : Prop :=
  wsim (fun g => In g fs) (fun g => In g fs') /\ wsim (fun g => In g fs') (fun g => In g fs).

Lemma weqv_sym fs fs' : weqv fs fs' -> weqv fs' fs.
Proof. intros [H1 H2]. split; assumption. Qed.

Lemma weqv_of_equivlist fs fs' : equivlistA fact_eqv fs fs' -> weqv fs fs'.
Proof.
  intros He. split; apply wsim_of_InA; intros f Hin; apply He; apply In_InA_fact; exact Hin.
Qed.

Lemma sat_on_sim (M M' : pred -> Prop) q : wsim M M' -> sat_on M q -> sat_on M' q.
Proof.
  intros Hs [c [b [Ha [Hm [Hb He]]]]].
  destruct (tuple_sim M M' c Hs Ha) as [c' [Hc' Hcc]].
  assert (H0 : brel [] []) by constructor.
  pose proof (bind_all_rel (r_body q) c c' [] [] Hcc H0) as Hbb. rewrite Hb in Hbb.
  destruct (bind_all (r_body q) c' []) as [b'|] eqn:Hb'; cbn [orel] in Hbb; [|contradiction].
  exists c', b'. split; [exact Hc'|]. split; [exact (matches_rel _ _ _ Hcc Hm)|].
  split; [exact Hb'|]. rewrite <- (eval_exprs_rel rx b b' (r_exprs q) Hbb). exact He.
Qed.

Lemma rule_ef_eqv q fs fs' : weqv fs fs' -> rule_ef q fs -> rule_ef q fs'.
Proof. intros [_ H]. apply rule_ef_on_sim; assumption. Qed.

Theorem query_nonempty_eqv q fs fs' :
  equivlistA fact_eqv fs fs' -> rule_ef q fs ->
  (query_rule rx q fs <> [] <-> query_rule rx q fs' <> []).
Proof.
  intros He Hef. apply weqv_of_equivlist in He.
  rewrite (query_nonempty_iff q fs Hef), (query_nonempty_iff q fs' (rule_ef_eqv _ _ _ He Hef)).
  destruct He as [H1 H2]. split; apply sat_on_sim; assumption.
Qed.

Theorem check_holds_eqv fs fs' c c' :
  equivlistA fact_eqv fs fs' -> seteq c c' -> check_ef c fs ->
  check_holds rx fs c = check_holds rx fs' c'.
Proof.
  intros Hf Hc Hef. apply Bool.eq_true_iff_eq.
  rewrite (C04_or_is_disjunction rx fs c), (C04_or_is_disjunction rx fs' c').
  split; intros [q [Hin Hne]]; exists q.
  - split; [apply Hc; exact Hin|].
    apply (query_nonempty_eqv q fs fs' Hf); [apply Hef; exact Hin | exact Hne].
  - apply Hc in Hin. split; [exact Hin|].
    apply (query_nonempty_eqv q fs fs' Hf); [apply Hef; exact Hin | exact Hne].
Qed.

(* ------------------------------------------------------------------ *)
(** * 2. Lists of checks *)

(* permuted as a list, each check permuted inside *)
Definition checks_perm (cs cs' : list check) : Prop :=
  exists mid, Permutation cs mid /\ Forall2 (@Permutation rule) mid cs'.

Definition checks_ef (cs : list check) (fs : list pred) : Prop :=
  forall c, In c cs -> check_ef c fs.

Lemma checks_perm_refl cs : checks_perm cs cs.
Proof.
  exists cs. split; [apply Permutation_refl|].
  induction cs as [|c cs IH]; constructor; [apply Permutation_refl | exact IH].
Qed.

Lemma failed_checks_length o fs cs : forall i,
  length (failed_checks rx o fs cs i) = length (filter (fun c => negb (check_holds rx fs c)) cs).
Proof.
  induction cs as [|c cs IH]; intros i; cbn [failed_checks filter]; [reflexivity|].
  rewrite app_length, IH. destruct (check_holds rx fs c); reflexivity.
Qed.

Lemma checks_ok_length o fs cs i :
  checks_ok rx fs cs = true <-> length (failed_checks rx o fs cs i) = 0.
Proof.
  rewrite <- (failed_checks_nil rx o fs cs i).
  destruct (failed_checks rx o fs cs i); cbn [length]; split; intro H;
    first [reflexivity | discriminate H].
Qed.

Theorem failed_checks_count_seteq fs fs' cs cs' o i o' i' :
  seteq fs fs' -> checks_perm cs cs' -> checks_ef cs fs ->
  length (failed_checks rx o fs cs i) = length (failed_checks rx o' fs' cs' i').
Proof.
  intros Hf [mid [Hp Hm]] Hef. rewrite !failed_checks_length.
  rewrite (filter_length_perm _ _ _ Hp). apply filter_length_Forall2.
  assert (Hefm : forall c, In c mid -> check_ef c fs).
  { intros c Hc. apply Hef. eapply Permutation_in; [apply Permutation_sym; exact Hp | exact Hc]. }
  clear Hp Hef. induction Hm as [|c c' mid cs' Hc Hm IH]; constructor.
  - f_equal. apply check_holds_seteq; [exact Hf | apply Permutation_seteq; exact Hc|].
    apply Hefm. left. reflexivity.
  - apply IH. intros c0 Hc0. apply Hefm. right. exact Hc0.
Qed.

(** 2 *)
Theorem checks_ok_perm fs fs' cs cs' :
  Permutation fs fs' -> checks_perm cs cs' -> checks_ef cs fs ->
  checks_ok rx fs cs = checks_ok rx fs' cs' /\
  forall o i o' i',
    length (failed_checks rx o fs cs i) = length (failed_checks rx o' fs' cs' i').
Proof.
  intros Hf Hc Hef. apply Permutation_seteq in Hf.
  pose proof (failed_checks_count_seteq fs fs' cs cs' FromAuthorizer 0%N FromAuthorizer 0%N Hf Hc Hef) as Hl.
  split.
  - apply Bool.eq_true_iff_eq.
    rewrite (checks_ok_length FromAuthorizer fs cs 0%N), (checks_ok_length FromAuthorizer fs' cs' 0%N).
    rewrite Hl. reflexivity.
  - intros o i o' i'. apply failed_checks_count_seteq; assumption.
Qed.

Theorem failed_checks_count_eqv fs fs' cs cs' o i o' i' :
  equivlistA fact_eqv fs fs' -> checks_perm cs cs' -> checks_ef cs fs ->
  length (failed_checks rx o fs cs i) = length (failed_checks rx o' fs' cs' i').
Proof.
  intros Hf [mid [Hp Hm]] Hef. rewrite !failed_checks_length.
  rewrite (filter_length_perm _ _ _ Hp). apply filter_length_Forall2.
  assert (Hefm : forall c, In c mid -> check_ef c fs).
  { intros c Hc. apply Hef. eapply Permutation_in; [apply Permutation_sym; exact Hp | exact Hc]. }
  clear Hp Hef. induction Hm as [|c c' mid cs' Hc Hm IH]; constructor.
  - f_equal. apply check_holds_eqv; [exact Hf | apply Permutation_seteq; exact Hc|].
    apply Hefm. left. reflexivity.
  - apply IH. intros c0 Hc0. apply Hefm. right. exact Hc0.
Qed.

(* ------------------------------------------------------------------ *)
(** * 3. Policies: the list order is significant and is kept *)

Definition policy_perm (p p' : policy) : Prop :=
  pol_kind p = pol_kind p' /\ Permutation (pol_queries p) (pol_queries p').

Definition policies_ef (ps : list policy) (fs : list pred) : Prop :=
  forall p, In p ps -> check_ef (pol_queries p) fs.

Lemma policies_perm_refl ps : Forall2 policy_perm ps ps.
Proof.
  induction ps as [|p ps IH]; constructor; [|exact IH].
  split; [reflexivity | apply Permutation_refl].
Qed.

Theorem policy_result_seteq fs fs' ps ps' :
  seteq fs fs' -> Forall2 policy_perm ps ps' -> policies_ef ps fs ->
  policy_result rx fs ps = policy_result rx fs' ps'.
Proof.
  intros Hf Hp. induction Hp as [|p p' ps ps' [Hk Hq] Hp IH]; intro Hef; cbn [policy_result];
    [reflexivity|].
  rewrite <- (check_holds_seteq fs fs' (pol_queries p) (pol_queries p') Hf
                (Permutation_seteq _ _ Hq) (Hef p (or_introl eq_refl))).
  rewrite Hk, IH; [reflexivity|]. intros p0 Hp0. apply Hef. right. exact Hp0.
Qed.

(** 3 *)
Theorem policy_result_perm_facts fs fs' ps ps' :
  Permutation fs fs' -> Forall2 policy_perm ps ps' -> policies_ef ps fs ->
  policy_result rx fs ps = policy_result rx fs' ps'.
Proof. intro H. apply policy_result_seteq. apply Permutation_seteq. exact H. Qed.

Theorem policy_result_eqv fs fs' ps ps' :
  equivlistA fact_eqv fs fs' -> Forall2 policy_perm ps ps' -> policies_ef ps fs ->
  policy_result rx fs ps = policy_result rx fs' ps'.
Proof.
  intros Hf Hp. induction Hp as [|p p' ps ps' [Hk Hq] Hp IH]; intros Hef; cbn [policy_result];
    [reflexivity|].
  rewrite <- (check_holds_eqv fs fs' (pol_queries p) (pol_queries p') Hf
                (Permutation_seteq _ _ Hq) (Hef p (or_introl eq_refl))).
  rewrite Hk, IH; [reflexivity|]. intros p0 Hp0. apply Hef. right. exact Hp0.
Qed.

(* the policy order cannot be permuted: first match wins *)

(* ------------------------------------------------------------------ *)
(** * 4. C12, permutation of everything but the policy list *)

Inductive vclass :=
| KSuccess | KPolicyDenied | KNoMatchingPolicy
| KChecksFailed (n : nat)          (* how many checks failed; the indices are renumbered *)
| KRunError (e : err).

Definition verdict_class (v : verdict) : vclass :=
  match v with
  | VSuccess => KSuccess
  | VPolicyDenied => KPolicyDenied
  | VNoMatchingPolicy => KNoMatchingPolicy
  | VChecksFailed l => KChecksFailed (length l)
  | VRunError e => KRunError e
  end.

Record block_perm (b b' : block) : Prop := {
  bp_facts : Permutation (b_facts b) (b_facts b');
  bp_rules : Permutation (b_rules b) (b_rules b');
  bp_checks : checks_perm (b_checks b) (b_checks b') }.

Record astate_perm (a a' : astate) : Prop := {
  ap_facts : Permutation (a_facts a) (a_facts a');
  ap_rules : Permutation (a_rules a) (a_rules a');
  ap_checks : checks_perm (a_checks a) (a_checks a');
  ap_policies : Forall2 policy_perm (a_policies a) (a_policies a');
  ap_limits : a_limits a = a_limits a' }.

Lemma block_perm_refl b : block_perm b b.
Proof. split; [apply Permutation_refl | apply Permutation_refl | apply checks_perm_refl]. Qed.

(* every Datalog run inside [authorize rx tok a] ends without error *)
Definition runs_ok (tok : list block) (a : astate) : Prop :=
  snd (auth_world rx (hd empty_block tok) a) = None /\
  Forall (fun b => snd (block_world rx (a_limits a)
                          (fst (auth_world rx (hd empty_block tok) a)) b) = None) (tl tok).

(* every check / policy query is error-free on the world it is evaluated on *)
Definition queries_ef (tok : list block) (a : astate) : Prop :=
  let fs := fst (auth_world rx (hd empty_block tok) a) in
  checks_ef (a_checks a) fs /\
  checks_ef (b_checks (hd empty_block tok)) fs /\
  policies_ef (a_policies a) fs /\
  Forall (fun b => checks_ef (b_checks b) (fst (block_world rx (a_limits a) fs b))) (tl tok).

Lemma authorize_hd_tl tok a : authorize rx tok a = authorize rx (hd empty_block tok :: tl tok) a.
Proof. destruct tok as [|b bs]; reflexivity. Qed.

(* [runs_ok] is exactly "the verdict is not a run error" *)
Lemma runs_ok_iff tok a : runs_ok tok a <-> forall e, snd (authorize rx tok a) <> VRunError e.
Proof.
  unfold runs_ok. rewrite authorize_hd_tl, authorize_cons.
  destruct (auth_world rx (hd empty_block tok) a) as [fs [e0|]] eqn:Hw; cbn [fst snd].
  - split; [intros [H _]; discriminate H | intro H; exfalso; exact (H e0 eq_refl)].
  - destruct (blocks_phase rx (a_limits a) fs (tl tok) 1) as [l|e1|s] eqn:Hb.
    + split.
      * intros _ e. unfold verdict_of. destruct (_ ++ _); [|discriminate].
        destruct (policy_result rx fs (a_policies a)) as [[|]|]; discriminate.
      * intros _. split; [reflexivity|]. exact (blocks_phase_ok_all rx _ _ _ _ _ Hb).
    + split; [|intro H; exfalso; exact (H e1 eq_refl)].
      intros [_ H] e. exfalso. clear e.
      assert (Hall : forall i, exists l, blocks_phase rx (a_limits a) fs (tl tok) i = Ok l).
      { clear Hb. induction H as [|b bs Hb0 H IH]; intros i; [exists []; reflexivity|].
        rewrite blocks_phase_cons. unfold block_outcome.
        destruct (block_world rx (a_limits a) fs b) as [w [e|]]; [discriminate Hb0|].
        destruct (IH (i + 1)%N) as [l ->]. eexists. reflexivity. }
      destruct (Hall 1%N) as [l Hl]. congruence.
    + exfalso. exact (blocks_phase_no_panic rx _ _ _ _ _ Hb).
Qed.

Lemma verdict_class_verdict_of errs errs' pol pol' :
  length errs = length errs' -> pol = pol' ->
  verdict_class (verdict_of errs pol) = verdict_class (verdict_of errs' pol').
Proof.
  intros Hl ->. destruct errs as [|x l], errs' as [|x' l']; cbn [length] in Hl;
    try discriminate Hl; [reflexivity|].
  cbn [verdict_of verdict_class length]. rewrite Hl. reflexivity.
Qed.

(* one block on top of authority-level worlds that are the same up to Equal *)
Lemma block_world_eqv lim lim' fs fs' b b' w w' :
  equivlistA fact_eqv fs fs' -> block_perm b b' ->
  block_world rx lim fs b = (w, None) -> block_world rx lim' fs' b' = (w', None) ->
  equivlistA fact_eqv w w'.
Proof.
  intros He [Hbf Hbr _] Hw Hw'. unfold block_world in *.
  eapply (run_equivlist rx lim lim' (b_rules b) (b_rules b')); [ | | exact Hw | exact Hw'].
  - apply fold_insert_equivlist. apply equivlist_app; [exact He | apply Permutation_equivlist; exact Hbf].
  - apply Permutation_seteq. exact Hbr.
Qed.

Lemma blocks_phase_eqv lim lim' fs fs' bs bs' :
  equivlistA fact_eqv fs fs' ->
  Forall2 block_perm bs bs' ->
  Forall (fun b => snd (block_world rx lim fs b) = None) bs ->
  Forall (fun b => snd (block_world rx lim' fs' b) = None) bs' ->
  Forall (fun b => checks_ef (b_checks b) (fst (block_world rx lim fs b))) bs ->
  forall i i', exists l l',
    blocks_phase rx lim fs bs i = Ok l /\ blocks_phase rx lim' fs' bs' i' = Ok l' /\
    length l = length l'.
Proof.
  intros He HF. induction HF as [|b b' bs bs' Hb HF IH]; intros Hok Hok' Hef i i'.
  - exists [], []. repeat split; reflexivity.
  - rewrite !blocks_phase_cons. unfold block_outcome.
    pose proof (Forall_inv Hok) as Hok1. pose proof (Forall_inv Hok') as Hok1'.
    pose proof (Forall_inv Hef) as Hef1. cbn beta in Hok1, Hok1', Hef1.
    destruct (block_world rx lim fs b) as [w [e|]] eqn:Hw; [discriminate Hok1|].
    destruct (block_world rx lim' fs' b') as [w' [e|]] eqn:Hw'; [discriminate Hok1'|].
    cbn [fst] in Hef1.
    pose proof (block_world_eqv lim lim' fs fs' b b' w w' He Hb Hw Hw') as Hww.
    destruct (IH (Forall_inv_tail Hok) (Forall_inv_tail Hok')
                 (Forall_inv_tail Hef) (i + 1)%N (i' + 1)%N) as [l [l' [Hl [Hl' Hlen]]]].
    rewrite Hl, Hl'. cbn [bind]. eexists. eexists. split; [reflexivity|]. split; [reflexivity|].
    rewrite !app_length, Hlen. f_equal.
    apply failed_checks_count_eqv; [exact Hww | exact (bp_checks _ _ Hb) | exact Hef1].
Qed.

(* the authority-level worlds *)
Lemma auth_world_eqv auth auth' a a' fs fs' :
  block_perm auth auth' -> astate_perm a a' ->
  auth_world rx auth a = (fs, None) -> auth_world rx auth' a' = (fs', None) ->
  equivlistA fact_eqv fs fs' /\
  (NoDupA fact_eqv (a_facts a) -> PermutationA fact_eqv fs fs').
Proof.
  intros [Hbf Hbr _] [Haf Har _ _ _] Hw Hw'. unfold auth_world in *.
  assert (Heq : equivlistA fact_eqv fs fs').
  { eapply (run_equivlist rx _ _ (a_rules a ++ b_rules auth) (a_rules a' ++ b_rules auth'));
      [ | | exact Hw | exact Hw'].
    - apply fold_insert_equivlist. apply equivlist_app; apply Permutation_equivlist; assumption.
    - apply Permutation_seteq. apply Permutation_app; assumption. }
  split; [exact Heq|].
  intro Hn. apply NoDupA_equivlistA_PermutationA; [exact fact_eqv_Equivalence | | | exact Heq].
  - eapply run_nodupA; [|exact Hw]. apply fold_insert_NoDupA. exact Hn.
  - eapply run_nodupA; [|exact Hw']. apply fold_insert_NoDupA. eapply NoDupA_perm; eassumption.
Qed.

Theorem C12_permutation_cons auth auth' bs bs' a a' :
  block_perm auth auth' -> Forall2 block_perm bs bs' -> astate_perm a a' ->
  NoDupA fact_eqv (a_facts a) ->
  runs_ok (auth :: bs) a -> runs_ok (auth' :: bs') a' ->
  queries_ef (auth :: bs) a ->
  verdict_class (snd (authorize rx (auth :: bs) a)) =
  verdict_class (snd (authorize rx (auth' :: bs') a')) /\
  PermutationA fact_eqv (a_facts (fst (authorize rx (auth :: bs) a)))
                        (a_facts (fst (authorize rx (auth' :: bs') a'))).
Proof.
  intros Hauth Hbs Ha Hn [Hok Hoks] [Hok' Hoks'] [Hef1 [Hef2 [Hef3 Hef4]]].
  cbn [hd tl] in *. rewrite !authorize_cons.
  destruct (auth_world rx auth a) as [fs [e|]] eqn:Hw; [discriminate Hok|].
  destruct (auth_world rx auth' a') as [fs' [e|]] eqn:Hw'; [discriminate Hok'|].
  cbn [fst snd] in *.
  destruct (auth_world_eqv auth auth' a a' fs fs' Hauth Ha Hw Hw') as [Heq Hp].
  rewrite <- (ap_limits _ _ Ha) in *.
  destruct (blocks_phase_eqv (a_limits a) (a_limits a) fs fs' bs bs' Heq Hbs
              Hoks Hoks' Hef4 1%N 1%N) as [l [l' [Hl [Hl' Hlen]]]].
  rewrite Hl, Hl'. split; [|exact (Hp Hn)].
  apply verdict_class_verdict_of.
  - rewrite !app_length, Hlen. f_equal; [|f_equal].
    + apply failed_checks_count_eqv; [exact Heq | exact (ap_checks _ _ Ha) | exact Hef1].
    + apply failed_checks_count_eqv; [exact Heq | exact (bp_checks _ _ Hauth) | exact Hef2].
  - apply policy_result_eqv; [exact Heq | exact (ap_policies _ _ Ha) | exact Hef3].
Qed.

(** 4.  C12, permutations.  [tok] and [tok'] have the same number of blocks,
    block by block permuted; the authorizer likewise; the policy list keeps
    its order.  Same verdict class; the same world up to Predicate.Equal.  No
    hypothesis on set constants or set operators. *)
Theorem C12_permutation tok tok' a a' :
  Forall2 block_perm tok tok' -> astate_perm a a' ->
  NoDupA fact_eqv (a_facts a) ->
  runs_ok tok a -> runs_ok tok' a' ->
  queries_ef tok a ->
  verdict_class (snd (authorize rx tok a)) = verdict_class (snd (authorize rx tok' a')) /\
  PermutationA fact_eqv (a_facts (fst (authorize rx tok a))) (a_facts (fst (authorize rx tok' a'))).
Proof.
  intros Htok Ha Hn Hok Hok' Hef.
  rewrite (authorize_hd_tl tok a), (authorize_hd_tl tok' a').
  apply C12_permutation_cons; try assumption.
  - destruct Htok as [|b b' bs bs' Hb Hbs]; [apply block_perm_refl | exact Hb].
  - destruct Htok as [|b b' bs bs' Hb Hbs]; [constructor | exact Hbs].
Qed.

(* the earlier statement, for set-free facts and rule heads: there
   Predicate.Equal is equality and the conclusion is a plain permutation *)
Corollary C12_permutation_setfree tok tok' a a' :
  Forall2 block_perm tok tok' -> astate_perm a a' ->
  setfree_facts (a_facts a) -> setfree_rules (a_rules a) ->
  Forall (fun b => setfree_facts (b_facts b) /\ setfree_rules (b_rules b)) tok ->
  NoDup (a_facts a) ->
  runs_ok tok a -> runs_ok tok' a' ->
  queries_ef tok a ->
  verdict_class (snd (authorize rx tok a)) = verdict_class (snd (authorize rx tok' a')) /\
  Permutation (a_facts (fst (authorize rx tok a))) (a_facts (fst (authorize rx tok' a'))).
Proof.
  intros Htok Ha Hsf Hsr Hst Hn Hok Hok' Hef.
  destruct (C12_permutation tok tok' a a' Htok Ha) as [Hv Hp]; try assumption.
  - apply NoDup_setfree_NoDupA; assumption.
  - split; [exact Hv|]. apply PermutationA_setfree; [|exact Hp].
    rewrite (authorize_hd_tl tok a), authorize_cons.
    destruct Hok as [Hok _].
    destruct (auth_world rx (hd empty_block tok) a) as [fs [e|]] eqn:Hw; [discriminate Hok|].
    assert (Hfs : setfree_facts fs).
    { unfold auth_world in Hw. eapply (run_setfree rx); [| |exact Hw].
      - apply insert_all_setfree; [exact Hsf|].
        destruct Hst as [|b bs [Hb _] _]; [constructor | exact Hb].
      - unfold setfree_rules. apply Forall_app. split; [exact Hsr|].
        destruct Hst as [|b bs [_ Hb] _]; [constructor | exact Hb]. }
    destruct (blocks_phase rx (a_limits a) fs (tl tok) 1) as [l|e|s]; exact Hfs.
Qed.

(* the authority-only case, as a named corollary *)
Corollary C12_permutation_authority auth auth' a a' :
  block_perm auth auth' -> astate_perm a a' ->
  NoDupA fact_eqv (a_facts a) ->
  runs_ok [auth] a -> runs_ok [auth'] a' ->
  queries_ef [auth] a ->
  verdict_class (snd (authorize rx [auth] a)) = verdict_class (snd (authorize rx [auth'] a')) /\
  PermutationA fact_eqv (a_facts (fst (authorize rx [auth] a))) (a_facts (fst (authorize rx [auth'] a'))).
Proof.
  intros Hauth Ha Hn Hok Hok' Hef.
  apply C12_permutation_cons; try assumption; constructor.
Qed.

(* ------------------------------------------------------------------ *)
(** * 5. C12, duplicates *)

(** adding the same authorizer fact twice is a no-op (unconditionally) *)
Theorem C12_duplicate a f : add_fact (add_fact a f) f = add_fact a f.
Proof. unfold add_fact. cbn [a_facts a_rules a_checks a_policies a_dirty a_limits].
  rewrite insert_fact_idem. reflexivity. Qed.

(* more generally: adding a fact that is present is a no-op *)
Theorem C12_duplicate_present a f : In f (a_facts a) -> add_fact a f = a.
Proof.
  intro H. unfold add_fact. rewrite (insert_present _ _ H). destruct a; reflexivity.
Qed.

(** a fact occurring twice in a block: the whole of [authorize] is unchanged
    (state and verdict), unconditionally.  Authority block: *)
Theorem C12_duplicate_authority_fact l1 l2 l3 f rs cs bs a :
  authorize rx ({| b_facts := l1 ++ f :: l2 ++ f :: l3; b_rules := rs; b_checks := cs |} :: bs) a =
  authorize rx ({| b_facts := l1 ++ f :: l2 ++ l3; b_rules := rs; b_checks := cs |} :: bs) a.
Proof.
  rewrite !authorize_cons. unfold auth_world. cbn [b_facts b_rules b_checks].
  rewrite fold_insert_dup. reflexivity.
Qed.

(* later block *)
Theorem C12_duplicate_block_fact lim fs l1 l2 l3 f rs cs i :
  block_outcome rx lim fs {| b_facts := l1 ++ f :: l2 ++ f :: l3; b_rules := rs; b_checks := cs |} i =
  block_outcome rx lim fs {| b_facts := l1 ++ f :: l2 ++ l3; b_rules := rs; b_checks := cs |} i.
Proof.
  unfold block_outcome, block_world. cbn [b_facts b_rules b_checks].
  rewrite fold_insert_dup. reflexivity.
Qed.

(** an authorizer fact that the authority block also carries (or conversely),
    or a fact Equal to it: the loaded world is the same up to Equal, the closed
    world a permutation up to Equal.  Stated for arbitrary fact lists with the
    same union. *)
Theorem C12_duplicate_world lim lim' rules l l' fs fs' w w' :
  NoDupA fact_eqv fs -> NoDupA fact_eqv fs' ->
  equivlistA fact_eqv (fs ++ l) (fs' ++ l') ->
  run rx lim rules (fold_left insert_fact l fs) = (w, None) ->
  run rx lim' rules (fold_left insert_fact l' fs') = (w', None) ->
  PermutationA fact_eqv w w'.
Proof.
  intros Hn Hn' He Hw Hw'.
  eapply (run_seteq lim lim' rules rules); [ | | | apply seteq_refl | exact Hw | exact Hw'].
  - apply fold_insert_NoDupA; exact Hn.
  - apply fold_insert_NoDupA; exact Hn'.
  - apply fold_insert_equivlist; exact He.
Qed.

Corollary C12_duplicate_authorizer_fact auth a f w w' :
  NoDupA fact_eqv (a_facts a) -> InA fact_eqv f (b_facts auth) ->
  auth_world rx auth a = (w, None) -> auth_world rx auth (add_fact a f) = (w', None) ->
  PermutationA fact_eqv w w'.
Proof.
  intros Hn Hf Hw Hw'. unfold auth_world, add_fact in *.
  cbn [a_facts a_rules a_limits] in Hw'.
  eapply C12_duplicate_world; [exact Hn | | | exact Hw | exact Hw'].
  - apply insert_fact_NoDupA. exact Hn.
  - intro x. rewrite !InA_app_iff, insert_fact_InA. split.
    + intros [H|H]; [left; left; exact H | right; exact H].
    + intros [[H|H]|H]; [left; exact H | | right; exact H].
      right. eapply InA_eqA; [exact fact_eqv_Equivalence | symmetry; exact H | exact Hf].
Qed.

(* ------------------------------------------------------------------ *)
(** * 6. C12, repetition *)

Lemma apply_rules_no_err rs fs :
  (forall r, In r rs -> snd (apply_rule rx r fs []) = None) ->
  forall acc, snd (apply_rules rx rs fs acc) = None.
Proof.
  induction rs as [|r rs IH]; intros H acc; [reflexivity|].
  rewrite apply_rules_cons.
  pose proof (H r (or_introl eq_refl)) as Hr. unfold apply_rule in *.
  rewrite (consume_err_indep rx r (combos (r_body r) fs) [] acc) in Hr.
  destruct (consume rx r (combos (r_body r) fs) acc) as [acc1 [e1|]]; [discriminate Hr|].
  apply IH. intros r0 Hr0. apply H. right. exact Hr0.
Qed.

(* a world closed under the rules (up to Equal) is left as it is, literally *)
Definition closed_under (rs : list rule) (fs : list pred) : Prop :=
  forall r c b f, In r rs -> In c (combos (r_body r) fs) -> fires rx r c b f -> fact_in f fs = true.

Lemma closed_round rs fs nf e :
  closed_under rs fs -> apply_rules rx rs fs [] = (nf, e) -> insert_all fs nf = fs.
Proof.
  intros Hc Ha. apply insert_all_noop. intros f Hf.
  destruct (apply_rules_in rx _ _ _ _ _ Ha f Hf) as [[]|[r [c [b [Hr [Hcm Hfi]]]]]].
  eapply Hc; eassumption.
Qed.

Lemma run_closed_ok lim rs fs :
  closed_under rs fs ->
  (forall r, In r rs -> snd (apply_rule rx r fs []) = None) ->
  (lenN fs < max_facts lim)%N -> max_iterations lim <> 0%N ->
  run rx lim rs fs = (fs, None).
Proof.
  intros Hc Hno Hlt Hit. unfold run.
  destruct (N.to_nat (max_iterations lim)) as [|n] eqn:Hn; [lia|].
  rewrite run_loop_S.
  pose proof (apply_rules_no_err rs fs Hno []) as Herr.
  destruct (apply_rules rx rs fs []) as [nf [e|]] eqn:Ha; [discriminate Herr|].
  rewrite (closed_round rs fs nf None Hc Ha).
  apply N.leb_gt in Hlt. rewrite Hlt, Nat.eqb_refl. reflexivity.
Qed.

(** 6.  After an [authorize] whose authority-level run ended without error,
    [authorize] is idempotent: same state, same verdict — including the list
    of failed checks, and including a run error raised by a later block.
    No hypothesis on set constants, no error-freeness hypothesis on the
    queries, no [NoDup]. *)
Theorem C12_repeat_state tok a :
  snd (auth_world rx (hd empty_block tok) a) = None ->
  authorize rx tok (fst (authorize rx tok a)) = authorize rx tok a.
Proof.
  intros Hok.
  rewrite (authorize_hd_tl tok a), (authorize_hd_tl tok).
  set (auth := hd empty_block tok) in *. set (bs := tl tok).
  rewrite (authorize_cons rx auth bs a).
  destruct (auth_world rx auth a) as [fs [e|]] eqn:Hw; [discriminate Hok|]. cbn [fst].
  assert (Hw2 : auth_world rx auth (mk_state a fs []) = (fs, None)).
  { unfold auth_world in *. cbn [mk_state a_limits a_rules a_facts app].
    rewrite fold_insert_noop.
    - apply run_closed_ok.
      + intros r c b f Hr Hc Hfi.
        eapply (run_ok_closed rx _ _ _ _ Hw r c b f); [|exact Hc|exact Hfi].
        apply in_or_app. right. exact Hr.
      + intros r Hr. eapply (run_ok_no_rule_error rx _ _ _ _ Hw).
        apply in_or_app. right. exact Hr.
      + eapply run_ok_below_max_facts. exact Hw.
      + intro Hz. rewrite (run_max_iterations_zero rx _ _ _ Hz) in Hw. discriminate Hw.
    - intros f Hf. eapply fact_in_mono; [|apply fold_insert_fact_in; exact Hf].
      intros x Hx. eapply run_extends; [exact Hw | exact Hx]. }
  rewrite authorize_cons, Hw2. reflexivity.
Qed.

Theorem C12_repeat tok a :
  (forall e, snd (authorize rx tok a) <> VRunError e) ->
  snd (authorize rx tok (fst (authorize rx tok a))) = snd (authorize rx tok a).
Proof.
  intros Hne. rewrite C12_repeat_state; [reflexivity|].
  apply runs_ok_iff in Hne. exact (proj1 Hne).
Qed.

(* any number of repetitions *)
Fixpoint authorize_times (n : nat) (tok : list block) (a : astate) : astate :=
  match n with
  | O => a
  | S n' => fst (authorize rx tok (authorize_times n' tok a))
  end.

Corollary C12_repeat_n tok a n :
  snd (auth_world rx (hd empty_block tok) a) = None ->
  authorize rx tok (authorize_times n tok a) = authorize rx tok a.
Proof.
  intros Hok. induction n as [|n IH]; [reflexivity|].
  cbn [authorize_times]. rewrite IH. apply C12_repeat_state; assumption.
Qed.

(* ------------------------------------------------------------------ *)
(** * 8. C04 composed with C05: the worlds of [authorize] are least models *)

Lemma auth_world_least_model auth a fs :
  auth_world rx auth a = (fs, None) ->
  (forall f, In f fs ->
     Derivable rx (a_rules a ++ b_rules auth) (fold_left insert_fact (b_facts auth) (a_facts a)) f) /\
  (forall f,
     Derivable rx (a_rules a ++ b_rules auth) (fold_left insert_fact (b_facts auth) (a_facts a)) f ->
     InA fact_eqv f fs) /\
  (NoDupA fact_eqv (a_facts a) -> NoDupA fact_eqv fs).
Proof.
  intros Hw. unfold auth_world in Hw. split; [|split].
  - eapply run_sound; exact Hw.
  - eapply run_complete; eassumption.
  - intro Hn. eapply run_nodupA; [|exact Hw]. apply fold_insert_NoDupA. exact Hn.
Qed.

Lemma block_world_least_model lim fs b w :
  block_world rx lim fs b = (w, None) ->
  (forall f, In f w -> Derivable rx (b_rules b) (fold_left insert_fact (b_facts b) fs) f) /\
  (forall f, Derivable rx (b_rules b) (fold_left insert_fact (b_facts b) fs) f -> InA fact_eqv f w) /\
  (NoDupA fact_eqv fs -> NoDupA fact_eqv w).
Proof.
  intros Hw. unfold block_world in Hw. split; [|split].
  - eapply run_sound; exact Hw.
  - eapply run_complete; eassumption.
  - intro Hn. eapply run_nodupA; [|exact Hw]. apply fold_insert_NoDupA. exact Hn.
Qed.

(** 8a.  Every fact of a world is derivable; every derivable fact has an Equal
    fact in the world.  For every program. *)
Theorem C04_worlds_are_least_models auth a fs :
  auth_world rx auth a = (fs, None) ->
  ((forall f, In f fs ->
      Derivable rx (a_rules a ++ b_rules auth) (fold_left insert_fact (b_facts auth) (a_facts a)) f) /\
   (forall f,
      Derivable rx (a_rules a ++ b_rules auth) (fold_left insert_fact (b_facts auth) (a_facts a)) f ->
      InA fact_eqv f fs))
  /\
  (forall lim b w, block_world rx lim fs b = (w, None) ->
     (forall f, In f w -> Derivable rx (b_rules b) (fold_left insert_fact (b_facts b) fs) f) /\
     (forall f, Derivable rx (b_rules b) (fold_left insert_fact (b_facts b) fs) f -> InA fact_eqv f w)).
Proof.
  intros Hw.
  destruct (auth_world_least_model auth a fs Hw) as [Hs [Hc _]].
  split; [split; assumption|]. intros lim b w Hbw.
  destruct (block_world_least_model lim fs b w Hbw) as [Hs' [Hc' _]]. split; assumption.
Qed.

(* ---- a base given as a predicate, so that the specification below mentions
        neither [insert_fact] nor any computed list ---- *)

Inductive DerivableP (rules : list rule) (B : pred -> Prop) : pred -> Prop :=
| DP_base f : B f -> DerivableP rules B f
| DP_rule r c b f :
    In r rules ->
    Forall (DerivableP rules B) c ->
    Forall2 (fun g p => pred_match g p = true) c (r_body r) ->
    bind_all (r_body r) c [] = Some b ->
    eval_exprs rx (r_exprs r) b = Ok true ->
    inst_head (r_head r) b = Some f ->
    DerivableP rules B f.

Section DerivablePInd.
  Variable rules : list rule.
  Variable B : pred -> Prop.
  Variable P : pred -> Prop.
  Hypothesis Hbase : forall f, B f -> P f.
  Hypothesis Hrule : forall r c b f,
    In r rules -> Forall P c ->
    Forall2 (fun g p => pred_match g p = true) c (r_body r) ->
    bind_all (r_body r) c [] = Some b ->
    eval_exprs rx (r_exprs r) b = Ok true ->
    inst_head (r_head r) b = Some f ->
    P f.

  Lemma DerivableP_strong_ind : forall f, DerivableP rules B f -> P f.
  Proof.
    fix IH 2. intros f d. destruct d as [f H | r c b f Hr Hc Hm Hb He Hh].
    - apply Hbase; exact H.
    - assert (Hall : Forall P c).
      { clear Hr Hm Hb He Hh. revert c Hc. fix IHc 2. intros c Hc.
        destruct Hc as [|x l Hx Hl].
        - constructor.
        - constructor; [apply IH; exact Hx | apply IHc; exact Hl]. }
      eapply Hrule; eassumption.
  Qed.
End DerivablePInd.

Lemma DerivableP_mono rules (B B' : pred -> Prop) :
  (forall g, B g -> B' g) -> forall f, DerivableP rules B f -> DerivableP rules B' f.
Proof.
  intro Hi. apply DerivableP_strong_ind.
  - intros f Hf. apply DP_base. apply Hi. exact Hf.
  - intros r c b f Hr Hall Hm Hb He Hh. eapply DP_rule; eassumption.
Qed.

Lemma DerivableP_ext rules (B B' : pred -> Prop) :
  (forall g, B g <-> B' g) -> forall f, DerivableP rules B f <-> DerivableP rules B' f.
Proof. intros H f. split; apply DerivableP_mono; intros g Hg; apply H; exact Hg. Qed.

Lemma Derivable_DerivableP rules facts f :
  Derivable rx rules facts f <-> DerivableP rules (fun g => In g facts) f.
Proof.
  split.
  - revert f. apply Derivable_strong_ind.
    + intros f Hf. apply DP_base. exact Hf.
    + intros r c b f Hr _ Hall Hm Hb He Hh. eapply DP_rule; eassumption.
  - revert f. apply DerivableP_strong_ind.
    + intros f Hf. apply D_base. exact Hf.
    + intros r c b f Hr Hall Hm Hb He Hh. eapply D_rule; eassumption.
Qed.

(* the simulation lemma of DatalogProofs.v, for a base given as a predicate *)
Lemma DerivableP_sim rules (B W : pred -> Prop) :
  wsim B W ->
  (forall r c b f, In r rules -> Forall W c ->
     Forall2 (fun g p => pred_match g p = true) c (r_body r) -> fires rx r c b f ->
     exists g, W g /\ prel f g) ->
  wsim (DerivableP rules B) W.
Proof.
  intros Hbase Hclosed. unfold wsim. apply DerivableP_strong_ind; [exact Hbase|].
  intros r c b f Hr Hall Hm Hb He Hh.
  destruct (tuple_sim (fun f => exists g, W g /\ prel f g) W c) as [c' [Hc' Hcc]].
  - intros x [g [Hg Hxg]]. exists g. split; assumption.
  - exact Hall.
  - destruct (fires_sim rx r c c' b f Hcc (conj Hb (conj He Hh))) as [b' [f' [Hfi Hff]]].
    destruct (Hclosed r c' b' f' Hr Hc' (matches_rel _ _ _ Hcc Hm) Hfi) as [g [Hg Hfg]].
    exists g. split; [exact Hg | eapply prel_trans; eassumption].
Qed.

(* a declarative model over a base that covers the loaded facts up to Equal is
   covered by the least model of the loaded facts *)
Lemma DerivableP_to_Derivable rules (B : pred -> Prop) facts :
  wsim B (fun g => In g facts) ->
  wsim (DerivableP rules B) (Derivable rx rules facts).
Proof.
  intros HB. apply DerivableP_sim.
  - intros f Hf. destruct (HB f Hf) as [g [Hg Hfg]]. exists g. split; [apply D_base; exact Hg | exact Hfg].
  - intros r c b f Hin Hall Hm [Hb [He Hh]]. exists f. split; [|apply prel_refl].
    eapply D_rule; eassumption.
Qed.

(* the two scopes, declaratively *)
Definition auth_model (auth : block) (a : astate) : pred -> Prop :=
  DerivableP (a_rules a ++ b_rules auth) (fun g => In g (a_facts a) \/ In g (b_facts auth)).

Definition block_model (M0 : pred -> Prop) (b : block) : pred -> Prop :=
  DerivableP (b_rules b) (fun g => M0 g \/ In g (b_facts b)).

(* a world [fs] realises a declarative model [M]: its facts are in [M], and
   every fact of [M] has an Equal fact in [fs] *)
Definition realises (fs : list pred) (M : pred -> Prop) : Prop :=
  (forall g, In g fs -> M g) /\ (forall g, M g -> InA fact_eqv g fs).

Lemma realises_wsim fs (M : pred -> Prop) : realises fs M -> wsim M (fun g => In g fs).
Proof.
  intros [_ H] f Hf. apply H in Hf. apply InA_alt in Hf as [g [Hfg Hg]].
  exists g. split; [exact Hg | apply prel_iff; exact Hfg].
Qed.

Lemma loaded_base_sim fs l (B : pred -> Prop) :
  wsim B (fun g => In g fs) ->
  wsim (fun g => B g \/ In g l) (fun g => In g (fold_left insert_fact l fs)).
Proof.
  intros HB g [Hg|Hg].
  - destruct (HB g Hg) as [g' [Hg' Hgg]]. exists g'. split; [apply insert_all_incl; exact Hg' | exact Hgg].
  - pose proof (fold_insert_fact_in l fs g Hg) as Hin. apply fact_in_iff in Hin as [g' [Hg' He]].
    exists g'. split; [exact Hg'|]. apply prel_iff. rewrite pred_eqb_sym. exact He.
Qed.

Lemma auth_world_model auth a fs :
  auth_world rx auth a = (fs, None) -> realises fs (auth_model auth a).
Proof.
  intros Hw. unfold auth_world in Hw. split.
  - intros g Hg. pose proof (run_sound rx _ _ _ _ _ Hw g Hg) as Hd.
    apply Derivable_DerivableP in Hd. eapply DerivableP_mono; [|exact Hd].
    intros x Hx. apply fold_insert_In_inv. exact Hx.
  - intros g Hg. eapply wsim_InA; [|exact Hg].
    eapply wsim_trans; [|exact (run_complete_rel rx _ _ _ _ Hw)].
    apply DerivableP_to_Derivable.
    apply (loaded_base_sim (a_facts a) (b_facts auth) (fun g => In g (a_facts a))).
    apply wsim_incl. intros f Hf. exact Hf.
Qed.

Lemma block_world_model lim fs (M0 : pred -> Prop) b w :
  realises fs M0 ->
  block_world rx lim fs b = (w, None) ->
  realises w (block_model M0 b).
Proof.
  intros HM Hw. pose proof (realises_wsim _ _ HM) as HM2. destruct HM as [HM1 _].
  unfold block_world in Hw. split.
  - intros g Hg. pose proof (run_sound rx _ _ _ _ _ Hw g Hg) as Hd.
    apply Derivable_DerivableP in Hd. eapply DerivableP_mono; [|exact Hd].
    intros x Hx. apply fold_insert_In_inv in Hx as [Hx|Hx]; [left; apply HM1; exact Hx | right; exact Hx].
  - intros g Hg. eapply wsim_InA; [|exact Hg].
    eapply wsim_trans; [|exact (run_complete_rel rx _ _ _ _ Hw)].
    apply DerivableP_to_Derivable. apply (loaded_base_sim fs (b_facts b) M0). exact HM2.
Qed.

(* ---- the specification of the verdict ---- *)

Definition check_sat (M : pred -> Prop) (c : check) : Prop := exists q, In q c /\ sat_on M q.

Inductive spec_failed (M : pred -> Prop) (o : origin) : list check -> N -> list (origin * N) -> Prop :=
| sf_nil i : spec_failed M o [] i []
| sf_ok c cs i l :
    check_sat M c -> spec_failed M o cs (i + 1)%N l -> spec_failed M o (c :: cs) i l
| sf_ko c cs i l :
    ~ check_sat M c -> spec_failed M o cs (i + 1)%N l -> spec_failed M o (c :: cs) i ((o, i) :: l).

Inductive spec_policy (M : pred -> Prop) : list policy -> option pkind -> Prop :=
| sp_nil : spec_policy M [] None
| sp_hit p ps : check_sat M (pol_queries p) -> spec_policy M (p :: ps) (Some (pol_kind p))
| sp_skip p ps k :
    ~ check_sat M (pol_queries p) -> spec_policy M ps k -> spec_policy M (p :: ps) k.

Inductive spec_blocks (M0 : pred -> Prop) : list block -> N -> list (origin * N) -> Prop :=
| sb_nil i : spec_blocks M0 [] i []
| sb_cons b bs i l rest :
    spec_failed (block_model M0 b) (FromBlock i) (b_checks b) 0%N l ->
    spec_blocks M0 bs (i + 1)%N rest ->
    spec_blocks M0 (b :: bs) i (l ++ rest).

(* check failure takes precedence over the policy result; [verdict_of] is that rule *)
Definition spec_verdict (auth : block) (bs : list block) (a : astate) (v : verdict) : Prop :=
  exists l1 l2 l3 k,
    spec_failed (auth_model auth a) FromAuthorizer (a_checks a) 0%N l1 /\
    spec_failed (auth_model auth a) (FromBlock 0) (b_checks auth) 0%N l2 /\
    spec_blocks (auth_model auth a) bs 1%N l3 /\
    spec_policy (auth_model auth a) (a_policies a) k /\
    v = verdict_of (l1 ++ l2 ++ l3) k.

Lemma spec_failed_fun M o cs : forall i l l',
  spec_failed M o cs i l -> spec_failed M o cs i l' -> l = l'.
Proof.
  induction cs as [|c cs IH]; intros i l l' H H'.
  - inversion H; inversion H'; subst. reflexivity.
  - inversion H as [|c0 cs0 i0 l0 Hs Hr|c0 cs0 i0 l0 Hs Hr]; subst;
      inversion H' as [|c1 cs1 i1 l1 Hs' Hr'|c1 cs1 i1 l1 Hs' Hr']; subst.
    + eapply IH; eassumption.
    + exfalso. exact (Hs' Hs).
    + exfalso. exact (Hs Hs').
    + f_equal. eapply IH; eassumption.
Qed.

Lemma spec_policy_fun M ps : forall k k', spec_policy M ps k -> spec_policy M ps k' -> k = k'.
Proof.
  induction ps as [|p ps IH]; intros k k' H H'.
  - inversion H; inversion H'; subst. reflexivity.
  - inversion H as [|p0 ps0 Hs|p0 ps0 k0 Hs Hr]; subst;
      inversion H' as [|p1 ps1 Hs'|p1 ps1 k1 Hs' Hr']; subst.
    + reflexivity.
    + exfalso. exact (Hs' Hs).
    + exfalso. exact (Hs Hs').
    + eapply IH; eassumption.
Qed.

Lemma spec_blocks_fun M0 bs : forall i l l', spec_blocks M0 bs i l -> spec_blocks M0 bs i l' -> l = l'.
Proof.
  induction bs as [|b bs IH]; intros i l l' H H'.
  - inversion H; inversion H'; subst. reflexivity.
  - inversion H as [|b0 bs0 i0 l0 r0 Hf Hr]; subst.
    inversion H' as [|b1 bs1 i1 l1 r1 Hf' Hr']; subst.
    rewrite (spec_failed_fun _ _ _ _ _ _ Hf Hf'), (IH _ _ _ Hr Hr'). reflexivity.
Qed.

Lemma spec_verdict_fun auth bs a v v' : spec_verdict auth bs a v -> spec_verdict auth bs a v' -> v = v'.
Proof.
  intros [l1 [l2 [l3 [k [H1 [H2 [H3 [H4 ->]]]]]]]] [l1' [l2' [l3' [k' [H1' [H2' [H3' [H4' ->]]]]]]]].
  rewrite (spec_failed_fun _ _ _ _ _ _ H1 H1'), (spec_failed_fun _ _ _ _ _ _ H2 H2'),
    (spec_blocks_fun _ _ _ _ _ H3 H3'), (spec_policy_fun _ _ _ _ H4 H4'). reflexivity.
Qed.

(* the computed results meet the specification *)
Lemma check_holds_sat fs (M : pred -> Prop) c :
  realises fs M -> check_ef c fs ->
  (check_holds rx fs c = true <-> check_sat M c).
Proof.
  intros HM Hef. pose proof (realises_wsim _ _ HM) as HM2. destruct HM as [HM1 _].
  rewrite (C04_or_is_disjunction rx fs c). unfold check_sat.
  split; intros [q [Hin H]]; exists q; (split; [exact Hin|]).
  - apply (query_nonempty_iff q fs (Hef q Hin)) in H.
    eapply sat_on_incl; [|exact H]. exact HM1.
  - apply (query_nonempty_iff q fs (Hef q Hin)).
    eapply sat_on_sim; [exact HM2 | exact H].
Qed.

Lemma failed_checks_spec fs (M : pred -> Prop) o cs :
  realises fs M -> checks_ef cs fs ->
  forall i, spec_failed M o cs i (failed_checks rx o fs cs i).
Proof.
  intros HM. induction cs as [|c cs IH]; intros Hef i; cbn [failed_checks]; [constructor|].
  assert (Hefc : check_ef c fs) by (apply Hef; left; reflexivity).
  assert (Hefr : checks_ef cs fs) by (intros c0 Hc0; apply Hef; right; exact Hc0).
  pose proof (check_holds_sat fs M c HM Hefc) as Hiff.
  destruct (check_holds rx fs c); cbn [app].
  - apply sf_ok; [apply Hiff; reflexivity | apply IH; exact Hefr].
  - apply sf_ko; [|apply IH; exact Hefr]. intro Hs. apply Hiff in Hs. discriminate Hs.
Qed.

Lemma policy_result_spec fs (M : pred -> Prop) ps :
  realises fs M -> policies_ef ps fs ->
  spec_policy M ps (policy_result rx fs ps).
Proof.
  intros HM. induction ps as [|p ps IH]; intros Hef; cbn [policy_result]; [constructor|].
  pose proof (check_holds_sat fs M (pol_queries p) HM (Hef p (or_introl eq_refl))) as Hiff.
  assert (Hefr : policies_ef ps fs) by (intros p0 Hp0; apply Hef; right; exact Hp0).
  destruct (check_holds rx fs (pol_queries p)).
  - apply sp_hit. apply Hiff. reflexivity.
  - apply sp_skip; [|apply IH; exact Hefr]. intro Hs. apply Hiff in Hs. discriminate Hs.
Qed.

Lemma blocks_phase_spec lim fs (M0 : pred -> Prop) bs :
  realises fs M0 ->
  Forall (fun b => snd (block_world rx lim fs b) = None) bs ->
  Forall (fun b => checks_ef (b_checks b) (fst (block_world rx lim fs b))) bs ->
  forall i, exists l, blocks_phase rx lim fs bs i = Ok l /\ spec_blocks M0 bs i l.
Proof.
  intros HM. induction bs as [|b bs IH]; intros Hok Hef i.
  - exists []. split; [reflexivity | constructor].
  - rewrite blocks_phase_cons. unfold block_outcome.
    pose proof (Forall_inv Hok) as Hok1. pose proof (Forall_inv Hef) as Hef1. cbn beta in Hok1, Hef1.
    destruct (block_world rx lim fs b) as [w [e|]] eqn:Hw; [discriminate Hok1|]. cbn [fst] in Hef1.
    destruct (IH (Forall_inv_tail Hok) (Forall_inv_tail Hef) (i + 1)%N)
      as [rest [Hr Hsp]].
    rewrite Hr. cbn [bind]. eexists. split; [reflexivity|].
    apply sb_cons; [|exact Hsp].
    apply failed_checks_spec; [|exact Hef1].
    exact (block_world_model lim fs M0 b w HM Hw).
Qed.

(** 8b.  C04: the verdict is the one the declarative specification
    determines, and only that one.  For every program whose runs and queries
    are error-free. *)
Theorem C04_verdict_spec auth bs a :
  runs_ok (auth :: bs) a -> queries_ef (auth :: bs) a ->
  forall v, spec_verdict auth bs a v <-> v = snd (authorize rx (auth :: bs) a).
Proof.
  intros [Hok Hoks] [Hef1 [Hef2 [Hef3 Hef4]]]. cbn [hd tl] in *.
  assert (Hspec : spec_verdict auth bs a (snd (authorize rx (auth :: bs) a))).
  { rewrite authorize_cons.
    destruct (auth_world rx auth a) as [fs [e|]] eqn:Hw; [discriminate Hok|]. cbn [fst snd] in *.
    pose proof (auth_world_model auth a fs Hw) as HM.
    destruct (blocks_phase_spec (a_limits a) fs (auth_model auth a) bs HM Hoks Hef4 1%N)
      as [l3 [Hl3 Hsp3]].
    rewrite Hl3. unfold spec_verdict.
    exists (failed_checks rx FromAuthorizer fs (a_checks a) 0%N),
           (failed_checks rx (FromBlock 0) fs (b_checks auth) 0%N), l3,
           (policy_result rx fs (a_policies a)).
    split; [apply failed_checks_spec; assumption|].
    split; [apply failed_checks_spec; assumption|].
    split; [exact Hsp3|].
    split; [apply policy_result_spec; assumption | reflexivity]. }
  intro v. split.
  - intro Hv. eapply spec_verdict_fun; eassumption.
  - intros ->. exact Hspec.
Qed.

(* ------------------------------------------------------------------ *)
(** * 7. C12, consistent renaming of variables

    The evaluator treats as a variable only a top-level [TA (AVar _)] (a
    variable name inside a set constant is never bound, substituted or looked
    up), so that is what a renaming acts on.  Renaming inside set constants as
    well is NOT semantics-preserving in this model: see
    [rename_inside_sets_refuted] after the section. *)

Definition injective (f : bytes -> bytes) : Prop := forall x y, f x = f y -> x = y.

Definition rename_term (f : bytes -> bytes) (t : term) : term :=
  match t with TA (AVar v) => TA (AVar (f v)) | _ => t end.
Definition rename_pred (f : bytes -> bytes) (p : pred) : pred :=
  {| p_name := p_name p; p_terms := map (rename_term f) (p_terms p) |}.
Definition rename_op (f : bytes -> bytes) (o : op) : op :=
  match o with OVal t => OVal (rename_term f t) | _ => o end.
Definition rename_expr (f : bytes -> bytes) (e : expr) : expr := map (rename_op f) e.
Definition rename_rule (f : bytes -> bytes) (r : rule) : rule :=
  {| r_head := rename_pred f (r_head r);
     r_body := map (rename_pred f) (r_body r);
     r_exprs := map (rename_expr f) (r_exprs r) |}.
Definition rename_bindings (f : bytes -> bytes) (b : bindings) : bindings :=
  map (fun kv => (f (fst kv), snd kv)) b.

Section Rename.
Variable f : bytes -> bytes.
Hypothesis f_inj : injective f.

Lemma bytes_eqb_inj x y : bytes_eqb (f x) (f y) = bytes_eqb x y.
Proof.
  destruct (bytes_eqb x y) eqn:E.
  - apply bytes_eqb_eq in E. subst y. apply bytes_eqb_refl.
  - destruct (bytes_eqb (f x) (f y)) eqn:E'; [|reflexivity].
    apply bytes_eqb_eq in E'. apply f_inj in E'. subst y.
    rewrite bytes_eqb_refl in E. discriminate E.
Qed.

Lemma lookup_rename b k : lookup (rename_bindings f b) (f k) = lookup b k.
Proof.
  induction b as [|[k0 t0] b IH]; [reflexivity|].
  cbn [rename_bindings map lookup fst snd]. rewrite bytes_eqb_inj.
  destruct (bytes_eqb k0 k); [reflexivity | exact IH].
Qed.

Lemma rename_bindings_app b b' :
  rename_bindings f (b ++ b') = rename_bindings f b ++ rename_bindings f b'.
Proof. apply map_app. Qed.

Lemma terms_match_rename ft : forall pt,
  terms_match ft (map (rename_term f) pt) = terms_match ft pt.
Proof.
  induction ft as [|x ft IH]; intros [|y pt]; cbn [map terms_match]; try reflexivity.
  rewrite IH. destruct y as [[v|z|s|d|bs|bo]|l]; cbn [rename_term is_var]; try reflexivity.
  rewrite !Bool.orb_true_r. reflexivity.
Qed.

Lemma pred_match_rename g p : pred_match g (rename_pred f p) = pred_match g p.
Proof. unfold pred_match, rename_pred. cbn [p_name p_terms]. rewrite terms_match_rename. reflexivity. Qed.

Lemma combos_rename ps fs : combos (map (rename_pred f) ps) fs = combos ps fs.
Proof.
  induction ps as [|p ps IH]; [reflexivity|]. cbn [map combos]. rewrite IH.
  rewrite (filter_ext _ _ (fun g => pred_match_rename g p)). reflexivity.
Qed.

Lemma bind_terms_rename pt : forall ft b,
  bind_terms (map (rename_term f) pt) ft (rename_bindings f b) =
  option_map (rename_bindings f) (bind_terms pt ft b).
Proof.
  induction pt as [|t pt IH]; intros ft b; [reflexivity|].
  destruct ft as [|v ft].
  - destruct t as [[k|z|s|d|bs|bo]|l]; reflexivity.
  - destruct t as [[k|z|s|d|bs|bo]|l]; cbn [map rename_term bind_terms]; try apply IH.
    rewrite lookup_rename. destruct (lookup b k) as [ex|].
    + destruct (term_eqb v ex); [apply IH | reflexivity].
    + rewrite <- IH, rename_bindings_app. reflexivity.
Qed.

Lemma bind_all_rename ps : forall c b,
  bind_all (map (rename_pred f) ps) c (rename_bindings f b) =
  option_map (rename_bindings f) (bind_all ps c b).
Proof.
  induction ps as [|p ps IH]; intros c b; [reflexivity|].
  destruct c as [|g c]; [reflexivity|].
  cbn [map bind_all rename_pred p_terms]. rewrite bind_terms_rename.
  destruct (bind_terms (p_terms p) (p_terms g) b) as [b1|]; cbn [option_map]; [apply IH | reflexivity].
Qed.

Lemma step_rename b st o : step rx (rename_bindings f b) st (rename_op f o) = step rx b st o.
Proof.
  destruct o as [t|u|o]; [|reflexivity|reflexivity].
  destruct t as [[k|z|s|d|bs|bo]|l]; cbn [rename_op rename_term step]; try reflexivity.
  rewrite lookup_rename. reflexivity.
Qed.

Lemma run_ops_rename b e : forall st,
  run_ops rx (rename_bindings f b) st (rename_expr f e) = run_ops rx b st e.
Proof.
  induction e as [|o e IH]; intros st; [reflexivity|].
  cbn [rename_expr map run_ops]. rewrite step_rename.
  destruct (step rx b st o) as [st'|er|s]; cbn [bind]; [apply IH | reflexivity | reflexivity].
Qed.

Lemma eval_rename b e : eval rx (rename_expr f e) (rename_bindings f b) = eval rx e b.
Proof. unfold eval. rewrite run_ops_rename. reflexivity. Qed.

Lemma eval_exprs_rename b es :
  eval_exprs rx (map (rename_expr f) es) (rename_bindings f b) = eval_exprs rx es b.
Proof.
  induction es as [|e es IH]; [reflexivity|]. cbn [map eval_exprs]. rewrite eval_rename, IH.
  reflexivity.
Qed.

Lemma inst_terms_rename b ts :
  inst_terms (map (rename_term f) ts) (rename_bindings f b) = inst_terms ts b.
Proof.
  induction ts as [|t ts IH]; [reflexivity|].
  destruct t as [[k|z|s|d|bs|bo]|l]; cbn [map rename_term inst_terms]; rewrite IH; try reflexivity.
  rewrite lookup_rename. reflexivity.
Qed.

Lemma inst_head_rename b h : inst_head (rename_pred f h) (rename_bindings f b) = inst_head h b.
Proof. unfold inst_head, rename_pred. cbn [p_name p_terms]. rewrite inst_terms_rename. reflexivity. Qed.

Lemma tuple_out_rename r c : tuple_out rx (rename_rule f r) c = tuple_out rx r c.
Proof.
  unfold tuple_out, rename_rule. cbn [r_head r_body r_exprs].
  change (@nil (bytes * term)) with (rename_bindings f []) at 1.
  rewrite bind_all_rename.
  destruct (bind_all (r_body r) c []) as [b|]; cbn [option_map]; [|reflexivity].
  rewrite eval_exprs_rename, inst_head_rename. reflexivity.
Qed.

Lemma consume_rename r cs : forall acc, consume rx (rename_rule f r) cs acc = consume rx r cs acc.
Proof.
  induction cs as [|c cs IH]; intros acc; [reflexivity|].
  rewrite !consume_step, tuple_out_rename.
  destruct (tuple_out rx r c) as [|g|e]; [apply IH | apply IH | reflexivity].
Qed.

(** 7a *)
Theorem apply_rule_rename r fs acc :
  apply_rule rx (rename_rule f r) fs acc = apply_rule rx r fs acc.
Proof.
  unfold apply_rule. cbn [rename_rule r_body]. rewrite combos_rename. apply consume_rename.
Qed.

Theorem query_rule_rename q fs : query_rule rx (rename_rule f q) fs = query_rule rx q fs.
Proof. unfold query_rule. rewrite apply_rule_rename. reflexivity. Qed.

End Rename.

(* each rule may use its own renaming *)
Definition alpha_rule (r r' : rule) : Prop := exists f, injective f /\ r' = rename_rule f r.
Definition alpha_check (c c' : check) : Prop := Forall2 alpha_rule c c'.
Definition alpha_policy (p p' : policy) : Prop :=
  pol_kind p = pol_kind p' /\ Forall2 alpha_rule (pol_queries p) (pol_queries p').
Record alpha_block (b b' : block) : Prop := {
  ab_facts : b_facts b = b_facts b';
  ab_rules : Forall2 alpha_rule (b_rules b) (b_rules b');
  ab_checks : Forall2 alpha_check (b_checks b) (b_checks b') }.
Record alpha_astate (a a' : astate) : Prop := {
  aa_facts : a_facts a = a_facts a';
  aa_rules : Forall2 alpha_rule (a_rules a) (a_rules a');
  aa_checks : Forall2 alpha_check (a_checks a) (a_checks a');
  aa_policies : Forall2 alpha_policy (a_policies a) (a_policies a');
  aa_limits : a_limits a = a_limits a' }.

Lemma apply_rules_alpha rs rs' fs :
  Forall2 alpha_rule rs rs' -> forall acc, apply_rules rx rs' fs acc = apply_rules rx rs fs acc.
Proof.
  intro H. induction H as [|r r' rs rs' [f [Hf ->]] H IH]; intros acc; [reflexivity|].
  rewrite !apply_rules_cons, (apply_rule_rename f Hf).
  destruct (apply_rule rx r fs acc) as [acc1 [e|]]; [reflexivity | apply IH].
Qed.

Lemma run_alpha lim rs rs' fs : Forall2 alpha_rule rs rs' -> run rx lim rs' fs = run rx lim rs fs.
Proof.
  intro H. unfold run. generalize (N.to_nat (max_iterations lim)) as fuel. intro fuel. revert fs.
  induction fuel as [|fuel IH]; intros fs; [reflexivity|].
  rewrite !run_loop_S, (apply_rules_alpha rs rs' fs H).
  destruct (apply_rules rx rs fs []) as [nf [e|]]; [reflexivity|]. rewrite IH. reflexivity.
Qed.

Lemma check_holds_alpha fs c c' : alpha_check c c' -> check_holds rx fs c' = check_holds rx fs c.
Proof.
  intro H. unfold check_holds. induction H as [|q q' c c' [f [Hf ->]] H IH]; [reflexivity|].
  cbn [existsb]. rewrite (query_rule_rename f Hf), IH. reflexivity.
Qed.

Lemma failed_checks_alpha o fs cs cs' :
  Forall2 alpha_check cs cs' -> forall i, failed_checks rx o fs cs' i = failed_checks rx o fs cs i.
Proof.
  intro H. induction H as [|c c' cs cs' Hc H IH]; intros i; [reflexivity|].
  cbn [failed_checks]. rewrite (check_holds_alpha fs c c' Hc), IH. reflexivity.
Qed.

Lemma policy_result_alpha fs ps ps' :
  Forall2 alpha_policy ps ps' -> policy_result rx fs ps' = policy_result rx fs ps.
Proof.
  intro H. induction H as [|p p' ps ps' [Hk Hq] H IH]; [reflexivity|].
  cbn [policy_result]. rewrite (check_holds_alpha fs _ _ Hq), IH, Hk. reflexivity.
Qed.

Lemma blocks_phase_alpha lim fs bs bs' :
  Forall2 alpha_block bs bs' -> forall i, blocks_phase rx lim fs bs' i = blocks_phase rx lim fs bs i.
Proof.
  intro H. induction H as [|b b' bs bs' [Hf Hr Hc] H IH]; intros i; [reflexivity|].
  cbn [blocks_phase]. rewrite <- Hf, (run_alpha lim _ _ _ Hr).
  destruct (run rx lim (b_rules b) (fold_left insert_fact (b_facts b) fs)) as [w [e|]]; [reflexivity|].
  rewrite IH, (failed_checks_alpha _ w _ _ Hc). reflexivity.
Qed.

(** 7b.  Consistent renaming everywhere: same verdict (exactly), same world.
    No fragment hypothesis at all. *)
Theorem C12_alpha tok tok' a a' :
  Forall2 alpha_block tok tok' -> alpha_astate a a' ->
  snd (authorize rx tok' a') = snd (authorize rx tok a) /\
  a_facts (fst (authorize rx tok' a')) = a_facts (fst (authorize rx tok a)).
Proof.
  intros Htok [Hf Hr Hc Hp Hl].
  assert (Hhd : alpha_block (hd empty_block tok) (hd empty_block tok')).
  { destruct Htok as [|b b' bs bs' Hb Hbs]; [|exact Hb]. split; constructor. }
  assert (Htl : Forall2 alpha_block (tl tok) (tl tok')).
  { destruct Htok as [|b b' bs bs' Hb Hbs]; [constructor | exact Hbs]. }
  rewrite (authorize_hd_tl tok a), (authorize_hd_tl tok' a'), !authorize_cons.
  destruct Hhd as [Hbf Hbr Hbc]. unfold auth_world.
  rewrite <- Hl, <- Hf, <- Hbf.
  rewrite (run_alpha (a_limits a) (a_rules a ++ b_rules (hd empty_block tok))
             (a_rules a' ++ b_rules (hd empty_block tok')) _ (Forall2_app Hr Hbr)).
  destruct (run rx (a_limits a) (a_rules a ++ b_rules (hd empty_block tok))
              (fold_left insert_fact (b_facts (hd empty_block tok)) (a_facts a))) as [fs [e|]];
    cbn [fst snd mk_state a_facts]; [split; reflexivity|].
  split; [|reflexivity].
  rewrite (blocks_phase_alpha _ fs _ _ Htl), (failed_checks_alpha _ fs _ _ Hc),
    (failed_checks_alpha _ fs _ _ Hbc), (policy_result_alpha fs _ _ Hp). reflexivity.
Qed.

(* ------------------------------------------------------------------ *)
(** * Deciding the hypotheses on concrete data, and a canonical reshuffle *)

Definition tuple_ef_b (r : rule) (c : list pred) : bool :=
  match tuple_out rx r c with TStop _ => false | _ => true end.
Definition rule_ef_b (r : rule) (fs : list pred) : bool :=
  forallb (tuple_ef_b r) (combos (r_body r) fs).
Definition checks_ef_b (cs : list check) (fs : list pred) : bool :=
  forallb (fun c => forallb (fun q => rule_ef_b q fs) c) cs.

Lemma rule_ef_b_iff r fs : rule_ef_b r fs = true <-> rule_ef r fs.
Proof.
  unfold rule_ef_b. rewrite forallb_forall. split.
  - intros H c b Ha Hm Hb.
    assert (Hc : In c (combos (r_body r) fs)) by (apply combos_in; split; assumption).
    specialize (H c Hc). unfold tuple_ef_b, tuple_out in H. rewrite Hb in H.
    destruct (eval_exprs rx (r_exprs r) b) as [[|]|e|s].
    + destruct (inst_head (r_head r) b) as [h|]; [|discriminate H].
      split; [eexists; reflexivity | intros _; discriminate].
    + split; [eexists; reflexivity | discriminate].
    + discriminate H.
    + discriminate H.
  - intros Hef c Hc. apply combos_in in Hc as [Ha Hm].
    unfold tuple_ef_b. destruct (tuple_out rx r c) as [|g|e] eqn:Ht; try reflexivity.
    exfalso. apply tuple_out_stop in Ht as [b [Hb Hcase]].
    destruct (Hef c b Ha Hm Hb) as [[v Hv] Hi].
    destruct Hcase as [[He _]|[He [Hh _]]]; [congruence | exact (Hi He Hh)].
Qed.

Lemma checks_ef_b_ok cs fs : checks_ef_b cs fs = true -> checks_ef cs fs.
Proof.
  unfold checks_ef_b. rewrite forallb_forall. intros H c Hc q Hq.
  specialize (H c Hc). rewrite forallb_forall in H. apply rule_ef_b_iff. apply H. exact Hq.
Qed.

Definition queries_ef_b (tok : list block) (a : astate) : bool :=
  let fs := fst (auth_world rx (hd empty_block tok) a) in
  checks_ef_b (a_checks a) fs &&
  checks_ef_b (b_checks (hd empty_block tok)) fs &&
  checks_ef_b (map pol_queries (a_policies a)) fs &&
  forallb (fun b => checks_ef_b (b_checks b) (fst (block_world rx (a_limits a) fs b))) (tl tok).

Lemma queries_ef_b_ok tok a : queries_ef_b tok a = true -> queries_ef tok a.
Proof.
  unfold queries_ef_b, queries_ef. cbv zeta. rewrite !andb_true_iff.
  intros [[[H1 H2] H3] H4]. split; [|split; [|split]].
  - apply checks_ef_b_ok. exact H1.
  - apply checks_ef_b_ok. exact H2.
  - intros p Hp. apply (checks_ef_b_ok _ _ H3 (pol_queries p)). apply in_map. exact Hp.
  - apply Forall_forall. intros b Hb. rewrite forallb_forall in H4.
    apply checks_ef_b_ok. apply H4. exact Hb.
Qed.

Definition is_none {A} (o : option A) : bool := match o with None => true | Some _ => false end.

Definition runs_ok_b (tok : list block) (a : astate) : bool :=
  is_none (snd (auth_world rx (hd empty_block tok) a)) &&
  forallb (fun b => is_none (snd (block_world rx (a_limits a)
                                    (fst (auth_world rx (hd empty_block tok) a)) b))) (tl tok).

Lemma runs_ok_b_ok tok a : runs_ok_b tok a = true -> runs_ok tok a.
Proof.
  unfold runs_ok_b, runs_ok. rewrite andb_true_iff. intros [H1 H2]. split.
  - destruct (snd (auth_world rx (hd empty_block tok) a)); [discriminate H1 | reflexivity].
  - apply Forall_forall. intros b Hb. rewrite forallb_forall in H2. specialize (H2 b Hb).
    destruct (snd (block_world rx (a_limits a) (fst (auth_world rx (hd empty_block tok) a)) b));
      [discriminate H2 | reflexivity].
Qed.

End Order.

(* everything reversed except the order of the policy list *)
Definition rev_check (c : check) : check := rev c.
Definition rev_checks (cs : list check) : list check := map rev_check (rev cs).
Definition rev_block (b : block) : block :=
  {| b_facts := rev (b_facts b); b_rules := rev (b_rules b); b_checks := rev_checks (b_checks b) |}.
Definition rev_policy (p : policy) : policy :=
  {| pol_kind := pol_kind p; pol_queries := rev (pol_queries p) |}.
Definition rev_astate (a : astate) : astate :=
  {| a_facts := rev (a_facts a); a_rules := rev (a_rules a); a_checks := rev_checks (a_checks a);
     a_policies := map rev_policy (a_policies a); a_dirty := a_dirty a; a_limits := a_limits a |}.

Lemma checks_perm_rev cs : checks_perm cs (rev_checks cs).
Proof.
  exists (rev cs). split; [apply Permutation_rev|]. unfold rev_checks.
  induction (rev cs) as [|c l IH]; constructor; [apply Permutation_rev | exact IH].
Qed.

Lemma block_perm_rev b : block_perm b (rev_block b).
Proof. split; cbn [rev_block b_facts b_rules b_checks]; [apply Permutation_rev | apply Permutation_rev | apply checks_perm_rev]. Qed.

Lemma tok_perm_rev tok : Forall2 block_perm tok (map rev_block tok).
Proof. induction tok as [|b tok IH]; constructor; [apply block_perm_rev | exact IH]. Qed.

Lemma astate_perm_rev a : astate_perm a (rev_astate a).
Proof.
  split; cbn [rev_astate a_facts a_rules a_checks a_policies a_limits];
    [apply Permutation_rev | apply Permutation_rev | apply checks_perm_rev | | reflexivity].
  induction (a_policies a) as [|p ps IH]; constructor; [|exact IH].
  split; [reflexivity | apply Permutation_rev].
Qed.

(** C12 for the fully reversed presentation *)
Corollary C12_reversed rx tok a :
  NoDupA fact_eqv (a_facts a) ->
  runs_ok rx tok a -> runs_ok rx (map rev_block tok) (rev_astate a) ->
  queries_ef rx tok a ->
  verdict_class (snd (authorize rx tok a)) =
  verdict_class (snd (authorize rx (map rev_block tok) (rev_astate a))) /\
  PermutationA fact_eqv (a_facts (fst (authorize rx tok a)))
                        (a_facts (fst (authorize rx (map rev_block tok) (rev_astate a)))).
Proof.
  intros Hn Hok Hok' Hef.
  apply C12_permutation; try assumption; [apply tok_perm_rev | apply astate_perm_rev].
Qed.

(* ------------------------------------------------------------------ *)
(** * Non-vacuity and boundary examples (all by vm_compute) *)

Definition orx : bytes -> bytes -> option bool := fun _ _ => None.
Definition olim : limits := {| max_facts := 1000%N; max_iterations := 100%N |}.

Definition qhead : pred := {| p_name := [113%N]; p_terms := [] |}.
Definition qry (body : list pred) (es : list expr) : rule :=
  {| r_head := qhead; r_body := body; r_exprs := es |}.
Definition x_gt_1 : expr := [OVal (tvar 120); OVal (tint 1); OBin BGreaterThan].

(* authority: the ancestor program; two checks, the second with two alternatives *)
Definition o_auth : block :=
  {| b_facts := anc_facts; b_rules := anc_rules;
     b_checks := [ [qry [ancestor (tstr 1) (tstr 4)] []];
                   [qry [parent (tstr 9) (tstr 9)] []; qry [ancestor (tvar 120) (tstr 3)] []] ] |}.
(* a later block: one more parent fact, the rules again, a passing and a failing check *)
Definition o_blk : block :=
  {| b_facts := [parent (tstr 4) (tstr 5); parent (tstr 1) (tstr 2)]; b_rules := anc_rules;
     b_checks := [ [qry [ancestor (tstr 1) (tstr 5)] []];
                   [qry [ancestor (tstr 5) (tstr 1)] []] ] |}.
Definition o_tok : list block := [o_auth; o_blk].

(* authorizer: facts, a rule with an expression, a passing and a failing check (with an
   expression), a deny policy that does not match and an allow policy that does *)
Definition o_a : astate :=
  {| a_facts := [nfact (tint 2) (tint 2) (tint 7); nfact (tint 1) (tint 1) (tint 7)];
     a_rules := [q_rule];
     a_checks := [ [qry [big (tvar 120)] [x_gt_1]]; [qry [big (tint 1)] []] ];
     a_policies := [ {| pol_kind := Deny; pol_queries := [qry [ancestor (tstr 4) (tstr 1)] []] |};
                     {| pol_kind := Allow;
                        pol_queries := [qry [parent (tstr 9) (tstr 9)] [];
                                        qry [big (tvar 120); ancestor (tstr 1) (tvar 121)] []] |} ];
     a_dirty := false; a_limits := olim |}.

Example o_hyps :
  NoDupA fact_eqv (a_facts o_a) /\
  runs_ok orx o_tok o_a /\ runs_ok orx (map rev_block o_tok) (rev_astate o_a) /\
  queries_ef orx o_tok o_a.
Proof.
  split; [apply nodupA_b_ok; vm_compute; reflexivity|].
  split; [apply runs_ok_b_ok; vm_compute; reflexivity|].
  split; [apply runs_ok_b_ok; vm_compute; reflexivity|].
  apply queries_ef_b_ok. vm_compute. reflexivity.
Qed.

(* the theorem instantiated *)
Example o_C12_permutation :
  verdict_class (snd (authorize orx o_tok o_a)) =
  verdict_class (snd (authorize orx (map rev_block o_tok) (rev_astate o_a))) /\
  PermutationA fact_eqv (a_facts (fst (authorize orx o_tok o_a)))
                        (a_facts (fst (authorize orx (map rev_block o_tok) (rev_astate o_a)))).
Proof.
  destruct o_hyps as [H3 [H4 [H5 H6]]]. apply C12_reversed; assumption.
Qed.

(* what the two presentations actually return: same class, renumbered indices,
   worlds in a different order *)
Example o_verdicts :
  snd (authorize orx o_tok o_a) = VChecksFailed [(FromAuthorizer, 1%N); (FromBlock 1, 1%N)] /\
  snd (authorize orx (map rev_block o_tok) (rev_astate o_a))
    = VChecksFailed [(FromAuthorizer, 0%N); (FromBlock 1, 0%N)] /\
  a_facts (fst (authorize orx o_tok o_a))
    <> a_facts (fst (authorize orx (map rev_block o_tok) (rev_astate o_a))) /\
  length (a_facts (fst (authorize orx o_tok o_a))) = 12.
Proof.
  split; [vm_compute; reflexivity|]. split; [vm_compute; reflexivity|].
  split; [vm_compute; discriminate | vm_compute; reflexivity].
Qed.

(* the same programme without the failing checks reaches the policies: the allow
   policy is second in the list and matches through its second query *)
Definition o_pass_check (c : check) : bool :=
  negb (list_eqb (fun q q' => list_eqb pred_seqb (r_body q) (r_body q')) c [qry [big (tint 1)] []]
        || list_eqb (fun q q' => list_eqb pred_seqb (r_body q) (r_body q')) c
                    [qry [ancestor (tstr 5) (tstr 1)] []]).
Definition o_blk2 : block :=
  {| b_facts := b_facts o_blk; b_rules := b_rules o_blk; b_checks := filter o_pass_check (b_checks o_blk) |}.
Definition o_a2 : astate :=
  {| a_facts := a_facts o_a; a_rules := a_rules o_a; a_checks := filter o_pass_check (a_checks o_a);
     a_policies := a_policies o_a; a_dirty := false; a_limits := olim |}.

Example o_success :
  snd (authorize orx [o_auth; o_blk2] o_a2) = VSuccess /\
  snd (authorize orx (map rev_block [o_auth; o_blk2]) (rev_astate o_a2)) = VSuccess /\
  runs_ok orx [o_auth; o_blk2] o_a2 /\ queries_ef orx [o_auth; o_blk2] o_a2.
Proof.
  split; [vm_compute; reflexivity|]. split; [vm_compute; reflexivity|].
  split; [apply runs_ok_b_ok; vm_compute; reflexivity | apply queries_ef_b_ok; vm_compute; reflexivity].
Qed.

(* the policy list order is significant: swapping the two policies of a
   programme where both match changes the verdict *)
Definition pol_allow_true : policy := {| pol_kind := Allow; pol_queries := [qry [] []] |}.
Definition pol_deny_true : policy := {| pol_kind := Deny; pol_queries := [qry [] []] |}.
Example policy_order_matters :
  snd (authorize orx [o_auth] (add_policy (add_policy (fresh olim) pol_allow_true) pol_deny_true)) = VSuccess /\
  snd (authorize orx [o_auth] (add_policy (add_policy (fresh olim) pol_deny_true) pol_allow_true)) = VPolicyDenied.
Proof. split; vm_compute; reflexivity. Qed.

(* query_nonempty_iff / check_holds_perm / checks_ok_perm / policy_result_perm_facts:
   their error-freeness hypotheses on the closed authority world *)
Definition o_world : list pred := fst (auth_world orx o_auth o_a).
Example o_part1_hyps :
  rule_ef orx (qry [big (tvar 120)] [x_gt_1]) o_world /\
  query_rule orx (qry [big (tvar 120)] [x_gt_1]) o_world <> [] /\
  checks_ef orx (a_checks o_a) o_world /\ policies_ef orx (a_policies o_a) o_world.
Proof.
  split; [apply rule_ef_b_iff; vm_compute; reflexivity|].
  split; [vm_compute; discriminate|].
  split; [apply checks_ef_b_ok; vm_compute; reflexivity|].
  intros p Hp. apply (checks_ef_b_ok orx (map pol_queries (a_policies o_a)) o_world);
    [vm_compute; reflexivity | apply in_map; exact Hp].
Qed.

(* the declarative error-freeness hypothesis of [error_free_no_rule_error] holds of
   the authority-level programme (rules with a join, recursion and an expression) *)
Example o_error_free :
  error_free orx (a_rules o_a ++ b_rules o_auth)
             (fold_left insert_fact (b_facts o_auth) (a_facts o_a))
             (a_rules o_a ++ b_rules o_auth).
Proof.
  eapply (error_free_of_run orx olim _ _ o_world).
  - vm_compute. reflexivity.
  - intros q Hq. apply rule_ef_b_iff.
    cbn [a_rules o_a b_rules o_auth app anc_rules In] in Hq.
    destruct Hq as [<-|[<-|[<-|[]]]]; vm_compute; reflexivity.
Qed.

(* C12_duplicate *)
Example o_duplicate :
  add_fact (add_fact o_a (parent (tstr 1) (tstr 2))) (parent (tstr 1) (tstr 2))
  = add_fact o_a (parent (tstr 1) (tstr 2)) /\
  In (parent (tstr 1) (tstr 2)) (b_facts o_auth) /\
  a_facts (add_fact o_a (parent (tstr 1) (tstr 2))) <> a_facts o_a /\
  snd (authorize orx o_tok (add_fact o_a (parent (tstr 1) (tstr 2)))) = snd (authorize orx o_tok o_a).
Proof.
  split; [apply C12_duplicate|]. split; [left; reflexivity|].
  split; [vm_compute; discriminate | vm_compute; reflexivity].
Qed.

(* C12_repeat: hypotheses and instance *)
Example o_C12_repeat :
  snd (authorize orx o_tok (fst (authorize orx o_tok o_a))) = snd (authorize orx o_tok o_a).
Proof.
  destruct o_hyps as [_ [H5 _]].
  apply C12_repeat. apply runs_ok_iff. exact H5.
Qed.

Example o_C12_repeat_computed :
  snd (authorize orx o_tok (fst (authorize orx o_tok o_a)))
    = VChecksFailed [(FromAuthorizer, 1%N); (FromBlock 1, 1%N)] /\
  authorize orx o_tok (authorize_times orx 3 o_tok o_a) = authorize orx o_tok o_a /\
  a_rules (fst (authorize orx o_tok o_a)) = [] /\ a_rules o_a <> [].
Proof.
  split; [vm_compute; reflexivity|]. split; [vm_compute; reflexivity|].
  split; [vm_compute; reflexivity | discriminate].
Qed.

(** Boundary of C12_repeat: after an iteration-limit error the partial facts
    stay in the world and the rules are kept, so the second call resumes and
    succeeds. *)
Definition lim_tight : limits := {| max_facts := 1000%N; max_iterations := 4%N |}.
Definition a_chain : astate :=
  {| a_facts := []; a_rules := chain_rules; a_checks := [];
     a_policies := [ {| pol_kind := Allow; pol_queries := [qry [cpred 5] []] |} ];
     a_dirty := false; a_limits := lim_tight |}.
Definition tok_chain : list block := [ {| b_facts := [cpred 0]; b_rules := []; b_checks := [] |} ].

Example C12_repeat_after_limit_example :
  snd (authorize orx tok_chain a_chain) = VRunError EMaxIterations /\
  a_facts (fst (authorize orx tok_chain a_chain)) = map cpred [0; 1; 2; 3; 4]%N /\
  snd (authorize orx tok_chain (fst (authorize orx tok_chain a_chain))) = VSuccess.
Proof.
  split; [vm_compute; reflexivity|]. split; vm_compute; reflexivity.
Qed.

(** Boundary of C12_permutation: a query whose expression errors for some
    bindings only.  check if a($x), 10 / $x > 0 over a(1), a(0) holds (the
    match found before the error is kept), over a(0), a(1) it does not (the
    error ends the enumeration at once).  Every hypothesis of C12_permutation
    holds except [queries_ef]. *)
Definition afact (z : Z) : pred := {| p_name := [97%N]; p_terms := [tint z] |}.
Definition q_div : rule :=
  qry [{| p_name := [97%N]; p_terms := [tvar 120] |}]
      [[OVal (tint 10); OVal (tvar 120); OBin BDiv; OVal (tint 0); OBin BGreaterThan]].
Definition a_div : astate :=
  {| a_facts := []; a_rules := []; a_checks := [[q_div]]; a_policies := [pol_allow_true];
     a_dirty := false; a_limits := olim |}.
Definition tok_div (fs : list pred) : list block := [ {| b_facts := fs; b_rules := []; b_checks := [] |} ].

Example C12_out_of_fragment_example :
  snd (authorize orx (tok_div [afact 1; afact 0]) a_div) = VSuccess /\
  snd (authorize orx (tok_div [afact 0; afact 1]) a_div) = VChecksFailed [(FromAuthorizer, 0%N)] /\
  Forall2 block_perm (tok_div [afact 1; afact 0]) (tok_div [afact 0; afact 1]) /\
  astate_perm a_div a_div /\
  runs_ok orx (tok_div [afact 1; afact 0]) a_div /\ runs_ok orx (tok_div [afact 0; afact 1]) a_div /\
  ~ queries_ef orx (tok_div [afact 1; afact 0]) a_div.
Proof.
  split; [vm_compute; reflexivity|]. split; [vm_compute; reflexivity|].
  split. { constructor; [|constructor]. split; cbn [tok_div b_facts b_rules b_checks];
           [apply perm_swap | apply Permutation_refl | apply checks_perm_refl]. }
  split. { split; [apply Permutation_refl | apply Permutation_refl | apply checks_perm_refl
                  | apply policies_perm_refl | reflexivity]. }
  split; [apply runs_ok_b_ok; vm_compute; reflexivity|].
  split; [apply runs_ok_b_ok; vm_compute; reflexivity|].
  intros [H _]. specialize (H [q_div] (or_introl eq_refl) q_div (or_introl eq_refl)).
  apply rule_ef_b_iff in H. vm_compute in H. discriminate H.
Qed.

(* C12_alpha: $x $y $z renamed to $0x $0y $0z in one rule, to $7x.. in another *)
Definition pre (n : N) : bytes -> bytes := cons n.
Lemma pre_injective n : injective (pre n).
Proof. intros x y H. injection H as H. exact H. Qed.

Definition o_auth_renamed : block :=
  {| b_facts := anc_facts;
     b_rules := [rename_rule (pre 0) (nth 0 anc_rules q_rule); rename_rule (pre 7) (nth 1 anc_rules q_rule)];
     b_checks := [ [rename_rule (pre 1) (qry [ancestor (tstr 1) (tstr 4)] [])];
                   [rename_rule (pre 2) (qry [parent (tstr 9) (tstr 9)] []);
                    rename_rule (pre 3) (qry [ancestor (tvar 120) (tstr 3)] [])] ] |}.

Example o_alpha_hyp : alpha_block o_auth o_auth_renamed /\ b_rules o_auth_renamed <> b_rules o_auth.
Proof.
  split; [|vm_compute; discriminate].
  split; [reflexivity | |];
    repeat (constructor; try (eexists; split; [apply pre_injective | reflexivity])).
Qed.

Example o_alpha_computed :
  authorize orx [o_auth_renamed] o_a2 = authorize orx [o_auth] o_a2 /\
  query_rule orx (rename_rule (pre 5) (qry [big (tvar 120)] [x_gt_1])) o_world
    = query_rule orx (qry [big (tvar 120)] [x_gt_1]) o_world.
Proof. split; [vm_compute; reflexivity | apply query_rule_rename; apply pre_injective]. Qed.

(* renaming variable names *inside set constants* as well would not preserve the
   semantics when a fact carries such a set: a set is compared as a value *)
Definition rename_atom_deep (f : bytes -> bytes) (a : atom) : atom :=
  match a with AVar v => AVar (f v) | _ => a end.
Definition rename_term_deep (f : bytes -> bytes) (t : term) : term :=
  match t with TA a => TA (rename_atom_deep f a) | TSet l => TSet (map (rename_atom_deep f) l) end.
Definition rename_pred_deep (f : bytes -> bytes) (p : pred) : pred :=
  {| p_name := p_name p; p_terms := map (rename_term_deep f) (p_terms p) |}.
Definition rename_rule_deep (f : bytes -> bytes) (r : rule) : rule :=
  {| r_head := rename_pred_deep f (r_head r);
     r_body := map (rename_pred_deep f) (r_body r);
     r_exprs := map (map (fun o => match o with OVal t => OVal (rename_term_deep f t) | _ => o end))
                    (r_exprs r) |}.

(* q() <- p($y), $y == {$x}   over the (not set-free) fact p({$x}) *)
Definition q_setvar : rule :=
  qry [{| p_name := [112%N]; p_terms := [tvar 121] |}]
      [[OVal (tvar 121); OVal (TSet [AVar [120%N]]); OBin BEqual]].
Example rename_inside_sets_refuted :
  injective (pre 0) /\
  query_rule orx q_setvar [{| p_name := [112%N]; p_terms := [TSet [AVar [120%N]]] |}] = [qhead] /\
  query_rule orx (rename_rule_deep (pre 0) q_setvar)
             [{| p_name := [112%N]; p_terms := [TSet [AVar [120%N]]] |}] = [] /\
  query_rule orx (rename_rule (pre 0) q_setvar)
             [{| p_name := [112%N]; p_terms := [TSet [AVar [120%N]]] |}] = [qhead].
Proof. split; [apply pre_injective|]. repeat split; vm_compute; reflexivity. Qed.

(* C04 composition: hypotheses and instance *)
Example o_C04_verdict_spec :
  spec_verdict orx o_auth [o_blk] o_a (VChecksFailed [(FromAuthorizer, 1%N); (FromBlock 1, 1%N)]).
Proof.
  destruct o_hyps as [H4 [H5 [H6 H7]]].
  refine (proj2 (C04_verdict_spec orx o_auth [o_blk] o_a H5 H7 _) _).
  vm_compute. reflexivity.
Qed.

Example o_least_model : realises o_world (auth_model orx o_auth o_a).
Proof. apply (auth_world_model orx o_auth o_a o_world). vm_compute. reflexivity. Qed.

(** C12_permutation with set constants that have repeated elements AND set
    operators: the authority block carries the facts and rules of [rep_facts] /
    [rep_rules] (DatalogProofs.v: a rule with intersection and union over sets
    with repeated elements), a check with an expression on a set and a check
    whose body names the set [1,2,2] — satisfied through the Equal fact
    t([1,1,2],..) in one presentation; the authorizer adds p([2,1]), Equal to
    the block's p([1,2]), and a failing check.  The reversed presentation gives
    the same verdict class and the same world up to Equal; no derived fact is
    literally shared by the two worlds. *)
Definition x_has_1 : expr := [OVal (tvar 120); OVal (tint 1); OBin BContains].
Definition s_auth : block :=
  {| b_facts := rep_facts; b_rules := rep_rules;
     b_checks := [ [qry [sq (tvar 120)] [x_has_1]];
                   [qry [st set122 (tvar 121)] []] ] |}.
Definition s_a : astate :=
  {| a_facts := [sp set21]; a_rules := [];
     a_checks := [ [qry [sp (tvar 120)] [[OVal (tvar 120); OUn ULength; OVal (tint 4); OBin BEqual]]] ];
     a_policies := [pol_allow_true]; a_dirty := false; a_limits := olim |}.

Example s_hyps :
  NoDupA fact_eqv (a_facts s_a) /\
  runs_ok orx [s_auth] s_a /\ runs_ok orx (map rev_block [s_auth]) (rev_astate s_a) /\
  queries_ef orx [s_auth] s_a.
Proof.
  split; [apply nodupA_b_ok; vm_compute; reflexivity|].
  split; [apply runs_ok_b_ok; vm_compute; reflexivity|].
  split; [apply runs_ok_b_ok; vm_compute; reflexivity|].
  apply queries_ef_b_ok; vm_compute; reflexivity.
Qed.

Example s_C12_permutation :
  verdict_class (snd (authorize orx [s_auth] s_a)) =
  verdict_class (snd (authorize orx (map rev_block [s_auth]) (rev_astate s_a))) /\
  PermutationA fact_eqv (a_facts (fst (authorize orx [s_auth] s_a)))
                        (a_facts (fst (authorize orx (map rev_block [s_auth]) (rev_astate s_a)))).
Proof.
  destruct s_hyps as [H3 [H4 [H5 H6]]]. apply C12_reversed; assumption.
Qed.

Example s_verdicts :
  snd (authorize orx [s_auth] s_a) = VChecksFailed [(FromAuthorizer, 0%N)] /\
  snd (authorize orx (map rev_block [s_auth]) (rev_astate s_a)) = VChecksFailed [(FromAuthorizer, 0%N)] /\
  a_facts (fst (authorize orx [s_auth] s_a))
    = [sp set21; sp set112; sp set11; sq set112; st set112 set21; st set112 set112] /\
  a_facts (fst (authorize orx (map rev_block [s_auth]) (rev_astate s_a)))
    = [sp set21; sp set11; sp set122; sq set122; st set122 set21; st set122 set122].
Proof. repeat split; vm_compute; reflexivity. Qed.

(* C04 on the same programme: the verdict is the one the declarative
   specification prescribes, and the world realises the declarative model *)
Example s_C04_verdict_spec :
  spec_verdict orx s_auth [] s_a (VChecksFailed [(FromAuthorizer, 0%N)]) /\
  realises (fst (auth_world orx s_auth s_a)) (auth_model orx s_auth s_a).
Proof.
  destruct s_hyps as [_ [H4 [_ H6]]]. split.
  - refine (proj2 (C04_verdict_spec orx s_auth [] s_a H4 H6 _) _). vm_compute. reflexivity.
  - apply (auth_world_model orx s_auth s_a). vm_compute. reflexivity.
Qed.

(* C12_duplicate for a fact that is merely Equal to one already there *)
Example s_duplicate_eqv :
  add_fact (add_fact s_a (sp set12)) (sp set12) = add_fact s_a (sp set12) /\
  add_fact s_a (sp set12) = s_a /\ ~ In (sp set12) (a_facts s_a).
Proof.
  split; [apply C12_duplicate|]. split; [vm_compute; reflexivity|].
  cbn [a_facts s_a In]. intuition discriminate.
Qed.

Example s_C12_repeat :
  authorize orx [s_auth] (authorize_times orx 2 [s_auth] s_a) = authorize orx [s_auth] s_a.
Proof. apply C12_repeat_n. vm_compute. reflexivity. Qed.

(** The former counter-example (a repeated element in a fact AND an intersection
    in a check query), repaired.  Before Set.Intersect returned each element
    once, [check if p($x), $x.intersection([1]).length() == 2] held when
    p([1,1,2]) was loaded before the Equal p([1,2,2]) and failed in the other
    order.  Now the intersection is [1] for both: that check fails in both
    orders, the check with [== 1] holds in both orders, and C12_permutation
    applies (it has no hypothesis on sets). *)
Definition q_inter (n : Z) : rule :=
  qry [sp (tvar 120)]
      [[OVal (tvar 120); OVal set1; OBin BIntersection; OUn ULength; OVal (tint n); OBin BEqual]].
Definition a_inter (n : Z) : astate :=
  {| a_facts := []; a_rules := []; a_checks := [[q_inter n]]; a_policies := [pol_allow_true];
     a_dirty := false; a_limits := olim |}.

Example C12_sets_setops_repaired_example :
  snd (authorize orx (tok_div [sp set112; sp set122]) (a_inter 2)) = VChecksFailed [(FromAuthorizer, 0%N)] /\
  snd (authorize orx (tok_div [sp set122; sp set112]) (a_inter 2)) = VChecksFailed [(FromAuthorizer, 0%N)] /\
  snd (authorize orx (tok_div [sp set112; sp set122]) (a_inter 1)) = VSuccess /\
  snd (authorize orx (tok_div [sp set122; sp set112]) (a_inter 1)) = VSuccess /\
  a_facts (fst (authorize orx (tok_div [sp set112; sp set122]) (a_inter 1))) = [sp set112] /\
  a_facts (fst (authorize orx (tok_div [sp set122; sp set112]) (a_inter 1))) = [sp set122] /\
  (forall n,
     runs_ok orx (tok_div [sp set112; sp set122]) (a_inter n) ->
     runs_ok orx (tok_div [sp set122; sp set112]) (a_inter n) ->
     queries_ef orx (tok_div [sp set112; sp set122]) (a_inter n) ->
     verdict_class (snd (authorize orx (tok_div [sp set112; sp set122]) (a_inter n))) =
     verdict_class (snd (authorize orx (tok_div [sp set122; sp set112]) (a_inter n)))) /\
  runs_ok orx (tok_div [sp set112; sp set122]) (a_inter 1) /\
  runs_ok orx (tok_div [sp set122; sp set112]) (a_inter 1) /\
  queries_ef orx (tok_div [sp set112; sp set122]) (a_inter 1).
Proof.
  split; [vm_compute; reflexivity|]. split; [vm_compute; reflexivity|].
  split; [vm_compute; reflexivity|]. split; [vm_compute; reflexivity|].
  split; [vm_compute; reflexivity|]. split; [vm_compute; reflexivity|].
  split.
  { intros n H1 H2 H3.
    refine (proj1 (C12_permutation orx (tok_div [sp set112; sp set122]) (tok_div [sp set122; sp set112])
                     (a_inter n) (a_inter n) _ _ _ H1 H2 H3)).
    - constructor; [|constructor]. split; cbn [tok_div b_facts b_rules b_checks];
        [apply perm_swap | apply Permutation_refl | apply checks_perm_refl].
    - split; [apply Permutation_refl | apply Permutation_refl | apply checks_perm_refl
             | apply policies_perm_refl | reflexivity].
    - constructor. }
  split; [apply runs_ok_b_ok; vm_compute; reflexivity|].
  split; [apply runs_ok_b_ok; vm_compute; reflexivity|].
  apply queries_ef_b_ok; vm_compute; reflexivity.
Qed.

Print Assumptions query_nonempty_iff.
Print Assumptions query_nonempty_perm.
Print Assumptions check_holds_perm.
Print Assumptions checks_ok_perm.
Print Assumptions policy_result_perm_facts.
Print Assumptions error_free_no_rule_error.
Print Assumptions run_seteq.
Print Assumptions C12_permutation.
Print Assumptions C12_permutation_authority.
Print Assumptions C12_permutation_setfree.
Print Assumptions C12_reversed.
Print Assumptions block_world_eqv.
Print Assumptions query_nonempty_eqv.
Print Assumptions error_free_of_run.
Print Assumptions auth_world_model.
Print Assumptions block_world_model.
Print Assumptions fold_insert_dup_eqv.
Print Assumptions C12_duplicate.
Print Assumptions fold_insert_dup.
Print Assumptions C12_duplicate_authority_fact.
Print Assumptions C12_duplicate_world.
Print Assumptions C12_duplicate_authorizer_fact.
Print Assumptions C12_repeat_state.
Print Assumptions C12_repeat.
Print Assumptions C12_repeat_n.
Print Assumptions C12_repeat_after_limit_example.
Print Assumptions C12_out_of_fragment_example.
Print Assumptions C12_sets_setops_repaired_example.
Print Assumptions s_C12_permutation.
Print Assumptions s_C04_verdict_spec.
Print Assumptions apply_rule_rename.
Print Assumptions query_rule_rename.
Print Assumptions C12_alpha.
Print Assumptions rename_inside_sets_refuted.
Print Assumptions C04_worlds_are_least_models.
Print Assumptions C04_verdict_spec.
Print Assumptions runs_ok_iff.
