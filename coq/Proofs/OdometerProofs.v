(* OdometerProofs.v — the index machine of [combine] (Model/Odometer.v) visits
   exactly the tuples of the declarative enumeration [combos], in the same
   order (C05_odometer_refines). *)
From BV Require Import Base Term Expr Datalog Odometer.
From Coq Require Import Arith Lia.
Local Open Scope nat_scope.

(* ---------- advanceIndexes ---------- *)

Lemma set_nth_mid : forall pre b v x z,
  length pre = b -> set_nth b v (pre ++ x :: z) = pre ++ v :: z.
Proof.
  induction pre as [|y pre IH]; intros b v x z Hb; subst b; simpl.
  - reflexivity.
  - rewrite IH by reflexivity. reflexivity.
Qed.

Lemma nth_mid : forall pre b (x : nat) z,
  length pre = b -> nth b (pre ++ x :: z) 0 = x.
Proof. intros pre b x z Hb. subst b. apply nth_middle. Qed.

Lemma nth_error_mid : forall {T} (pre : list T) b x z,
  length pre = b -> nth_error (pre ++ x :: z) b = Some x.
Proof.
  intros T pre b x z Hb. subst b. rewrite nth_error_app2 by lia.
  rewrite Nat.sub_diag. reflexivity.
Qed.

Lemma advance_loop_eq i cur idx nf :
  advance_loop i cur idx nf =
  if S (nth i idx 0) <? nf then Some (cur, set_nth i (S (nth i idx 0)) idx)
  else match i with
       | S i' => advance_loop i' (cur - 1) (set_nth i 0 idx) nf
       | 0 => None
       end.
Proof. destruct i; reflexivity. Qed.

(* successful increment: break, current unchanged *)
Lemma adv_inc pre b i z n :
  length pre = b -> S i < n ->
  advance b (pre ++ i :: z) n = Some (b, pre ++ S i :: z).
Proof.
  intros Hb Hi. unfold advance. rewrite advance_loop_eq.
  rewrite nth_mid by exact Hb.
  destruct (S i <? n) eqn:E.
  - rewrite set_nth_mid by exact Hb. reflexivity.
  - apply Nat.ltb_ge in E. lia.
Qed.

(* carry: the exhausted position is reset to 0 and current moves left *)
Lemma adv_carry pre b j i z n :
  length pre = b -> ~ S i < n ->
  advance (S b) ((pre ++ [j]) ++ i :: z) n = advance b (pre ++ j :: 0 :: z) n.
Proof.
  intros Hb Hi. unfold advance. rewrite advance_loop_eq.
  assert (Hl : length (pre ++ [j]) = S b) by (rewrite app_length; simpl; lia).
  rewrite nth_mid by exact Hl.
  destruct (S i <? n) eqn:E.
  - apply Nat.ltb_lt in E. contradiction.
  - rewrite set_nth_mid by exact Hl. rewrite <- app_assoc. simpl.
    rewrite Nat.sub_0_r. reflexivity.
Qed.

(* position 0 overflows: return false *)
Lemma adv_stop i z n : ~ S i < n -> advance 0 (i :: z) n = None.
Proof.
  intros Hi. unfold advance. rewrite advance_loop_eq. simpl nth.
  destruct (S i <? n) eqn:E; [apply Nat.ltb_lt in E; contradiction | reflexivity].
Qed.

(* current and the loop variable stay equal, and the result only depends on them *)
Lemma advance_loop_cur : forall i idx nf c idx',
  advance_loop i i idx nf = Some (c, idx') -> c <= i /\ length idx' = length idx.
Proof.
  assert (Hs : forall l i v, length (set_nth i v l) = length l).
  { induction l as [|x l IH]; intros i v; destruct i; simpl; auto. }
  induction i as [|i IH]; intros idx nf c idx' H; rewrite advance_loop_eq in H.
  - destruct (S (nth 0 idx 0) <? nf); [|discriminate].
    assert (H1 : c = 0) by congruence.
    assert (H2 : idx' = set_nth 0 (S (nth 0 idx 0)) idx) by congruence.
    rewrite H1, H2, Hs. split; lia.
  - destruct (S (nth (S i) idx 0) <? nf).
    + assert (H1 : c = S i) by congruence.
      assert (H2 : idx' = set_nth (S i) (S (nth (S i) idx 0)) idx) by congruence.
      rewrite H1, H2, Hs. split; lia.
    + replace (S i - 1) with i in H by lia. apply IH in H. rewrite Hs in H.
      destruct H as [H1 H2]. split; [lia | exact H2].
Qed.

(* ---------- the machine ---------- *)

Section Proofs.
  Context {A P : Type}.
  Variable mt : A -> P -> bool.
  Variable ps : list P.
  Variable facts : list A.

  Notation run := (odo_run_g mt ps facts).
  Notation n := (length facts).

  Definition after_adv (f : nat) (o : option (nat * list nat)) : option (list (list A)) :=
    match o with
    | None => Some []
    | Some (c, i) => run f c i
    end.

  Lemma run_S f cur idx :
    run (S f) cur idx =
    match nth_error ps cur, nth_error idx cur with
    | Some p, Some ix =>
        match nth_error facts ix with
        | Some fa =>
            if mt fa p then
              if cur =? length ps - 1 then
                match tuple_of facts idx with
                | Some t => option_map (cons t) (after_adv f (advance cur idx n))
                | None => None
                end
              else run f (S cur) idx
            else after_adv f (advance cur idx n)
        | None => None
        end
    | _, _ => None
    end.
  Proof.
    cbn [odo_run_g].
    destruct (nth_error ps cur) as [p|]; [|reflexivity].
    destruct (nth_error idx cur) as [ix|]; [|reflexivity].
    destruct (nth_error facts ix) as [fa|]; [|reflexivity].
    destruct (mt fa p); [|destruct (advance cur idx n) as [[c i]|]; reflexivity].
    destruct (cur =? length ps - 1); [|reflexivity].
    destruct (tuple_of facts idx) as [t|]; [|reflexivity].
    destruct (advance cur idx n) as [[c i]|]; reflexivity.
  Qed.

  (* more fuel never changes a result *)
  Lemma run_mono : forall f e cur idx r,
    run f cur idx = Some r -> run (f + e) cur idx = Some r.
  Proof.
    induction f as [|f IH]; intros e cur idx r H; [discriminate H|].
    change (S f + e) with (S (f + e)). rewrite run_S in *.
    destruct (nth_error ps cur) as [p|]; [|discriminate H].
    destruct (nth_error idx cur) as [ix|]; [|discriminate H].
    destruct (nth_error facts ix) as [fa|]; [|discriminate H].
    destruct (mt fa p).
    - destruct (cur =? length ps - 1).
      + destruct (tuple_of facts idx) as [t|]; [|discriminate H].
        destruct (advance cur idx n) as [[c i]|]; simpl in *; [|exact H].
        destruct (run f c i) as [r0|] eqn:E; [|discriminate H].
        rewrite (IH e _ _ _ E). exact H.
      + apply IH. exact H.
    - destruct (advance cur idx n) as [[c i]|]; simpl in *; [apply IH|]; exact H.
  Qed.

  Lemma after_adv_mono f e o r : after_adv f o = Some r -> after_adv (f + e) o = Some r.
  Proof. destruct o as [[c i]|]; simpl; [apply run_mono | auto]. Qed.

  (* the main loop is: inner loop, visit, advanceIndexes, repeat with the fuel left *)
  Lemma odo_run_next_match : forall fuel cur idx,
    run fuel cur idx =
    match next_match_g mt ps facts fuel cur idx with
    | NMFuel | NMOob => None
    | NMDone => Some []
    | NMFound f' c i =>
        match tuple_of facts i with
        | Some t => option_map (cons t) (after_adv f' (advance c i n))
        | None => None
        end
    end.
  Proof.
    induction fuel as [|f IH]; intros cur idx; [reflexivity|].
    rewrite run_S. cbn [next_match_g].
    destruct (nth_error ps cur) as [p|]; [|reflexivity].
    destruct (nth_error idx cur) as [ix|]; [|reflexivity].
    destruct (nth_error facts ix) as [fa|]; [|reflexivity].
    destruct (mt fa p).
    - destruct (cur =? length ps - 1); [reflexivity | apply IH].
    - destruct (advance cur idx n) as [[c i]|]; simpl; [apply IH | reflexivity].
  Qed.

  (* ---------- the declarative side, one level ---------- *)

  (* tuples for p :: psR whose first index is >= i *)
  Definition lvl (p : P) (psR : list P) (i : nat) : list (list A) :=
    flat_map (fun f => map (cons f) (combos_g mt psR facts))
             (filter (fun f => mt f p) (skipn i facts)).

  Lemma skipn_nth_error : forall (l : list A) i a,
    nth_error l i = Some a -> skipn i l = a :: skipn (S i) l.
  Proof.
    induction l as [|x l IH]; intros i a H; destruct i; simpl in *; try discriminate.
    - congruence.
    - apply IH. exact H.
  Qed.

  Lemma lvl_step p psR i fa :
    nth_error facts i = Some fa ->
    lvl p psR i =
    (if mt fa p then map (cons fa) (combos_g mt psR facts) else []) ++ lvl p psR (S i).
  Proof.
    intros H. unfold lvl. rewrite (skipn_nth_error _ _ _ H). cbn [filter].
    destruct (mt fa p); reflexivity.
  Qed.

  Lemma lvl_end p psR : lvl p psR n = [].
  Proof. unfold lvl. rewrite skipn_all. reflexivity. Qed.

  Lemma lvl_0 p psR : lvl p psR 0 = combos_g mt (p :: psR) facts.
  Proof. reflexivity. Qed.

  Lemma tuple_of_snoc pre pf i fa :
    tuple_of facts pre = Some pf -> nth_error facts i = Some fa ->
    tuple_of facts (pre ++ [i]) = Some (pf ++ [fa]).
  Proof.
    revert pf. induction pre as [|j pre IH]; intros pf Hp Hi; simpl in *.
    - injection Hp as <-. rewrite Hi. reflexivity.
    - destruct (nth_error facts j) as [a|]; [|discriminate Hp].
      destruct (tuple_of facts pre) as [t|]; [|discriminate Hp].
      injection Hp as <-. rewrite (IH t eq_refl Hi). reflexivity.
  Qed.

  (* ---------- one inner-loop iteration at position b, index i ---------- *)

  (* last predicate: a match is a visit *)
  Lemma index_step_last psL p pre pf i fa f e r' :
    ps = psL ++ [p] -> length pre = length psL ->
    tuple_of facts pre = Some pf -> nth_error facts i = Some fa ->
    after_adv f (advance (length psL) (pre ++ [i]) n) = Some r' ->
    run (S (f + e)) (length psL) (pre ++ [i]) =
    Some (map (app pf) (if mt fa p then map (cons fa) (combos_g mt [] facts) else []) ++ r').
  Proof.
    intros Hps Hlen Hpf Hfa Hafter. rewrite run_S.
    rewrite Hps at 1. rewrite nth_error_mid by reflexivity.
    rewrite nth_error_mid by exact Hlen. rewrite Hfa.
    apply (after_adv_mono _ e) in Hafter.
    destruct (mt fa p).
    - replace (length psL =? length ps - 1) with true.
      2:{ symmetry. apply Nat.eqb_eq. rewrite Hps, app_length. simpl. lia. }
      rewrite (tuple_of_snoc _ _ _ _ Hpf Hfa). rewrite Hafter. reflexivity.
    - exact Hafter.
  Qed.

  (* inner predicate: a match descends one level; [Hsub] is the behaviour of
     the level below (the induction hypothesis of [level]) *)
  Lemma index_step_inner psL p p' psR' pre pf i fa f L r' :
    ps = psL ++ p :: p' :: psR' -> length pre = length psL ->
    tuple_of facts pre = Some pf -> nth_error facts i = Some fa ->
    (forall f0 r0,
        after_adv f0 (advance (S (length psL))
                              ((pre ++ [i]) ++ (n - 1) :: repeat 0 (length psR')) n) = Some r0 ->
        run (f0 + L) (S (length psL)) ((pre ++ [i]) ++ 0 :: repeat 0 (length psR'))
        = Some (map (app (pf ++ [fa])) (lvl p' psR' 0) ++ r0)) ->
    after_adv f (advance (length psL) (pre ++ i :: repeat 0 (length (p' :: psR'))) n) = Some r' ->
    run (S (f + L)) (length psL) (pre ++ i :: repeat 0 (length (p' :: psR'))) =
    Some (map (app pf) (if mt fa p then map (cons fa) (combos_g mt (p' :: psR') facts) else [])
          ++ r').
  Proof.
    intros Hps Hlen Hpf Hfa Hsub Hafter. rewrite run_S.
    rewrite Hps at 1. rewrite nth_error_mid by reflexivity.
    rewrite nth_error_mid by exact Hlen. rewrite Hfa.
    assert (Hn : 0 < n).
    { destruct facts as [|a l]; [destruct i; discriminate Hfa | simpl; lia]. }
    destruct (mt fa p).
    - replace (length psL =? length ps - 1) with false.
      2:{ symmetry. apply Nat.eqb_neq. rewrite Hps, app_length. simpl. lia. }
      cbn [length repeat] in *.
      replace (pre ++ i :: 0 :: repeat 0 (length psR'))
        with ((pre ++ [i]) ++ 0 :: repeat 0 (length psR'))
        by (rewrite <- app_assoc; reflexivity).
      rewrite (Hsub f r').
      + rewrite lvl_0, map_map. f_equal. f_equal. apply map_ext.
        intros t. rewrite <- app_assoc. reflexivity.
      + rewrite adv_carry by (try exact Hlen; lia). exact Hafter.
    - apply after_adv_mono. exact Hafter.
  Qed.

  (* ---------- a whole level ---------- *)

  (* Position b = length psL, with the prefix indexes [pre] fixed, scanning the
     facts from index i on: the machine visits exactly the tuples
     pf ++ (tuples of p :: psR with first index >= i), in order, and then does
     whatever follows the exhaustion of position b: the advanceIndexes call on
     (pre ++ (n-1) :: 0...0). *)
  Lemma level : forall psR psL p pre pf d i f r,
    ps = psL ++ p :: psR -> length pre = length psL ->
    tuple_of facts pre = Some pf ->
    i + S d = n ->
    after_adv f (advance (length psL) (pre ++ (n - 1) :: repeat 0 (length psR)) n) = Some r ->
    run (f + S d * S (level_cost facts (length psR))) (length psL)
        (pre ++ i :: repeat 0 (length psR))
    = Some (map (app pf) (lvl p psR i) ++ r).
  Proof.
    induction psR as [|p' psR' IHR]; intros psL p pre pf d;
      induction d as [|d IHd]; intros i f r Hps Hlen Hpf Hi Hafter.
    - (* last predicate, last fact *)
      destruct (nth_error facts i) as [fa|] eqn:Hfa.
      2:{ apply nth_error_None in Hfa. lia. }
      replace (f + 1 * S (level_cost facts (length (@nil P)))) with (S (f + 0))
        by (simpl; lia).
      cbn [length repeat] in *.
      assert (Hi' : i = n - 1) by lia.
      rewrite (index_step_last psL p pre pf i fa f 0 r Hps Hlen Hpf Hfa).
      + rewrite (lvl_step _ _ _ _ Hfa). replace (S i) with n by lia.
        rewrite lvl_end, app_nil_r. reflexivity.
      + rewrite Hi'. exact Hafter.
    - (* last predicate, more facts to come *)
      destruct (nth_error facts i) as [fa|] eqn:Hfa.
      2:{ apply nth_error_None in Hfa. lia. }
      cbn [length repeat level_cost] in *.
      replace (f + S (S d) * 1) with (S ((f + S d * 1) + 0)) by lia.
      rewrite (index_step_last psL p pre pf i fa (f + S d * 1) 0
                 (map (app pf) (lvl p [] (S i)) ++ r) Hps Hlen Hpf Hfa).
      + rewrite (lvl_step _ _ _ _ Hfa), map_app, app_assoc. reflexivity.
      + rewrite adv_inc by (try exact Hlen; lia). cbn [after_adv].
        apply (IHd (S i) f r Hps Hlen Hpf); [lia | exact Hafter].
    - (* inner predicate, last fact *)
      destruct (nth_error facts i) as [fa|] eqn:Hfa.
      2:{ apply nth_error_None in Hfa. lia. }
      assert (Hi' : i = n - 1) by lia.
      set (L := level_cost facts (length (p' :: psR'))).
      replace (f + 1 * S L) with (S (f + L)) by lia.
      rewrite (index_step_inner psL p p' psR' pre pf i fa f L r Hps Hlen Hpf Hfa).
      + rewrite (lvl_step _ _ _ _ Hfa). replace (S i) with n by lia.
        rewrite lvl_end, app_nil_r. reflexivity.
      + intros f0 r0 H0.
        assert (Hps' : ps = (psL ++ [p]) ++ p' :: psR')
          by (rewrite <- app_assoc; exact Hps).
        assert (Hlen' : length (pre ++ [i]) = length (psL ++ [p]))
          by (rewrite !app_length; simpl; lia).
        pose proof (IHR (psL ++ [p]) p' (pre ++ [i]) (pf ++ [fa]) (n - 1) 0 f0 r0
                      Hps' Hlen' (tuple_of_snoc _ _ _ _ Hpf Hfa)) as HR.
        replace (length (psL ++ [p])) with (S (length psL)) in HR
          by (rewrite app_length; simpl; lia).
        replace (S (n - 1)) with n in HR by lia.
        unfold L. cbn [length level_cost]. apply HR; [lia | exact H0].
      + rewrite Hi'. exact Hafter.
    - (* inner predicate, more facts to come *)
      destruct (nth_error facts i) as [fa|] eqn:Hfa.
      2:{ apply nth_error_None in Hfa. lia. }
      set (L := level_cost facts (length (p' :: psR'))) in *.
      replace (f + S (S d) * S L) with (S ((f + S d * S L) + L)) by lia.
      rewrite (index_step_inner psL p p' psR' pre pf i fa (f + S d * S L) L
                 (map (app pf) (lvl p (p' :: psR') (S i)) ++ r) Hps Hlen Hpf Hfa).
      + rewrite (lvl_step _ _ _ _ Hfa), map_app, app_assoc. reflexivity.
      + intros f0 r0 H0.
        assert (Hps' : ps = (psL ++ [p]) ++ p' :: psR')
          by (rewrite <- app_assoc; exact Hps).
        assert (Hlen' : length (pre ++ [i]) = length (psL ++ [p]))
          by (rewrite !app_length; simpl; lia).
        pose proof (IHR (psL ++ [p]) p' (pre ++ [i]) (pf ++ [fa]) (n - 1) 0 f0 r0
                      Hps' Hlen' (tuple_of_snoc _ _ _ _ Hpf Hfa)) as HR.
        replace (length (psL ++ [p])) with (S (length psL)) in HR
          by (rewrite app_length; simpl; lia).
        replace (S (n - 1)) with n in HR by lia.
        unfold L. cbn [length level_cost]. apply HR; [lia | exact H0].
      + rewrite adv_inc by (try exact Hlen; lia). cbn [after_adv].
        apply (IHd (S i) f r Hps Hlen Hpf); [lia | exact Hafter].
  Qed.

  (* ---------- the whole machine ---------- *)

  Theorem odo_run_refines :
    ps <> [] -> facts <> [] ->
    run (level_cost facts (length ps)) 0 (repeat 0 (length ps)) = Some (combos_g mt ps facts).
  Proof.
    intros Hps Hf.
    assert (Hex : exists p psR, ps = p :: psR)
      by (destruct ps as [|p psR]; [contradiction | eauto]).
    destruct Hex as (p & psR & E).
    assert (Hn : 0 < n) by (destruct facts; [contradiction | simpl; lia]).
    assert (Hid : forall l : list (list A), map (app []) l = l).
    { induction l as [|x l IH]; [reflexivity|]. cbn [map]. rewrite IH. reflexivity. }
    pose proof (level psR [] p [] [] (n - 1) 0 0 [] E eq_refl eq_refl) as H.
    replace (length ps) with (S (length psR)) by (rewrite E; reflexivity).
    cbn [length app repeat level_cost Nat.add] in *.
    replace (S (n - 1)) with n in H by lia.
    rewrite H; [| lia | rewrite adv_stop by lia; reflexivity].
    rewrite lvl_0, <- E, app_nil_r, Hid. reflexivity.
  Qed.
End Proofs.

(* ---------- instantiation to Datalog.combos ---------- *)

Lemma combos_g_combos ps facts : combos_g pred_match ps facts = combos ps facts.
Proof. induction ps as [|p ps IH]; simpl; [reflexivity | rewrite IH; reflexivity]. Qed.

(* C05_odometer_refines, with the explicit fuel [enough_fuel ps facts] *)
Theorem odometer_refines_fuel : forall ps facts,
  ps <> [] -> facts <> [] ->
  odo_tuples (enough_fuel ps facts) ps facts = Some (combos ps facts).
Proof.
  intros ps facts Hps Hf. unfold odo_tuples, odo_tuples_g, enough_fuel, enough_fuel_g.
  destruct ps as [|p ps']; [contradiction|]. destruct facts as [|a facts']; [contradiction|].
  rewrite odo_run_refines by discriminate. rewrite combos_g_combos. reflexivity.
Qed.

(* any larger fuel gives the same answer *)
Theorem odometer_refines_ge : forall fuel ps facts,
  ps <> [] -> facts <> [] -> enough_fuel ps facts <= fuel ->
  odo_tuples fuel ps facts = Some (combos ps facts).
Proof.
  intros fuel ps facts Hps Hf Hle.
  pose proof (odometer_refines_fuel ps facts Hps Hf) as H.
  unfold odo_tuples, odo_tuples_g in *.
  destruct ps as [|p ps']; [contradiction|]. destruct facts as [|a facts']; [contradiction|].
  replace fuel with (enough_fuel (p :: ps') (a :: facts') + (fuel - enough_fuel (p :: ps') (a :: facts')))
    by lia.
  apply run_mono. exact H.
Qed.

Theorem odometer_refines : forall ps facts,
  ps <> [] -> facts <> [] ->
  exists fuel, odo_tuples fuel ps facts = Some (combos ps facts).
Proof.
  intros ps facts Hps Hf. exists (enough_fuel ps facts).
  apply odometer_refines_fuel; assumption.
Qed.

(* degenerate cases *)
Theorem odo_no_preds : forall fuel facts,
  odo_tuples fuel [] facts = Some [[]] /\ combos [] facts = [[]].
Proof. intros fuel facts. split; reflexivity. Qed.

Theorem odo_no_facts : forall fuel ps,
  ps <> [] -> odo_tuples fuel ps [] = Some [] /\ combos ps [] = [].
Proof.
  intros fuel ps Hps. destruct ps as [|p ps']; [contradiction|]. split; reflexivity.
Qed.

(* all cases at once, and the checker *)
Theorem odometer_refines_all : forall fuel ps facts,
  enough_fuel ps facts <= fuel ->
  odo_tuples fuel ps facts = Some (combos ps facts).
Proof.
  intros fuel ps facts Hle.
  destruct ps as [|p ps'].
  - reflexivity.
  - destruct facts as [|a facts'].
    + reflexivity.
    + apply odometer_refines_ge; [discriminate | discriminate | exact Hle].
Qed.

Lemma list_eqb_refl {T} (eqb : T -> T -> bool) :
  (forall x, eqb x x = true) -> forall l, list_eqb eqb l l = true.
Proof.
  intros H l. induction l as [|x l IH]; simpl; [reflexivity|]. rewrite H, IH. reflexivity.
Qed.

Lemma atom_eqb_refl a : atom_eqb a a = true.
Proof.
  destruct a as [v|z|s|d|b|b]; simpl;
    [apply bytes_eqb_refl | apply Z.eqb_refl | apply bytes_eqb_refl | apply N.eqb_refl
    | apply bytes_eqb_refl | destruct b; reflexivity].
Qed.

Lemma pred_seqb_refl p : pred_seqb p p = true.
Proof.
  unfold pred_seqb. rewrite bytes_eqb_refl. simpl. apply list_eqb_refl.
  intros [a|l]; simpl; [apply atom_eqb_refl | apply list_eqb_refl, atom_eqb_refl].
Qed.

Theorem odo_agrees_true : forall fuel ps facts,
  enough_fuel ps facts <= fuel -> odo_agrees fuel ps facts = true.
Proof.
  intros fuel ps facts Hle. unfold odo_agrees.
  rewrite odometer_refines_all by exact Hle.
  unfold tuples_eqb. apply list_eqb_refl. intros l. apply list_eqb_refl, pred_seqb_refl.
Qed.

(* ---------- concrete runs (vm_compute) ---------- *)

Definition s (c : N) : bytes := [c].
Definition fa1 (name : N) (x : Z) : pred := {| p_name := s name; p_terms := [TA (AInt x)] |}.
Definition fa2 (name : N) (x y : Z) : pred :=
  {| p_name := s name; p_terms := [TA (AInt x); TA (AInt y)] |}.
Definition pv1 (name : N) (v : N) : pred := {| p_name := s name; p_terms := [TA (AVar (s v))] |}.
Definition pv2 (name : N) (v w : N) : pred :=
  {| p_name := s name; p_terms := [TA (AVar (s v)); TA (AVar (s w))] |}.
Definition pc2 (name : N) (v : N) (c : Z) : pred :=
  {| p_name := s name; p_terms := [TA (AVar (s v)); TA (AInt c)] |}.

(* a(1) b(7) a(2) c(1,2) a(3) c(2,3) : non-matching facts in the middle *)
Definition ex_facts : list pred :=
  [fa1 97 1; fa1 98 7; fa1 97 2; fa2 99 1 2; fa1 97 3; fa2 99 2 3]%N%Z.

(* 1: two predicates, the facts for each interleaved with non-matching ones *)
Example odo_ex1 :
  let ps := [pv1 97 120; pv2 99 120 121]%N in
  odo_tuples (enough_fuel ps ex_facts) ps ex_facts = Some (combos ps ex_facts)
  /\ length (combos ps ex_facts) = 6.
Proof. vm_compute. split; reflexivity. Qed.

(* 2: repeated predicate (self-join) *)
Example odo_ex2 :
  let ps := [pv1 97 120; pv1 97 121]%N in
  odo_tuples (enough_fuel ps ex_facts) ps ex_facts = Some (combos ps ex_facts)
  /\ length (combos ps ex_facts) = 9.
Proof. vm_compute. split; reflexivity. Qed.

(* 3: three predicates, the last one with a constant that prunes *)
Example odo_ex3 :
  let ps := [pv1 97 120; pv2 99 120 121; pc2 99 122 3]%N%Z in
  odo_tuples (enough_fuel ps ex_facts) ps ex_facts = Some (combos ps ex_facts)
  /\ length (combos ps ex_facts) = 6.
Proof. vm_compute. split; reflexivity. Qed.

(* 4: single fact, two predicates over it *)
Example odo_ex4 :
  let ps := [pv1 97 120; pv1 97 121]%N in
  let fs := [fa1 97 5]%N%Z in
  odo_tuples (enough_fuel ps fs) ps fs = Some [[fa1 97 5; fa1 97 5]]%N%Z
  /\ combos ps fs = [[fa1 97 5; fa1 97 5]]%N%Z.
Proof. vm_compute. split; reflexivity. Qed.

(* 5: the last fact is the only match of the last predicate; the first fact the
   only match of the first (skipped-last-fact / lost-carry shapes) *)
Example odo_ex5 :
  let ps := [pv1 98 120; pc2 99 121 3]%N%Z in
  let fs := [fa1 98 7; fa1 97 1; fa2 99 1 2; fa2 99 2 3]%N%Z in
  odo_tuples (enough_fuel ps fs) ps fs = Some [[fa1 98 7; fa2 99 2 3]]%N%Z
  /\ combos ps fs = [[fa1 98 7; fa2 99 2 3]]%N%Z.
Proof. vm_compute. split; reflexivity. Qed.

(* 6: a middle predicate that matches nothing: no tuple, and the machine stops *)
Example odo_ex6 :
  let ps := [pv1 97 120; pv1 100 121; pv1 97 122]%N in
  odo_tuples (enough_fuel ps ex_facts) ps ex_facts = Some [] /\ combos ps ex_facts = [].
Proof. vm_compute. split; reflexivity. Qed.

(* 7: out of fuel is visible, and one unit less than needed here fails *)
Example odo_ex7 :
  let ps := [pv1 97 120; pv1 97 121]%N in
  odo_tuples 5 ps ex_facts = None /\ odo_agrees 5 ps ex_facts = false
  /\ odo_agrees (enough_fuel ps ex_facts) ps ex_facts = true
  /\ enough_fuel ps ex_facts = 42.
Proof. vm_compute. repeat split; reflexivity. Qed.

(* 8: degenerate cases *)
Example odo_ex8 :
  odo_tuples 0 [] ex_facts = Some [[]] /\ odo_tuples 0 [pv1 97 120]%N [] = Some [].
Proof. vm_compute. split; reflexivity. Qed.

(* 9: the inner loop alone: from the start state over ex_facts with a(x), c(x,y)
   the first complete match is indexes [0;3] found after 5 iterations *)
Example next_match_ex :
  next_match [pv1 97 120; pv2 99 120 121]%N ex_facts 10 0 [0; 0] = NMFound 5 1 [0; 3].
Proof. vm_compute. reflexivity. Qed.

(* advanceIndexes: increment, carry with current moving left, overflow *)
Example advance_ex :
  advance 2 [1; 5; 2] 6 = Some (2, [1; 5; 3]) /\
  advance 2 [1; 4; 5] 6 = Some (1, [1; 5; 0]) /\
  advance 2 [1; 5; 5] 6 = Some (0, [2; 0; 0]) /\
  advance 2 [5; 5; 5] 6 = None /\
  advance 0 [0] 1 = None.
Proof. vm_compute. repeat split; reflexivity. Qed.

Print Assumptions odometer_refines.
Print Assumptions odometer_refines_fuel.
Print Assumptions odometer_refines_ge.
Print Assumptions odometer_refines_all.
Print Assumptions odo_no_preds.
Print Assumptions odo_no_facts.
Print Assumptions odo_agrees_true.
Print Assumptions odo_run_next_match.
