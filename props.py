"""Per-property configuration of ./check (what is proved where, what is trusted)."""

COMMON_TRUSTED = [
    "Coq 8.16.1 kernel (coqc, full .vo build; vm_compute used for table theorems, witnesses and the quick-tier "
    "evaluation of correspondence cases; native_compute not used)",
    "no Axiom/Parameter/Admitted in the development (grep audit on every run); Print Assumptions under every property "
    "theorem must say 'Closed under the global context'",
    "translator /verif/gen (go/ast + proto reader): trusted to report the tables that are in the source",
    "correspondence harness /verif/harness (generators, canonicalisation, recover/worker isolation, oracle tables "
    "computed with crypto/ed25519, regexp, time) and the Cases_*.v printer",
    "hand-written Gallina models of biscuit.go, builder.go, authorizer.go, converters*.go, types.go, datalog/*.go, "
    "parser/*.go: modelled, tied by generated tables + correspondence, not verified line by line",
]

PROPS = {}


def prop(pid, **kw):
    PROPS[pid] = kw


prop("C20",
     coq_deps=["Base.v", "Chain.v", "Corr.v", "ChainProofs.v", "Generated.v"],
     theorems=["C20_build_fault", "C20_append_fault", "C20_build_success", "C20_append_success", "C20_no_panic_build"],
     trusted=["ed25519 not modelled: Section variables pub/sign/verify with hypotheses verify_sign, pub_len (stated in the theorems)",
              "ed25519.GenerateKey = io.ReadFull(rng, 32 bytes) as in Go 1.23's crypto/ed25519"],
     assumptions=["verify (pub s) m (sign s m) = true", "length s = 32 -> length (pub s) = 32",
                  "a random source is modelled as the finite byte string it delivers before failing"])

SRC_DEPS = ["GoSem.v", "GoMap.v", "GenFnMapProofs.v", "GeneratedFn.v", "GenFnProofs.v", "SourceLevelProofs.v", "GenFnSetProofs.v", "SourceLevelSetProofs.v", "GenFnEvalProofs.v", "SourceLevelEvalProofs.v", "SourceLevelEvalClosedProofs.v", "GenFnEvalStaticProofs.v", "SourceLevelEvalStaticProofs.v", "SourceLevelEvalStaticClosedProofs.v", "DEval.v", "DEvalProofs.v", "DTerm.v", "Symbols.v", "SymbolsProofs.v"]
SRC_TRUSTED = "source translator /verif/genfn (go/parser, go/ast; its own type inference; documented subset in notes/GENFN.md): trusted to translate the Go text of datalog/symbol.go, of the operator Eval functions and of the stack machine (*Expression).Evaluate (with stack.Push/Pop and the dispatch over the implementors of Op, UnaryOpFunc, BinaryOpFunc) of datalog/expressions.go into the Gallina definitions of coq/GeneratedFn.v over the prelude Model/GoSem.v (fixed-width arithmetic made explicit, index out of range = Panic outcome, math/big = Z, strings/regexp calls = the model's byte-string functions and the rx oracle, error values = error classes); slice capacity and aliasing are not in that translation"
prop("C06", source_level=True,
     coq_deps=["Base.v", "Term.v", "Expr.v", "Corr.v", "ExprProofs.v", "TableProofs.v", "Generated.v"] + SRC_DEPS,
     theorems=["C06_total_no_panic", "C06_total", "C06_arith_exact", "C06_never_wrapped", "C06_ill_typed_is_error",
               "C06_well_typed_iff", "C06_well_typed_result", "C06_result_type", "C06_unary_table", "C06_set_ops", "C06_set_ops_no_repeats",
               "C06_string_ops", "C06_postfix", "C06_ok_is_postfix", "C06_malformed_is_error",
               "C06_every_operator_has_an_evaluator_arm", "C06_eval_index_level", "C06_index_equality_is_string_equality",
               "C06_source_add", "C06_source_sub", "C06_source_mul", "C06_source_div", "C06_source_less_than", "C06_source_less_or_equal",
               "C06_source_greater_than", "C06_source_greater_or_equal", "C06_source_and", "C06_source_or", "C06_source_negate",
               "C06_source_parens", "C06_source_length", "C06_source_prefix", "C06_source_suffix", "C06_source_regex",
               "C06_source_arith_exact", "C06_source_never_wrapped", "C06_source_arith_no_panic",
               "C06_source_evaluate_is_model", "C06_source_evaluate_total", "C06_source_evaluate_malformed_is_error",
               "C06_source_evaluate_never_wrapped", "C06_source_set_operators_are_model",
               "C06_source_evaluate_is_model_static", "C06_source_evaluate_total_static", "C06_source_evaluate_malformed_is_error_static",
               "C06_source_evaluate_result_in_range_static",
               "C06_source_equal", "C06_source_contains", "C06_source_contains_set", "C06_source_intersection", "C06_source_union",
               "C06_source_term_equal", "C06_source_set_equal", "C06_source_set_contains", "C06_source_set_intersect", "C06_source_set_union",
               "C06_source_intersection_spec", "C06_source_union_spec", "C06_source_set_ops_no_repeats", "C06_source_set_ops_no_panic",
               "C06_source_equal_symmetric", "C06_source_equal_sets_spec", "C06_source_equal_atoms_spec", "C06_source_equal_mismatch",
               "C06_source_contains_spec", "C06_source_contains_strings", "C06_source_contains_ill_typed"],
     trusted=[SRC_TRUSTED, "Go's regexp is not modelled: Section variable rx (pattern, subject -> option bool); the theorems hold for every rx",
              "the model evaluates resolved (S-level) values: string terms carry their contents; symbol-table interning of "
              "concatenation results is covered by the correspondence (results compared after resolution)",
              "integers are Z, dates N in the model; that operands are 64-bit is a property of their producers (decoder, parser)"],
     assumptions=["every error other than DivZero/Overflow/Regex/UnknownVar is one class (IllTyped) in the model and in the comparison",
                  "source-level theorems (Properties/C06_source_level.v): operands in the ranges of the Go types (wf_dterm: int64, uint64, uint32), "
                  "OFFSET + len(table) + 1 below 2^63 where the source computes it in int (table_fits); the stack machine Evaluate is translated and PROVED equal to the index-level model eval_D for every op sequence and all bindings "
                  "(Properties/C06_source_level_eval.v) under run_pre (the operands met during the run stay in the ranges of the Go types; exact and decidable on concrete inputs), "
                  "and under the STATIC condition static_pre t e b on the inputs alone (Properties/C06_source_level_eval_static.v: constants and looked-up bindings in range, every table string / byte array / set of size <= B, B * 2^(number of Add and Union ops) < 2^63, table length + that number + 1025 < 2^63; static_pre implies run_pre) "
                  "; Equal, Contains, Intersection, Union and the Set / Term Equal methods are proved equal to the model for all operands (Properties/C06_source_level_sets.v; only Contains on two strings needs the ranges), which discharges the premise set_ops_eq of the Evaluate theorems (C06_source_set_operators_are_model); a Set nested in a Set is not represented (the converters refuse it); "
                  "a map[Variable]*Term holds non-nil pointers; "
                  "the regex oracle is assumed uniform in the subject for compile failures (rx_uniform)"])

AUTHZ_DEPS = ["Base.v", "Term.v", "Expr.v", "Datalog.v", "Authz.v", "Corr.v", "AuthzProofs.v", "Generated.v", "DEval.v", "CorrD.v", "DEvalProofs.v", "DTerm.v", "Symbols.v", "Wire.v", "Token.v", "Chain.v", "SymbolsProofs.v"]
AUTHZ_TRUSTED = ["Go's regexp is not modelled (Section variable rx; theorems hold for every rx)",
                 "the property theorems are stated over the S-level model (string terms and names carry their contents); the INDEX-level "
                 "behaviour of the code (token content re-interned into the authorizer's table, evaluation over indexes, concatenation "
                 "interning its result: Model/DEval.v) is PROVED to refine to it (Properties/C04_index_level.v, C05_index_level.v, "
                 "C06_index_level.v; hypothesis: table below 2^32 entries) and both models are run against the implementation on every "
                 "case (verdict, failed-check list, the world's ORDERED fact list, query results)",
                 "wall-clock timeout not modelled (harness uses a 20 s maxDuration)"]
prop("C02", coq_deps=AUTHZ_DEPS + ["TokenProofs.v", "SymbolsProofs.v", "WireProofs.v", "Token.v", "Wire.v", "Symbols.v", "DTerm.v", "Chain.v", "History.v"],
     theorems=["C02_monotone", "C02_no_content_helps", "C02_exact_effect", "C02_prefix_cases", "C02_token_attenuation", "C02_parent_content_unchanged"],
     trusted=AUTHZ_TRUSTED + ["dangling symbol indexes are refused by Unmarshal since fix 6773711 (modelled in Token.unmarshal_blocks); the capture attempt is replayed at every symbol position on every run"],
     assumptions=["T <> [] (a token has an authority block)",
                  "C02_token_attenuation (Properties/C02_tokens.v) states the property for library tokens with their symbol tables: a block built once from CreateBlock of the token (token_inv)"])
prop("C03", coq_deps=AUTHZ_DEPS + ["TokenProofs.v", "SymbolsProofs.v", "WireProofs.v", "Token.v", "Wire.v", "Symbols.v", "DTerm.v", "Chain.v", "History.v"],
     theorems=["C03_authority_phase_blind", "C03_blocks_independent", "C03_other_blocks_unaffected", "C03_block_facts_local",
               "C03_block_insert", "C03_state_blind", "C03_queries_blind", "C03_authority_visible", "C03_token_append_state_blind"],
     trusted=AUTHZ_TRUSTED, assumptions=[])
prop("C04", coq_deps=AUTHZ_DEPS + ["DatalogProofs.v", "OrderProofs.v"],
     theorems=["C04_verdict_structure", "C04_success_iff", "C04_precedence", "C04_decision", "C04_first_match", "C04_no_match",
               "C04_or_is_disjunction", "C04_run_error_wins", "C04_worlds_are_least_models", "C04_verdict_spec",
               "C04_authorize_index_level", "C04_query_index_level", "C04_histories_index_level"],
     trusted=AUTHZ_TRUSTED, assumptions=["the scopes' worlds are the run results; that a run result is the least model (up to Predicate.Equal) is C05_least_model; "
                                         "no hypothesis about sets"])
prop("C13", coq_deps=AUTHZ_DEPS,
     theorems=["C13_reset_fresh", "C13_rounds", "C13_rounds_outputs", "C13_history_cut", "C13_limits_invariant"],
     trusted=AUTHZ_TRUSTED, assumptions=["Reset is modelled as going back to the empty world carrying the configured limits (fix 829f55f)"])

prop("C05", source_level=True,
     coq_deps=["Base.v", "Term.v", "Expr.v", "Datalog.v", "Corr.v", "DatalogProofs.v", "Odometer.v", "OdometerProofs.v", "Generated.v", "Token.v", "GenFnDatalogProofs.v"] + SRC_DEPS,
     theorems=["C05_run_sound", "C05_run_complete", "C05_least_model", "C05_least_model_setfree", "C05_derivable_is_least",
               "C05_query_exact", "C05_query_sound", "C05_order_free", "C05_order_free_equal", "C05_world_only_grows",
               "C05_equal_is_equivalence", "C05_operators_respect_equal", "C05_set_operators_respect_equal", "C05_trel_is_equal",
               "C05_odometer_refines", "C05_run_index_level", "C05_query_index_level",
               "C05_source_predicate_equal", "C05_source_predicate_match", "C05_source_factset_insert", "C05_source_factset_insert_all",
               "C05_source_factset_equal", "C05_source_advance_indexes", "C05_source_advance_indexes_total", "C05_source_insert_no_duplicates",
               "C05_source_insert_all_no_duplicates", "C05_source_insert_keeps_existing", "C05_source_insert_then_member",
               "C05_source_match_symmetric", "C05_source_equal_symmetric", "C05_source_equal_implies_match",
               "C05_source_matched_variables_insert", "C05_source_insert_is_bind_step", "C05_source_insert_consistent", "C05_source_insert_fresh"],
     trusted=[SRC_TRUSTED + "; for C05 (stage E) also Predicate.Equal, Predicate.Match, FactSet.Insert/InsertAll/Equal and the odometer's carry step "
              "advanceIndexes of datalog/datalog.go (the struct Predicate is the model record dpred, its declaration is checked against that; "
              "`for i := e; i >= 0; i--` is a descending loop; `(*p)[i] = v` is an update of the list, out of range = Panic; other aliases of a "
              "backing array are not represented)",
              "Go's regexp is not modelled (Section variable rx)",
              "the join enumeration is modelled declaratively (combos: lexicographic index tuples pruned by Match); the literal index "
              "machine of combine/advanceIndexes is tied by the ORDERED correspondence (World.Facts() and QueryRule results compared as "
              "ordered lists) and by Proofs/OdometerProofs.v where closed",
              "S-level model (strings by content); wall-clock timeout not modelled"],
     assumptions=["no hypothesis about sets: after fix bd3bfa8 (symmetric Set.Equal, Intersect/Union without repetitions) term equality is an "
                  "equivalence that every operator respects, so 'present' and 'same facts' are stated up to Predicate.Equal (InA / "
                  "PermutationA fact_eqv): the world keeps the first representative of each class (C05_modulo_equal shows this is "
                  "necessary: p([1,2]) and p([2,1]) are one fact); the set-free corollary keeps the syntactic statement",
                  "base facts pairwise different (NoDupA), runs within limits",
                  "source-level statements (Properties/C05_source_level.v): Predicate.Equal/Match and FactSet.Insert/InsertAll/Equal equal the model for "
                  "ALL inputs (in particular p2.Terms[i] cannot panic); advanceIndexes equals the model's `advance` when *current is inside indexes and "
                  "below 2^63; MatchedVariables.Insert equals one step of the model's bind_terms_D (a map[Variable]*Term is the list of its bound variables: a key with a nil "
                  "value and an absent key are not distinguished); Rule.Apply / combine (goroutines, channels), MatchedVariables.Complete and World.Run are not translated: for them "
                  "the tie is the ordered correspondence"])

CHAIN_DEPS = ["Base.v", "Chain.v", "Corr.v", "ChainProofs.v", "Generated.v"]
CHAIN_TRUSTED = ["ed25519 is not modelled: Section variables pub/sign/verify; laws used are stated in each theorem "
                 "(verify_sign, pub_len; verify_sound relative to an ideal ledger Signed for the forgery statements; "
                 "pub_inj, sign_inj for uniqueness). The correspondence instantiates them with oracle tables computed by "
                 "crypto/ed25519 itself",
                 "the envelope is decoded for the model by protobuf-go (harness), block bytes are opaque at this layer; "
                 "the wire layer is Model/Wire.v"]
prop("C01", coq_deps=CHAIN_DEPS,
     theorems=["C01_accept_iff_chain", "C01_broken_link_rejected", "C01_verification_total", "C01_payload_injective",
               "C01_seal_payload_injective", "C01_complete", "C01_accepted_is_signed", "C01_unsigned_link_rejected",
               "C01_unsigned_seal_rejected", "C01_wrong_secret_rejected"],
     trusted=CHAIN_TRUSTED, assumptions=["cryptographic strength of ed25519 is the hypothesis verify_sound (partial in that respect)"])
prop("C09", coq_deps=CHAIN_DEPS + ["TokenProofs.v", "SymbolsProofs.v", "WireProofs.v", "Token.v", "Wire.v", "Symbols.v", "DTerm.v", "History.v", "Authz.v", "Datalog.v", "Expr.v", "Term.v"],
     theorems=["C09_seal_verifies", "C09_same_revocation_ids", "C09_same_root_id", "C09_frozen", "C09_tamper_rejected",
               "C09_seal_payload_injective", "C09_same_datalog_content", "C09_same_authorization"],
     trusted=CHAIN_TRUSTED, assumptions=["envelope level: same blocks; token level (Properties/C09_content.v): same authority block, blocks and cumulative symbol table, "
                                          "hence the same resolved content and the same result of authorize for every authorizer state (token_inv)"])
prop("C16", coq_deps=CHAIN_DEPS,
     theorems=["C16_id_at_build", "C16_id_survives_append", "C16_id_survives_seal", "C16_id_travels", "C16_lookup_exact"],
     trusted=CHAIN_TRUSTED, assumptions=[])
prop("C17", coq_deps=CHAIN_DEPS,
     theorems=["C17_one_per_block", "C17_is_signature", "C17_prefix_append", "C17_prefix_seal", "C17_unique_signing_events",
               "C17_new_id_shape"],
     trusted=CHAIN_TRUSTED, assumptions=["fresh randomness: distinct signing events draw distinct 32-byte seeds; pub and sign are collision-free"])

prop("C12", coq_deps=AUTHZ_DEPS + ["DatalogProofs.v", "OrderProofs.v"],
     theorems=["C12_permutation", "C12_permutation_setfree", "C12_alpha", "C12_duplicate", "C12_duplicate_in_block", "C12_duplicate_in_block_equal", "C12_repeat"],
     trusted=AUTHZ_TRUSTED,
     assumptions=["no hypothesis about sets (fix bd3bfa8): worlds are compared up to Predicate.Equal (PermutationA fact_eqv), verdict classes "
                  "are equal; C12_permutation_setfree keeps the syntactic statement",
                  "error-free queries (queries_ef), runs within limits (runs_ok), authorizer facts pairwise different; "
                  "the policy list order is significant and not permuted; renaming acts on top-level variables"])
prop("C11", coq_deps=AUTHZ_DEPS + ["DatalogProofs.v", "ChanLTS.v", "ChanLTSProofs.v", "TableProofs.v", "ChanPinProofs.v"],
     theorems=["C11_ok_is_fixpoint", "C11_max_facts_error", "C11_max_iterations_error", "C11_error_cases",
               "C11_authorize_fails_on_limit", "C11_limits_survive", "C11_no_stranded", "C11_no_blocked_forever",
               "C11_no_infinite_run", "C11_old_protocol_strands", "C11_channel_protocol_pinned"],
     level_text="PARTIAL proof: limits / no silent truncation / authorization fails on a limit are theorems about the Datalog and "
                "authorizer models; 'no stranded goroutine' is a theorem about a transition system of the Run/Apply/combine channel "
                "protocol for arbitrarily many rule applications and combinations under every schedule; that the options reach the "
                "worlds through both entry points, the wall-clock timeout and the runtime's goroutine reclamation are exercised by "
                "the harness (limits-in-force accessor, goroutine census, timeout ordering), not proved",
     trusted=AUTHZ_TRUSTED + ["ChanLTS.v is a hand-written abstraction of the synchronisation skeleton of datalog.go (buffered done, ctx, "
                               "unbuffered combination channel, stop channel); data is abstracted to counters and nondeterministic choice; "
                               "it is tied to the code by a regenerated table of channel creations and send statements (pinned: buffered done, every send on "
                               "the combination channel inside a select with the stop case) and by the goroutine census of the harness",
                               "Go scheduler, context timers and goroutine reclamation are outside the model (runtime remainder)"],
     assumptions=["no program of this Datalog dialect diverges (heads only take body-bound variables): limits cut large finite models"],
     harness_timeout=900)

WIRE_DEPS = ["Base.v", "Term.v", "Expr.v", "Datalog.v", "Authz.v", "DTerm.v", "Symbols.v", "Chain.v", "Wire.v", "Token.v", "History.v",
             "Corr.v", "WireProofs.v", "ChainProofs.v", "ExprProofs.v", "AuthzProofs.v", "PipelineProofs.v", "Generated.v"]
prop("C10", source_level=True, coq_deps=WIRE_DEPS + SRC_DEPS,
     theorems=["C10_unmarshal_total", "C10_unmarshal_with_base_total", "C10_block_decode_total", "C10_policies_decode_total",
               "C10_verify_total", "C10_accepted_sizes", "C10_append_total", "C10_seal_total", "C10_expressions_total",
               "C10_blocks_phase_total", "C10_authorize_total",
               "C10_source_str_total", "C10_source_var_total", "C10_source_str_is_model", "C10_source_var_is_model",
               "C10_source_evaluate_total", "C10_source_evaluate_is_model"],
     level_text="PARTIAL proof: every modelled stage (wire decoding incl. protobuf-go's required-field fast path, conversion, size gates, "
                "symbol check, signature verification, append, seal, expression evaluation, authorization) is a total function whose explicit "
                "Panic outcome is proved unreachable for every byte string; the crash-freedom of protobuf-go, regexp, fmt and time themselves "
                "is exercised (worker-process streams), not proved",
     trusted=["Model/Wire.v is a hand-written model of protobuf-go's proto2 decoding (validated against the library on ~8000 inputs by its "
              "author agent and on every run by the pipeline correspondence)",
              "ed25519 as Section variables; Go's regexp/fmt/time not modelled",
              "printing (String/Code) totality is stated in C15", SRC_TRUSTED],
     assumptions=["root key is 32 bytes (property text)",
                  "C10_source_*: SymbolTable.Str/Var as translated from the source text return normally for every 64-bit / 32-bit index (len(table) < 2^63)"])

prop("C19", coq_deps=["Base.v", "Footprint.v", "FootprintProofs.v", "TableProofs.v", "SharedWritePinProofs.v", "Generated.v"],
     theorems=["C19_interleave_readonly", "C19_footprints", "C19_schedules", "C19_old_code_refuted",
               "C19_no_write_through_the_shared_token", "C19_no_package_level_state_written"],
     level_text="PARTIAL proof: a generic theorem over ALL schedules of any number of threads on a shared heap (threads that write only "
                "what they allocated cannot race and get their solo results), instantiated with footprint programs of the listed token "
                "operations over arbitrary token layouts and spare capacities; the footprints are tied to the code by a regenerated table "
                "of writes through the shared token (pinned empty) and by a -race stress run; the Go memory model, scheduler, participle "
                "and protobuf-go internals are not modelled",
     trusted=["Model/Footprint.v footprint programs are hand-written abstractions of biscuit.go authorizerFor/Append/Seal/GetBlockID/"
              "CreateBlock/Serialize/String, authorizer.go Authorize, datalog/symbol.go Clone",
              "translator: shared_write_sites is a syntactic may-write analysis (assign / inc-dec / append-into / copy-into / mutating "
              "method call on an expression rooted at the *Biscuit receiver or at v.biscuit); writes through aliases held in locals are "
              "covered only by the race detector",
              "Go race detector (dynamic, the schedules it happens to see)"],
     assumptions=["each goroutine uses its own authorizer (property text)"],
     harness_timeout=1500)

PARSER_DEPS = ["Base.v", "Term.v", "Lexer.v", "Parser.v", "Printer.v", "Corr2.v", "ParserProofs.v", "Generated.v"]
PARSER_TRUSTED = ["participle is not modelled beyond: ordered first-match lexing over the generated rule table (each recogniser hand-written and "
                  "pinned to its pattern string), the struct-tag grammar (pinned), literals matched by text / token references by kind, "
                  "lookahead-1 branch selection as validated against the library on ~15 000 texts by the model's author agent and on every run",
                  "Go's regexp (lexer patterns), strconv.Unquote beyond backslash-free printable ASCII, time.Parse/Format (replaced by a Gallina "
                  "RFC3339 implementation with a proved round trip) are not modelled; inputs outside printable ASCII are left to the robustness stream"]
prop("C14", coq_deps=PARSER_DEPS,
     theorems=['C14_lexer_rules_pinned', 'C14_grammar_tags_pinned', 'C14_to_ops_postfix', 'C14_tokens_parse_unparse_expr', 'C14_tokens_parse_unparse_check', 'C14_tokens_parse_unparse_rule', 'C14_tokens_parse_unparse_block', 'C14_tokens_parse_unparse_authorizer', 'C14_lex_render', 'C14_parse_unparse_fact', 'C14_parse_unparse_rule', 'C14_parse_unparse_check', 'C14_parse_unparse_policy', 'C14_parse_unparse_block', 'C14_parse_unparse_authorizer', 'C14_lex_render_any_layout', 'C14_lex_items_any_layout', 'C14_token_before_layout', 'C14_parse_unparse_fact_any_layout', 'C14_parse_unparse_rule_any_layout', 'C14_parse_unparse_check_any_layout', 'C14_parse_unparse_policy_any_layout', 'C14_parse_unparse_block_any_layout', 'C14_parse_unparse_authorizer_any_layout', 'C14_parser_options_pinned', 'C14_comparison_consumes_one', 'C14_rejects_chained_comparison_run', 'C14_rejects_double_negation', 'C14_variable_in_set', 'C14_variable_param_in_set', 'C14_unbound_parameter', 'C14_malformed_date', 'C14_malformed_hex', 'C14_bad_term_in_predicate', 'C14_bad_term_in_expression', 'C14_lex_total', 'C14_parse_fact_total', 'C14_parse_rule_total', 'C14_parse_check_total', 'C14_parse_policy_total', 'C14_parse_block_total', 'C14_parse_authorizer_total'],
     trusted=PARSER_TRUSTED,
     assumptions=["round-trip theorems are for texts rendered from grammar trees with ANY layout: every gap (before the first token, between "
                  "tokens, after the last) is an arbitrary string of spaces, tabs, \\n and \\r; an EMPTY gap must satisfy the adjacency "
                  "condition tok_ok (two tokens must not glue), and the gap after a comment starts with \\n; comments only where the grammar "
                  "has them (leading comments of a rule / block / authorizer - C14_comments_only_leading, same on the Go parser)",
                  "'every parsed element can be added to a builder without panicking' is exercised by the harness, not proved (the builder "
                  "conversion of a successfully converted term is total by typing in the model)"],
     harness_timeout=900)
prop("C15", source_level=True, coq_deps=PARSER_DEPS + SRC_DEPS + ["GenFnPrintProofs.v", "GenFnPrintPredProofs.v", "PrintStableProofs.v", "TokenProofs.v", "SymbolsProofs.v", "WireProofs.v", "Token.v", "Wire.v", "Symbols.v", "DTerm.v", "Chain.v", "History.v"],
     theorems=['C15_print_expr', 'C15_roundtrip', 'C15_roundtrip_from_grammar', 'C15_date_roundtrip', 'C15_civil_calendar', 'C15_layout_lexes', 'C15_block_layout_lexable', 'C15_layout_lexes_any_layout', 'C15_roundtrip_any_layout', 'C15_print_total',
               'C15_stable_under_serialization', 'C15_reload_prints_the_same', 'C15_any_block_position', 'C15_position_channel',
               'C15_source_print_is_model', 'C15_source_print_is_model_g', 'C15_source_print_total', 'C15_source_parens_printed',
               'C15_source_operator_spellings', 'C15_source_unary_spellings',
               'C15_source_predicate_is_model', 'C15_source_rule_is_model', 'C15_source_check_is_model', 'C15_source_check_joins_queries_with_or'],
     trusted=PARSER_TRUSTED + [SRC_TRUSTED + "; for C15 (stage F) also Expression.Print, UnaryOp.Print, BinaryOp.Print and stringstack.Push/Pop of "
                               "datalog/expressions.go, and (stage H) SymbolDebugger.Predicate/Expression/Rule/CheckQuery/Check of datalog/symbol.go (struct Rule = the model record drule; "
                               "strings.Join = the model's join; %v / %s of a Term = the oracle); Term.String() (dates, hex, integers, sets) is NOT translated: it is an oracle parameter tstr of "
                               "the generated printer and the statements hold for every tstr",
                               "the printers are modelled over resolved values (S level); symbol resolution through the token's cumulative table is the "
                               "subject of C07 and is exercised here by printing blocks at every position of real tokens"],
     assumptions=["printable domain = printable_block (computable); canonical integers/hex/names satisfy it by inspection of tok_ok, proved for dates",
                  "sets are compared up to element order (the printer sorts them)",
                  "stability under serialization and position independence (Properties/C15_stability.v) are for a token's own blocks under the "
                  "C07 token invariant, reloaded with the base table the token was built over; outside the printable domain a string inside a "
                  "set is printed by symbol index and so by position (C15_strings_in_sets_print_by_position, confirmed on the Go code): the "
                  "property's domain excludes it",
                  "source-level statements (Properties/C15_source_level.v): the regenerated Expression.Print equals the model's print_expr on the resolved "
                  "expression for every op sequence (table length in int range, operands in the ranges of the Go types), every operator prints with "
                  "its own spelling, a Parens op always contributes ( v ) whatever v is; the regenerated printers of predicates, rules, check queries and checks "
                  "(SymbolDebugger) equal print_pred / print_rule / print_check of the model on the resolved value (Properties/C15_source_level_preds.v); "
                  "the block printer of types.go (sections, sorting) and the World / FactSet printers are not translated: for them the tie is the correspondence"])

TOKEN_DEPS = WIRE_DEPS + ["SymbolsProofs.v", "TokenProofs.v", "TableProofs.v"]
TOKEN_TRUSTED = ["Model/Wire.v: hand-written model of the protobuf wire format and of protobuf-go's proto2 decoding rules, field numbers taken from the "
                 "regenerated schema; tied by byte-exact correspondence (the model must reproduce every marshalled block and envelope)",
                 "Model/Token.v / History.v: hand-written model of builder.go / biscuit.go at the symbol-index level; tied by the history "
                 "correspondence (every op outcome, every token's D-level content, cumulative symbol table, envelope and bytes)",
                 "ed25519 as oracle tables (pub/sign computed by crypto/ed25519)"]
prop("C07", source_level=True, coq_deps=TOKEN_DEPS + SRC_DEPS, theorems=['C07_source_default_table', 'C07_source_offset', 'C07_source_insert', 'C07_source_sym', 'C07_source_extend', 'C07_source_split_off', 'C07_source_clone', 'C07_source_len', 'C07_source_insert_spec', 'C07_source_is_disjoint', 'C07_varint_roundtrip', 'C07_fields_roundtrip', 'C07_block_roundtrip', 'C07_container_roundtrip', 'C07_resolve_intern', 'C07_content_build', 'C07_build_decode', 'C07_content_append', 'C07_append_decode', 'C07_reload', 'C07_reload_accepts', 'C07_version_gate', 'C07_no_capture', 'C07_operator_tables'], trusted=TOKEN_TRUSTED + [SRC_TRUSTED],
     assumptions=["tables stay below 2^32 entries (small_table), encodings below 2^64 bytes (small), supplied integers are int64 and dates "
                  "uint64 (wf_block_c): the numeric ranges of the Go types",
                  "content theorems are for a token's own blocks, each built once from CreateBlock of that token (token_inv); a block built for "
                  "another token's table and appended elsewhere has unspecified meaning (Append cannot tell; Unmarshal now rejects it when it "
                  "dangles)",
                  "observation (not in this property's quantifier): a FOREIGN token whose block re-declares an earlier symbol is accepted by "
                  "Unmarshal with a de-duplicated table, diverging from the concatenation rule (unmarshal_redeclared_symbol_diverges)"],
     harness_timeout=900)
prop("C08", coq_deps=TOKEN_DEPS, theorems=['C08_frame', 'C08_builder_independence', 'C08_siblings', 'C08_append_keeps_meaning'], trusted=TOKEN_TRUSTED,
     assumptions=["recorded finding: BlockBuilder.Build twice / reuse after Build (KNOWN_FINDINGS.txt); C08_siblings speaks of the first build",
                  "tokens and blocks are values in the model; that the Go objects are not mutated behind the model's back is what the "
                  "per-operation frame oracle of the harness observes (bytes, printed form, ids, content of every live object after every op)"],
     harness_timeout=900)
prop("C18", coq_deps=TOKEN_DEPS + ["Snapshot.v", "SnapshotProofs.v", "Corr2.v", "Authz.v"], theorems=['C18_equivalent', 'C18_same_behaviour', 'C18_invariant_reachable', 'C18_refused_when_evaluated', 'C18_refused_after_authorize', 'C18_refused_after_query', 'C18_load_total'],
     trusted=TOKEN_TRUSTED + ["Model/Snapshot.v: hand-written model of SerializePolicies/LoadPolicies; tied by byte-exact correspondence of the "
                              "snapshot bytes and of the loaded state"],
     assumptions=["partial mutations of LoadPolicies before it fails are not modelled (load returns only the error)"])
