"""Per-property configuration of ./check (what is proved where, what is trusted)."""

COMMON_TRUSTED = [
    "Coq 8.16.1 kernel (coqc, full .vo build; vm_compute used for table theorems, witnesses and the quick-tier "
    "evaluation of correspondence cases; native_compute not used)",
    "no Axiom/Parameter/Admitted in the development (grep audit on every run); Print Assumptions under every property "
    "theorem must say 'Closed under the global context'",
    "translator /verif/gen (go/ast + proto reader): trusted to report the tables that are in the source",
    "correspondence harness /verif/harness (generators, canonicalisation, recover/worker isolation, oracle tables "
    "computed with crypto/ed25519, regexp, time) and the Cases_*.v printer",
    "hand-written Gallina models of biscuit.go, builder.go, authorizer.go, converters*.go, types.go, datalog/*.go, "
    "parser/*.go: modelled, tied by generated tables + correspondence, not verified line by line",
]

PROPS = {}


def prop(pid, **kw):
    PROPS[pid] = kw


prop("C20",
     coq_deps=["Base.v", "Chain.v", "Corr.v", "ChainProofs.v", "Generated.v"],
     theorems=["C20_build_fault", "C20_append_fault", "C20_build_success", "C20_append_success", "C20_no_panic_build"],
     trusted=["ed25519 not modelled: Section variables pub/sign/verify with hypotheses verify_sign, pub_len (stated in the theorems)",
              "ed25519.GenerateKey = io.ReadFull(rng, 32 bytes) as in Go 1.23's crypto/ed25519"],
     assumptions=["verify (pub s) m (sign s m) = true", "length s = 32 -> length (pub s) = 32",
                  "a random source is modelled as the finite byte string it delivers before failing"])

prop("C06",
     coq_deps=["Base.v", "Term.v", "Expr.v", "Corr.v", "ExprProofs.v", "TableProofs.v", "Generated.v"],
     theorems=["C06_total_no_panic", "C06_total", "C06_arith_exact", "C06_never_wrapped", "C06_ill_typed_is_error",
               "C06_well_typed_iff", "C06_well_typed_result", "C06_result_type", "C06_unary_table", "C06_set_ops",
               "C06_string_ops", "C06_postfix", "C06_ok_is_postfix", "C06_malformed_is_error",
               "C06_every_operator_has_an_evaluator_arm"],
     trusted=["Go's regexp is not modelled: Section variable rx (pattern, subject -> option bool); the theorems hold for every rx",
              "the model evaluates resolved (S-level) values: string terms carry their contents; symbol-table interning of "
              "concatenation results is covered by the correspondence (results compared after resolution)",
              "integers are Z, dates N in the model; that operands are 64-bit is a property of their producers (decoder, parser)"],
     assumptions=["every error other than DivZero/Overflow/Regex/UnknownVar is one class (IllTyped) in the model and in the comparison"])
