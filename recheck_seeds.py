#!/usr/bin/env python3
"""recheck_seeds.py [name-prefix ...]
Re-runs our checks against every seeded change kept under /verif/seeded (no re-validation of the
change itself): apply patch.diff to /repo, run the checks recorded for it, undo.  Records the
outcome under meta.json["recheck"].  A patch that no longer applies to the current /repo (the
repairs moved the code) is recorded as such."""
import json, os, subprocess, sys, time, glob

ENV = dict(os.environ, GOFLAGS="-mod=mod", GOPROXY="off", GOSUMDB="off", GOTOOLCHAIN="local")


def sh(cmd, cwd=None, timeout=3000):
    p = subprocess.run(cmd, cwd=cwd, env=ENV, stdout=subprocess.PIPE, stderr=subprocess.STDOUT, text=True, timeout=timeout)
    return p.returncode, p.stdout


def main():
    want = sys.argv[1:]
    head = sh(["git", "-C", "/repo", "rev-parse", "--short", "HEAD"])[1].strip()
    for d in sorted(glob.glob("/verif/seeded/*")):
        name = os.path.basename(d)
        if want and not any(name.startswith(w) for w in want):
            continue
        mp = os.path.join(d, "meta.json")
        meta = json.load(open(mp))
        patch = os.path.join(d, "patch.diff")
        checks = sorted(((meta.get("validation") or {}).get("checks") or {}).keys()) or [meta.get("property", name[:3])]
        if sh(["git", "-C", "/repo", "status", "--short"])[1].strip():
            print("refusing: /repo is dirty"); sys.exit(2)
        rc, out = sh(["git", "-C", "/repo", "apply", "--check", patch])
        rec = {"repo_head": head, "when": time.strftime("%Y-%m-%d %H:%M"), "checks": {}}
        if rc != 0:
            rec["applies"] = False
            rec["why"] = out.strip()[-300:]
            print("%-45s patch no longer applies" % name)
        else:
            rec["applies"] = True
            sh(["git", "-C", "/repo", "apply", patch])
            try:
                for c in checks:
                    t0 = time.time()
                    rc, out = sh(["./check", c], cwd="/verif")
                    vio = [l for l in out.splitlines() if l.startswith("VIOLATION")]
                    rec["checks"][c] = {"exit": rc, "lines": vio, "wall_s": round(time.time() - t0, 1)}
            finally:
                sh(["git", "-C", "/repo", "checkout", "--", "."])
            det = [c for c, r in rec["checks"].items() if r["exit"] != 0]
            rec["detected_by"] = det
            print("%-45s %s" % (name, "caught by " + ",".join(det) if det else "NOT CAUGHT (checks run: %s)" % ",".join(checks)))
        meta["recheck"] = rec
        json.dump(meta, open(mp, "w"), indent=1)
        sys.stdout.flush()


if __name__ == "__main__":
    main()
