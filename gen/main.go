// gen: translator from /repo's working tree to coq/Generated.v.
//
// It reads the data tables that the hand-written Coq model consumes (default
// symbols, limits, enum numberings, the operator code tables of the
// converters in both directions, printer format strings, lexer rules, parser
// operator map, the protobuf schema) with go/parser + go/ast and a small
// reader for the proto2 subset used by pb/biscuit.proto, and prints them as
// Gallina definitions.  It never falls back to a stale value: a construct it
// cannot find is a fatal error (reported by the check as a broken tie).
package main

import (
	"bufio"
	"fmt"
	"go/ast"
	"go/constant"
	"go/parser"
	"go/printer"
	"go/token"
	"go/types"
	"os"
	"path/filepath"
	"regexp"
	"sort"
	"strconv"
	"strings"
)

var fset = token.NewFileSet()
var out strings.Builder

func die(format string, a ...interface{}) {
	fmt.Fprintf(os.Stderr, "gen: "+format+"\n", a...)
	os.Exit(2)
}

func parseFile(path string) *ast.File {
	f, err := parser.ParseFile(fset, path, nil, parser.ParseComments)
	if err != nil {
		die("parse %s: %v", path, err)
	}
	return f
}

// coqString renders a Go string as a Coq string literal (only printable ASCII
// is expected in the tables we extract).
func coqString(s string) string {
	for _, c := range []byte(s) {
		if c < 32 || c > 126 {
			die("non printable byte %d in table string %q", c, s)
		}
	}
	return "\"" + strings.ReplaceAll(s, "\"", "\"\"") + "\""
}

// coqBytes renders a Go string as a list of N byte values.
func coqBytes(s string) string {
	parts := make([]string, len(s))
	for i := 0; i < len(s); i++ {
		parts[i] = strconv.Itoa(int(s[i]))
	}
	return "[" + strings.Join(parts, ";") + "]"
}

func findFunc(f *ast.File, recv, name string) *ast.FuncDecl {
	for _, d := range f.Decls {
		fd, ok := d.(*ast.FuncDecl)
		if !ok || fd.Name.Name != name {
			continue
		}
		if recv == "" {
			if fd.Recv == nil {
				return fd
			}
			continue
		}
		if fd.Recv == nil || len(fd.Recv.List) != 1 {
			continue
		}
		t := fd.Recv.List[0].Type
		if st, ok := t.(*ast.StarExpr); ok {
			t = st.X
		}
		if id, ok := t.(*ast.Ident); ok && id.Name == recv {
			return fd
		}
	}
	return nil
}

func exprString(e ast.Expr) string {
	switch x := e.(type) {
	case *ast.Ident:
		return x.Name
	case *ast.SelectorExpr:
		return exprString(x.X) + "." + x.Sel.Name
	case *ast.CompositeLit:
		return exprString(x.Type) + "{}"
	case *ast.BasicLit:
		return x.Value
	case *ast.StarExpr:
		return "*" + exprString(x.X)
	case *ast.CallExpr:
		return exprString(x.Fun) + "()"
	}
	return fmt.Sprintf("<%T>", e)
}

// constBlocks returns, for each const declaration with iota or explicit
// values, the (name, value) pairs of integer constants of the given type name.
func intConsts(f *ast.File, typeName string) [][2]string {
	var res [][2]string
	for _, d := range f.Decls {
		gd, ok := d.(*ast.GenDecl)
		if !ok || gd.Tok != token.CONST {
			continue
		}
		curType := ""
		var lastExpr ast.Expr
		for i, s := range gd.Specs {
			vs := s.(*ast.ValueSpec)
			if vs.Type != nil {
				curType = exprString(vs.Type)
			} else if len(vs.Values) > 0 {
				curType = ""
			}
			if len(vs.Values) > 0 {
				lastExpr = vs.Values[0]
			}
			if curType != typeName {
				continue
			}
			val := evalIota(lastExpr, i)
			for _, n := range vs.Names {
				res = append(res, [2]string{n.Name, val})
			}
		}
	}
	return res
}

func evalIota(e ast.Expr, iota int) string {
	if e == nil {
		die("constant without value")
	}
	tv, err := types.Eval(fset, nil, token.NoPos, strings.ReplaceAll(exprString(e), "iota", strconv.Itoa(iota)))
	if err == nil && tv.Value != nil && tv.Value.Kind() == constant.Int {
		return tv.Value.ExactString()
	}
	if id, ok := e.(*ast.Ident); ok && id.Name == "iota" {
		return strconv.Itoa(iota)
	}
	if bl, ok := e.(*ast.BasicLit); ok {
		return bl.Value
	}
	die("cannot evaluate constant expression %s", exprString(e))
	return ""
}

func emitPairs(name string, pairs [][2]string, secondIsNum bool) {
	fmt.Fprintf(&out, "Definition %s : list (string * %s) :=\n  [", name, map[bool]string{true: "N", false: "string"}[secondIsNum])
	for i, p := range pairs {
		if i > 0 {
			out.WriteString(";\n   ")
		}
		if secondIsNum {
			fmt.Fprintf(&out, "(%s, %s%%N)", coqString(p[0]), p[1])
		} else {
			fmt.Fprintf(&out, "(%s, %s)", coqString(p[0]), coqString(p[1]))
		}
	}
	out.WriteString("].\n\n")
}

func emitPairsAllowEmpty(name string, pairs [][2]string) {
	fmt.Fprintf(&out, "Definition %s : list (string * string) :=\n  [", name)
	for i, p := range pairs {
		if i > 0 {
			out.WriteString(";\n   ")
		}
		fmt.Fprintf(&out, "(%s, %s)", coqString(p[0]), coqString(p[1]))
	}
	out.WriteString("].\n\n")
}

// switchTable extracts (case label -> result) from the first switch statement
// of a function: the result is the composite literal / identifier assigned or
// returned in the case body.
func switchTable(fd *ast.FuncDecl, what string) [][2]string {
	if fd == nil {
		die("function for %s not found", what)
	}
	var res [][2]string
	var sw *ast.SwitchStmt
	ast.Inspect(fd.Body, func(n ast.Node) bool {
		if s, ok := n.(*ast.SwitchStmt); ok && sw == nil {
			sw = s
			return false
		}
		return true
	})
	if sw == nil {
		die("no switch in %s", what)
	}
	for _, c := range sw.Body.List {
		cc := c.(*ast.CaseClause)
		if cc.List == nil {
			continue // default
		}
		var result string
		for _, st := range cc.Body {
			switch s := st.(type) {
			case *ast.AssignStmt:
				result = exprString(s.Rhs[0])
			case *ast.ReturnStmt:
				if len(s.Results) > 0 {
					r := s.Results[0]
					if ce, ok := r.(*ast.CallExpr); ok && len(ce.Args) > 0 {
						// fmt.Sprintf("...", ...) : keep the format string
						if bl, ok := ce.Args[0].(*ast.BasicLit); ok && bl.Kind == token.STRING {
							u, _ := strconv.Unquote(bl.Value)
							result = u
							break
						}
					}
					if cl, ok := r.(*ast.CompositeLit); ok && len(cl.Elts) == 1 {
						if kv, ok := cl.Elts[0].(*ast.KeyValueExpr); ok {
							result = exprString(kv.Value)
							break
						}
					}
					result = exprString(r)
				}
			}
			if result != "" {
				break
			}
		}
		// Sprintf assigned: out = fmt.Sprintf("fmt", ...)
		for _, st := range cc.Body {
			if as, ok := st.(*ast.AssignStmt); ok {
				if ce, ok := as.Rhs[0].(*ast.CallExpr); ok && len(ce.Args) > 0 {
					if bl, ok := ce.Args[0].(*ast.BasicLit); ok && bl.Kind == token.STRING {
						u, _ := strconv.Unquote(bl.Value)
						result = u
					}
				}
			}
		}
		for _, l := range cc.List {
			res = append(res, [2]string{exprString(l), result})
		}
	}
	if len(res) == 0 {
		die("empty switch table in %s", what)
	}
	return res
}

type protoField struct {
	label, typ, name, oneof string
	num                     int
}
type protoMsg struct {
	name   string
	fields []protoField
}
type protoEnum struct {
	name string
	vals [][2]string
}

func readProto(path string) ([]protoMsg, []protoEnum) {
	fh, err := os.Open(path)
	if err != nil {
		die("%v", err)
	}
	defer fh.Close()
	var msgs []protoMsg
	var enums []protoEnum
	type frame struct {
		kind string // message, enum, oneof
		name string
	}
	var stack []frame
	msgIndex := map[string]int{}
	fieldRe := regexp.MustCompile(`^(required|optional|repeated)?\s*([A-Za-z0-9_.]+)\s+([A-Za-z0-9_]+)\s*=\s*([0-9]+)\s*;`)
	enumValRe := regexp.MustCompile(`^([A-Za-z0-9_]+)\s*=\s*(-?[0-9]+)\s*;`)
	sc := bufio.NewScanner(fh)
	for sc.Scan() {
		line := strings.TrimSpace(sc.Text())
		if i := strings.Index(line, "//"); i >= 0 {
			line = strings.TrimSpace(line[:i])
		}
		if line == "" || strings.HasPrefix(line, "syntax") || strings.HasPrefix(line, "option ") || strings.HasPrefix(line, "package") {
			continue
		}
		curMsg := func() string {
			names := []string{}
			for _, fr := range stack {
				if fr.kind == "message" {
					names = append(names, fr.name)
				}
			}
			return strings.Join(names, ".")
		}
		switch {
		case strings.HasPrefix(line, "message "):
			name := strings.TrimSpace(strings.TrimSuffix(strings.TrimPrefix(line, "message "), "{"))
			stack = append(stack, frame{"message", name})
			full := curMsg()
			msgIndex[full] = len(msgs)
			msgs = append(msgs, protoMsg{name: full})
		case strings.HasPrefix(line, "enum "):
			name := strings.TrimSpace(strings.TrimSuffix(strings.TrimPrefix(line, "enum "), "{"))
			full := name
			if m := curMsg(); m != "" {
				full = m + "." + name
			}
			stack = append(stack, frame{"enum", full})
			enums = append(enums, protoEnum{name: full})
		case strings.HasPrefix(line, "oneof "):
			name := strings.TrimSpace(strings.TrimSuffix(strings.TrimPrefix(line, "oneof "), "{"))
			stack = append(stack, frame{"oneof", name})
		case line == "}":
			if len(stack) == 0 {
				die("proto: unbalanced }")
			}
			stack = stack[:len(stack)-1]
		default:
			if len(stack) == 0 {
				die("proto: statement outside message: %q", line)
			}
			top := stack[len(stack)-1]
			if top.kind == "enum" {
				m := enumValRe.FindStringSubmatch(line)
				if m == nil {
					die("proto: cannot read enum value %q", line)
				}
				e := &enums[len(enums)-1]
				// find the enum by name (nested enums are closed before new ones open)
				for i := range enums {
					if enums[i].name == top.name {
						e = &enums[i]
					}
				}
				e.vals = append(e.vals, [2]string{m[1], m[2]})
				continue
			}
			m := fieldRe.FindStringSubmatch(line)
			if m == nil {
				die("proto: cannot read field %q", line)
			}
			num, _ := strconv.Atoi(m[4])
			f := protoField{label: m[1], typ: m[2], name: m[3], num: num}
			if top.kind == "oneof" {
				f.oneof = top.name
				f.label = "oneof"
			}
			if f.label == "" {
				die("proto: field without label %q", line)
			}
			mi := msgIndex[curMsg()]
			msgs[mi].fields = append(msgs[mi].fields, f)
		}
	}
	if len(stack) != 0 {
		die("proto: unbalanced {")
	}
	return msgs, enums
}

func structTags(f *ast.File) [][2]string {
	var res [][2]string
	for _, d := range f.Decls {
		gd, ok := d.(*ast.GenDecl)
		if !ok || gd.Tok != token.TYPE {
			continue
		}
		for _, s := range gd.Specs {
			ts := s.(*ast.TypeSpec)
			st, ok := ts.Type.(*ast.StructType)
			if !ok {
				continue
			}
			for _, fl := range st.Fields.List {
				if fl.Tag == nil {
					continue
				}
				tag, _ := strconv.Unquote(fl.Tag.Value)
				for _, n := range fl.Names {
					res = append(res, [2]string{ts.Name.Name + "." + n.Name, tag})
				}
			}
		}
	}
	return res
}

func main() {
	if len(os.Args) != 3 {
		die("usage: gen <repo> <out.v>")
	}
	repo := os.Args[1]
	out.WriteString("(* Generated.v — written by /verif/gen from the working tree of /repo on every run.\n   DO NOT EDIT. *)\n")
	out.WriteString("From Coq Require Import List NArith String.\nImport ListNotations.\nOpen Scope string_scope.\n\n")

	// ---- datalog/symbol.go
	sym := parseFile(filepath.Join(repo, "datalog/symbol.go"))
	var defaults []string
	offset := ""
	for _, d := range sym.Decls {
		gd, ok := d.(*ast.GenDecl)
		if !ok || gd.Tok != token.VAR {
			continue
		}
		for _, s := range gd.Specs {
			vs := s.(*ast.ValueSpec)
			for i, n := range vs.Names {
				if n.Name == "DEFAULT_SYMBOLS" {
					cl, ok := vs.Values[i].(*ast.CompositeLit)
					if !ok {
						die("DEFAULT_SYMBOLS is not a composite literal")
					}
					for _, e := range cl.Elts {
						bl, ok := e.(*ast.BasicLit)
						if !ok {
							die("DEFAULT_SYMBOLS element is not a literal")
						}
						u, _ := strconv.Unquote(bl.Value)
						defaults = append(defaults, u)
					}
				}
				if n.Name == "OFFSET" {
					offset = exprString(vs.Values[i])
				}
			}
		}
	}
	if len(defaults) == 0 || offset == "" {
		die("DEFAULT_SYMBOLS / OFFSET not found")
	}
	out.WriteString("Definition default_symbols : list (list N) :=\n  [")
	for i, s := range defaults {
		if i > 0 {
			out.WriteString(";\n   ")
		}
		fmt.Fprintf(&out, "%s%%N (* %s *)", coqBytes(s), s)
	}
	out.WriteString("].\n\n")
	fmt.Fprintf(&out, "Definition sym_offset : N := %s%%N.\n\n", offset)
	// literal thresholds used by Str (must agree with OFFSET)
	strFn := findFunc(sym, "SymbolTable", "Str")
	if strFn == nil {
		die("SymbolTable.Str not found")
	}
	var lits []string
	ast.Inspect(strFn.Body, func(n ast.Node) bool {
		if bl, ok := n.(*ast.BasicLit); ok && bl.Kind == token.INT {
			lits = append(lits, bl.Value)
		}
		return true
	})
	sort.Strings(lits)
	uniq := []string{}
	for _, l := range lits {
		if len(uniq) == 0 || uniq[len(uniq)-1] != l {
			uniq = append(uniq, l)
		}
	}
	out.WriteString("Definition str_int_literals : list N := [")
	for i, l := range uniq {
		if i > 0 {
			out.WriteString("; ")
		}
		out.WriteString(l + "%N")
	}
	out.WriteString("].\n\n")

	// ---- datalog/expressions.go, datalog/datalog.go
	expr := parseFile(filepath.Join(repo, "datalog/expressions.go"))
	dl := parseFile(filepath.Join(repo, "datalog/datalog.go"))
	maxStack := ""
	for _, d := range expr.Decls {
		if gd, ok := d.(*ast.GenDecl); ok && gd.Tok == token.CONST {
			for _, s := range gd.Specs {
				vs := s.(*ast.ValueSpec)
				for i, n := range vs.Names {
					if n.Name == "maxStackSize" {
						maxStack = exprString(vs.Values[i])
					}
				}
			}
		}
	}
	if maxStack == "" {
		die("maxStackSize not found")
	}
	fmt.Fprintf(&out, "Definition max_stack : N := %s%%N.\n\n", maxStack)
	limits := map[string]string{}
	for _, d := range dl.Decls {
		if gd, ok := d.(*ast.GenDecl); ok && gd.Tok == token.VAR {
			for _, s := range gd.Specs {
				vs := s.(*ast.ValueSpec)
				for i, n := range vs.Names {
					if n.Name == "defaultRunLimits" {
						cl := vs.Values[i].(*ast.CompositeLit)
						for _, e := range cl.Elts {
							kv := e.(*ast.KeyValueExpr)
							limits[exprString(kv.Key)] = exprString(kv.Value)
						}
					}
				}
			}
		}
	}
	if limits["maxFacts"] == "" || limits["maxIterations"] == "" {
		die("defaultRunLimits not found")
	}
	fmt.Fprintf(&out, "Definition default_max_facts : N := %s%%N.\nDefinition default_max_iterations : N := %s%%N.\n\n", limits["maxFacts"], limits["maxIterations"])

	emitPairs("dl_term_types", intConsts(dl, "TermType"), true)
	emitPairs("dl_op_types", intConsts(expr, "OpType"), true)
	emitPairs("dl_unary_types", intConsts(expr, "UnaryOpType"), true)
	emitPairs("dl_binary_types", intConsts(expr, "BinaryOpType"), true)
	emitPairs("dl_unary_print", switchTable(findFunc(expr, "UnaryOp", "Print"), "UnaryOp.Print"), false)
	emitPairs("dl_binary_print", switchTable(findFunc(expr, "BinaryOp", "Print"), "BinaryOp.Print"), false)

	// ---- types.go
	ty := parseFile(filepath.Join(repo, "types.go"))
	emitPairs("b_unary_ops", intConsts(ty, "UnaryOp"), true)
	emitPairs("b_binary_ops", intConsts(ty, "BinaryOp"), true)
	emitPairs("b_unary_convert", switchTable(findFunc(ty, "UnaryOp", "convert"), "UnaryOp.convert"), false)
	emitPairs("b_binary_convert", switchTable(findFunc(ty, "BinaryOp", "convert"), "BinaryOp.convert"), false)
	emitPairs("b_unary_from_datalog", switchTable(findFunc(ty, "", "fromDatalogUnaryOp"), "fromDatalogUnaryOp"), false)
	emitPairs("b_binary_from_datalog", switchTable(findFunc(ty, "", "fromDatalogBinaryOp"), "fromDatalogBinaryOp"), false)
	vers := map[string]string{}
	for _, d := range ty.Decls {
		if gd, ok := d.(*ast.GenDecl); ok && gd.Tok == token.CONST {
			for _, s := range gd.Specs {
				vs := s.(*ast.ValueSpec)
				for i, n := range vs.Names {
					if (n.Name == "MinSchemaVersion" || n.Name == "MaxSchemaVersion") && i < len(vs.Values) {
						vers[n.Name] = exprString(vs.Values[i])
					}
				}
			}
		}
	}
	if vers["MinSchemaVersion"] == "" || vers["MaxSchemaVersion"] == "" {
		die("schema versions not found")
	}
	fmt.Fprintf(&out, "Definition min_schema_version : N := %s%%N.\nDefinition max_schema_version : N := %s%%N.\n\n", vers["MinSchemaVersion"], vers["MaxSchemaVersion"])

	// ---- converters_v2.go
	cv := parseFile(filepath.Join(repo, "converters_v2.go"))
	emitPairs("cv_unary_to_pb", switchTable(findFunc(cv, "", "tokenExprUnaryToProtoExprUnary"), "tokenExprUnaryToProtoExprUnary"), false)
	emitPairs("cv_unary_from_pb", switchTable(findFunc(cv, "", "protoExprUnaryToTokenExprUnary"), "protoExprUnaryToTokenExprUnary"), false)
	emitPairs("cv_binary_to_pb", switchTable(findFunc(cv, "", "tokenExprBinaryToProtoExprBinary"), "tokenExprBinaryToProtoExprBinary"), false)
	emitPairs("cv_binary_from_pb", switchTable(findFunc(cv, "", "protoExprBinaryToTokenExprBinary"), "protoExprBinaryToTokenExprBinary"), false)

	// ---- pb/biscuit.pb.go enum constants
	pbgo := parseFile(filepath.Join(repo, "pb/biscuit.pb.go"))
	emitPairs("pb_unary_kinds", intConsts(pbgo, "OpUnary_Kind"), true)
	emitPairs("pb_binary_kinds", intConsts(pbgo, "OpBinary_Kind"), true)
	emitPairs("pb_policy_kinds", intConsts(pbgo, "Policy_Kind"), true)
	emitPairs("pb_algorithms", intConsts(pbgo, "PublicKey_Algorithm"), true)

	// ---- pb/biscuit.proto
	msgs, enums := readProto(filepath.Join(repo, "pb/biscuit.proto"))
	out.WriteString("(* (message, [(field name, number, type, label, oneof group)]) *)\n")
	out.WriteString("Definition proto_schema : list (string * list (string * N * string * string * string)) :=\n  [")
	for i, m := range msgs {
		if i > 0 {
			out.WriteString(";\n   ")
		}
		fmt.Fprintf(&out, "(%s, [", coqString(m.name))
		for j, f := range m.fields {
			if j > 0 {
				out.WriteString(";\n      ")
			}
			fmt.Fprintf(&out, "(%s, %d%%N, %s, %s, %s)", coqString(f.name), f.num, coqString(f.typ), coqString(f.label), coqString(f.oneof))
		}
		out.WriteString("])")
	}
	out.WriteString("].\n\n")
	out.WriteString("Definition proto_enums : list (string * list (string * N)) :=\n  [")
	for i, e := range enums {
		if i > 0 {
			out.WriteString(";\n   ")
		}
		fmt.Fprintf(&out, "(%s, [", coqString(e.name))
		for j, v := range e.vals {
			if j > 0 {
				out.WriteString("; ")
			}
			fmt.Fprintf(&out, "(%s, %s%%N)", coqString(v[0]), v[1])
		}
		out.WriteString("])")
	}
	out.WriteString("].\n\n")

	// ---- parser
	pp := parseFile(filepath.Join(repo, "parser/parser.go"))
	gr := parseFile(filepath.Join(repo, "parser/grammar.go"))
	var rules [][2]string
	var elide, unquote, unknownOpts []string
	var lexmap [][2]string
	for _, d := range pp.Decls {
		gd, ok := d.(*ast.GenDecl)
		if !ok || gd.Tok != token.VAR {
			continue
		}
		for _, s := range gd.Specs {
			vs := s.(*ast.ValueSpec)
			for i, n := range vs.Names {
				if n.Name == "BiscuitLexerRules" {
					cl := vs.Values[i].(*ast.CompositeLit)
					for _, e := range cl.Elts {
						rl := e.(*ast.CompositeLit)
						var nm, pat string
						for _, kv := range rl.Elts {
							k := kv.(*ast.KeyValueExpr)
							v, _ := strconv.Unquote(k.Value.(*ast.BasicLit).Value)
							switch exprString(k.Key) {
							case "Name":
								nm = v
							case "Pattern":
								pat = v
							}
						}
						rules = append(rules, [2]string{nm, pat})
					}
				}
				if n.Name == "DefaultParserOptions" {
					cl := vs.Values[i].(*ast.CompositeLit)
					for _, e := range cl.Elts {
						ce, ok := e.(*ast.CallExpr)
						if !ok {
							continue
						}
						fn := exprString(ce.Fun)
						switch fn {
						case "participle.Elide", "participle.Unquote", "participle.UseLookahead", "participle.Lexer":
						case "participle.Map":
							// participle.Map(func, tokenType...): the mapper's source text, one pair per token type
							if len(ce.Args) > 0 {
								if fl, ok := ce.Args[0].(*ast.FuncLit); ok {
									var sb strings.Builder
									printer.Fprint(&sb, token.NewFileSet(), fl)
									txt := strings.Join(strings.Fields(sb.String()), " ")
									for _, a := range ce.Args[1:] {
										if bl, ok := a.(*ast.BasicLit); ok {
											v, _ := strconv.Unquote(bl.Value)
											lexmap = append(lexmap, [2]string{v, txt})
										}
									}
								} else {
									unknownOpts = append(unknownOpts, exprString(ce))
								}
							}
						default:
							// an option the parser model does not know about
							unknownOpts = append(unknownOpts, fn)
						}
						for _, a := range ce.Args {
							if bl, ok := a.(*ast.BasicLit); ok {
								v, _ := strconv.Unquote(bl.Value)
								if fn == "participle.Elide" {
									elide = append(elide, v)
								}
								if fn == "participle.Unquote" {
									unquote = append(unquote, v)
								}
								if fn == "participle.UseLookahead" {
									fmt.Fprintf(&out, "Definition parser_lookahead : N := %s%%N.\n\n", bl.Value)
								}
							}
						}
					}
				}
			}
		}
	}
	if len(rules) == 0 {
		die("BiscuitLexerRules not found")
	}
	emitPairs("lexer_rules", rules, false)
	out.WriteString("Definition lexer_elide : list string := [")
	for i, e := range elide {
		if i > 0 {
			out.WriteString("; ")
		}
		out.WriteString(coqString(e))
	}
	out.WriteString("].\nDefinition lexer_unquote : list string := [")
	for i, e := range unquote {
		if i > 0 {
			out.WriteString("; ")
		}
		out.WriteString(coqString(e))
	}
	out.WriteString("].\n")
	emitPairsAllowEmpty("lexer_map", lexmap)
	out.WriteString("Definition parser_unknown_options : list string := [")
	for i, e := range unknownOpts {
		if i > 0 {
			out.WriteString("; ")
		}
		out.WriteString(coqString(e))
	}
	out.WriteString("].\n\n")
	emitPairs("grammar_tags", structTags(gr), false)
	emitPairs("parser_operators", intConsts(gr, "Operator"), true)
	// operatorMap
	var opmap [][2]string
	for _, d := range gr.Decls {
		gd, ok := d.(*ast.GenDecl)
		if !ok || gd.Tok != token.VAR {
			continue
		}
		for _, s := range gd.Specs {
			vs := s.(*ast.ValueSpec)
			for i, n := range vs.Names {
				if n.Name == "operatorMap" {
					cl := vs.Values[i].(*ast.CompositeLit)
					for _, e := range cl.Elts {
						kv := e.(*ast.KeyValueExpr)
						k, _ := strconv.Unquote(kv.Key.(*ast.BasicLit).Value)
						opmap = append(opmap, [2]string{k, exprString(kv.Value)})
					}
				}
			}
		}
	}
	if len(opmap) == 0 {
		die("operatorMap not found")
	}
	sort.Slice(opmap, func(i, j int) bool { return opmap[i][0] < opmap[j][0] })
	emitPairs("parser_operator_map", opmap, false)
	emitPairs("parser_operator_to_biscuit", switchTable(findFunc(gr, "Operator", "ToExpr"), "Operator.ToExpr"), false)

	// ---- C19: writes through shared objects.  For every method of *Biscuit (the token shared by
	// goroutines) and every use of the authorizer's v.biscuit: assignments, inc/dec, append with a
	// first argument rooted at the shared object, copy into it, and calls of the mutating
	// SymbolTable / FactSet / World methods on expressions rooted at it.
	sharedWrites := [][2]string{}
	mutating := map[string]bool{"Insert": true, "InsertAll": true, "Extend": true, "SplitOff": true, "AddFact": true, "AddRule": true, "ResetRules": true, "Run": true}
	rootedAt := func(e ast.Expr, root string, via string) bool {
		for {
			switch x := e.(type) {
			case *ast.SelectorExpr:
				if id, ok := x.X.(*ast.Ident); ok && id.Name == root && (via == "" || x.Sel.Name == via) {
					return true
				}
				e = x.X
			case *ast.IndexExpr:
				e = x.X
			case *ast.SliceExpr:
				e = x.X
			case *ast.StarExpr:
				e = x.X
			case *ast.ParenExpr:
				e = x.X
			case *ast.Ident:
				return via == "" && x.Name == root
			default:
				return false
			}
		}
	}
	scan := func(file *ast.File, fname string, recvType string, via string) {
		for _, d := range file.Decls {
			fd, ok := d.(*ast.FuncDecl)
			if !ok || fd.Recv == nil || fd.Body == nil || len(fd.Recv.List) != 1 || len(fd.Recv.List[0].Names) != 1 {
				continue
			}
			t := fd.Recv.List[0].Type
			if st, ok := t.(*ast.StarExpr); ok {
				t = st.X
			}
			if id, ok := t.(*ast.Ident); !ok || id.Name != recvType {
				continue
			}
			root := fd.Recv.List[0].Names[0].Name
			where := fname + ":" + fd.Name.Name
			ast.Inspect(fd.Body, func(n ast.Node) bool {
				switch x := n.(type) {
				case *ast.AssignStmt:
					if x.Tok == token.DEFINE {
						break
					}
					for _, l := range x.Lhs {
						if _, isIdent := l.(*ast.Ident); !isIdent && rootedAt(l, root, via) {
							sharedWrites = append(sharedWrites, [2]string{where, "assign " + exprString(l)})
						}
					}
				case *ast.IncDecStmt:
					if rootedAt(x.X, root, via) {
						sharedWrites = append(sharedWrites, [2]string{where, "incdec " + exprString(x.X)})
					}
				case *ast.CallExpr:
					if id, ok := x.Fun.(*ast.Ident); ok && (id.Name == "append" || id.Name == "copy") && len(x.Args) > 0 {
						if rootedAt(x.Args[0], root, via) {
							sharedWrites = append(sharedWrites, [2]string{where, id.Name + " into " + exprString(x.Args[0])})
						}
					}
					if sel, ok := x.Fun.(*ast.SelectorExpr); ok && mutating[sel.Sel.Name] && rootedAt(sel.X, root, via) {
						if _, isRecvItself := sel.X.(*ast.Ident); !isRecvItself || via == "" {
							sharedWrites = append(sharedWrites, [2]string{where, "call " + exprString(sel.X) + "." + sel.Sel.Name})
						}
					}
				}
				return true
			})
		}
	}
	bis := parseFile(filepath.Join(repo, "biscuit.go"))
	scan(bis, "biscuit.go", "Biscuit", "")
	authz := parseFile(filepath.Join(repo, "authorizer.go"))
	scan(authz, "authorizer.go", "authorizer", "biscuit")
	emitPairsAllowEmpty("shared_write_sites", sharedWrites)

	// ---- C11(c): the synchronisation skeleton of datalog.go that Model/ChanLTS.v abstracts:
	// every channel created with make (name, capacity) and every send statement
	// (function, channel, "select:<other cases>" or "bare")
	var chanMakes, chanSends [][2]string
	for _, d := range dl.Decls {
		fd, ok := d.(*ast.FuncDecl)
		if !ok || fd.Body == nil {
			continue
		}
		fname := fd.Name.Name
		// assignments x := make(chan T[, n])
		ast.Inspect(fd.Body, func(n ast.Node) bool {
			as, ok := n.(*ast.AssignStmt)
			if !ok || len(as.Lhs) != 1 || len(as.Rhs) != 1 {
				return true
			}
			ce, ok := as.Rhs[0].(*ast.CallExpr)
			if !ok {
				return true
			}
			if id, ok := ce.Fun.(*ast.Ident); ok && id.Name == "make" && len(ce.Args) >= 1 {
				if _, isChan := ce.Args[0].(*ast.ChanType); isChan {
					capS := "0"
					if len(ce.Args) == 2 {
						capS = exprString(ce.Args[1])
					}
					chanMakes = append(chanMakes, [2]string{fname + ":" + exprString(as.Lhs[0]), capS})
				}
			}
			return true
		})
		// sends, with their select context
		var walk func(n ast.Node, sel string)
		walk = func(n ast.Node, sel string) {
			ast.Inspect(n, func(m ast.Node) bool {
				switch x := m.(type) {
				case *ast.SelectStmt:
					// describe the receive cases of this select
					var recv []string
					for _, c := range x.Body.List {
						cc := c.(*ast.CommClause)
						if cc.Comm == nil {
							recv = append(recv, "default")
							continue
						}
						if es, ok := cc.Comm.(*ast.ExprStmt); ok {
							if ue, ok := es.X.(*ast.UnaryExpr); ok && ue.Op == token.ARROW {
								recv = append(recv, "recv "+exprString(ue.X))
							}
						}
						if as, ok := cc.Comm.(*ast.AssignStmt); ok && len(as.Rhs) == 1 {
							if ue, ok := as.Rhs[0].(*ast.UnaryExpr); ok && ue.Op == token.ARROW {
								recv = append(recv, "recv "+exprString(ue.X))
							}
						}
					}
					ctx := "select:" + strings.Join(recv, ",")
					for _, c := range x.Body.List {
						cc := c.(*ast.CommClause)
						if ss, ok := cc.Comm.(*ast.SendStmt); ok {
							chanSends = append(chanSends, [2]string{fname + ":" + exprString(ss.Chan), ctx})
						}
						for _, st := range cc.Body {
							walk(st, "bare")
						}
					}
					return false
				case *ast.SendStmt:
					chanSends = append(chanSends, [2]string{fname + ":" + exprString(x.Chan), sel})
				}
				return true
			})
		}
		walk(fd.Body, "bare")
	}
	emitPairsAllowEmpty("dl_chan_makes", chanMakes)
	emitPairsAllowEmpty("dl_chan_sends", chanSends)

	// ---- C19: package-level mutable state.  Every assignment, element assignment, ++/--,
	// append-to-self or delete whose destination is a package-level variable of the library
	// (root package, datalog, parser; non-test, non-generated files), outside init functions
	// and package-level initialisers: goroutines that share nothing explicitly still share these.
	var pkgWrites [][2]string
	for _, dir := range []string{".", "datalog", "parser"} {
		ents, err := os.ReadDir(filepath.Join(repo, dir))
		if err != nil {
			continue
		}
		var files []*ast.File
		var names []string
		for _, e := range ents {
			n := e.Name()
			if e.IsDir() || !strings.HasSuffix(n, ".go") || strings.HasSuffix(n, "_test.go") || strings.HasSuffix(n, ".pb.go") || strings.HasPrefix(n, "verif_") {
				continue
			}
			files = append(files, parseFile(filepath.Join(repo, dir, n)))
			names = append(names, filepath.Join(dir, n))
		}
		globals := map[string]bool{}
		for _, f := range files {
			for _, d := range f.Decls {
				if gd, ok := d.(*ast.GenDecl); ok && gd.Tok == token.VAR {
					for _, sp := range gd.Specs {
						for _, n := range sp.(*ast.ValueSpec).Names {
							globals[n.Name] = true
						}
					}
				}
			}
		}
		rootIdent := func(e ast.Expr) string {
			for {
				switch x := e.(type) {
				case *ast.Ident:
					return x.Name
				case *ast.IndexExpr:
					e = x.X
				case *ast.SelectorExpr:
					e = x.X
				case *ast.StarExpr:
					e = x.X
				case *ast.ParenExpr:
					e = x.X
				case *ast.SliceExpr:
					e = x.X
				default:
					return ""
				}
			}
		}
		for fi, f := range files {
			for _, d := range f.Decls {
				fd, ok := d.(*ast.FuncDecl)
				if !ok || fd.Body == nil || (fd.Name.Name == "init" && fd.Recv == nil) {
					continue
				}
				// names shadowed by parameters / receivers / local declarations are not globals here
				local := map[string]bool{}
				if fd.Recv != nil {
					for _, fl := range fd.Recv.List {
						for _, n := range fl.Names {
							local[n.Name] = true
						}
					}
				}
				for _, fl := range fd.Type.Params.List {
					for _, n := range fl.Names {
						local[n.Name] = true
					}
				}
				ast.Inspect(fd.Body, func(n ast.Node) bool {
					switch x := n.(type) {
					case *ast.AssignStmt:
						if x.Tok == token.DEFINE {
							for _, l := range x.Lhs {
								if id, ok := l.(*ast.Ident); ok {
									local[id.Name] = true
								}
							}
						}
					case *ast.ValueSpec:
						for _, id := range x.Names {
							local[id.Name] = true
						}
					case *ast.RangeStmt:
						if x.Tok == token.DEFINE {
							for _, l := range []ast.Expr{x.Key, x.Value} {
								if id, ok := l.(*ast.Ident); ok {
									local[id.Name] = true
								}
							}
						}
					}
					return true
				})
				note := func(dst ast.Expr, how string) {
					if r := rootIdent(dst); r != "" && globals[r] && !local[r] {
						var sb strings.Builder
						printer.Fprint(&sb, token.NewFileSet(), dst)
						pkgWrites = append(pkgWrites, [2]string{names[fi] + ":" + fd.Name.Name, how + " " + strings.Join(strings.Fields(sb.String()), " ")})
					}
				}
				ast.Inspect(fd.Body, func(n ast.Node) bool {
					switch x := n.(type) {
					case *ast.AssignStmt:
						if x.Tok != token.DEFINE {
							for _, l := range x.Lhs {
								note(l, "assign")
							}
						}
					case *ast.IncDecStmt:
						note(x.X, "incdec")
					case *ast.CallExpr:
						if id, ok := x.Fun.(*ast.Ident); ok && (id.Name == "delete" || id.Name == "copy" || id.Name == "clear") && len(x.Args) > 0 {
							note(x.Args[0], id.Name)
						}
					}
					return true
				})
			}
		}
	}
	emitPairsAllowEmpty("pkg_state_write_sites", pkgWrites)

	if err := os.WriteFile(os.Args[2], []byte(out.String()), 0o644); err != nil {
		die("%v", err)
	}
}
