package main

import (
	"fmt"
	"strings"
	"time"
)

// ---------- random texts of the documented Datalog grammar, with their denotation ----------

type txtGen struct {
	rng       *RNG
	params    map[string]STerm
	printable bool // restrict to the printable domain of C15
	// chainBudget > 0: the next comparison generated (at whatever nesting depth the generator happens to be:
	// inside parentheses, under '!', in a method argument, at the top) gets a second comparison tail, which the
	// documented grammar does not allow (comparisons do not chain); chained records that it happened
	chainBudget int
	chained     bool
}

var identPool = []string{"right", "owner", "resource", "operation", "user", "a", "b1", "has_role", "ns:sub", "x_y", "tenant", "allowed", "p"}
var varPool = []string{"x", "y", "0", "1", "var_1", "f", "who", "query", "read", "ip_address", "nonce", "hostname"}
var strTxtPool = []string{"", "a", "file1", "hello world", "read", "/a/b.txt", "x;y", "tab\there", "ünï", "check if", "$x", "1 < 2", "50%off", "%s%d%v", "100%", "(a)", "[1, 2]", "{x}", "<-", "!", "#1025", "allow if true", "a,b", "a.length()", "2021-01-01T00:00:00Z", "true", "-1", "a||b", "// c", "/* c */"}
var strPrintable = []string{"", "a", "file1", "hello world", "read", "/a/b.txt", "x;y", "check if", "$x", "1 < 2", "50%off", "%s%d%v", "100%", "(a)", "[1, 2]", "{x}", "<-", "!", "#1025", "allow if true", "a,b", "a.length()", "2021-01-01T00:00:00Z", "true", "-1", "a||b", "// c", "/* c */"}

var boundarySizes = []int{15, 16, 17, 31, 32, 33, 63, 64, 65, 127, 128, 129, 255, 256, 257, 1000}

func (g *txtGen) ws() string {
	switch g.rng.Intn(6) {
	case 0:
		return ""
	case 1:
		return "  "
	case 2:
		return "\t"
	case 3:
		return "\n"
	}
	return " "
}
func (g *txtGen) ws1() string { // at least one separator where tokens would otherwise merge
	s := g.ws()
	if s == "" {
		return " "
	}
	return s
}

// term returns (text, value); atomsOnly for set elements
func (g *txtGen) term(allowVar, allowSet bool) (string, STerm) {
	r := g.rng
	for {
		switch r.Intn(9) {
		case 0:
			if !allowVar {
				continue
			}
			v := varPool[r.Intn(len(varPool))]
			return "$" + v, aVar(v)
		case 1:
			pool := strTxtPool
			if g.printable {
				pool = strPrintable
			}
			s := pool[r.Intn(len(pool))]
			return "\"" + s + "\"", aStr(s)
		case 2:
			i := []int64{0, 1, 42, 1000000, 9223372036854775807, -1, -42, -9223372036854775808}[r.Intn(8)]
			if i < 0 {
				// a separator first: "<" directly followed by "-" would lex as the arrow "<-"
				if !g.printable && r.Chance(30) {
					return " -" + g.ws() + fmt.Sprint(i)[1:], aInt(i)
				}
				return " " + fmt.Sprint(i), aInt(i)
			}
			return fmt.Sprint(i), aInt(i)
		case 3:
			secs := []int64{0, 1, 1136214245, 1700000000, 253402300799}[r.Intn(5)]
			t := time.Unix(secs, 0).UTC()
			if !g.printable && r.Chance(40) && secs < 253402000000 {
				// an offset form of the same instant
				loc := time.FixedZone("x", 7*3600)
				return t.In(loc).Format(time.RFC3339), aDate(uint64(secs))
			}
			return t.Format(time.RFC3339), aDate(uint64(secs))
		case 4:
			b := r.Bytes(r.Intn(4))
			if r.Chance(15) {
				// sizes around the powers of two a fixed buffer might have: nothing in the grammar bounds a byte literal
				b = r.Bytes(boundarySizes[r.Intn(len(boundarySizes))])
			}
			h := fmt.Sprintf("%x", b)
			if !g.printable && r.Bool() {
				h = strings.ToUpper(h)
			}
			return "hex:" + h, aBytes(b)
		case 5:
			if r.Bool() {
				return "true", aBool(true)
			}
			return "false", aBool(false)
		case 6:
			if !allowSet {
				continue
			}
			n := 1 + r.Intn(3)
			var parts []string
			set := STerm{IsSet: true}
			kind := -1
			for i := 0; i < n; i++ {
				for {
					t, v := g.term(false, false)
					if g.printable && v.Kind() == KStr {
						continue // sets of strings do not print as strings
					}
					if g.printable && kind >= 0 && v.Kind() != kind {
						continue // a token can only carry homogeneous sets
					}
					kind = v.Kind()
					parts = append(parts, t)
					set.Set = append(set.Set, v.A)
					break
				}
			}
			return "[" + g.ws() + strings.Join(parts, g.ws()+","+g.ws()) + g.ws() + "]", set
		case 7:
			if g.params == nil || g.printable {
				continue
			}
			names := []string{"p1", "p2", "who"}
			n := names[r.Intn(len(names))]
			v, ok := g.params[n]
			if !ok {
				continue
			}
			if !allowVar && v.Kind() == KVar {
				continue
			}
			return "{" + n + "}", v
		default:
			continue
		}
	}
}

func (g *txtGen) pred(allowVar bool) (string, SPred) {
	name := identPool[g.rng.Intn(len(identPool))]
	n := g.rng.Intn(4)
	var parts []string
	p := SPred{Name: name}
	for i := 0; i < n; i++ {
		t, v := g.term(allowVar, true)
		parts = append(parts, t)
		p.Terms = append(p.Terms, v)
	}
	return name + g.ws() + "(" + g.ws() + strings.Join(parts, g.ws()+","+g.ws()) + g.ws() + ")", p
}

var cmpOps = []struct {
	txt string
	bin int
}{{"<=", 1}, {">=", 3}, {"<", 0}, {">", 2}, {"==", 4}}
var methods = []struct {
	txt string
	bin int
}{{"contains", 5}, {"starts_with", 6}, {"ends_with", 7}, {"matches", 8}, {"union", 16}, {"intersection", 15}}

// expr generates level `lvl` (1 = ||) with a depth budget; returns text and postfix ops
func (g *txtGen) expr(lvl, depth int) (string, SExpr) {
	r := g.rng
	bin := func(o int) SOp { return SOp{Kind: 2, Bin: o} }
	switch lvl {
	case 1, 2, 4, 5:
		t, ops := g.expr(lvl+1, depth)
		for depth > 0 && r.Chance(30) {
			var sym string
			var o int
			switch lvl {
			case 1:
				sym, o = "||", 14
			case 2:
				sym, o = "&&", 13
			case 4:
				if r.Bool() {
					sym, o = "+", 9
				} else {
					sym, o = "-", 10
				}
			default:
				if r.Bool() {
					sym, o = "*", 11
				} else {
					sym, o = "/", 12
				}
			}
			t2, ops2 := g.expr(lvl+1, depth-1)
			t = t + g.ws() + sym + g.ws() + t2
			ops = append(append(ops, ops2...), bin(o))
			depth--
		}
		return t, ops
	case 3:
		t, ops := g.expr(4, depth)
		if depth > 0 && r.Chance(45) {
			c := cmpOps[r.Intn(len(cmpOps))]
			t2, ops2 := g.expr(4, depth-1)
			if g.chainBudget > 0 {
				g.chainBudget--
				g.chained = true
				c2 := cmpOps[r.Intn(len(cmpOps))]
				t3, ops3 := g.expr(4, 0)
				return t + g.ws() + c.txt + g.ws() + t2 + g.ws() + c2.txt + g.ws() + t3, append(append(append(ops, ops2...), bin(c.bin)), append(ops3, bin(c2.bin))...)
			}
			return t + g.ws() + c.txt + g.ws() + t2, append(append(ops, ops2...), bin(c.bin))
		}
		return t, ops
	case 6:
		t, ops := g.expr(7, depth)
		if depth > 0 && r.Chance(20) {
			return "!" + g.ws() + t, append(ops, SOp{Kind: 1, Un: 0})
		}
		return t, ops
	case 7:
		t, ops := g.expr(8, depth)
		for depth > 0 && r.Chance(25) {
			if r.Chance(25) {
				t = t + g.ws() + "." + g.ws() + "length" + g.ws() + "(" + g.ws() + ")"
				ops = append(ops, SOp{Kind: 1, Un: 2})
			} else {
				m := methods[r.Intn(len(methods))]
				t2, ops2 := g.expr(1, depth-1)
				t = t + g.ws() + "." + g.ws() + m.txt + g.ws() + "(" + g.ws() + t2 + g.ws() + ")"
				ops = append(append(ops, ops2...), bin(m.bin))
			}
			depth--
		}
		return t, ops
	default:
		if depth > 0 && r.Chance(25) {
			t, ops := g.expr(1, depth-1)
			return "(" + g.ws() + t + g.ws() + ")", append(ops, SOp{Kind: 1, Un: 1})
		}
		t, v := g.term(true, true)
		return t, SExpr{{Kind: 0, Val: v}}
	}
}

// body: rule elements; returns text, predicates, expressions
func (g *txtGen) body() (string, []SPred, []SExpr) {
	n := 1 + g.rng.Intn(3)
	var parts []string
	var preds []SPred
	var exprs []SExpr
	for i := 0; i < n; i++ {
		if g.rng.Chance(65) {
			t, p := g.pred(true)
			parts = append(parts, t)
			preds = append(preds, p)
		} else {
			t, e := g.expr(1, 1+g.rng.Intn(4))
			parts = append(parts, t)
			exprs = append(exprs, e)
		}
	}
	return strings.Join(parts, g.ws()+","+g.ws()), preds, exprs
}

func (g *txtGen) rule() (string, SRule) {
	ht, h := g.pred(true)
	bt, preds, exprs := g.body()
	return ht + g.ws() + "<-" + g.ws() + bt, SRule{Head: h, Body: preds, Exprs: exprs}
}
func (g *txtGen) queries(kw string) (string, []SRule) {
	n := 1 + g.rng.Intn(2)
	var parts []string
	var qs []SRule
	for i := 0; i < n; i++ {
		bt, preds, exprs := g.body()
		parts = append(parts, bt)
		qs = append(qs, SRule{Head: SPred{Name: "query"}, Body: preds, Exprs: exprs})
	}
	return kw + g.ws1() + strings.Join(parts, g.ws1()+"or"+g.ws1()), qs
}
func (g *txtGen) check() (string, SCheck) {
	t, qs := g.queries("check if")
	return t, SCheck(qs)
}
func (g *txtGen) policy() (string, SPolicy) {
	if g.rng.Bool() {
		t, qs := g.queries("allow if")
		return t, SPolicy{Queries: qs}
	}
	t, qs := g.queries("deny if")
	return t, SPolicy{Deny: true, Queries: qs}
}
func (g *txtGen) block(nElts int) (string, SBlock) {
	var sb strings.Builder
	var b SBlock
	if !g.printable && g.rng.Chance(30) {
		sb.WriteString("// a comment\n")
	}
	for i := 0; i < nElts; i++ {
		switch g.rng.Intn(3) {
		case 0:
			t, p := g.pred(false)
			dup := false
			for _, f := range b.Facts {
				if f.String() == p.String() {
					dup = true
				}
			}
			if dup {
				continue
			}
			sb.WriteString(g.ws() + t + g.ws() + ";")
			b.Facts = append(b.Facts, p)
		case 1:
			t, r := g.rule()
			sb.WriteString(g.ws() + t + g.ws() + ";")
			b.Rules = append(b.Rules, r)
		default:
			t, c := g.check()
			sb.WriteString(g.ws() + t + g.ws() + ";")
			b.Checks = append(b.Checks, c)
		}
	}
	sb.WriteString(g.ws())
	return sb.String(), b
}
