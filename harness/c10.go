package main

import (
	"bufio"
	"crypto/ed25519"
	"encoding/hex"
	"fmt"
	"math"
	"os"
	"os/exec"
	"regexp"
	"strings"
	"time"

	biscuit "github.com/biscuit-auth/biscuit-go/v2"
	"github.com/biscuit-auth/biscuit-go/v2/datalog"
	"github.com/biscuit-auth/biscuit-go/v2/pb"
	"google.golang.org/protobuf/proto"
)

func init() {
	runners["C10"] = runC10
	workers["c10"] = c10Worker
}

// the fixed authorizer panel applied to every token that verifies
func c10Panel() azScenario {
	q := func(name string, terms ...STerm) SRule {
		return SRule{Head: SPred{Name: "query"}, Body: []SPred{{Name: name, Terms: terms}}}
	}
	return azScenario{MaxF: 1000, MaxI: 100, Ops: []azOp{
		{Kind: "fact", Fact: SPred{Name: "op", Terms: []STerm{aStr("read")}}},
		{Kind: "fact", Fact: SPred{Name: "res", Terms: []STerm{aStr("file1"), aInt(1)}}},
		{Kind: "rule", Rule: SRule{Head: SPred{Name: "seen", Terms: []STerm{aVar("x")}}, Body: []SPred{{Name: "res", Terms: []STerm{aVar("x"), aVar("y")}}}}},
		{Kind: "check", Check: SCheck{q("op", aVar("o"))}},
		{Kind: "policy", Policy: SPolicy{Queries: []SRule{q("right", aVar("a"), aVar("b"))}}},
		{Kind: "policy", Policy: SPolicy{Queries: []SRule{{Head: SPred{Name: "query"}, Exprs: []SExpr{{{Kind: 0, Val: aBool(true)}}}}}}},
		{Kind: "authorize"},
		{Kind: "query", Rule: SRule{Head: SPred{Name: "out", Terms: []STerm{aVar("a")}}, Body: []SPred{{Name: "right", Terms: []STerm{aVar("a"), aVar("b")}}}}},
	}}
}

// c10Pipeline runs every operation of the property on one byte string and
// returns one line: stage classes separated by '|'
func c10Pipeline(bs []byte, root ed25519.PublicKey) string {
	var st []string
	tok, err := unmarshalOwned(bs)
	if err != nil {
		c := errClass(err)
		if c == "EOther" {
			msg := err.Error()
			switch {
			case strings.Contains(msg, "block version") || strings.Contains(msg, "unsupported version"):
				c = "EVersion"
			case strings.HasPrefix(msg, "biscuit:"):
				c = "EConvert"
			default:
				c = "EWire"
			}
		}
		return "unmarshal:" + c
	}
	st = append(st, "unmarshal:ok")
	_ = tok.String()
	_ = tok.Code()
	_ = tok.RevocationIds()
	_ = tok.RootKeyID()
	_ = tok.GetContext()
	_ = tok.BlockCount()
	tok.GetBlockID(biscuit.Fact{Predicate: biscuit.Predicate{Name: "right", IDs: []biscuit.Term{biscuit.String("fresh string"), biscuit.Integer(1)}}})
	if _, err := tok.Serialize(); err != nil {
		st = append(st, "serialize:err")
	}
	// append / seal work on any unmarshalled token, verified or not
	bb := tok.CreateBlock()
	bb.AddFact(biscuit.Fact{Predicate: biscuit.Predicate{Name: "added", IDs: []biscuit.Term{biscuit.String("by holder")}}})
	if t2, err := tok.Append(detReader{NewRNG(3)}, bb.Build()); err != nil {
		st = append(st, "append:"+errClass(err))
	} else {
		st = append(st, "append:ok")
		t2.Serialize()
		_ = t2.String()
	}
	if t3, err := tok.Seal(detReader{NewRNG(4)}); err != nil {
		st = append(st, "seal:"+errClass(err))
	} else {
		st = append(st, "seal:ok")
		t3.Serialize()
	}
	overridePub = root
	defer func() { overridePub = nil }()
	sc := c10Panel()
	obs, fatalMsg := runScenarioGo(tok, sc, entryAuthorizerFor)
	if fatalMsg != "" {
		_, err := tok.AuthorizerFor(biscuit.WithSingularRootPublicKey(root))
		st = append(st, "verify:"+errClass(err))
		return strings.Join(st, "\x1f")
	}
	st = append(st, "verify:ok")
	for _, o := range obs {
		if o.Panic != "" {
			st = append(st, "PANIC:"+o.Panic)
		}
		switch o.Kind {
		case "verdict":
			st = append(st, "authorize:"+o.Verdict+"#"+predsCoq(o.World))
		case "query":
			if o.QErr != "" {
				st = append(st, "query:err:"+o.QErr)
			} else {
				st = append(st, "query:ok:"+predsCoq(o.QRes))
			}
		}
	}
	// also the authorizer's own printing and snapshot refusal
	return strings.Join(st, "\x1f")
}

// worker: reads "hexroot hexbytes" lines from a file starting at line <from>, prints "i<TAB>result"
func c10Worker(args []string) {
	f, err := os.Open(args[0])
	if err != nil {
		fatal("%v", err)
	}
	from := 0
	fmt.Sscan(args[1], &from)
	sc := bufio.NewScanner(f)
	sc.Buffer(make([]byte, 1<<20), 1<<26)
	out := bufio.NewWriter(os.Stdout)
	i := 0
	for sc.Scan() {
		if i >= from {
			// "<root hex> <token hex>": either field may be empty (an empty byte string is an input too)
			parts := strings.SplitN(sc.Text(), " ", 2)
			for len(parts) < 2 {
				parts = append(parts, "")
			}
			root, _ := hex.DecodeString(strings.TrimSpace(parts[0]))
			bs, _ := hex.DecodeString(strings.TrimSpace(parts[1]))
			// records start with \x1e on a fresh line: the library itself prints to stdout
			// ("expression error: ..." without a newline), which must not corrupt the protocol
			fmt.Fprintf(out, "\n\x1eBEGIN\t%d\n", i)
			out.Flush()
			r := func() (r string) {
				defer func() {
					if p := recover(); p != nil {
						r = fmt.Sprintf("PANIC:%v", p)
					}
				}()
				return c10Pipeline(bs, root)
			}()
			fmt.Fprintf(out, "\n\x1eEND\t%d\t%s\n", i, strings.ReplaceAll(r, "\n", " "))
			out.Flush()
		}
		i++
	}
}

// ---------- adversarial, validly signed tokens ----------

type advToken struct {
	Name  string
	Bytes []byte
	Root  ed25519.PublicKey
}

// envFault: one fault of the ENVELOPE that the attacker, who owns every key of the chain, can sign over:
// the key announced by block Pos has length KeyLen (>= 0), or its algorithm number is Alg (>= 0).
// The signatures are made over exactly those bytes, so the chain is valid as far as it can be.
type envFault struct {
	Pos    int
	KeyLen int
	Alg    int32
}

func signEnvelope(rng *RNG, blocks [][]byte, sealed bool, secretLen int) ([]byte, ed25519.PublicKey) {
	return signEnvelopeFault(rng, blocks, sealed, secretLen, envFault{-1, -1, -1})
}

func signEnvelopeFault(rng *RNG, blocks [][]byte, sealed bool, secretLen int, ef envFault) ([]byte, ed25519.PublicKey) {
	rootSeed := rng.Bytes(32)
	priv := ed25519.NewKeyFromSeed(rootSeed)
	c := &pb.Biscuit{}
	cur := priv
	var lastSecret []byte
	var last *pb.SignedBlock
	for i, blk := range blocks {
		alg := pb.PublicKey_Ed25519
		algBytes := []byte{0, 0, 0, 0}
		nseed := rng.Bytes(32)
		npriv := ed25519.NewKeyFromSeed(nseed)
		npub := npriv.Public().(ed25519.PublicKey)
		announced := []byte(npub)
		if ef.Pos == i && ef.KeyLen >= 0 {
			announced = make([]byte, ef.KeyLen)
			for k := range announced {
				announced[k] = npub[k%32]
			}
		}
		if ef.Pos == i && ef.Alg >= 0 {
			alg = pb.PublicKey_Algorithm(ef.Alg)
			algBytes = []byte{byte(ef.Alg), byte(ef.Alg >> 8), byte(ef.Alg >> 16), byte(ef.Alg >> 24)}
		}
		msg := append(append(append([]byte{}, blk...), algBytes...), announced...)
		sb := &pb.SignedBlock{Block: blk, NextKey: &pb.PublicKey{Algorithm: &alg, Key: announced}, Signature: ed25519.Sign(cur, msg)}
		if i == 0 {
			c.Authority = sb
		} else {
			c.Blocks = append(c.Blocks, sb)
		}
		cur, lastSecret, last = npriv, nseed, sb
	}
	switch {
	case sealed:
		alg := uint32(last.NextKey.Algorithm.Number())
		msg := append(append(append(append([]byte{}, last.Block...), byte(alg), byte(alg>>8), byte(alg>>16), byte(alg>>24)), last.NextKey.Key...), last.Signature...)
		c.Proof = &pb.Proof{Content: &pb.Proof_FinalSignature{FinalSignature: ed25519.Sign(cur, msg)}}
	case secretLen >= 0:
		c.Proof = &pb.Proof{Content: &pb.Proof_NextSecret{NextSecret: rng.Bytes(secretLen)}}
	default:
		c.Proof = &pb.Proof{Content: &pb.Proof_NextSecret{NextSecret: lastSecret}}
	}
	bs, err := proto.Marshal(c)
	if err != nil {
		fatal("marshal adversarial envelope: %v", err)
	}
	return bs, priv.Public().(ed25519.PublicKey)
}

func pbTerm(kind int, rng *RNG) *pb.TermV2 {
	idx := []uint64{0, 5, 27, 28, 1023, 1024, 1025, 1030, 1 << 31, 1 << 32, 1 << 63, math.MaxUint64}[rng.Intn(12)]
	switch kind {
	case 0:
		return &pb.TermV2{Content: &pb.TermV2_Variable{Variable: uint32(idx)}}
	case 1:
		return &pb.TermV2{Content: &pb.TermV2_Integer{Integer: []int64{0, 1, -1, math.MaxInt64, math.MinInt64}[rng.Intn(5)]}}
	case 2:
		return &pb.TermV2{Content: &pb.TermV2_String_{String_: idx}}
	case 3:
		return &pb.TermV2{Content: &pb.TermV2_Date{Date: []uint64{0, 1700000000, math.MaxUint64}[rng.Intn(3)]}}
	case 4:
		return &pb.TermV2{Content: &pb.TermV2_Bytes{Bytes: rng.Bytes(rng.Intn(3))}}
	case 5:
		return &pb.TermV2{Content: &pb.TermV2_Bool{Bool: rng.Bool()}}
	case 6: // set
		n := rng.Intn(4)
		ek := 1 + rng.Intn(5)
		var elts []*pb.TermV2
		for i := 0; i < n; i++ {
			k := ek
			if rng.Chance(15) {
				k = rng.Intn(8)
			}
			elts = append(elts, pbTerm(k, rng))
		}
		return &pb.TermV2{Content: &pb.TermV2_Set{Set: &pb.TermSet{Set: elts}}}
	}
	return &pb.TermV2{} // no member
}

func pbPred(rng *RNG, nameIdx uint64, arity int) *pb.PredicateV2 {
	p := &pb.PredicateV2{Name: proto.Uint64(nameIdx)}
	for i := 0; i < arity; i++ {
		p.Terms = append(p.Terms, pbTerm(rng.Intn(8), rng))
	}
	return p
}

func pbExpr(rng *RNG) *pb.ExpressionV2 {
	e := &pb.ExpressionV2{}
	n := rng.Intn(6)
	for i := 0; i < n; i++ {
		switch rng.Intn(4) {
		case 0, 1:
			e.Ops = append(e.Ops, &pb.Op{Content: &pb.Op_Value{Value: pbTerm(rng.Intn(8), rng)}})
		case 2:
			k := pb.OpUnary_Kind([]int32{0, 1, 2, 3, -1}[rng.Intn(5)])
			u := &pb.OpUnary{Kind: &k}
			if rng.Chance(10) {
				u = &pb.OpUnary{}
			}
			e.Ops = append(e.Ops, &pb.Op{Content: &pb.Op_Unary{Unary: u}})
		default:
			k := pb.OpBinary_Kind(rng.Intn(19) - 1)
			b := &pb.OpBinary{Kind: &k}
			if rng.Chance(10) {
				b = &pb.OpBinary{}
			}
			e.Ops = append(e.Ops, &pb.Op{Content: &pb.Op_Binary{Binary: b}})
		}
	}
	if rng.Chance(5) {
		e.Ops = append(e.Ops, &pb.Op{})
	}
	return e
}

func advBlock(rng *RNG) []byte {
	b := &pb.Block{Version: proto.Uint32([]uint32{3, 3, 3, 3, 3, 3, 2, 4, 0}[rng.Intn(9)])}
	if rng.Chance(5) {
		b.Version = nil
	}
	nsym := rng.Intn(4)
	for i := 0; i < nsym; i++ {
		b.Symbols = append(b.Symbols, []string{"right", "read", "file1", "x", "", "x", "\xff\xfe"}[rng.Intn(7)])
	}
	if rng.Chance(50) {
		b.Context = proto.String("ctx")
	}
	names := []uint64{4, 2, 0, 1024, 1025, 30, 1 << 63, math.MaxUint64, 27}
	nf := rng.Intn(4)
	for i := 0; i < nf; i++ {
		b.FactsV2 = append(b.FactsV2, &pb.FactV2{Predicate: pbPred(rng, names[rng.Intn(len(names))], rng.Intn(3))})
	}
	// a fact the panel's policy can match: right("file1"-ish, ...)
	if rng.Chance(60) {
		b.FactsV2 = append(b.FactsV2, &pb.FactV2{Predicate: &pb.PredicateV2{Name: proto.Uint64(4), Terms: []*pb.TermV2{pbTerm(2, rng), pbTerm(rng.Intn(7), rng)}}})
	}
	// sets of byte arrays meeting Equal: duplicate facts, a constant in a check, a repeated variable
	if rng.Chance(25) {
		setOfBytes := func() *pb.TermV2 {
			return &pb.TermV2{Content: &pb.TermV2_Set{Set: &pb.TermSet{Set: []*pb.TermV2{{Content: &pb.TermV2_Bytes{Bytes: []byte{1}}}, {Content: &pb.TermV2_Bytes{Bytes: []byte{byte(rng.Intn(2))}}}}}}}
		}
		b.FactsV2 = append(b.FactsV2, &pb.FactV2{Predicate: &pb.PredicateV2{Name: proto.Uint64(2), Terms: []*pb.TermV2{setOfBytes()}}},
			&pb.FactV2{Predicate: &pb.PredicateV2{Name: proto.Uint64(2), Terms: []*pb.TermV2{setOfBytes()}}})
		q := &pb.RuleV2{Head: &pb.PredicateV2{Name: proto.Uint64(27)}, Body: []*pb.PredicateV2{{Name: proto.Uint64(2), Terms: []*pb.TermV2{setOfBytes()}}}}
		if rng.Bool() {
			v := &pb.TermV2{Content: &pb.TermV2_Variable{Variable: 5}}
			q.Body = []*pb.PredicateV2{{Name: proto.Uint64(2), Terms: []*pb.TermV2{v}}, {Name: proto.Uint64(2), Terms: []*pb.TermV2{v}}}
		}
		b.ChecksV2 = append(b.ChecksV2, &pb.CheckV2{Queries: []*pb.RuleV2{q}})
		b.Version = proto.Uint32(3)
	}
	nr := rng.Intn(3)
	for i := 0; i < nr; i++ {
		r := &pb.RuleV2{Head: pbPred(rng, names[rng.Intn(len(names))], rng.Intn(3))}
		for j := rng.Intn(3); j > 0; j-- {
			r.Body = append(r.Body, pbPred(rng, names[rng.Intn(len(names))], rng.Intn(3)))
		}
		for j := rng.Intn(2); j > 0; j-- {
			r.Expressions = append(r.Expressions, pbExpr(rng))
		}
		b.RulesV2 = append(b.RulesV2, r)
	}
	nc := rng.Intn(3)
	for i := 0; i < nc; i++ {
		c := &pb.CheckV2{}
		for j := rng.Intn(3); j > 0; j-- {
			q := &pb.RuleV2{Head: pbPred(rng, 27, 0)}
			for k := rng.Intn(3); k > 0; k-- {
				q.Body = append(q.Body, pbPred(rng, names[rng.Intn(len(names))], rng.Intn(3)))
			}
			if rng.Chance(40) {
				q.Expressions = append(q.Expressions, pbExpr(rng))
			}
			c.Queries = append(c.Queries, q)
		}
		b.ChecksV2 = append(b.ChecksV2, c)
	}
	bs, err := proto.MarshalOptions{AllowPartial: true}.Marshal(b)
	if err != nil {
		fatal("marshal adversarial block: %v", err)
	}
	return bs
}

// advBlockFocused builds a VALID version-3 block (declared symbols, in-range indexes, a rule, a
// well-typed check, facts of every term type) and then injects exactly ONE fault, so that the
// token passes every stage up to the one the fault concerns (a token with many faults dies at
// the first of them and exercises little).
func advBlockFocused(rng *RNG) ([]byte, string) {
	str := func(i uint64) *pb.TermV2 { return &pb.TermV2{Content: &pb.TermV2_String_{String_: i}} }
	vr := func(i uint32) *pb.TermV2 { return &pb.TermV2{Content: &pb.TermV2_Variable{Variable: i}} }
	in := func(i int64) *pb.TermV2 { return &pb.TermV2{Content: &pb.TermV2_Integer{Integer: i}} }
	by := func(b ...byte) *pb.TermV2 { return &pb.TermV2{Content: &pb.TermV2_Bytes{Bytes: b}} }
	set := func(e ...*pb.TermV2) *pb.TermV2 {
		return &pb.TermV2{Content: &pb.TermV2_Set{Set: &pb.TermSet{Set: e}}}
	}
	pred := func(name uint64, ts ...*pb.TermV2) *pb.PredicateV2 {
		return &pb.PredicateV2{Name: proto.Uint64(name), Terms: ts}
	}
	fact := func(name uint64, ts ...*pb.TermV2) *pb.FactV2 { return &pb.FactV2{Predicate: pred(name, ts...)} }
	val := func(t *pb.TermV2) *pb.Op { return &pb.Op{Content: &pb.Op_Value{Value: t}} }
	bin := func(k pb.OpBinary_Kind) *pb.Op { return &pb.Op{Content: &pb.Op_Binary{Binary: &pb.OpBinary{Kind: &k}}} }
	query := func(body []*pb.PredicateV2, exprs ...*pb.ExpressionV2) *pb.RuleV2 {
		return &pb.RuleV2{Head: pred(27), Body: body, Expressions: exprs}
	}
	// symbols 1024.. : a b file1 ; defaults used: read(0) resource(2) right(4) owner(7)
	b := &pb.Block{Version: proto.Uint32(3), Symbols: []string{"a", "b", "file1"}}
	b.FactsV2 = []*pb.FactV2{fact(4, str(1026), str(0)), fact(1024, str(1026), in(1)), fact(1025, by(1, 2)), fact(7, set(in(1), in(2)))}
	b.RulesV2 = []*pb.RuleV2{{Head: pred(2, vr(1024)), Body: []*pb.PredicateV2{pred(4, vr(1024), str(0))}}}
	b.ChecksV2 = []*pb.CheckV2{{Queries: []*pb.RuleV2{query([]*pb.PredicateV2{pred(4, vr(1024), vr(1025))},
		&pb.ExpressionV2{Ops: []*pb.Op{val(vr(1025)), val(str(0)), bin(pb.OpBinary_Equal)}})}}}
	advIdx := func() uint64 {
		return []uint64{28, 29, 1023, 1027, 1028, 2000, 1 << 31, 1<<32 - 1, 1 << 32, 1 << 63, math.MaxUint64}[rng.Intn(11)]
	}
	typed := func(k int) *pb.TermV2 {
		switch k {
		case 0:
			return by(7, 8)
		case 1:
			return set(in(1), in(2))
		case 2:
			return set(by(1), by(2))
		case 3:
			return &pb.TermV2{Content: &pb.TermV2_Date{Date: 1700000000}}
		case 4:
			return &pb.TermV2{Content: &pb.TermV2_Bool{Bool: true}}
		case 5:
			return str(1026)
		case 6:
			return set(str(0), str(1026))
		}
		return in(7)
	}
	fault := ""
	switch f := rng.Intn(14); f {
	case 0:
		fault = "none"
	case 1: // a string index out of range, at a random position
		fault = "string-index"
		i := advIdx()
		switch rng.Intn(6) {
		case 0:
			b.FactsV2[0].Predicate.Terms[0] = str(i)
		case 1:
			b.RulesV2[0].Body[0].Terms[1] = str(i)
		case 2:
			b.RulesV2[0].Head.Terms = append(b.RulesV2[0].Head.Terms, str(i))
		case 3:
			b.ChecksV2[0].Queries[0].Expressions[0].Ops[1] = val(str(i))
		case 4:
			b.ChecksV2[0].Queries[0].Expressions[0].Ops[1] = val(set(str(0), str(i)))
		default:
			b.FactsV2[3].Predicate.Terms[0] = set(str(i))
		}
	case 2: // a variable index out of range, at a random position
		fault = "variable-index"
		i := uint32(advIdx())
		switch rng.Intn(4) {
		case 0:
			b.RulesV2[0].Body[0].Terms[0], b.RulesV2[0].Head.Terms[0] = vr(i), vr(i)
		case 1:
			q := b.ChecksV2[0].Queries[0]
			q.Body[0].Terms[1], q.Expressions[0].Ops[0] = vr(i), val(vr(i))
		case 2:
			b.ChecksV2[0].Queries[0].Expressions[0].Ops[0] = val(vr(i)) // unbound in the body
		default:
			b.RulesV2[0].Head.Terms[0] = vr(i) // head variable the body does not bind
		}
	case 3: // a predicate name out of range
		fault = "name-index"
		switch rng.Intn(3) {
		case 0:
			b.FactsV2[1].Predicate.Name = proto.Uint64(advIdx())
		case 1:
			b.RulesV2[0].Head.Name = proto.Uint64(advIdx())
		default:
			b.ChecksV2[0].Queries[0].Body[0].Name = proto.Uint64(advIdx())
		}
	case 4, 5: // a join through a repeated variable, over every value type
		fault = "repeated-variable-join"
		t1, t2 := typed(rng.Intn(8)), typed(rng.Intn(8))
		if rng.Bool() {
			t2 = t1
		}
		b.FactsV2 = append(b.FactsV2, fact(1024, t1), fact(1025, t2))
		body := []*pb.PredicateV2{pred(1024, vr(1025)), pred(1025, vr(1025))}
		if rng.Chance(30) {
			b.FactsV2 = append(b.FactsV2, fact(1026, t1, t2))
			body = []*pb.PredicateV2{pred(1026, vr(1025), vr(1025))}
		}
		b.ChecksV2 = append(b.ChecksV2, &pb.CheckV2{Queries: []*pb.RuleV2{query(body)}})
		b.RulesV2 = append(b.RulesV2, &pb.RuleV2{Head: pred(2, vr(1025)), Body: body})
	case 6: // a constant of every type in a body, facing facts of every type
		fault = "typed-constant-match"
		k := rng.Intn(8)
		b.FactsV2 = append(b.FactsV2, fact(1024, typed(k)), fact(1024, typed(rng.Intn(8))))
		b.ChecksV2 = append(b.ChecksV2, &pb.CheckV2{Queries: []*pb.RuleV2{query([]*pb.PredicateV2{pred(1024, typed(k))})}})
	case 7: // ill-formed operator sequences
		fault = "ill-formed-expression"
		e := b.ChecksV2[0].Queries[0].Expressions[0]
		switch rng.Intn(6) {
		case 0:
			e.Ops = e.Ops[:2]
		case 1:
			e.Ops = e.Ops[2:]
		case 2:
			e.Ops = nil
		case 3:
			e.Ops = append(e.Ops, &pb.Op{})
		case 4:
			e.Ops[2] = &pb.Op{Content: &pb.Op_Binary{Binary: &pb.OpBinary{}}}
		default:
			k := pb.OpBinary_Kind(99)
			e.Ops[2] = &pb.Op{Content: &pb.Op_Binary{Binary: &pb.OpBinary{Kind: &k}}}
		}
	case 8: // a term without member / malformed sets, at a random position
		fault = "malformed-term"
		t := []*pb.TermV2{{}, set(), set(set(in(1))), set(in(1), str(0)), set(vr(1024)), set(&pb.TermV2{})}[rng.Intn(6)]
		switch rng.Intn(4) {
		case 0:
			b.FactsV2[1].Predicate.Terms[1] = t
		case 1:
			b.RulesV2[0].Body[0].Terms[1] = t
		case 2:
			b.ChecksV2[0].Queries[0].Expressions[0].Ops[1] = val(t)
		default:
			b.RulesV2[0].Head.Terms = append(b.RulesV2[0].Head.Terms, t)
		}
	case 9: // variables where ground terms are expected
		fault = "variable-in-fact"
		b.FactsV2[rng.Intn(len(b.FactsV2))].Predicate.Terms[0] = vr(uint32([]uint64{0, 27, 28, 1024, 1030}[rng.Intn(5)]))
	case 10: // an invalid rule with several matches, then an expression that fails
		fault = "invalid-rule-then-expression-error"
		b.FactsV2 = append(b.FactsV2, fact(1025, in(1)), fact(1025, in(0)), fact(1025, in(2)))
		b.RulesV2 = append(b.RulesV2, &pb.RuleV2{Head: pred(2, vr(6)), Body: []*pb.PredicateV2{pred(1025, vr(1025))},
			Expressions: []*pb.ExpressionV2{{Ops: []*pb.Op{val(in(10)), val(vr(1025)), bin(pb.OpBinary_Div), val(in(0)), bin(pb.OpBinary_GreaterThan)}}}})
	case 11: // arithmetic at the boundaries, regular expressions
		fault = "evaluation-error"
		ops := [][]*pb.Op{
			{val(in(math.MinInt64)), val(in(-1)), bin(pb.OpBinary_Div), val(in(0)), bin(pb.OpBinary_Equal)},
			{val(in(math.MaxInt64)), val(in(math.MaxInt64)), bin(pb.OpBinary_Mul), val(in(0)), bin(pb.OpBinary_Equal)},
			{val(in(1)), val(in(0)), bin(pb.OpBinary_Div), val(in(0)), bin(pb.OpBinary_Equal)},
			{val(str(1026)), val(str(1024)), bin(pb.OpBinary_Regex)},
			{val(str(1026)), val(str(1026)), bin(pb.OpBinary_Add), val(str(1026)), bin(pb.OpBinary_Equal)},
		}[rng.Intn(5)]
		b.ChecksV2[0].Queries[0].Expressions[0].Ops = ops
	case 12: // the symbol table itself
		fault = "symbol-table"
		b.Symbols = [][]string{{"a", "a", "file1"}, {"a", "read", "file1"}, {"a", "\xff\xfe", "file1"}, {"", "b", "file1"}, {"a", "b"}}[rng.Intn(5)]
	default: // the declared version
		fault = "version"
		if rng.Bool() {
			b.Version = nil
		} else {
			b.Version = proto.Uint32([]uint32{0, 1, 2, 4, math.MaxUint32}[rng.Intn(5)])
		}
	}
	bs, err := proto.MarshalOptions{AllowPartial: true}.Marshal(b)
	if err != nil {
		fatal("marshal focused block: %v", err)
	}
	return bs, fault
}

func genAdversarial(rng *RNG, n int) []advToken {
	var out []advToken
	plainBlock := func(k int) []byte {
		b, _ := proto.Marshal(&pb.Block{Version: proto.Uint32(3), Symbols: []string{fmt.Sprintf("zz%d", k)}, FactsV2: []*pb.FactV2{{Predicate: &pb.PredicateV2{Name: proto.Uint64(uint64(1024 + k)), Terms: []*pb.TermV2{{Content: &pb.TermV2_Integer{Integer: int64(k)}}}}}}})
		return b
	}
	for i := 0; i < n; i++ {
		if i%8 == 3 {
			// single-fault ENVELOPES: valid content, and one announced key of a wrong size or one odd algorithm
			// number, SIGNED OVER by the attacker (who owns the chain), in every position and with both kinds of
			// proof: the stages after the signature check are reached with that value in place
			nb := 1 + rng.Intn(3)
			var blocks [][]byte
			for j := 0; j < nb; j++ {
				blocks = append(blocks, plainBlock(j))
			}
			ef := envFault{Pos: nb - 1, KeyLen: -1, Alg: -1}
			if rng.Chance(35) {
				ef.Pos = rng.Intn(nb)
			}
			what := ""
			if rng.Chance(80) {
				ef.KeyLen = []int{0, 1, 16, 31, 33, 64}[rng.Intn(6)]
				what = fmt.Sprintf("announced-key-len-%d", ef.KeyLen)
			} else {
				ef.Alg = []int32{1, 2, 255, 1 << 20}[rng.Intn(4)]
				what = fmt.Sprintf("algorithm-%d", ef.Alg)
			}
			sealed := rng.Chance(50)
			bs, root := signEnvelopeFault(rng, blocks, sealed, -1, ef)
			out = append(out, advToken{fmt.Sprintf("adversarial-envelope-fault:%s:pos%d/%d:sealed=%v", what, ef.Pos, nb, sealed), bs, root})
			continue
		}
		if i%2 == 1 {
			// single-fault tokens: the focused block as authority or as a later block
			fb, fault := advBlockFocused(rng)
			blocks := [][]byte{fb}
			if rng.Chance(35) {
				plain, _ := proto.Marshal(&pb.Block{Version: proto.Uint32(3), Symbols: []string{"zz"}, FactsV2: []*pb.FactV2{{Predicate: &pb.PredicateV2{Name: proto.Uint64(1024), Terms: []*pb.TermV2{{Content: &pb.TermV2_Integer{Integer: 1}}}}}}})
				blocks = [][]byte{plain, fb} // note: the focused block's own symbols then start at 1025
			}
			bs, root := signEnvelope(rng, blocks, rng.Chance(15), -1)
			out = append(out, advToken{"adversarial-single-fault:" + fault, bs, root})
			continue
		}
		nb := 1 + rng.Intn(3)
		var blocks [][]byte
		for j := 0; j < nb; j++ {
			blocks = append(blocks, advBlock(rng))
		}
		sealed := rng.Chance(20)
		secretLen := -1
		if rng.Chance(10) {
			secretLen = []int{0, 3, 31, 33, 64}[rng.Intn(5)]
		}
		bs, root := signEnvelope(rng, blocks, sealed, secretLen)
		out = append(out, advToken{"adversarial-signed", bs, root})
	}
	return out
}

func runC10(res *Result, rng *RNG, tier string, outDir string) {
	res.Rule = "three streams, every case run through the whole pipeline (Unmarshal, String, Code, RevocationIds, GetBlockID, Serialize, CreateBlock+Append, Seal, AuthorizerFor, a fixed authorizer panel, Authorize, Query) in a WORKER PROCESS (a panic on a library-owned goroutine cannot be recovered): (1) raw byte strings: random, truncations and bit flips of valid tokens; (2) schema-valid messages with adversarial field values generated from the schema (symbol indexes 28, 1023, 2^31, 2^32, 2^63, 2^64-1; variables in facts; empty / heterogeneous / nested sets and sets of bytes; ill-formed operator sequences; operators without kind or with unknown kind; terms without member; versions 0,2,4,absent; duplicate and non-UTF-8 symbols; next secrets of length 0,3,31,33,64), VALIDLY SIGNED by an attacker root key so that evaluation is reached — half of them wild (many adversarial values at once), half SINGLE-FAULT: a valid block with exactly one fault (string / variable / predicate-name index out of range at a random position, a join through a repeated variable or a body constant over every value type incl. byte arrays and sets, an ill-formed operator sequence, a malformed term or set, a variable in a fact, an invalid rule followed by a failing expression, arithmetic at the 64-bit boundary, a regular expression, a defective symbol table, an unsupported version) so that every stage up to the one concerned is passed; (3) envelope mutations of library-built tokens. Oracle: no stage may panic or kill the worker. The Coq model predicts the class of every stage (unmarshal error class, verification, verdict, world, query result). Non-trivial = the input reaches block decoding (streams 2,3) ; distinct by input bytes."
	nAdv, nRaw := 260, 120
	if tier == "thorough" {
		nAdv, nRaw = 9000, 3000
	}
	var inputs []advToken
	inputs = append(inputs, genAdversarial(rng.Fork(), nAdv)...)
	// valid tokens and their mutations
	orcDummy := newOracle()
	for fi := 0; fi < 3; fi++ {
		r := rng.Fork()
		f := newFamilyShared(r, orcDummy)
		genFamilyInto(f, r, true)
		for ti, t := range f.toks {
			inputs = append(inputs, advToken{"library-token", t.Bytes, f.pub})
			for _, m := range f.mutations(r, ti) {
				inputs = append(inputs, advToken{"mutation:" + m.Name, m.Bytes, f.pub})
			}
			for k := 0; k < nRaw/40; k++ {
				b := append([]byte{}, t.Bytes...)
				switch r.Intn(3) {
				case 0:
					b = b[:r.Intn(len(b))]
				case 1:
					b[r.Intn(len(b))] ^= 1 << uint(r.Intn(8))
				default:
					p := r.Intn(len(b))
					b = append(append(append([]byte{}, b[:p]...), r.Bytes(1+r.Intn(4))...), b[p:]...)
				}
				inputs = append(inputs, advToken{"raw:edit-of-valid", b, f.pub})
			}
		}
	}
	for k := 0; k < nRaw/4; k++ {
		inputs = append(inputs, advToken{"raw:random", rng.Bytes(rng.Intn(80)), ed25519.PublicKey(rng.Bytes(32))})
	}
	// run in worker processes
	inFile := outDir + "/c10_inputs.txt"
	fh, _ := os.Create(inFile)
	for _, in := range inputs {
		fmt.Fprintf(fh, "%x %x\n", []byte(in.Root), in.Bytes)
	}
	fh.Close()
	results := make([]string, len(inputs))
	from := 0
	self, _ := os.Executable()
	for from < len(inputs) {
		cmd := exec.Command(self, "worker", "c10", inFile, fmt.Sprint(from))
		outB, _ := cmd.CombinedOutput()
		var lines []string
		for _, rec := range strings.Split(string(outB), "\x1e")[1:] {
			lines = append(lines, strings.SplitN(rec, "\n", 2)[0])
		}
		began := -1
		for _, l := range lines {
			parts := strings.SplitN(l, "\t", 3)
			switch {
			case parts[0] == "BEGIN" && len(parts) >= 2:
				fmt.Sscan(parts[1], &began)
			case parts[0] == "END" && len(parts) == 3:
				var i int
				fmt.Sscan(parts[1], &i)
				results[i] = parts[2]
				began = -1
				from = i + 1
			}
		}
		if began >= 0 { // the worker died on input 'began'
			tail := string(outB)
			if len(tail) > 1500 {
				tail = tail[len(tail)-1500:]
			}
			results[began] = "CRASH:" + strings.ReplaceAll(tail, "\n", " ")
			from = began + 1
		} else if from < len(inputs) && cmd.ProcessState != nil && !cmd.ProcessState.Success() {
			results[from] = "CRASH:worker exited abnormally"
			from++
		}
	}
	os.Remove(inFile)
	// oracle + model cases
	var lines, descs []string
	var lineIn []advToken
	for i, in := range inputs {
		r := results[i]
		nontrivial := !strings.HasPrefix(in.Name, "raw:")
		res.Count(string(in.Bytes), nontrivial)
		res.Dist("stream:" + in.Name)
		stage := strings.SplitN(r, "\x1f", 2)[0]
		if strings.HasPrefix(r, "unmarshal:ok") {
			res.Dist("reached:evaluation-or-verification")
		} else {
			res.Dist(stage)
		}
		rep := map[string]interface{}{"stream": in.Name, "token": fmt.Sprintf("%x", in.Bytes), "root_public_key": fmt.Sprintf("%x", []byte(in.Root)), "result": trunc(r, 600)}
		if i < 2 {
			res.Sample(rep)
		}
		if strings.Contains(r, "PANIC:") || strings.HasPrefix(r, "CRASH:") {
			key := "panic"
			switch {
			case strings.Contains(r, "hash of unhashable"):
				key = "panic:unhashable-set"
			case strings.Contains(r, "nil pointer"):
				key = "panic:nil-dereference"
			case strings.Contains(r, "index out of range"):
				key = "panic:index-out-of-range"
			case strings.Contains(r, "bad seed length"):
				key = "panic:bad-seed-length"
			}
			res.Violate(key, "an untrusted token crashed the verifier: "+trunc(r, 300), rep)
			continue
		}
		lines = append(lines, c10Case(in, r))
		lineIn = append(lineIn, in)
		descs = append(descs, in.Name+" "+trunc(fmt.Sprintf("%x", in.Bytes), 120))
	}
	sc := c10Panel()
	ops := make([]string, len(sc.Ops))
	for i, o := range sc.Ops {
		ops[i] = o.coq()
	}
	panel := "Definition panel_ops : list aop := " + coqList(ops) + ".\n"
	WriteShardsFn(res, outDir, "C10", "Base Term Expr Datalog Authz DTerm Symbols Chain Wire Token Corr DEval CorrD",
		func(start, end int) string {
			orc := newOracle()
			for _, in := range lineIn[start:end] {
				if c, err := containerOfBytes(in.Bytes); err == nil && len(in.Root) == 32 {
					f := &family{orc: orc}
					f.addVerifyOracle(in.Root, c)
				}
			}
			return orc.coq("") + panel
		}, "pipe_case", "fun c => pipe_ok pub_tbl ver_tbl panel_ops c && pipe_ok_D pub_tbl ver_tbl panel_ops c", lines, 250)
	res.ModelCases = len(lines)
	res.CaseDescs = descs
	_ = time.Now
	_ = datalog.OFFSET
}

func trunc(s string, n int) string {
	if len(s) > n {
		return s[:n] + "..."
	}
	return s
}

// c10Case prints one pipeline observation as a Coq record
func c10Case(in advToken, r string) string {
	stages := strings.Split(r, "\x1f")
	um, ver, verdict, world, query := "POk", "PSkip", "None", "[]", "None"
	for _, s := range stages {
		switch {
		case strings.HasPrefix(s, "unmarshal:") && s != "unmarshal:ok":
			um = "PErr " + strings.TrimPrefix(s, "unmarshal:")
		case s == "verify:ok":
			ver = "POk"
		case strings.HasPrefix(s, "verify:"):
			ver = "PErr " + strings.TrimPrefix(s, "verify:")
		case strings.HasPrefix(s, "authorize:"):
			p := strings.SplitN(strings.TrimPrefix(s, "authorize:"), "#", 2)
			verdict = "(Some (" + p[0] + "))"
			world = p[1]
		case strings.HasPrefix(s, "query:ok:"):
			query = "(Some (OOk " + strings.TrimPrefix(s, "query:ok:") + "))"
		case strings.HasPrefix(s, "query:err:"):
			query = "(Some (OErr " + strings.TrimPrefix(s, "query:err:") + "))"
		}
	}
	// regular expressions: the model takes Go's answers from a table.  For a token that applies
	// the regex operator the table holds every (pattern, subject) pair over the strings the token
	// mentions; when a pattern or subject can also be COMPUTED (string concatenation) the table
	// cannot be complete and the evaluation outcome is not compared for that token.
	rx := "[]"
	if hasRegex, hasConcat, strs := c10RegexInfo(in.Bytes); hasRegex {
		if hasConcat || len(strs) > 40 {
			verdict, world, query = "None", "[]", "None"
		} else {
			var items []string
			for _, p := range strs {
				re, err := regexp.Compile(p)
				for _, sj := range strs {
					ans := "None"
					if err == nil {
						ans = "(Some " + coqBool(re.MatchString(sj)) + ")"
					}
					items = append(items, fmt.Sprintf("(%s, %s, %s)", coqStr(p), coqStr(sj), ans))
				}
			}
			rx = coqList(items)
		}
	}
	return fmt.Sprintf("{| pc_bytes := %s; pc_root := %s; pc_unmarshal := %s; pc_verify := %s; pc_verdict := %s; pc_world := %s; pc_query := %s; pc_rx := %s |}",
		coqBytes(in.Bytes), coqBytes(in.Root), um, ver, verdict, world, query, rx)
}

// c10RegexInfo decodes the token with protobuf only and reports whether some expression applies
// the regex operator, whether some expression adds (concatenates) values, and the strings the
// token's String terms resolve to (published defaults, cumulative block tables, the placeholder
// of an out-of-range index), plus the strings of the authorizer panel.
func c10RegexInfo(bs []byte) (hasRegex, hasConcat bool, strs []string) {
	var c pb.Biscuit
	if proto.Unmarshal(bs, &c) != nil || c.Authority == nil {
		return
	}
	seen := map[string]bool{}
	add := func(s string) {
		if !seen[s] {
			seen[s] = true
			strs = append(strs, s)
		}
	}
	for _, s := range []string{"read", "file1"} {
		add(s)
	}
	var syms []string
	resolve := func(i uint64) string {
		if i < 1024 {
			if int(i) < len(publishedDefaults) {
				return publishedDefaults[i]
			}
			return fmt.Sprintf("<invalid symbol %d>", i)
		}
		if i-1024 < uint64(len(syms)) {
			return syms[i-1024]
		}
		return fmt.Sprintf("<invalid symbol %d>", i)
	}
	var term func(t *pb.TermV2)
	term = func(t *pb.TermV2) {
		if t == nil {
			return
		}
		switch x := t.Content.(type) {
		case *pb.TermV2_String_:
			add(resolve(x.String_))
		case *pb.TermV2_Set:
			if x.Set != nil {
				for _, e := range x.Set.Set {
					term(e)
				}
			}
		}
	}
	pred := func(p *pb.PredicateV2) {
		if p != nil {
			for _, t := range p.Terms {
				term(t)
			}
		}
	}
	rule := func(r *pb.RuleV2) {
		if r == nil {
			return
		}
		pred(r.Head)
		for _, b := range r.Body {
			pred(b)
		}
		for _, e := range r.Expressions {
			if e == nil {
				continue
			}
			for _, op := range e.Ops {
				if op == nil {
					continue
				}
				switch x := op.Content.(type) {
				case *pb.Op_Value:
					term(x.Value)
				case *pb.Op_Binary:
					if x.Binary != nil && x.Binary.Kind != nil {
						switch *x.Binary.Kind {
						case pb.OpBinary_Regex:
							hasRegex = true
						case pb.OpBinary_Add:
							hasConcat = true
						}
					}
				}
			}
		}
	}
	for _, sb := range append([]*pb.SignedBlock{c.Authority}, c.Blocks...) {
		if sb == nil {
			continue
		}
		var b pb.Block
		if proto.Unmarshal(sb.Block, &b) != nil {
			continue
		}
		syms = append(syms, b.Symbols...)
	}
	for _, sb := range append([]*pb.SignedBlock{c.Authority}, c.Blocks...) {
		if sb == nil {
			continue
		}
		var b pb.Block
		if proto.Unmarshal(sb.Block, &b) != nil {
			continue
		}
		for _, f := range b.FactsV2 {
			if f != nil {
				pred(f.Predicate)
			}
		}
		for _, r := range b.RulesV2 {
			rule(r)
		}
		for _, ch := range b.ChecksV2 {
			if ch != nil {
				for _, q := range ch.Queries {
					rule(q)
				}
			}
		}
	}
	return
}
