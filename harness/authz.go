package main

import (
	"crypto/ed25519"
	"errors"
	"fmt"
	"regexp"
	"strconv"
	"strings"
	"time"

	biscuit "github.com/biscuit-auth/biscuit-go/v2"
	"github.com/biscuit-auth/biscuit-go/v2/datalog"
)

// ---------- scenarios: a token, limits, and a history of operations on ONE authorizer ----------

type azOp struct {
	Kind   string // fact rule check policy authorize query reset load
	Fact   SPred
	Rule   SRule
	Check  SCheck
	Policy SPolicy
	// load: a snapshot (SerializePolicies of an authorizer given Load, in order) is loaded with
	// LoadPolicies; for the model this is the content itself, facts then rules then checks then
	// policies (theorem C18_equivalent)
	Load      []azOp
	LoadBytes []byte
}

// loadOrder lists the content of a snapshot in the order LoadPolicies installs it
func loadOrder(content []azOp) []azOp {
	var out []azOp
	for _, k := range []string{"fact", "rule", "check", "policy"} {
		for _, o := range content {
			if o.Kind == k {
				out = append(out, o)
			}
		}
	}
	return out
}

type azScenario struct {
	Token []SBlock
	MaxF  int
	MaxI  int
	Ops   []azOp
}
type azObs struct {
	Kind    string // none verdict query
	Verdict string // coq verdict
	Class   string // success denied nomatch checks runerror
	Failed  []string
	World   []SPred
	QErr    string
	QRes    []SPred
	Raw     string
	Panic   string
}

var harnessRootSeed = []byte("verif-harness-root-seed-32bytes!")

func rootKeys() (ed25519.PublicKey, ed25519.PrivateKey) {
	priv := ed25519.NewKeyFromSeed(harnessRootSeed)
	return priv.Public().(ed25519.PublicKey), priv
}

func dedupePreds(ps []SPred) []SPred {
	seen := map[string]bool{}
	var out []SPred
	for _, p := range ps {
		k := p.String()
		if !seen[k] {
			seen[k] = true
			out = append(out, p)
		}
	}
	return out
}

// buildToken builds the token through the public builders.
func buildToken(blocks []SBlock, rng *RNG) (*biscuit.Biscuit, error) {
	_, priv := rootKeys()
	if len(blocks) == 0 {
		return nil, errors.New("no authority block")
	}
	b := biscuit.NewBuilder(priv, biscuit.WithRNG(detReader{rng.Fork()}))
	for _, f := range blocks[0].Facts {
		if err := b.AddAuthorityFact(biscuit.Fact{Predicate: f.toBiscuit()}); err != nil {
			return nil, err
		}
	}
	for _, r := range blocks[0].Rules {
		if err := b.AddAuthorityRule(r.toBiscuit()); err != nil {
			return nil, err
		}
	}
	for _, c := range blocks[0].Checks {
		if err := b.AddAuthorityCheck(c.toBiscuit()); err != nil {
			return nil, err
		}
	}
	tok, err := b.Build()
	if err != nil {
		return nil, err
	}
	for _, blk := range blocks[1:] {
		bb := tok.CreateBlock()
		for _, f := range blk.Facts {
			if err := bb.AddFact(biscuit.Fact{Predicate: f.toBiscuit()}); err != nil {
				return nil, err
			}
		}
		for _, r := range blk.Rules {
			if err := bb.AddRule(r.toBiscuit()); err != nil {
				return nil, err
			}
		}
		for _, c := range blk.Checks {
			if err := bb.AddCheck(c.toBiscuit()); err != nil {
				return nil, err
			}
		}
		tok, err = tok.Append(detReader{rng.Fork()}, bb.Build())
		if err != nil {
			return nil, err
		}
	}
	return tok, nil
}

var reFailed = regexp.MustCompile(`failed to verify (?:check #(\d+)|block 0 check #(\d+)|block #(\d+) check #(\d+)): `)

func classifyVerdict(err error) (class, coq string, failed []string) {
	switch {
	case err == nil:
		return "success", "VSuccess", nil
	case errors.Is(err, biscuit.ErrPolicyDenied):
		return "denied", "VPolicyDenied", nil
	case errors.Is(err, biscuit.ErrNoMatchingPolicy):
		return "nomatch", "VNoMatchingPolicy", nil
	}
	msg := err.Error()
	if strings.HasPrefix(msg, "biscuit: verification failed: failed to verify") {
		var items []string
		for _, m := range reFailed.FindAllStringSubmatch(msg, -1) {
			switch {
			case m[1] != "":
				items = append(items, "(FromAuthorizer, "+m[1]+")")
				failed = append(failed, "authorizer#"+m[1])
			case m[2] != "":
				items = append(items, "(FromBlock 0, "+m[2]+")")
				failed = append(failed, "block0#"+m[2])
			default:
				items = append(items, "(FromBlock "+m[3]+", "+m[4]+")")
				failed = append(failed, "block"+m[3]+"#"+m[4])
			}
		}
		return "checks", "VChecksFailed " + coqList(items), failed
	}
	c := runErrClass(err)
	return "runerror:" + c, "VRunError " + c, nil
}

func worldOf(a biscuit.Authorizer) []SPred {
	facts, _, syms, _ := biscuit.VerifAuthorizerWorld(a)
	var out []SPred
	for _, f := range facts {
		out = append(out, predFromDatalog(&syms, f.Predicate))
	}
	return out
}

type azEntry int

const (
	entryAuthorizerFor azEntry = iota
	entryAuthorizer
)

// overridePub, when set, is the root public key of the family under test
var overridePub ed25519.PublicKey

func newAuthorizer(tok *biscuit.Biscuit, maxF, maxI int, entry azEntry) (biscuit.Authorizer, error) {
	pub, _ := rootKeys()
	if overridePub != nil {
		pub = overridePub
	}
	opt := biscuit.WithWorldOptions(datalog.WithMaxFacts(maxF), datalog.WithMaxIterations(maxI), datalog.WithMaxDuration(20*time.Second))
	if entry == entryAuthorizer {
		return tok.Authorizer(pub, opt)
	}
	return tok.AuthorizerFor(biscuit.WithSingularRootPublicKey(pub), opt)
}

// runScenarioGo runs the history on the implementation.
func runScenarioGo(tok *biscuit.Biscuit, sc azScenario, entry azEntry) (obs []azObs, fatal string) {
	a, err := newAuthorizer(tok, sc.MaxF, sc.MaxI, entry)
	if err != nil {
		return nil, "authorizer creation failed: " + err.Error()
	}
	for _, op := range sc.Ops {
		o := azObs{Kind: "none"}
		func() {
			defer func() {
				if r := recover(); r != nil {
					o.Panic = fmt.Sprint(r)
				}
			}()
			switch op.Kind {
			case "fact":
				a.AddFact(biscuit.Fact{Predicate: op.Fact.toBiscuit()})
			case "rule":
				a.AddRule(op.Rule.toBiscuit())
			case "check":
				a.AddCheck(op.Check.toBiscuit())
			case "policy":
				a.AddPolicy(op.Policy.toBiscuit())
			case "reset":
				a.Reset()
			case "load":
				if err := loadPoliciesOwned(a, op.LoadBytes); err != nil {
					o.Panic = "LoadPolicies rejects a snapshot produced by SerializePolicies: " + err.Error()
				}
			case "authorize":
				var err error
				for attempt := 0; attempt < 3; attempt++ {
					err = a.Authorize()
					if !errors.Is(err, datalog.ErrWorldRunLimitTimeout) {
						break
					}
				}
				o.Kind = "verdict"
				o.Class, o.Verdict, o.Failed = classifyVerdict(err)
				if err != nil {
					o.Raw = err.Error()
				}
				o.World = worldOf(a)
			case "query":
				fs, err := a.Query(op.Rule.toBiscuit())
				o.Kind = "query"
				if err != nil {
					o.QErr = runErrClass(err)
				} else {
					for _, f := range fs {
						o.QRes = append(o.QRes, predFromBiscuit(f.Predicate))
					}
				}
			}
		}()
		obs = append(obs, o)
	}
	return obs, ""
}

func (o azObs) coq() string {
	switch o.Kind {
	case "verdict":
		return fmt.Sprintf("AOVerdict (%s) %s", o.Verdict, predsCoq(o.World))
	case "query":
		if o.QErr != "" {
			return "AOQuery (OErr " + o.QErr + ")"
		}
		return "AOQuery (OOk " + predsCoq(o.QRes) + ")"
	}
	return "AONone"
}
func (op azOp) coq() string {
	switch op.Kind {
	case "fact":
		return "OAddFact " + op.Fact.coq()
	case "rule":
		return "OAddRule " + op.Rule.coq()
	case "check":
		return "OAddCheck " + op.Check.coq()
	case "policy":
		return "OAddPolicy " + op.Policy.coq()
	case "authorize":
		return "OAuthorize"
	case "query":
		return "OQuery " + op.Rule.coq()
	}
	return "OReset"
}
func (op azOp) String() string {
	switch op.Kind {
	case "fact":
		return "fact " + op.Fact.String()
	case "rule":
		return "rule " + op.Rule.String()
	case "check":
		qs := []string{}
		for _, q := range op.Check {
			qs = append(qs, q.String())
		}
		return "check if " + strings.Join(qs, " or ")
	case "policy":
		k := "allow"
		if op.Policy.Deny {
			k = "deny"
		}
		qs := []string{}
		for _, q := range op.Policy.Queries {
			qs = append(qs, q.String())
		}
		return k + " if " + strings.Join(qs, " or ")
	case "query":
		return "query " + op.Rule.String()
	case "load":
		parts := []string{}
		for _, c := range loadOrder(op.Load) {
			parts = append(parts, c.String())
		}
		return "load{" + strings.Join(parts, "; ") + "}"
	}
	return op.Kind
}
func blockString(b SBlock) string {
	parts := []string{}
	for _, f := range b.Facts {
		parts = append(parts, f.String())
	}
	for _, r := range b.Rules {
		parts = append(parts, r.String())
	}
	for _, c := range b.Checks {
		parts = append(parts, azOp{Kind: "check", Check: c}.String())
	}
	return "{" + strings.Join(parts, "; ") + "}"
}
func (sc azScenario) String() string {
	var sb strings.Builder
	for i, b := range sc.Token {
		fmt.Fprintf(&sb, "block%d=%s ", i, blockString(b))
	}
	fmt.Fprintf(&sb, "limits=(%d,%d) ops=[", sc.MaxF, sc.MaxI)
	for i, o := range sc.Ops {
		if i > 0 {
			sb.WriteString("; ")
		}
		sb.WriteString(o.String())
	}
	sb.WriteString("]")
	return sb.String()
}
func (sc azScenario) coqCase(obs []azObs) string {
	bs := make([]string, len(sc.Token))
	for i, b := range sc.Token {
		bs[i] = b.coq()
	}
	var ops, os []string
	for i, o := range sc.Ops {
		if o.Kind == "load" {
			for _, c := range loadOrder(o.Load) {
				ops = append(ops, c.coq())
				os = append(os, "AONone")
			}
			continue
		}
		ops = append(ops, o.coq())
		if i < len(obs) {
			os = append(os, obs[i].coq())
		}
	}
	return fmt.Sprintf("{| az_token := %s; az_limits := {| max_facts := %d; max_iterations := %d |}; az_ops := %s; az_obs := %s |}",
		coqList(bs), maxN(sc.MaxF), maxN(sc.MaxI), coqList(ops), coqList(os))
}
func obsSummary(obs []azObs) []string {
	var out []string
	for _, o := range obs {
		switch o.Kind {
		case "verdict":
			s := o.Class
			if len(o.Failed) > 0 {
				s += " " + strings.Join(o.Failed, ",")
			}
			out = append(out, s)
		case "query":
			if o.QErr != "" {
				out = append(out, "query error "+o.QErr)
			} else {
				out = append(out, "query -> "+strings.Join(sortedPredStrings(o.QRes), "; "))
			}
		}
		if o.Panic != "" {
			out = append(out, "PANIC "+o.Panic)
		}
	}
	return out
}

// ---------- scenario generation ----------

type azGen struct {
	lastCheck SCheck // the previous generated check (source of operator twins)
	rng       *RNG
	pg        *progGen
	err       bool // error-prone content allowed
	// focus, when set, restricts the queries an adversarial block tries to satisfy (e.g. to the
	// checks of the block that follows it)
	focus []SRule
}

func (g *azGen) check() SCheck {
	// a twin of the previous check: all queries the same, one operator of one query replaced by its sibling
	if len(g.lastCheck) > 0 && g.rng.Chance(8) {
		for k := range g.lastCheck {
			if tw, ok := operatorTwin(g.rng, g.lastCheck[k]); ok {
				c := append(SCheck{}, g.lastCheck...)
				c[k] = tw
				return c
			}
		}
	}
	c := g.freshCheck()
	g.lastCheck = c
	return c
}
func (g *azGen) freshCheck() SCheck {
	n := 1 + g.rng.Intn(2)
	if g.rng.Chance(15) {
		n = 3
	}
	var c SCheck
	for i := 0; i < n; i++ {
		c = append(c, g.pg.query(g.err))
	}
	return c
}
func (g *azGen) block(authority bool) SBlock {
	r := g.rng
	var b SBlock
	nf := r.Intn(6)
	if authority {
		nf = 1 + r.Intn(7)
	}
	for i := 0; i < nf; i++ {
		b.Facts = append(b.Facts, g.pg.fact())
	}
	b.Facts = dedupePreds(b.Facts)
	for i := r.Intn(3); i > 0; i-- {
		b.Rules = append(b.Rules, g.pg.rule(g.err))
	}
	for i := r.Intn(3); i > 0; i-- {
		b.Checks = append(b.Checks, g.check())
	}
	return b
}
func (g *azGen) policy() SPolicy {
	r := g.rng
	p := SPolicy{Deny: r.Chance(35)}
	n := 1 + r.Intn(2)
	for i := 0; i < n; i++ {
		if r.Chance(25) {
			// "allow if true"
			p.Queries = append(p.Queries, SRule{Head: SPred{Name: "query"}, Exprs: []SExpr{{{Kind: 0, Val: aBool(true)}}}})
		} else {
			p.Queries = append(p.Queries, g.pg.query(g.err))
		}
	}
	return p
}
func (g *azGen) authorizerOps() []azOp {
	r := g.rng
	var ops []azOp
	for i := r.Intn(5); i > 0; i-- {
		ops = append(ops, azOp{Kind: "fact", Fact: g.pg.fact()})
	}
	for i := r.Intn(3); i > 0; i-- {
		ops = append(ops, azOp{Kind: "rule", Rule: g.pg.rule(g.err)})
	}
	for i := r.Intn(3); i > 0; i-- {
		ops = append(ops, azOp{Kind: "check", Check: g.check()})
	}
	for i := r.Intn(4); i > 0; i-- {
		ops = append(ops, azOp{Kind: "policy", Policy: g.policy()})
	}
	if r.Chance(60) {
		ops = append(ops, azOp{Kind: "policy", Policy: SPolicy{Queries: []SRule{{Head: SPred{Name: "query"}, Exprs: []SExpr{{{Kind: 0, Val: aBool(true)}}}}}}})
	}
	return ops
}

func genScenario(rng *RNG, errProne bool, maxBlocks int) azScenario {
	g := &azGen{rng: rng, pg: newProgGen(rng), err: errProne}
	sc := azScenario{MaxF: 1000, MaxI: 100}
	sc.Token = append(sc.Token, g.block(true))
	for i := rng.Intn(maxBlocks + 1); i > 0; i-- {
		sc.Token = append(sc.Token, g.block(false))
	}
	sc.Ops = g.authorizerOps()
	if rng.Chance(35) {
		// a derivation chain of depth 3-5 whose rules are supplied in random order, ending in a check or policy
		depth := 3 + rng.Intn(3)
		who := aStr(strPool[rng.Intn(len(strPool))])
		names := []string{"lvl0", "lvl1", "lvl2", "lvl3", "lvl4", "lvl5"}
		var rules []SRule
		for i := 0; i < depth; i++ {
			rules = append(rules, SRule{Head: SPred{Name: names[i+1], Terms: []STerm{aVar("u")}}, Body: []SPred{{Name: names[i], Terms: []STerm{aVar("u")}}}})
		}
		base := SPred{Name: "lvl0", Terms: []STerm{who}}
		goal := SRule{Head: SPred{Name: "query"}, Body: []SPred{{Name: names[depth], Terms: []STerm{who}}}}
		inToken := rng.Bool()
		for _, i := range rng.Perm(depth) {
			if inToken {
				sc.Token[0].Rules = append(sc.Token[0].Rules, rules[i])
			} else {
				sc.Ops = append(sc.Ops, azOp{Kind: "rule", Rule: rules[i]})
			}
		}
		if rng.Bool() {
			sc.Token[0].Facts = dedupePreds(append(sc.Token[0].Facts, base))
		} else {
			sc.Ops = append(sc.Ops, azOp{Kind: "fact", Fact: base})
		}
		if rng.Bool() {
			sc.Ops = append(sc.Ops, azOp{Kind: "check", Check: SCheck{goal}})
		} else {
			sc.Ops = append([]azOp{{Kind: "policy", Policy: SPolicy{Deny: rng.Chance(30), Queries: []SRule{goal}}}}, sc.Ops...)
		}
	}
	if len(sc.Token) >= 3 && rng.Chance(40) {
		// the SAME check in several scopes: a check that one later block satisfies with a fact of its own is also
		// carried, word for word, by another later block (before or after it) and sometimes by the authority block or
		// the authorizer; what a check gave in one scope says nothing about another scope
		src := 1 + rng.Intn(len(sc.Token)-1)
		if len(sc.Token[src].Facts) == 0 {
			sc.Token[src].Facts = append(sc.Token[src].Facts, g.pg.fact())
		}
		f := sc.Token[src].Facts[rng.Intn(len(sc.Token[src].Facts))]
		twin := SCheck{SRule{Head: SPred{Name: "query"}, Body: []SPred{f}}}
		sc.Token[src].Checks = append(sc.Token[src].Checks, twin)
		for bi := 1; bi < len(sc.Token); bi++ {
			if bi != src && rng.Chance(70) {
				sc.Token[bi].Checks = append(sc.Token[bi].Checks, twin)
			}
		}
		if rng.Chance(15) {
			sc.Token[0].Checks = append(sc.Token[0].Checks, twin)
		}
		if rng.Chance(15) {
			sc.Ops = append(sc.Ops, azOp{Kind: "check", Check: twin})
		}
	}
	sc.Ops = append(sc.Ops, azOp{Kind: "authorize"})
	for i := rng.Intn(3); i > 0; i-- {
		sc.Ops = append(sc.Ops, azOp{Kind: "query", Rule: g.pg.query(errProne)})
	}
	return sc
}

// ---------- reference decision procedure (independent of the library) ----------

type refVerdict struct {
	Class      string // success denied nomatch checks
	Failed     []string
	InFragment bool
	World      []SPred // authority-level least model
}

func refCheckHolds(c []SRule, facts []SPred, out *refOutcome) bool {
	for _, q := range c {
		if len(refDerive(q, facts, out)) > 0 {
			return true
		}
	}
	return false
}

func refAuthorize(tok []SBlock, ops []azOp) refVerdict {
	var facts []SPred
	var rules []SRule
	var checks []SCheck
	var policies []SPolicy
	for _, op := range ops {
		switch op.Kind {
		case "fact":
			facts = append(facts, op.Fact)
		case "rule":
			rules = append(rules, op.Rule)
		case "check":
			checks = append(checks, op.Check)
		case "policy":
			policies = append(policies, op.Policy)
		}
	}
	facts = append(facts, tok[0].Facts...)
	rules = append(rules, tok[0].Rules...)
	w, _, out, capped := refClosure(facts, rules, 900)
	v := refVerdict{World: w.facts}
	if capped {
		return v
	}
	var failed []string
	for i, c := range checks {
		if !refCheckHolds(c, w.facts, &out) {
			failed = append(failed, "authorizer#"+strconv.Itoa(i))
		}
	}
	for i, c := range tok[0].Checks {
		if !refCheckHolds(c, w.facts, &out) {
			failed = append(failed, "block0#"+strconv.Itoa(i))
		}
	}
	pol := "nomatch"
	for _, p := range policies {
		if refCheckHolds(p.Queries, w.facts, &out) {
			if p.Deny {
				pol = "denied"
			} else {
				pol = "success"
			}
			break
		}
	}
	for bi, b := range tok[1:] {
		bw, _, bout, bcapped := refClosure(append(append([]SPred{}, w.facts...), b.Facts...), b.Rules, 900)
		if bcapped {
			return v
		}
		if bout.exprError || bout.invalidRule || bout.setsInFacts {
			out.exprError = true
		}
		for i, c := range b.Checks {
			if !refCheckHolds(c, bw.facts, &out) {
				failed = append(failed, fmt.Sprintf("block%d#%d", bi+1, i))
			}
		}
	}
	v.InFragment = !out.exprError && !out.invalidRule && !out.setsInFacts
	if len(failed) > 0 {
		v.Class, v.Failed = "checks", failed
	} else {
		v.Class = pol
	}
	return v
}

func longDuration() datalog.WorldOption { return datalog.WithMaxDuration(20 * time.Second) }
