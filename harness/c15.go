package main

import (
	"fmt"
	"strings"

	biscuit "github.com/biscuit-auth/biscuit-go/v2"
	"github.com/biscuit-auth/biscuit-go/v2/datalog"
	"github.com/biscuit-auth/biscuit-go/v2/parser"
)

func init() { runners["C15"] = runC15 }

func parsedToSBlock(pb biscuit.ParsedBlock) SBlock {
	var b SBlock
	for _, f := range pb.Facts {
		b.Facts = append(b.Facts, predFromBiscuit(f.Predicate))
	}
	for _, r := range pb.Rules {
		x, _ := ruleFromBiscuit(r)
		b.Rules = append(b.Rules, x)
	}
	for _, c := range pb.Checks {
		var sc SCheck
		for _, q := range c.Queries {
			x, _ := ruleFromBiscuit(q)
			sc = append(sc, x)
		}
		b.Checks = append(b.Checks, sc)
	}
	return b
}

// normalizeSets sorts the elements of every set by their printed form (sets are
// unordered: the printer sorts them, so "the same block" is compared up to that order)
func normalizeSets(b SBlock) SBlock {
	syms := &datalog.SymbolTable{}
	nt := func(t STerm) STerm {
		if !t.IsSet {
			return t
		}
		out := STerm{IsSet: true, Set: append([]SAtom{}, t.Set...)}
		key := func(a SAtom) string { return a.toDatalog(syms).String() }
		for i := 1; i < len(out.Set); i++ {
			for j := i; j > 0 && key(out.Set[j]) < key(out.Set[j-1]); j-- {
				out.Set[j], out.Set[j-1] = out.Set[j-1], out.Set[j]
			}
		}
		return out
	}
	np := func(p SPred) SPred {
		q := SPred{Name: p.Name}
		for _, t := range p.Terms {
			q.Terms = append(q.Terms, nt(t))
		}
		return q
	}
	nr := func(r SRule) SRule {
		q := SRule{Head: np(r.Head)}
		for _, p := range r.Body {
			q.Body = append(q.Body, np(p))
		}
		for _, e := range r.Exprs {
			var ne SExpr
			for _, o := range e {
				if o.Kind == 0 {
					o.Val = nt(o.Val)
				}
				ne = append(ne, o)
			}
			q.Exprs = append(q.Exprs, ne)
		}
		return q
	}
	var out SBlock
	for _, f := range b.Facts {
		out.Facts = append(out.Facts, np(f))
	}
	for _, r := range b.Rules {
		out.Rules = append(out.Rules, nr(r))
	}
	for _, c := range b.Checks {
		var nc SCheck
		for _, q := range c {
			nc = append(nc, nr(q))
		}
		out.Checks = append(out.Checks, nc)
	}
	return out
}

// codeToSource turns the text of Block.Code back into one source text
func codeToSource(code string) (string, bool) {
	const open, closing = "Block {\n\t\t", "\n\t}"
	if !strings.HasPrefix(code, open) || !strings.HasSuffix(code, closing) {
		return "", false
	}
	body := code[len(open) : len(code)-len(closing)]
	parts := strings.Split(body, "\n\t\t")
	if len(parts) != 3 {
		return "", false
	}
	var src strings.Builder
	for _, p := range parts {
		if p != "" {
			src.WriteString(p)
			src.WriteString(";\n")
		}
	}
	return src.String(), true
}

func runC15(res *Result, rng *RNG, tier string, outDir string) {
	res.Rule = "blocks written in the documented grammar over the printable domain (strings without quote/backslash/newline, non-negative integers, dates 1970..9999, sets of non-string elements, identifier-shaped names; every operator and method, nested parentheses), parsed with the parser and placed at every position (authority, 1st..3rd block) of tokens whose other blocks come from the same generator (shared and fresh symbols): the text the library prints for that block (Block.Code through the token's cumulative table) is re-parsed and must give the same facts, rules and checks; Code()/String() must be identical before and after Serialize/Unmarshal; printing must not panic. The Coq printer must produce the same text byte for byte and the Coq parser must map it back to the block. Non-trivial = a block with an expression or at least 3 elements; distinct by block text."
	n := 150
	if tier == "thorough" {
		n = 6000
	}
	_, priv := rootKeys()
	var lines, descs []string
	for i := 0; i < n; i++ {
		r := rng.Fork()
		g := &txtGen{rng: r, printable: true}
		nb := 1 + r.Intn(4)
		pos := r.Intn(nb)
		var parsed []biscuit.ParsedBlock
		var texts []string
		okGen := true
		for k := 0; k < nb; k++ {
			t, _ := g.block(1 + r.Intn(5))
			pb, err := parser.FromStringBlock(t)
			if err != nil {
				res.Violate("valid-text-rejected", "a printable-domain block of the documented grammar is rejected: "+err.Error(), map[string]interface{}{"text": t})
				okGen = false
				break
			}
			parsed = append(parsed, pb)
			texts = append(texts, t)
		}
		if !okGen {
			continue
		}
		want := normalizeSets(parsedToSBlock(parsed[pos]))
		rep := map[string]interface{}{"block_text": texts[pos], "position": pos, "blocks": nb}
		pan := usable(func() {
			b := biscuit.NewBuilder(priv, biscuit.WithRNG(detReader{r.Fork()}))
			if err := b.AddBlock(parsed[0]); err != nil {
				res.Dist("skipped:" + err.Error())
				okGen = false
				return
			}
			tok, err := b.Build()
			if err != nil {
				res.Dist("skipped:" + err.Error())
				okGen = false
				return
			}
			for k := 1; k < nb; k++ {
				bb := tok.CreateBlock()
				if err := bb.AddBlock(parsed[k]); err != nil {
					res.Dist("skipped:" + err.Error())
					okGen = false
					return
				}
				tok, err = tok.Append(detReader{r.Fork()}, bb.Build())
				if err != nil {
					res.Dist("skipped:" + err.Error())
					okGen = false
					return
				}
			}
			auth, blocks, syms := biscuit.VerifTokenBlocks(tok)
			all := append([]*biscuit.Block{auth}, blocks...)
			st := datalog.SymbolTable(syms)
			code := all[pos].Code(&st)
			nel := len(want.Facts) + len(want.Rules) + len(want.Checks)
			hasExpr := strings.Contains(texts[pos], "==") || strings.Contains(texts[pos], ".")
			res.Count(texts[pos], nel >= 3 || hasExpr)
			res.Dist(fmt.Sprintf("position:%d/%d", pos, nb))
			rep["printed"] = code
			if i < 2 {
				res.Sample(rep)
			}
			src, ok := codeToSource(code)
			if !ok {
				res.Violate("print-layout", "the printed form of the block does not have the Block.Code layout", rep)
				return
			}
			back, err := parser.FromStringBlock(src)
			if err != nil {
				res.Violate("printed-form-does-not-parse", "the printed form of a grammar-written block does not parse: "+err.Error(), rep)
				return
			}
			got := normalizeSets(parsedToSBlock(back))
			if got.coq() != want.coq() {
				rep["reparsed"] = blockString(got)
				rep["original"] = blockString(want)
				res.Violate("printed-form-differs", "the printed form parses back to different facts/rules/checks than the block enforces", rep)
			}
			// Code() of the token agrees with the per-block text
			codes := tok.Code()
			if pos >= 1 && codes[pos-1] != code {
				res.Violate("token-code-differs", "Biscuit.Code() differs from the block's Code through the token table", rep)
			}
			// stable under serialization
			bs, _ := tok.Serialize()
			t2, err := unmarshalOwned(bs)
			if err != nil {
				res.Violate("reload", "a library-built token does not unmarshal: "+err.Error(), rep)
				return
			}
			if t2.String() != tok.String() || strings.Join(t2.Code(), "|") != strings.Join(tok.Code(), "|") {
				res.Violate("print-changes-after-serialization", "String()/Code() differ before and after serialization", rep)
			}
			lines = append(lines, fmt.Sprintf("{| pr_block := %s; pr_code := %s |}", want.coq(), coqStr(code)))
			descs = append(descs, trunc(texts[pos], 300))
		})
		if pan != "" {
			res.Violate("panic:print", "printing (or building) panicked: "+pan, rep)
		}
	}
	WriteShards(res, outDir, "C15", "Base Term Lexer Parser Printer Corr2", "", "print_case", "print_ok", lines, 150)
	res.ModelCases = len(lines)
	res.CaseDescs = descs
}
