package main

import (
	"crypto/ed25519"
	"fmt"
	"strconv"
	"strings"

	biscuit "github.com/biscuit-auth/biscuit-go/v2"
	"github.com/biscuit-auth/biscuit-go/v2/parser"
)

func init() { runners["C14"] = runC14 }

func ruleFromBiscuit(r biscuit.Rule) (out SRule, ok bool) {
	defer func() {
		if p := recover(); p != nil {
			ok = false
		}
	}()
	out.Head = predFromBiscuit(r.Head)
	for _, p := range r.Body {
		out.Body = append(out.Body, predFromBiscuit(p))
	}
	for _, e := range r.Expressions {
		var se SExpr
		for _, o := range e {
			switch v := o.(type) {
			case biscuit.Value:
				se = append(se, SOp{Kind: 0, Val: termFromBiscuit(v.Term)})
			case biscuit.UnaryOp:
				se = append(se, SOp{Kind: 1, Un: int(v) - 1})
			case biscuit.BinaryOp:
				se = append(se, SOp{Kind: 2, Bin: int(v) - 1})
			}
		}
		out.Exprs = append(out.Exprs, se)
	}
	return out, true
}
func ruleEq(a, b SRule) bool { return a.String() == b.String() && a.coq() == b.coq() }

func paramsToGo(ps map[string]STerm) parser.ParametersMap {
	m := parser.ParametersMap{}
	for k, v := range ps {
		m[k] = v.toBiscuit()
	}
	if _, ok := ps["pv"]; ok {
		m["pnil"] = nil // key present, no value: an unbound parameter
	}
	return m
}
func paramsCoq(ps map[string]STerm) string {
	var items []string
	for _, k := range []string{"p1", "p2", "who", "pv"} {
		if v, ok := ps[k]; ok {
			items = append(items, fmt.Sprintf("(%s, %s)", coqStr(k), v.coq()))
		}
	}
	return coqList(items)
}

// usable: a successfully parsed element must be addable to a builder and an authorizer without panicking
func usable(f func()) (panicked string) {
	defer func() {
		if p := recover(); p != nil {
			panicked = fmt.Sprint(p)
		}
	}()
	f()
	return ""
}

func runC14(res *Result, rng *RNG, tier string, outDir string) {
	res.Rule = "(1) texts rendered from random trees of the documented grammar (facts, rules, checks with 'or', allow/deny policies, blocks; every term type incl. sets, dates with offsets, upper/lower-case hex, parameters; expressions over all seven precedence levels with method calls and redundant parentheses, nesting <= 5; random whitespace/newline/tab layout, comments): the parsed structure must equal the generator's tree (terms of the right type and value, parameters substituted, 'or' as alternative queries, postfix operator order = documented precedence and associativity, parentheses preserved); (2) the documented error classes (unbound parameter, malformed date, malformed hex, variable inside a set, chained comparison, double negation), in predicates and inside expressions: must be rejected; (3) token-level corruptions of valid texts and arbitrary strings incl. non-ASCII/control bytes: no parse function may panic, and whatever parses must be addable to a builder and an authorizer without panicking. The Coq parser model is evaluated on streams (1) and (2). Non-trivial = expression depth >= 2 or >= 2 block elements; distinct by text."
	n := 500
	if tier == "thorough" {
		n = 15000
	}
	_, priv := rootKeys()
	_ = ed25519.PrivateKey(priv)
	var lines, descs []string
	addCase := func(kind, text string, ps map[string]STerm, obs string) {
		lines = append(lines, fmt.Sprintf("{| px_kind := %s; px_text := %s; px_params := %s; px_obs := %s |}", kind, coqStr(text), paramsCoq(ps), obs))
		descs = append(descs, kind+" "+trunc(text, 300))
	}
	tryAdd := func(what string, text string, f func()) {
		if p := usable(f); p != "" {
			res.Violate("parsed-value-panics:"+what, "a successfully parsed "+what+" panics when added to a builder/authorizer: "+p, map[string]interface{}{"text": text})
		}
	}
	// regression corpus (runs first): inputs of defects repaired in /repo
	// negative integer literals (fix 37ab496)
	for _, cw := range []struct {
		text string
		want int64
	}{{`p(-1)`, -1}, {`p(-9223372036854775808)`, -9223372036854775808}, {`p( - 42 )`, -42},
		// base 10 whatever the leading zeros (fix bd84bfe)
		{`p(010)`, 10}, {`p(08)`, 8}, {`p(00)`, 0}, {`p(000)`, 0}, {`p(-00)`, 0}, {`p(007)`, 7}, {`p(-017)`, -17}, {`p(0)`, 0},
		{`p(09223372036854775807)`, 9223372036854775807}} {
		got, err := parser.FromStringFact(cw.text)
		rep := map[string]interface{}{"kind": "fact", "text": cw.text}
		res.Count("corpus "+cw.text, true)
		if err != nil {
			res.Violate("valid-text-rejected:corpus-negative-integer", "a fact with a negative integer literal (any base-10 int64 is an integer of the documented grammar) is rejected: "+err.Error(), rep)
			addCase("PFact", cw.text, nil, "PXErr")
			continue
		}
		gp := predFromBiscuit(got.Predicate)
		if len(gp.Terms) != 1 || gp.Terms[0].Kind() != KInt || gp.Terms[0].A.I != cw.want {
			res.Violate("wrong-denotation:corpus-negative-integer", fmt.Sprintf("parsed %s, the text denotes p(%d)", gp, cw.want), rep)
		}
		addCase("PFact", cw.text, nil, "PXFact ("+gp.coq()+")")
	}
	for _, cw := range []struct{ key, text string }{
		{"bang-string", `check if x($a), $a == "!"`},
		{"bang-string-method-arg", `check if x($a), $a.contains("!")`},
		{"bang-string-negated", `check if x($a), !("!" == $a)`},
	} {
		got, err := parser.FromStringCheck(cw.text)
		rep := map[string]interface{}{"kind": "check", "text": cw.text}
		res.Count("corpus "+cw.text, true)
		if err != nil {
			res.Violate("valid-text-rejected:corpus-"+cw.key, "a check of the documented grammar is rejected (string literal \"!\" taken for the negation operator): "+err.Error(), rep)
			addCase("PCheck", cw.text, nil, "PXErr")
			continue
		}
		var gc SCheck
		found := false
		for _, q := range got.Queries {
			gr, _ := ruleFromBiscuit(q)
			gc = append(gc, gr)
			for _, e := range gr.Exprs {
				for _, o := range e {
					if o.Kind == 0 && o.Val.Kind() == KStr && o.Val.A.S == "!" {
						found = true
					}
				}
			}
		}
		if !found {
			res.Violate("wrong-denotation:corpus-"+cw.key, fmt.Sprintf("parsed %s: the string operand \"!\" is missing", azOp{Kind: "check", Check: gc}), rep)
		}
		addCase("PCheck", cw.text, nil, "PXCheck ("+gc.coq()+")")
	}
	for i := 0; i < n; i++ {
		r := rng.Fork()
		ps := map[string]STerm{"p1": aInt(7), "p2": aStr("param string"), "who": aStr("alice")}
		if r.Chance(20) {
			ps["p1"] = aBytes([]byte{1, 2})
		}
		g := &txtGen{rng: r, params: ps}
		kind := r.Intn(5)
		var text, what, obs string
		var nontrivial bool
		rep := map[string]interface{}{}
		func() {
			defer func() {
				if p := recover(); p != nil {
					res.Violate("panic:parse", fmt.Sprintf("parsing panicked: %v", p), map[string]interface{}{"text": text})
				}
			}()
			switch kind {
			case 0:
				what = "PFact"
				t, want := g.pred(false)
				text = g.ws() + t + g.ws()
				got, err := parser.FromStringFactWithParams(text, paramsToGo(ps))
				rep = map[string]interface{}{"kind": "fact", "text": text}
				if err != nil {
					res.Violate("valid-text-rejected:fact", "a fact of the documented grammar is rejected: "+err.Error(), rep)
					return
				}
				gp := predFromBiscuit(got.Predicate)
				if gp.coq() != want.coq() {
					res.Violate("wrong-denotation:fact", fmt.Sprintf("parsed %s, the text denotes %s", gp, want), rep)
				}
				obs = "PXFact (" + gp.coq() + ")"
				tryAdd("fact", text, func() {
					biscuit.NewBuilder(priv).AddAuthorityFact(got)
				})
			case 1:
				what = "PRule"
				t, want := g.rule()
				text = g.ws() + t + g.ws()
				nontrivial = len(want.Exprs) > 0
				got, err := parser.FromStringRuleWithParams(text, paramsToGo(ps))
				rep = map[string]interface{}{"kind": "rule", "text": text}
				if err != nil {
					res.Violate("valid-text-rejected:rule", "a rule of the documented grammar is rejected: "+err.Error(), rep)
					return
				}
				gr, ok := ruleFromBiscuit(got)
				if !ok || !ruleEq(gr, want) {
					res.Violate("wrong-denotation:rule", fmt.Sprintf("parsed %s, the text denotes %s", gr, want), rep)
				}
				obs = "PXRule (" + gr.coq() + ")"
				tryAdd("rule", text, func() { biscuit.NewBuilder(priv).AddAuthorityRule(got) })
			case 2:
				what = "PCheck"
				t, want := g.check()
				text = g.ws() + t + g.ws()
				nontrivial = len(want) > 1
				got, err := parser.FromStringCheckWithParams(text, paramsToGo(ps))
				rep = map[string]interface{}{"kind": "check", "text": text}
				if err != nil {
					res.Violate("valid-text-rejected:check", "a check of the documented grammar is rejected: "+err.Error(), rep)
					return
				}
				var gc SCheck
				okAll := len(got.Queries) == len(want)
				for qi, q := range got.Queries {
					gr, ok := ruleFromBiscuit(q)
					gc = append(gc, gr)
					if !ok || qi >= len(want) || !ruleEq(gr, want[qi]) {
						okAll = false
					}
				}
				if !okAll {
					res.Violate("wrong-denotation:check", fmt.Sprintf("parsed %s, the text denotes %s", azOp{Kind: "check", Check: gc}, azOp{Kind: "check", Check: want}), rep)
				}
				obs = "PXCheck (" + gc.coq() + ")"
				tryAdd("check", text, func() { biscuit.NewBuilder(priv).AddAuthorityCheck(got) })
			case 3:
				what = "PPolicy"
				t, want := g.policy()
				text = g.ws() + t + g.ws()
				got, err := parser.FromStringPolicyWithParams(text, paramsToGo(ps))
				rep = map[string]interface{}{"kind": "policy", "text": text}
				if err != nil {
					res.Violate("valid-text-rejected:policy", "a policy of the documented grammar is rejected: "+err.Error(), rep)
					return
				}
				gp := SPolicy{Deny: got.Kind == biscuit.PolicyKindDeny}
				okAll := len(got.Queries) == len(want.Queries) && gp.Deny == want.Deny
				for qi, q := range got.Queries {
					gr, ok := ruleFromBiscuit(q)
					gp.Queries = append(gp.Queries, gr)
					if !ok || qi >= len(want.Queries) || !ruleEq(gr, want.Queries[qi]) {
						okAll = false
					}
				}
				if !okAll {
					res.Violate("wrong-denotation:policy", "the parsed policy differs from what the text denotes", rep)
				}
				obs = "PXPolicy (" + gp.coq() + ")"
			default:
				what = "PBlock"
				t, want := g.block(1 + r.Intn(5))
				text = t
				nontrivial = len(want.Facts)+len(want.Rules)+len(want.Checks) >= 2
				got, err := parser.FromStringBlockWithParams(text, paramsToGo(ps))
				rep = map[string]interface{}{"kind": "block", "text": text}
				if err != nil {
					res.Violate("valid-text-rejected:block", "a block of the documented grammar is rejected: "+err.Error(), rep)
					return
				}
				var gb SBlock
				for _, f := range got.Facts {
					gb.Facts = append(gb.Facts, predFromBiscuit(f.Predicate))
				}
				for _, ru := range got.Rules {
					gr, _ := ruleFromBiscuit(ru)
					gb.Rules = append(gb.Rules, gr)
				}
				for _, c := range got.Checks {
					var gc SCheck
					for _, q := range c.Queries {
						gr, _ := ruleFromBiscuit(q)
						gc = append(gc, gr)
					}
					gb.Checks = append(gb.Checks, gc)
				}
				if gb.coq() != want.coq() {
					res.Violate("wrong-denotation:block", fmt.Sprintf("parsed %s, the text denotes %s", blockString(gb), blockString(want)), rep)
				}
				obs = "PXBlock (" + gb.coq() + ")"
				tryAdd("block", text, func() { biscuit.NewBuilder(priv).AddBlock(got) })
			}
		}()
		res.Count(text, nontrivial || strings.Count(text, "(") > 3)
		res.Dist("valid:" + what)
		if i < 3 {
			res.Sample(rep)
		}
		if obs != "" && isModelText(text) {
			addCase(what, text, ps, obs)
		}
	}
	// (2) documented error classes
	bad := []struct{ kind, text, class string }{
		{"PCheck", `check if {nope} == 1`, "unbound-parameter"},
		{"PFact", `right({nope})`, "unbound-parameter"},
		{"PCheck", `check if a($x), [$x].contains(1)`, "variable-in-set"},
		{"PFact", `right([$x])`, "variable-in-set"},
		{"PRule", `r($x) <- a($x), $x < 2006-13-45T25:61:61Z`, "malformed-date"},
		{"PFact", `right(2006-13-45T25:61:61Z)`, "malformed-date"},
		{"PFact", `right(2006-01-02T15:04:05)`, "malformed-date"},
		{"PCheck", `check if 1 < 2 < 3`, "chained-comparison"},
		{"PCheck", `check if 1 < 2 == true`, "chained-comparison"},
		{"PCheck", `check if a($x), $x == 1 == 2`, "chained-comparison"},
		{"PCheck", `check if (1 < 2 < 3)`, "chained-comparison-nested"},
		{"PCheck", `check if !(1 < 2 < 3)`, "chained-comparison-nested"},
		{"PCheck", `check if a($x), (0 < $x < 10) || false`, "chained-comparison-nested"},
		{"PCheck", `check if [true].contains(0 < 1 < 10)`, "chained-comparison-nested"},
		{"PCheck", `check if ((1 < 2) == true == true)`, "chained-comparison-nested"},
		{"PRule", `r($x) <- a($x), (0 < $x < 10)`, "chained-comparison-nested"},
		{"PRule", `r($x) <- a($x), !($x == 1 == 2)`, "chained-comparison-nested"},
		{"PCheck", `check if !!true`, "double-negation"},
		{"PFact", `right(hex:abc)`, "malformed-hex"},
		{"PCheck", `check if hex:0g == hex:00`, "malformed-hex"},
		{"PFact", `right($x)`, "variable-in-fact"},
		{"PRule", `r($x) <- `, "empty-body"},
		{"PCheck", `check if`, "empty-check"},
		{"PFact", `right("a"`, "unbalanced"},
		{"PCheck", `check if (1 + 2`, "unbalanced"},
	}
	for _, b := range bad {
		var err error
		pan := usable(func() {
			switch b.kind {
			case "PFact":
				_, err = parser.FromStringFact(b.text)
			case "PRule":
				_, err = parser.FromStringRule(b.text)
			case "PCheck":
				_, err = parser.FromStringCheck(b.text)
			}
		})
		res.Count(b.text, true)
		res.Dist("error-class:" + b.class)
		rep := map[string]interface{}{"text": b.text, "class": b.class}
		if pan != "" {
			res.Violate("panic:parse", "parsing panicked: "+pan, rep)
			continue
		}
		if err == nil {
			res.Violate("error-not-reported:"+b.class, "a text in the documented error class '"+b.class+"' parses without error", rep)
			continue
		}
		addCase(b.kind, b.text, nil, "PXErr")
	}
	// (2b) the same error classes reached through parameter substitution, and the legal uses of a
	// variable-valued parameter
	{
		pv := map[string]STerm{"pv": aVar("r"), "p2": aStr("file2")}
		for _, b := range []struct {
			kind, text, class string
			wantErr           bool
		}{
			{"PCheck", `check if resource($r), [{pv}, "file2"].contains($r)`, "variable-in-set-through-parameter", true},
			{"PCheck", `check if resource($r), ["file1", {p2}, {pv}].contains($r)`, "variable-in-set-through-parameter", true},
			{"PFact", `resources(["file1", {pv}])`, "variable-in-set-through-parameter", true},
			{"PRule", `ok($r) <- resource($r, [{pv}, "file2"])`, "variable-in-set-through-parameter", true},
			{"PFact", `right({pv})`, "variable-in-fact-through-parameter", true},
			{"PCheck", `check if resource({pv})`, "variable-parameter-in-body", false},
			{"PCheck", `check if resource($r), {pv} == {p2}`, "variable-parameter-in-expression", false},
			{"PRule", `ok({pv}) <- resource({pv}, {p2})`, "variable-parameter-in-rule", false},
			{"PFact", `resources([{p2}, "file1"])`, "ground-parameter-in-set", false},
			// a parameter whose key is present but whose value is nil is unbound
			{"PFact", `right({pnil})`, "unbound-parameter-nil-value", true},
			{"PRule", `ok($r) <- resource($r, {pnil})`, "unbound-parameter-nil-value", true},
			{"PCheck", `check if resource({pnil})`, "unbound-parameter-nil-value", true},
			{"PCheck", `check if resource($r), $r == {pnil}`, "unbound-parameter-nil-value", true},
			{"PFact", `right({absent})`, "unbound-parameter", true},
		} {
			var err error
			var obs string
			pan := usable(func() {
				switch b.kind {
				case "PFact":
					var f biscuit.Fact
					f, err = parser.FromStringFactWithParams(b.text, paramsToGo(pv))
					if err == nil {
						obs = "PXFact (" + predFromBiscuit(f.Predicate).coq() + ")"
					}
				case "PRule":
					var ru biscuit.Rule
					ru, err = parser.FromStringRuleWithParams(b.text, paramsToGo(pv))
					if err == nil {
						gr, _ := ruleFromBiscuit(ru)
						obs = "PXRule (" + gr.coq() + ")"
					}
				case "PCheck":
					var c biscuit.Check
					c, err = parser.FromStringCheckWithParams(b.text, paramsToGo(pv))
					if err == nil {
						var gc SCheck
						for _, q := range c.Queries {
							gr, _ := ruleFromBiscuit(q)
							gc = append(gc, gr)
						}
						obs = "PXCheck (" + gc.coq() + ")"
					}
				}
			})
			res.Count(b.text, true)
			res.Dist("param-class:" + b.class)
			rep := map[string]interface{}{"text": b.text, "class": b.class, "parameters": "pv = $r, p2 = \"file2\""}
			if pan != "" {
				res.Violate("panic:parse", "parsing panicked: "+pan, rep)
				continue
			}
			if b.wantErr && err == nil {
				res.Violate("error-not-reported:"+b.class, "a text in the documented error class '"+b.class+"' parses without error: "+obs, rep)
				continue
			}
			if !b.wantErr && err != nil {
				res.Violate("valid-text-rejected:"+b.class, "a legal use of a parameter is rejected: "+err.Error(), rep)
				continue
			}
			if err != nil {
				obs = "PXErr"
			}
			addCase(b.kind, b.text, pv, obs)
		}
	}
	// (2c) comparisons do not chain, at ANY nesting depth: random checks and rules of the grammar in which one
	// comparison — wherever the generator happens to be when it makes it: at the top, inside parentheses, under
	// '!', in a method argument — gets a second comparison tail.  Every one of them must be rejected.
	{
		nchain := n / 4
		if nchain < 40 {
			nchain = 40
		}
		made := 0
		for try := 0; try < nchain*30 && made < nchain; try++ {
			r := rng.Fork()
			g := &txtGen{rng: r, params: map[string]STerm{"p1": aInt(1)}, chainBudget: 1}
			var text, kind string
			if r.Bool() {
				text, _ = g.check()
				kind = "PCheck"
			} else {
				text, _ = g.rule()
				kind = "PRule"
			}
			if !g.chained {
				continue
			}
			made++
			var err error
			pan := usable(func() {
				if kind == "PCheck" {
					_, err = parser.FromStringCheckWithParams(text, paramsToGo(g.params))
				} else {
					_, err = parser.FromStringRuleWithParams(text, paramsToGo(g.params))
				}
			})
			res.Count(text, true)
			res.Dist("error-class:chained-comparison-generated")
			rep := map[string]interface{}{"text": text, "class": "chained-comparison (generated, any depth)"}
			if pan != "" {
				res.Violate("panic:parse", "parsing panicked: "+pan, rep)
				continue
			}
			if err == nil {
				res.Violate("error-not-reported:chained-comparison", "a text with a chained comparison (not in the documented grammar) parses without error", rep)
				continue
			}
			if isModelText(text) {
				addCase(kind, text, g.params, "PXErr")
			}
		}
	}
	// (2d) string literals with backslashes.  The lexer takes everything between two quotes; the token is then
	// unquoted by Go's rules (strconv.Unquote: \\ \" \n \t \xHH \uHHHH octal …).  The oracle is strconv.Unquote
	// itself, applied to the literal as written: where it fails the text must be rejected (never a panic), where it
	// succeeds the parsed term must be exactly that string — in a fact, as a set element and as a method argument.
	{
		bodies := []string{`\`, `a\\b`, `\n`, `\t\r`, `\x41`, `\u00e9`, `\101`, `\'`, `C:\\dir\\`, `\U0001F600`,
			`C:\dir\`, `\s+`, `^abc\s+def$`, `\d\d`, `a\`, `\\\`, `\x4`, `\xZZ`, `\u12`, `\777`, `\8`, `\é`, `\€x`, `a\ b`, `\` + "\t", `\` + "\n",
			`\\\\`, `x\\`, `\a\b\f\v`, `\0`, `\00`, `\000`}
		for i := 0; i < 24; i++ { // random mixes of backslashes, escape letters, multi-byte characters
			r := rng.Fork()
			alphabet := []string{`\`, `\`, `n`, `x`, `4`, `1`, `u`, `0`, `é`, `€`, `s`, ` `, `'`, `a`, `7`, `8`}
			var sb strings.Builder
			for k := 0; k < 1+r.Intn(7); k++ {
				sb.WriteString(alphabet[r.Intn(len(alphabet))])
			}
			bodies = append(bodies, sb.String())
		}
		for _, body := range bodies {
			lit := `"` + body + `"`
			want, uerr := strconv.Unquote(lit)
			for _, shape := range []string{"fact", "set", "method"} {
				var text string
				switch shape {
				case "fact":
					text = `right(` + lit + `, 1)`
				case "set":
					text = `right([` + lit + `, "z"])`
				default:
					text = `check if resource($r), $r.starts_with(` + lit + `)`
				}
				var got string
				var gotOK bool
				var err error
				pan := usable(func() {
					switch shape {
					case "fact", "set":
						var f biscuit.Fact
						f, err = parser.FromStringFact(text)
						if err == nil && len(f.Predicate.IDs) > 0 {
							switch v := f.Predicate.IDs[0].(type) {
							case biscuit.String:
								got, gotOK = string(v), true
							case biscuit.Set:
								for _, e := range v {
									if sv, ok := e.(biscuit.String); ok && string(sv) != "z" {
										got, gotOK = string(sv), true
									}
								}
								if !gotOK && want == "z" {
									got, gotOK = "z", true
								}
							}
						}
					default:
						var c biscuit.Check
						c, err = parser.FromStringCheck(text)
						if err == nil && len(c.Queries) == 1 && len(c.Queries[0].Expressions) == 1 {
							for _, op := range c.Queries[0].Expressions[0] {
								if v, ok := op.(biscuit.Value); ok {
									if sv, ok := v.Term.(biscuit.String); ok {
										got, gotOK = string(sv), true
									}
								}
							}
						}
					}
				})
				res.Count("escape "+text, true)
				res.Dist("string-escapes:" + shape)
				rep := map[string]interface{}{"text": text, "literal": lit, "go_unquote_error": fmt.Sprint(uerr)}
				switch {
				case pan != "":
					res.Violate("panic:parse", "parsing a string literal with backslashes panicked: "+pan, rep)
				case uerr != nil && err == nil:
					res.Violate("error-not-reported:malformed-string-escape", "a string literal that Go's unquoting rules reject parses without error", rep)
				case uerr == nil && err != nil:
					res.Violate("valid-text-rejected:string-escape", "a string literal with valid escapes is rejected: "+err.Error(), rep)
				case uerr == nil && (!gotOK || got != want):
					rep["want"] = fmt.Sprintf("%q", want)
					rep["got"] = fmt.Sprintf("%q", got)
					res.Violate("wrong-value:string-escape", "a string literal with escapes denotes another string than the one written", rep)
				}
			}
		}
	}
	// (3) robustness: corruptions and arbitrary strings
	p := parser.New()
	nrob := n
	for i := 0; i < nrob; i++ {
		r := rng.Fork()
		g := &txtGen{rng: r, params: map[string]STerm{"p1": aInt(1)}}
		var text string
		switch r.Intn(3) {
		case 0:
			text, _ = g.block(1 + r.Intn(3))
		case 1:
			text, _ = g.check()
		default:
			text, _ = g.rule()
		}
		b := []byte(text)
		switch r.Intn(6) {
		case 0:
			if len(b) > 0 {
				k := r.Intn(len(b))
				b = append(b[:k], b[k+1:]...)
			}
		case 1:
			if len(b) > 0 {
				k := r.Intn(len(b))
				b = append(append(append([]byte{}, b[:k]...), b[k]), b[k:]...)
			}
		case 2:
			if len(b) > 1 {
				k := r.Intn(len(b) - 1)
				b[k], b[k+1] = b[k+1], b[k]
			}
		case 3:
			if len(b) > 0 {
				junk := "()[]{},;$\"!<>=|&.-+*/ \x00\xff\\'#"
				b[r.Intn(len(b))] = junk[r.Intn(len(junk))]
			}
		case 4:
			b = r.Bytes(r.Intn(30))
		default:
			toks := strings.Fields(text)
			if len(toks) > 1 {
				k := r.Intn(len(toks))
				toks = append(toks[:k], toks[k+1:]...)
			}
			b = []byte(strings.Join(toks, " "))
		}
		txt := string(b)
		res.Count("rob "+txt, true)
		res.Dist("robustness")
		pan := usable(func() {
			if f, err := p.Fact(txt, nil); err == nil {
				tryAdd("fact", txt, func() { biscuit.NewBuilder(priv).AddAuthorityFact(f) })
			}
			if ru, err := p.Rule(txt, nil); err == nil {
				tryAdd("rule", txt, func() { biscuit.NewBuilder(priv).AddAuthorityRule(ru) })
			}
			if c, err := p.Check(txt, nil); err == nil {
				tryAdd("check", txt, func() { biscuit.NewBuilder(priv).AddAuthorityCheck(c) })
			}
			if _, err := p.Policy(txt, nil); err == nil {
				res.Dist("robustness:policy-accepted")
			}
			if bl, err := p.Block(txt, nil); err == nil {
				res.Dist("robustness:block-accepted")
				tryAdd("block", txt, func() { biscuit.NewBuilder(priv).AddBlock(bl) })
			}
			if a, err := p.Authorizer(txt, nil); err == nil {
				tryAdd("authorizer", txt, func() {
					t, _ := biscuit.NewBuilder(priv).Build()
					pub, _ := rootKeys()
					az, _ := t.AuthorizerFor(biscuit.WithSingularRootPublicKey(pub))
					az.AddAuthorizer(a)
				})
			}
		})
		if pan != "" {
			res.Violate("panic:parse", "a parse function panicked: "+pan, map[string]interface{}{"text": txt, "bytes": fmt.Sprintf("%x", b)})
		}
	}
	WriteShards(res, outDir, "C14", "Base Term Lexer Parser Corr2", "", "parse_case", "parse_ok", lines, 600)
	res.ModelCases = len(lines)
	res.CaseDescs = descs
}

// isModelText: the Coq lexer models printable ASCII plus \n \t \r, no backslash in strings
func isModelText(s string) bool {
	for i := 0; i < len(s); i++ {
		c := s[i]
		if c == '\\' || c > 126 || (c < 32 && c != '\n' && c != '\t' && c != '\r') {
			return false
		}
	}
	return true
}
