// harness: correspondence check + property-directed search against /repo's
// working tree (module replace => /repo, built with -tags verif).
//
//	harness <Cxx> --seed N --tier quick|thorough --out DIR
//
// writes DIR/Cases_<Cxx>.v (model cases with the implementation's observed
// results, evaluated by ./check with coqc) and DIR/result.json (counts,
// samples, input distribution and oracle violations found on the real code).
package main

import (
	"flag"
	"fmt"
	"os"
	"time"
)

type runner func(res *Result, rng *RNG, tier string, outDir string)

var runners = map[string]runner{}

var currentOutDir string

func main() {
	if len(os.Args) < 2 {
		fatal("usage: harness <property> [--seed N] [--tier quick|thorough] [--out DIR]")
	}
	prop := os.Args[1]
	fs := flag.NewFlagSet("harness", flag.ExitOnError)
	seed := fs.Uint64("seed", 1, "PRNG seed")
	tier := fs.String("tier", "quick", "quick|thorough")
	out := fs.String("out", ".", "output directory")
	replay := fs.String("replay", "", "replay file")
	fs.Parse(os.Args[2:])
	if prop == "worker" {
		workerMain(fs.Args())
		return
	}
	run, ok := runners[prop]
	if !ok {
		fatal("unknown property %s", prop)
	}
	if err := os.MkdirAll(*out, 0o755); err != nil {
		fatal("%v", err)
	}
	_ = replay
	// the process's local time zone is NOT UTC: whatever the library prints or parses must not
	// depend on it (dates are seconds since the epoch, printed in UTC)
	time.Local = time.FixedZone("verif-zone", 5*3600+1800)
	res := NewResult(prop, *tier, *seed)
	currentResult = res
	currentOutDir = *out
	run(res, NewRNG(*seed), *tier, *out)
	res.Write(*out)
	fmt.Printf("\nharness %s: %d evaluations, %d distinct non-trivial, %d model cases, %d oracle violations\n",
		prop, res.Evaluations, res.DistinctNontrivial, res.ModelCases, len(res.Violations))
}

// workerMain runs one isolated case in a child process (panics on
// library-owned goroutines cannot be recovered in-process).
func workerMain(args []string) {
	if len(args) < 1 {
		fatal("worker: missing kind")
	}
	w, ok := workers[args[0]]
	if !ok {
		fatal("worker: unknown kind %s", args[0])
	}
	w(args[1:])
}

var workers = map[string]func(args []string){}
