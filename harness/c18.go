package main

import (
	"fmt"
	"github.com/biscuit-auth/biscuit-go/v2/pb"
	"google.golang.org/protobuf/proto"
	"strings"

	biscuit "github.com/biscuit-auth/biscuit-go/v2"
)

func init() { runners["C18"] = runC18 }

func applyContent(a biscuit.Authorizer, ops []azOp) {
	for _, op := range ops {
		switch op.Kind {
		case "fact":
			a.AddFact(biscuit.Fact{Predicate: op.Fact.toBiscuit()})
		case "rule":
			a.AddRule(op.Rule.toBiscuit())
		case "check":
			a.AddCheck(op.Check.toBiscuit())
		case "policy":
			a.AddPolicy(op.Policy.toBiscuit())
		}
	}
}

type c18Case struct {
	ops   []azOp
	bytes []byte
	saveE string
}

func runC18(res *Result, rng *RNG, tier string, outDir string) {
	res.Rule = "random authorizer contents (facts, rules, checks with alternative queries, ordered allow/deny policies; every term type, default and fresh symbols, expressions) saved with SerializePolicies from an unevaluated authorizer and loaded with LoadPolicies into a fresh authorizer for the same and for a different token: verdict (class + failed checks), world after Authorize and a panel of query results must equal those of an authorizer given the same content directly. Saving after Authorize (any outcome, also a failed run) or Query must be refused. Loading mutated snapshot bytes (bit flips, truncations, field edits, random bytes) must return an error or succeed, never panic. Non-trivial = content with at least one check or policy and one fresh symbol; distinct by canonical content text."
	n := 150
	if tier == "thorough" {
		n = 7000
	}
	var lines, descs []string
	var prevSnapshot []byte
	var prevContent []azOp
	for i := 0; i < n; i++ {
		r := rng.Fork()
		errProne := r.Chance(8)
		sc := genScenario(r, errProne, 1)
		other := genScenario(r.Fork(), false, 1)
		tokA, err1 := buildToken(sc.Token, r.Fork())
		tokB, err2 := buildToken(other.Token, r.Fork())
		if err1 != nil || err2 != nil {
			continue
		}
		var content []azOp
		for _, op := range sc.Ops {
			if op.Kind == "fact" || op.Kind == "rule" || op.Kind == "check" || op.Kind == "policy" {
				content = append(content, op)
			}
		}
		g := &azGen{rng: r, pg: newProgGen(r)}
		g.pg.sigs = sigsOfScenario(sc)
		queries := []SRule{g.pg.query(false), g.pg.query(false)}
		nck := 0
		for _, op := range content {
			if op.Kind == "check" || op.Kind == "policy" {
				nck++
			}
		}
		res.Count(azScenario{Ops: content}.String(), nck > 0)
		res.Dist(fmt.Sprintf("content-items:%d", len(content)))
		rep := map[string]interface{}{"content": azScenario{Ops: content}.String()}
		if i < 2 {
			res.Sample(rep)
		}
		var snapshot []byte
		var saveErr error
		pan := ""
		func() {
			defer func() {
				if p := recover(); p != nil {
					pan = fmt.Sprint(p)
				}
			}()
			src, err := newAuthorizer(tokA, 1000, 100, entryAuthorizerFor)
			if err != nil {
				fatal("%v", err)
			}
			applyContent(src, content)
			snapshot, saveErr = src.SerializePolicies()
		}()
		if pan != "" {
			res.Violate("panic:save", "SerializePolicies panicked: "+pan, rep)
			continue
		}
		if saveErr != nil {
			res.Dist("save-error")
			// conversion refusals (e.g. an empty set) are legitimate errors
			continue
		}
		for ti, tok := range []*biscuit.Biscuit{tokA, tokB} {
			tname := []string{"same-token", "other-token"}[ti]
			direct, _ := newAuthorizer(tok, 1000, 100, entryAuthorizerFor)
			applyContent(direct, content)
			loaded, _ := newAuthorizer(tok, 1000, 100, entryAuthorizerFor)
			// half of the time the receiving authorizer is a POOLED one: it has served another
			// snapshot (loaded, evaluated) and was Reset
			if prevSnapshot != nil && r.Chance(50) {
				func() {
					defer func() { recover() }()
					if r.Bool() {
						loadPoliciesOwned(loaded, prevSnapshot)
					} else {
						applyContent(loaded, prevContent)
					}
					loaded.Authorize()
				}()
				loaded.Reset()
				res.Dist("restored-into:pooled-authorizer")
				rep["restored_into"] = "an authorizer that received (loaded, or through Add* calls) and evaluated the previous content, then Reset"
			} else {
				res.Dist("restored-into:new-authorizer")
				delete(rep, "restored_into")
			}
			var loadErr error
			func() {
				defer func() {
					if p := recover(); p != nil {
						pan = fmt.Sprint(p)
					}
				}()
				loadErr = loadPoliciesOwned(loaded, snapshot)
			}()
			if pan != "" {
				res.Violate("panic:load", "LoadPolicies panicked on a snapshot produced by SerializePolicies: "+pan, rep)
				break
			}
			if loadErr != nil {
				res.Violate("load-rejects-own-snapshot", "LoadPolicies rejects a snapshot produced by SerializePolicies: "+loadErr.Error(), rep)
				break
			}
			c1, _, f1 := classifyVerdict(direct.Authorize())
			c2, _, f2 := classifyVerdict(loaded.Authorize())
			res.Dist("verdict:" + strings.SplitN(c1, ":", 2)[0])
			rep2 := map[string]interface{}{"content": rep["content"], "restored_into": rep["restored_into"], "token": tname, "direct": c1 + " " + strings.Join(f1, ","), "restored": c2 + " " + strings.Join(f2, ",")}
			if c1 != c2 || strings.Join(f1, ",") != strings.Join(f2, ",") {
				res.Violate("verdict-differs:"+tname, fmt.Sprintf("restored authorizer gives %s %v, the original content gives %s %v", c2, f2, c1, f1), rep2)
			}
			a, b := predSetDiff(worldOf(direct), worldOf(loaded))
			if len(a) > 0 || len(b) > 0 {
				res.Violate("world-differs:"+tname, fmt.Sprintf("restored authorizer derives a different fact set: %v / %v", a, b), rep2)
			}
			for _, q := range queries {
				r1, e1 := direct.Query(q.toBiscuit())
				r2, e2 := loaded.Query(q.toBiscuit())
				var p1, p2 []SPred
				for _, f := range r1 {
					p1 = append(p1, predFromBiscuit(f.Predicate))
				}
				for _, f := range r2 {
					p2 = append(p2, predFromBiscuit(f.Predicate))
				}
				x, y := predSetDiff(p1, p2)
				if len(x) > 0 || len(y) > 0 || (e1 == nil) != (e2 == nil) {
					res.Violate("query-differs:"+tname, fmt.Sprintf("query %s differs: %v / %v", q.String(), x, y), rep2)
				}
			}
			// saving is refused once evaluated
			if _, err := direct.SerializePolicies(); err == nil {
				res.Violate("save-after-evaluation:"+c1, "SerializePolicies succeeds after Authorize returned "+c1, rep2)
			}
		}
		prevSnapshot, prevContent = snapshot, content
		// refused after a failed run and after Query
		{
			lim, _ := newAuthorizer(tokA, 1, 100, entryAuthorizerFor)
			applyContent(lim, content)
			err := lim.Authorize()
			if _, serr := lim.SerializePolicies(); serr == nil {
				res.Violate("save-after-failed-run", fmt.Sprintf("SerializePolicies succeeds after an Authorize that returned %v", err), rep)
			}
			qa, _ := newAuthorizer(tokA, 1000, 100, entryAuthorizerFor)
			applyContent(qa, content)
			if _, qerr := qa.Query(queries[0].toBiscuit()); qerr == nil {
				if _, serr := qa.SerializePolicies(); serr == nil {
					res.Violate("save-after-query", "SerializePolicies succeeds after Query", rep)
				}
			}
		}
		// once evaluated, no operation other than Reset makes saving possible again
		{
			ev, _ := newAuthorizer(tokA, 1000, 100, entryAuthorizerFor)
			applyContent(ev, content)
			ev.Authorize()
			for k := 0; k < 3; k++ {
				var what string
				func() {
					defer func() { recover() }()
					switch r.Intn(4) {
					case 0:
						what = "LoadPolicies"
						loadPoliciesOwned(ev, snapshot)
					case 1:
						what = "Add*"
						if len(content) > 0 {
							applyContent(ev, content[:1+r.Intn(len(content))])
						}
					case 2:
						what = "Query"
						ev.Query(queries[0].toBiscuit())
					default:
						what = "Authorize"
						ev.Authorize()
					}
				}()
				res.Dist("after-evaluation:" + what)
				if _, serr := ev.SerializePolicies(); serr == nil {
					res.Violate("save-after-evaluation-then:"+what, "SerializePolicies succeeds on an evaluated authorizer after "+what+" (only Reset may make saving possible again): the snapshot carries the token's facts", rep)
					break
				}
			}
		}
		// structurally edited snapshots: the symbol list dropped or cut short (indexes then point
		// past the table), a required field cleared — an error or a working authorizer, never a panic
		{
			var ap pb.AuthorizerPolicies
			if proto.Unmarshal(snapshot, &ap) == nil {
				for k := 0; k < 4; k++ {
					cp := proto.Clone(&ap).(*pb.AuthorizerPolicies)
					what := ""
					switch k {
					case 0:
						what, cp.Symbols = "symbols-dropped", nil
					case 1:
						what = "symbols-cut"
						if len(cp.Symbols) > 0 {
							cp.Symbols = cp.Symbols[:r.Intn(len(cp.Symbols))]
						}
					case 2:
						what = "symbols-shuffled-in"
						cp.Symbols = append([]string{"zz-extra"}, cp.Symbols...)
					default:
						what, cp.Version = "version-dropped", nil
					}
					mb, err := proto.MarshalOptions{AllowPartial: true}.Marshal(cp)
					if err != nil {
						continue
					}
					fresh, _ := newAuthorizer(tokA, 1000, 100, entryAuthorizerFor)
					lp := ""
					func() {
						defer func() {
							if p := recover(); p != nil {
								lp = fmt.Sprint(p)
							}
						}()
						if loadPoliciesOwned(fresh, mb) == nil {
							fresh.Authorize()
							_ = fresh.PrintWorld()
						}
					}()
					res.Count(fmt.Sprintf("edited %s %x", what, mb), true)
					res.Dist("edited-snapshot:" + what)
					if lp != "" {
						res.Violate("panic:load-edited:"+what, "LoadPolicies (or the following Authorize / PrintWorld) panicked on a snapshot with "+what+": "+lp, map[string]interface{}{"bytes": fmt.Sprintf("%x", mb), "edit": what})
					}
				}
			}
		}
		// malformed snapshots
		for k := 0; k < 6; k++ {
			m := append([]byte{}, snapshot...)
			switch r.Intn(4) {
			case 0:
				if len(m) > 0 {
					m = m[:r.Intn(len(m))]
				}
			case 1:
				if len(m) > 0 {
					m[r.Intn(len(m))] ^= 1 << uint(r.Intn(8))
				}
			case 2:
				p := r.Intn(len(m) + 1)
				m = append(append(append([]byte{}, m[:p]...), r.Bytes(1+r.Intn(5))...), m[p:]...)
			default:
				m = r.Bytes(r.Intn(40))
			}
			fresh, _ := newAuthorizer(tokA, 1000, 100, entryAuthorizerFor)
			lp := ""
			var lerr error
			func() {
				defer func() {
					if p := recover(); p != nil {
						lp = fmt.Sprint(p)
					}
				}()
				lerr = loadPoliciesOwned(fresh, m)
				if lerr == nil {
					fresh.Authorize()
				}
			}()
			res.Count(fmt.Sprintf("malformed %x", m), true)
			if lerr != nil {
				res.Dist("malformed:error")
			} else {
				res.Dist("malformed:accepted")
			}
			if lp != "" {
				res.Violate("panic:load-malformed", "LoadPolicies (or the following Authorize) panicked on malformed bytes: "+lp, map[string]interface{}{"bytes": fmt.Sprintf("%x", m)})
			}
		}
		lines = append(lines, c18ModelCase(content, snapshot))
		descs = append(descs, trunc(azScenario{Ops: content}.String(), 400))
	}
	WriteShards(res, outDir, "C18", "Base Term Expr Datalog Authz DTerm Symbols Wire Snapshot Corr2", "", "snap_case", "snap_ok", lines, 300)
	res.ModelCases = len(lines)
	res.CaseDescs = descs
}

func c18ModelCase(content []azOp, snapshot []byte) string {
	ops := make([]string, len(content))
	for i, o := range content {
		ops[i] = o.coq()
	}
	return fmt.Sprintf("{| sn_ops := %s; sn_bytes := %s |}", coqList(ops), coqBytes(snapshot))
}
