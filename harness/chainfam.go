package main

import (
	"bytes"
	"crypto/ed25519"
	"fmt"
	"os"
	"strings"

	biscuit "github.com/biscuit-auth/biscuit-go/v2"
	"github.com/biscuit-auth/biscuit-go/v2/datalog"
	"github.com/biscuit-auth/biscuit-go/v2/pb"
	"google.golang.org/protobuf/proto"
)

func init() {
	runners["C01"] = runC01
	runners["C09"] = runC09
	runners["C16"] = runC16
	runners["C17"] = runC17
}

// recReader records what a deterministic source delivered
type recReader struct {
	r     *RNG
	buf   []byte
	chunk int // > 0: deliver at most this many bytes per Read (a legal io.Reader may do so)
}

func (d *recReader) Read(p []byte) (int, error) {
	n := len(p)
	if d.chunk > 0 && n > d.chunk {
		n = d.chunk
	}
	for i := 0; i < n; i++ {
		p[i] = byte(d.r.U64())
	}
	d.buf = append(d.buf, p[:n]...)
	return n, nil
}

// newRecReader: mostly whole reads, sometimes a source that delivers 1, 3, 7 or 31 bytes per call
func newRecReader(rng *RNG) *recReader {
	rr := &recReader{r: rng.Fork()}
	if rng.Chance(30) {
		rr.chunk = []int{1, 3, 7, 31}[rng.Intn(4)]
	}
	return rr
}

// seed32 returns the 32 bytes a signing event must have drawn, and notes on the family when the
// source was asked for less (the key pair then does not come from 32 bytes of the source)
func (f *family) seed32(rr *recReader, op string) []byte {
	if len(rr.buf) != 32 {
		f.entropy = append(f.entropy, fmt.Sprintf("%s drew %d bytes from a source delivering %d byte(s) per call; a signing event must draw exactly 32", op, len(rr.buf), rr.chunk))
	}
	b := append([]byte{}, rr.buf...)
	for len(b) < 32 {
		b = append(b, 0)
	}
	return b[:32]
}

// ---------- a family of tokens built by a random history ----------

type famToken struct {
	Tok    *biscuit.Biscuit
	Bytes  []byte
	C      *obsContainer
	Parent int    // index of the parent token, -1 for a root
	Op     string // build append seal reload
	RootID *uint32
	Blocks []SBlock // S-level content, authority first
	Sealed bool
}

type family struct {
	rootSeed []byte
	pub      ed25519.PublicKey
	priv     ed25519.PrivateKey
	toks     []*famToken
	orc      *oracle
	chain    []string // model cases for chain ops
	chainD   []string
	entropy  []string // signing events that did not draw exactly 32 bytes from their source
}

// entropyCheck reports signing events whose key pair does not come from 32 bytes of the source
// (e.g. a single short Read instead of io.ReadFull: the rest of the seed stays zero, and two
// signing events may then share a key, hence a revocation id)
func (f *family) entropyCheck(res *Result) {
	for _, e := range f.entropy {
		res.Violate("seed-not-32-source-bytes", "a signing event did not take its 32-byte seed from the random source: "+e, map[string]interface{}{"root_seed": fmt.Sprintf("%x", f.rootSeed), "event": e})
	}
}

func simpleBlock(rng *RNG, i int) SBlock {
	b := SBlock{}
	n := 1 + rng.Intn(3)
	for k := 0; k < n; k++ {
		b.Facts = append(b.Facts, SPred{Name: []string{"right", "owner", "res"}[rng.Intn(3)], Terms: []STerm{aStr(strPool[rng.Intn(len(strPool))]), aInt(int64(i*10 + k))}})
	}
	b.Facts = dedupePreds(b.Facts)
	if rng.Chance(40) {
		b.Checks = append(b.Checks, SCheck{{Head: SPred{Name: "query"}, Body: []SPred{{Name: "op", Terms: []STerm{aStr("read")}}}}})
	}
	return b
}

func fillBlockBuilder(bb biscuit.BlockBuilder, b SBlock) {
	for _, f := range b.Facts {
		bb.AddFact(biscuit.Fact{Predicate: f.toBiscuit()})
	}
	for _, r := range b.Rules {
		bb.AddRule(r.toBiscuit())
	}
	for _, c := range b.Checks {
		bb.AddCheck(c.toBiscuit())
	}
}

func (f *family) add(t *famToken) int {
	bs, err := t.Tok.Serialize()
	if err != nil {
		fatal("serialize: %v", err)
	}
	t.Bytes = bs
	t.C, err = containerOfBytes(bs)
	if err != nil {
		if currentResult != nil {
			currentResult.Violate("own-token-undecodable:"+t.Op, "a token produced by "+t.Op+" serializes to bytes that are not a well-formed token: "+err.Error(), map[string]interface{}{"history_op": t.Op, "serialized": fmt.Sprintf("%x", bs)})
			currentResult.Write(currentOutDir)
			fmt.Printf("\nharness: stopped at the first undecodable own token, %d oracle violations\n", len(currentResult.Violations))
			os.Exit(0)
		}
		fatal("decode own token: %v", err)
	}
	f.toks = append(f.toks, t)
	return len(f.toks) - 1
}

func (f *family) build(rng *RNG, rid *uint32) int {
	rr := newRecReader(rng)
	var b biscuit.Builder
	if rid != nil {
		b = biscuit.NewBuilder(f.priv, biscuit.WithRNG(rr), biscuit.WithRootKeyID(*rid))
	} else {
		b = biscuit.NewBuilder(f.priv, biscuit.WithRNG(rr))
	}
	blk := simpleBlock(rng, 0)
	for _, ft := range blk.Facts {
		b.AddAuthorityFact(biscuit.Fact{Predicate: ft.toBiscuit()})
	}
	for _, c := range blk.Checks {
		b.AddAuthorityCheck(c.toBiscuit())
	}
	tok, err := b.Build()
	if err != nil {
		fatal("build: %v", err)
	}
	i := f.add(&famToken{Tok: tok, Parent: -1, Op: "build", RootID: rid, Blocks: []SBlock{blk}})
	c := f.toks[i].C
	f.orc.addPub(f.seed32(rr, "Build"))
	f.orc.addSign(f.rootSeed, c.Auth.payload())
	f.chain = append(f.chain, fmt.Sprintf("{| cc_op := OpBuild %s %s %s; cc_src := %s; cc_obs := OOk %s |}", coqBytes(f.rootSeed), coqOptN(rid), coqBytes(c.Auth.Block), coqBytes(rr.buf), c.coq()))
	f.chainD = append(f.chainD, "build")
	return i
}

func (f *family) append(rng *RNG, pi int) (int, error) {
	p := f.toks[pi]
	rr := newRecReader(rng)
	blk := simpleBlock(rng, len(p.Blocks))
	bb := p.Tok.CreateBlock()
	fillBlockBuilder(bb, blk)
	tok, err := p.Tok.Append(rr, bb.Build())
	if err != nil {
		f.chain = append(f.chain, fmt.Sprintf("{| cc_op := OpAppend (%s) []; cc_src := %s; cc_obs := OErr %s |}", p.C.coq(), coqBytes(rng.Bytes(40)), errClass(err)))
		f.chainD = append(f.chainD, "append on "+p.Op)
		return -1, err
	}
	i := f.add(&famToken{Tok: tok, Parent: pi, Op: "append", RootID: p.RootID, Blocks: append(append([]SBlock{}, p.Blocks...), blk)})
	c := f.toks[i].C
	nb := c.Blocks[len(c.Blocks)-1]
	f.orc.addPub(f.seed32(rr, "Append"))
	f.orc.addPub(p.C.Proof)
	f.orc.addSign(p.C.Proof, nb.payload())
	f.chain = append(f.chain, fmt.Sprintf("{| cc_op := OpAppend (%s) %s; cc_src := %s; cc_obs := OOk %s |}", p.C.coq(), coqBytes(nb.Block), coqBytes(rr.buf), c.coq()))
	f.chainD = append(f.chainD, "append")
	return i, nil
}

func (f *family) seal(rng *RNG, pi int) (int, error) {
	p := f.toks[pi]
	tok, err := p.Tok.Seal(detReader{rng.Fork()})
	if err != nil {
		f.chain = append(f.chain, fmt.Sprintf("{| cc_op := OpSeal (%s); cc_src := []; cc_obs := OErr %s |}", p.C.coq(), errClass(err)))
		f.chainD = append(f.chainD, "seal on "+p.Op)
		return -1, err
	}
	i := f.add(&famToken{Tok: tok, Parent: pi, Op: "seal", RootID: p.RootID, Blocks: p.Blocks, Sealed: true})
	c := f.toks[i].C
	last := p.C.last()
	f.orc.addPub(p.C.Proof)
	f.orc.addSign(p.C.Proof, append(last.payload(), last.Sig...))
	f.chain = append(f.chain, fmt.Sprintf("{| cc_op := OpSeal (%s); cc_src := []; cc_obs := OOk %s |}", p.C.coq(), c.coq()))
	f.chainD = append(f.chainD, "seal")
	return i, nil
}

func (f *family) reload(pi int) (int, error) {
	p := f.toks[pi]
	tok, err := unmarshalOwned(p.Bytes)
	if err != nil {
		return -1, err
	}
	return f.add(&famToken{Tok: tok, Parent: pi, Op: "reload", RootID: p.RootID, Blocks: p.Blocks, Sealed: p.Sealed}), nil
}

// ---------- reference acceptor: chain validity with real ed25519 on the decoded envelope ----------

func refChainValid(root []byte, c *obsContainer) bool {
	if len(root) != 32 {
		return false
	}
	cur := root
	for _, b := range append([]obsSBlock{c.Auth}, c.Blocks...) {
		if b.Alg != 0 || len(cur) != 32 || !ed25519.Verify(cur, b.payload(), b.Sig) || len(b.Key) != 32 {
			return false
		}
		cur = b.Key
	}
	switch c.ProofKind {
	case 0:
		if len(c.Proof) != 32 {
			return false
		}
		return bytes.Equal(cur, ed25519.NewKeyFromSeed(c.Proof).Public().(ed25519.PublicKey))
	case 1:
		last := c.last()
		return ed25519.Verify(cur, append(last.payload(), last.Sig...), c.Proof)
	}
	return false
}

// addVerifyOracle registers every (key, message, signature) triple verification may ask for
func (f *family) addVerifyOracle(root []byte, c *obsContainer) {
	cur := root
	for _, b := range append([]obsSBlock{c.Auth}, c.Blocks...) {
		f.orc.addVerify(cur, b.payload(), b.Sig)
		cur = b.Key
	}
	if c.ProofKind == 0 {
		f.orc.addPub(c.Proof)
	} else if c.ProofKind == 1 {
		last := c.last()
		f.orc.addVerify(cur, append(last.payload(), last.Sig...), c.Proof)
	}
}

// ---------- envelope mutations ----------

type mutation struct {
	Name  string
	Bytes []byte
}

func reencode(c *pb.Biscuit) []byte {
	b, err := proto.Marshal(c)
	if err != nil {
		return nil
	}
	return b
}
func cloneEnv(bs []byte) *pb.Biscuit {
	var c pb.Biscuit
	if err := proto.Unmarshal(bs, &c); err != nil {
		fatal("clone envelope: %v", err)
	}
	return &c
}

func (f *family) mutations(rng *RNG, ti int) []mutation {
	t := f.toks[ti]
	var out []mutation
	add := func(name string, c *pb.Biscuit) {
		if b := reencode(c); b != nil {
			out = append(out, mutation{name, b})
		}
	}
	other := f.toks[rng.Intn(len(f.toks))]
	attSeed := rng.Bytes(32)
	attPriv := ed25519.NewKeyFromSeed(attSeed)
	attPub := attPriv.Public().(ed25519.PublicKey)
	nb := func(c *pb.Biscuit) int { return len(c.Blocks) }
	sbAt := func(c *pb.Biscuit, i int) *pb.SignedBlock {
		if i == 0 {
			return c.Authority
		}
		return c.Blocks[i-1]
	}
	// 1 block bytes replaced by another valid block's bytes
	{
		c := cloneEnv(t.Bytes)
		i := rng.Intn(nb(c) + 1)
		oc := cloneEnv(other.Bytes)
		sbAt(c, i).Block = sbAt(oc, rng.Intn(nb(oc)+1)).Block
		add("block-bytes-substituted", c)
	}
	// 2 announced key replaced by attacker key
	{
		c := cloneEnv(t.Bytes)
		sbAt(c, rng.Intn(nb(c)+1)).NextKey.Key = attPub
		add("key-replaced", c)
	}
	// 3 signature replaced (by another signature / flipped bit)
	{
		c := cloneEnv(t.Bytes)
		sb := sbAt(c, rng.Intn(nb(c)+1))
		s := append([]byte{}, sb.Signature...)
		s[rng.Intn(len(s))] ^= 1 << uint(rng.Intn(8))
		sb.Signature = s
		add("signature-bitflip", c)
	}
	// 4 two blocks swapped
	if c := cloneEnv(t.Bytes); nb(c) >= 2 {
		c.Blocks[0], c.Blocks[1] = c.Blocks[1], c.Blocks[0]
		add("blocks-swapped", c)
	}
	// 5 block removed / truncated to a prefix (proof kept)
	if c := cloneEnv(t.Bytes); nb(c) >= 1 {
		c.Blocks = c.Blocks[:nb(c)-1]
		add("last-block-removed", c)
	}
	// 6 block inserted from another token
	{
		c := cloneEnv(t.Bytes)
		oc := cloneEnv(other.Bytes)
		ins := sbAt(oc, rng.Intn(nb(oc)+1))
		pos := rng.Intn(nb(c) + 1)
		c.Blocks = append(append(append([]*pb.SignedBlock{}, c.Blocks[:pos]...), ins), c.Blocks[pos:]...)
		add("block-inserted", c)
	}
	// 7 re-keyed with an attacker key: attacker signs a new block with its own secret and announces it
	{
		c := cloneEnv(t.Bytes)
		last := sbAt(c, nb(c))
		nseed := rng.Bytes(32)
		npub := ed25519.NewKeyFromSeed(nseed).Public().(ed25519.PublicKey)
		alg := pb.PublicKey_Ed25519
		msg := append(append(append([]byte{}, last.Block...), 0, 0, 0, 0), npub...)
		sb := &pb.SignedBlock{Block: last.Block, NextKey: &pb.PublicKey{Algorithm: &alg, Key: npub}, Signature: ed25519.Sign(attPriv, msg)}
		c.Blocks = append(c.Blocks, sb)
		c.Proof = &pb.Proof{Content: &pb.Proof_NextSecret{NextSecret: nseed}}
		add("attacker-appended-block", c)
	}
	// 8 proof replaced
	{
		c := cloneEnv(t.Bytes)
		switch rng.Intn(5) {
		case 0:
			c.Proof = &pb.Proof{Content: &pb.Proof_NextSecret{NextSecret: attSeed}}
			add("proof-attacker-secret", c)
		case 1:
			c.Proof = &pb.Proof{Content: &pb.Proof_FinalSignature{FinalSignature: rng.Bytes(64)}}
			add("proof-random-seal", c)
		case 2:
			c.Proof = &pb.Proof{}
			add("proof-empty", c)
		case 3:
			c.Proof = &pb.Proof{Content: &pb.Proof_NextSecret{NextSecret: rng.Bytes([]int{0, 3, 31, 33, 64}[rng.Intn(5)])}}
			add("proof-secret-wrong-length", c)
		default:
			last := sbAt(c, nb(c))
			c.Proof = &pb.Proof{Content: &pb.Proof_FinalSignature{FinalSignature: ed25519.Sign(attPriv, append(append(append(append([]byte{}, last.Block...), 0, 0, 0, 0), last.NextKey.Key...), last.Signature...))}}
			add("proof-attacker-seal", c)
		}
	}
	// 9 seal/unseal swap using the other token's proof
	{
		c := cloneEnv(t.Bytes)
		c.Proof = cloneEnv(other.Bytes).Proof
		add("proof-from-other-token", c)
	}
	// 10 algorithm value changed
	{
		c := cloneEnv(t.Bytes)
		a := pb.PublicKey_Algorithm([]int32{1, 2, -1, 1 << 30}[rng.Intn(4)])
		sbAt(c, rng.Intn(nb(c)+1)).NextKey.Algorithm = &a
		add("algorithm-changed", c)
	}
	// 11 mis-sized key / signature
	{
		c := cloneEnv(t.Bytes)
		sb := sbAt(c, rng.Intn(nb(c)+1))
		if rng.Bool() {
			sb.NextKey.Key = rng.Bytes([]int{0, 31, 33}[rng.Intn(3)])
			add("key-wrong-size", c)
		} else {
			sb.Signature = rng.Bytes([]int{0, 63, 65}[rng.Intn(3)])
			add("signature-wrong-size", c)
		}
	}
	// 12 root key id changed (must not matter for a singular key)
	{
		c := cloneEnv(t.Bytes)
		v := uint32(rng.U64())
		c.RootKeyId = &v
		add("root-id-changed", c)
	}
	// 14 the holder of public data only: keep a prefix of the blocks (strip attenuation, possibly none)
	// and make up a proof out of bytes every holder can read (the announced key, the signatures)
	{
		c := cloneEnv(t.Bytes)
		if nb(c) >= 1 && rng.Bool() {
			c.Blocks = c.Blocks[:rng.Intn(nb(c))]
		}
		last := sbAt(c, nb(c))
		key, sig := last.NextKey.Key, last.Signature
		pick := func(b []byte, from, to int) []byte {
			if to > len(b) {
				to = len(b)
			}
			if from > to {
				from = to
			}
			return append([]byte{}, b[from:to]...)
		}
		var secret []byte
		kind := rng.Intn(8)
		switch kind {
		case 0:
			secret = pick(key, 0, 32)
		case 1:
			secret = append(rng.Bytes(32), key...)
		case 2:
			secret = append(pick(key, 0, 32), rng.Bytes(32)...)
		case 3:
			secret = append(pick(key, 0, 32), key...)
		case 4:
			secret = pick(sig, 0, 32)
		case 5:
			secret = pick(sig, 32, 64)
		case 6:
			secret = pick(sig, 0, 64)
		default:
			secret = append(attSeed, key...)
		}
		if rng.Chance(25) {
			c.Proof = &pb.Proof{Content: &pb.Proof_FinalSignature{FinalSignature: pick(sig, 0, 64)}}
			add("proof-seal-from-public-bytes", c)
		} else {
			c.Proof = &pb.Proof{Content: &pb.Proof_NextSecret{NextSecret: secret}}
			add(fmt.Sprintf("proof-secret-from-public-bytes-%d", kind), c)
		}
	}
	// 15 a genuine value extended or truncated: the genuine bytes are still there as a prefix
	{
		c := cloneEnv(t.Bytes)
		grow := func(b []byte) []byte {
			b = append([]byte{}, b...)
			switch rng.Intn(5) {
			case 0:
				return append(b, 0)
			case 1:
				return append(b, rng.Bytes(32)...)
			case 2:
				return append(b, b...)
			case 3:
				if len(b) > 0 {
					return b[:len(b)-1]
				}
				return b
			default:
				return append(b, rng.Bytes(1+rng.Intn(3))...)
			}
		}
		sb := sbAt(c, rng.Intn(nb(c)+1))
		switch pr := c.Proof.Content.(type) {
		case *pb.Proof_FinalSignature:
			if rng.Chance(60) {
				pr.FinalSignature = grow(pr.FinalSignature)
				add("seal-extended-or-truncated", c)
				break
			}
			sb.Signature = grow(sb.Signature)
			add("signature-extended-or-truncated", c)
		case *pb.Proof_NextSecret:
			switch rng.Intn(3) {
			case 0:
				pr.NextSecret = grow(pr.NextSecret)
				add("secret-extended-or-truncated", c)
			case 1:
				sb.Signature = grow(sb.Signature)
				add("signature-extended-or-truncated", c)
			default:
				sb.NextKey.Key = grow(sb.NextKey.Key)
				add("key-extended-or-truncated", c)
			}
		}
	}
	// 13 sealed token: last block / last key altered
	if t.Sealed {
		c := cloneEnv(t.Bytes)
		last := sbAt(c, nb(c))
		last.NextKey.Key = attPub
		add("sealed-last-key-altered", c)
	}
	return out
}

// classify the implementation on a byte string: stage reached and error class
func verifyGo(bs []byte, ks biscuit.PublickKeyByIDProjection) (class string, tok *biscuit.Biscuit, panicked string) {
	defer func() {
		if r := recover(); r != nil {
			panicked = fmt.Sprint(r)
			class = "panic"
		}
	}()
	t, err := unmarshalOwned(bs)
	if err != nil {
		c := errClass(err)
		if c == "EOther" {
			return "unmarshal:decode", nil, ""
		}
		return "unmarshal:" + c, nil, ""
	}
	_, err = t.AuthorizerFor(ks)
	if err != nil {
		return "verify:" + errClass(err), t, ""
	}
	return "ok", t, ""
}

func classObs(class string) string {
	switch {
	case class == "ok":
		return "OOk tt"
	case class == "panic":
		return "OPanic"
	}
	return "OErr " + class[strings.Index(class, ":")+1:]
}

// ---------------- C01 ----------------

func runC01(res *Result, rng *RNG, tier string, outDir string) {
	res.Rule = "token families built by random histories (build with/without root id, 0-4 appends, seal, serialize/unmarshal) and, for every token, 12-13 structural mutations of the envelope made at protobuf level (block bytes substituted from another block/token, announced key replaced, signature bit flipped, blocks swapped, removed, inserted from another token, a block appended and signed by an attacker key, proof replaced by an attacker secret / random or attacker seal / empty / wrong-length secret / another token's proof, algorithm number changed, mis-sized keys and signatures, root id changed). Oracle: an independent reference acceptor (decode with protobuf-go, check the chain with crypto/ed25519 itself): the library accepts exactly what the reference accepts; every library-built token verifies. Non-trivial = a mutated envelope that differs from every unmutated token of the family; distinct by token bytes."
	nfam := 5
	if tier == "thorough" {
		nfam = 110
	}
	sh := newChainShards(outDir, "C01", 2)
	rng2 := rng
	for fi := 0; fi < nfam; fi++ {
		r := rng2.Fork()
		f := newFamilyShared(r, sh.nextFamily())
		genFamilyInto(f, r, true)
		sh.cc = append(sh.cc, f.chain...)
		sh.cd = append(sh.cd, f.chainD...)
		ks := biscuit.WithSingularRootPublicKey(f.pub)
		known := map[string]bool{}
		for _, t := range f.toks {
			known[string(t.Bytes)] = true
		}
		for ti, t := range f.toks {
			// completeness: every library-built token verifies
			class, _, pan := verifyGo(t.Bytes, ks)
			res.Count(string(t.Bytes), false)
			res.Dist("unmutated:" + class)
			rep := map[string]interface{}{"token": fmt.Sprintf("%x", t.Bytes), "history_op": t.Op, "root_public_key": fmt.Sprintf("%x", f.pub)}
			if pan != "" {
				res.Violate("panic:verify", "verification panicked: "+pan, rep)
				continue
			}
			if class != "ok" {
				res.Violate("library-token-rejected:"+t.Op, fmt.Sprintf("a token produced by %s is rejected under the matching root key: %s", t.Op, class), rep)
			}
			// the token object itself, after all later derivations of the family
			if _, err := t.Tok.AuthorizerFor(ks); err != nil {
				res.Violate("library-token-rejected-later:"+t.Op, fmt.Sprintf("a token produced by %s no longer verifies after later derivations from its family: %v", t.Op, err), rep)
			}
			// a caller's key buffer is the caller's: the same token object is verified under the genuine key held in
			// a buffer, then under ANOTHER key written into that same buffer (key rotation), then under the genuine
			// key again; acceptance must follow the key bytes presented at each call, not an earlier call
			{
				kb := append([]byte{}, f.pub...)
				other := ed25519.NewKeyFromSeed(r.Bytes(32)).Public().(ed25519.PublicKey)
				obj := t.Tok
				if fresh, err := unmarshalOwned(t.Bytes); err == nil && ti%2 == 0 {
					obj = fresh // an object nobody has verified yet: its very first verification uses the reusable buffer
				}
				_, e1 := obj.AuthorizerFor(biscuit.WithSingularRootPublicKey(kb))
				copy(kb, other)
				_, e2 := obj.AuthorizerFor(biscuit.WithSingularRootPublicKey(kb))
				copy(kb, f.pub)
				_, e3 := obj.AuthorizerFor(biscuit.WithSingularRootPublicKey(kb))
				rep2 := map[string]interface{}{"token": fmt.Sprintf("%x", t.Bytes), "history_op": t.Op, "root_public_key": fmt.Sprintf("%x", f.pub), "other_key": fmt.Sprintf("%x", other),
					"genuine_key_first": fmt.Sprint(e1), "other_key_in_same_buffer": fmt.Sprint(e2), "genuine_key_again": fmt.Sprint(e3)}
				if e2 == nil {
					res.Violate("forgery-accepted:key-buffer-reused", "a token verified once under its root key is accepted again under a key that never signed it, presented in the same caller buffer", rep2)
				}
				if e1 != nil || e3 != nil {
					res.Violate("library-token-rejected:key-buffer-reused", "a library-built token is rejected under its root key around a verification under another key", rep2)
				}
			}
			f.addVerifyOracle(f.pub, t.C)
			sh.vc = append(sh.vc, fmt.Sprintf("{| vc_keys := KSingular %s; vc_cont := %s; vc_obs := %s |}", coqBytes(f.pub), t.C.coq(), classObs(class)))
			sh.vd = append(sh.vd, "unmutated "+t.Op)
			for _, m := range f.mutations(r, ti) {
				class, _, pan := verifyGo(m.Bytes, ks)
				res.Count(string(m.Bytes), !known[string(m.Bytes)])
				res.Dist("mutation:" + m.Name)
				res.Dist("outcome:" + class)
				rep := map[string]interface{}{"mutation": m.Name, "token": fmt.Sprintf("%x", m.Bytes), "root_public_key": fmt.Sprintf("%x", f.pub), "outcome": class}
				if fi == 0 && ti == 0 {
					res.Sample(rep)
				}
				if pan != "" {
					res.Violate("panic:"+m.Name, "verification of a mutated token panicked: "+pan, rep)
					continue
				}
				mc, err := containerOfBytes(m.Bytes)
				if err != nil {
					continue
				}
				want := refChainValid(f.pub, mc)
				if class == "ok" && !want {
					res.Violate("forgery-accepted:"+m.Name, "the library accepts a token whose signature chain is not valid under the root key", rep)
				}
				blockLevel := strings.HasPrefix(class, "unmarshal:decode") || class == "unmarshal:EMissingSymbols"
				if class != "ok" && want && !blockLevel {
					res.Violate("valid-chain-rejected:"+m.Name, "the library rejects a token whose chain is valid: "+class, rep)
				}
				if blockLevel {
					// rejected while decoding the blocks' content: below the envelope layer (covered by the C10 pipeline model)
					res.Dist("skipped-model:block-decode")
					continue
				}
				f.addVerifyOracle(f.pub, mc)
				sh.vc = append(sh.vc, fmt.Sprintf("{| vc_keys := KSingular %s; vc_cont := %s; vc_obs := %s |}", coqBytes(f.pub), mc.coq(), classObs(class)))
				sh.vd = append(sh.vd, "mutation "+m.Name)
			}
		}
	}
	sh.finish(res)
}

func newFamilyShared(rng *RNG, orc *oracle) *family {
	f := &family{rootSeed: rng.Bytes(32), orc: orc}
	f.priv = ed25519.NewKeyFromSeed(f.rootSeed)
	f.pub = f.priv.Public().(ed25519.PublicKey)
	f.orc.addPub(f.rootSeed)
	return f
}
func genFamilyInto(f *family, rng *RNG, withIDs bool) {
	var rid *uint32
	if withIDs && rng.Chance(70) {
		v := []uint32{0, 1, 7, 1 << 31, 4294967295, uint32(rng.U64())}[rng.Intn(6)]
		rid = &v
	}
	root := f.build(rng, rid)
	live := []int{root}
	steps := 2 + rng.Intn(6)
	for s := 0; s < steps; s++ {
		pi := live[rng.Intn(len(live))]
		var ni int
		var err error
		switch r := rng.Intn(10); {
		case r < 5:
			ni, err = f.append(rng, pi)
		case r < 7:
			ni, err = f.seal(rng, pi)
		default:
			ni, err = f.reload(pi)
		}
		if err == nil && ni >= 0 {
			live = append(live, ni)
		}
	}
	// fork phase: sibling derivations from a parent deep enough for its slices to have spare
	// capacity (3, 5, 6, 7 blocks): extend the deepest attenuable token to such a depth, then
	// append to it twice (and seal it once) — the first sibling must not be affected by the second
	best := -1
	for _, i := range live {
		t := f.toks[i]
		if !t.Sealed && (best < 0 || len(t.Blocks) > len(f.toks[best].Blocks)) {
			best = i
		}
	}
	if best >= 0 {
		want := []int{3, 5, 6}[rng.Intn(3)]
		for len(f.toks[best].Blocks)-1 < want {
			ni, err := f.append(rng, best)
			if err != nil {
				break
			}
			best = ni
		}
		if rng.Chance(50) {
			if ri, err := f.reload(best); err == nil {
				best = ri
			}
		}
		f.append(rng, best)
		f.append(rng, best)
		f.seal(rng, best)
		f.append(rng, best)
	}
}

// frameCheck: a token observed when it was created must be observed identically after every
// later derivation of the family (siblings, seals, reloads)
func (f *family) frameCheck(res *Result, key string) {
	for ti, t := range f.toks {
		now, err := t.Tok.Serialize()
		rep := map[string]interface{}{"token_index": ti, "history_op": t.Op, "bytes_at_creation": fmt.Sprintf("%x", t.Bytes), "bytes_now": fmt.Sprintf("%x", now)}
		if err != nil || !bytes.Equal(now, t.Bytes) {
			res.Violate(key, fmt.Sprintf("a token produced by %s serializes differently after later derivations from its family (a sibling changed it)", t.Op), rep)
		}
	}
}

func rootIDString(p *uint32) string {
	if p == nil {
		return "absent"
	}
	return fmt.Sprint(*p)
}

// ---------------- C16: the root key identifier travels and selects exactly one key ----------------

func runC16(res *Result, rng *RNG, tier string, outDir string) {
	res.Rule = "token families with root key ids {absent, 0, 1, 7, 2^31, 2^32-1, random}: RootKeyID() of every token of the family after every derivation (append, seal, serialize/unmarshal) must equal the id given at creation; key lookup through WithRootPublicKeys with key maps {right id -> right key, right id -> wrong key, only other ids, nil/empty key under the right id} x default {absent, right key, wrong key} and through WithSingularRootPublicKey: the outcome must be that of verifying under exactly the key registered for the token's id (default when the token has none), ErrNoPublicKeyAvailable when there is none. Non-trivial = a derived token (not the root build) or a map lookup with a decoy key; distinct by (token bytes, key source)."
	nfam := 9
	if tier == "thorough" {
		nfam = 280
	}
	sh := newChainShards(outDir, "C16", 3)
	// ONE key source value serves every verification of the run (an application keeps one
	// around): a registry of the families' keys by id plus a default key, filled as families
	// appear.  Its answers must not depend on what it was asked before.
	f0r := rng.Fork()
	f0 := newFamilyShared(f0r, newOracle())
	f0.append(f0r, f0.build(f0r, nil))
	sharedDefault := ed25519.PublicKey(f0.pub)
	sharedMap := map[uint32]ed25519.PublicKey{}
	sharedProj := biscuit.WithRootPublicKeys(sharedMap, &sharedDefault)
	sharedCheck := func(t *famToken, who string) {
		var key []byte
		if t.C.RootID == nil {
			key = sharedDefault
		} else if v, ok := sharedMap[*t.C.RootID]; ok {
			key = v
		}
		class, _, pan := verifyGo(t.Bytes, sharedProj)
		res.Count("shared-source "+who+string(t.Bytes), true)
		res.Dist("shared-source:" + class)
		rep := map[string]interface{}{"token_id": rootIDString(t.C.RootID), "outcome": class, "token": fmt.Sprintf("%x", t.Bytes), "note": "the same WithRootPublicKeys value is used for every token of the run, tokens with and without an id alternating"}
		if pan != "" {
			res.Violate("panic:lookup", "key lookup panicked: "+pan, rep)
			return
		}
		expect := "verify:EInvalidSignature"
		switch {
		case len(key) == 0:
			expect = "verify:ENoPublicKey"
		case refChainValid(key, t.C):
			expect = "ok"
		}
		if class != expect {
			res.Violate("lookup:shared-key-source", fmt.Sprintf("a key source used for several tokens: token id %s gives %s, expected %s (its answer depends on an earlier lookup)", rootIDString(t.C.RootID), class, expect), rep)
		}
	}
	for fi := 0; fi < nfam; fi++ {
		r := rng.Fork()
		f := newFamilyShared(r, sh.nextFamily())
		genFamilyInto(f, r, true)
		if id := f.toks[0].C.RootID; id != nil {
			if _, taken := sharedMap[*id]; !taken {
				sharedMap[*id] = ed25519.PublicKey(f.pub)
			}
		}
		for ti, t := range f.toks {
			sharedCheck(t, "family")
			sharedCheck(f0.toks[ti%len(f0.toks)], "default") // a token without id right after
		}
		sh.cc = append(sh.cc, f.chain...)
		sh.cd = append(sh.cd, f.chainD...)
		wrongSeed := r.Bytes(32)
		wrong := ed25519.NewKeyFromSeed(wrongSeed).Public().(ed25519.PublicKey)
		for _, t := range f.toks {
			want := f.toks[0].RootID
			got := t.Tok.RootKeyID()
			rep := map[string]interface{}{"history_op": t.Op, "id_at_creation": rootIDString(want), "id_reported": rootIDString(got), "token": fmt.Sprintf("%x", t.Bytes)}
			res.Count("id "+string(t.Bytes), t.Op != "build")
			res.Dist("derivation:" + t.Op)
			res.Dist("id:" + map[bool]string{true: "absent", false: "present"}[want == nil])
			if (want == nil) != (got == nil) || (want != nil && *want != *got) {
				res.Violate("id-lost:"+t.Op, fmt.Sprintf("root key id %s given at creation, %s reported after %s", rootIDString(want), rootIDString(got), t.Op), rep)
			}
			// key-lookup panel
			id := t.C.RootID
			type panel struct {
				name string
				m    map[uint32]ed25519.PublicKey
				d    *ed25519.PublicKey
				coq  string
				key  []byte // the key that must be used, nil = none available
			}
			var panels []panel
			mk := func(name string, m map[uint32]ed25519.PublicKey, d *ed25519.PublicKey) {
				items := []string{}
				for k, v := range m {
					items = append(items, fmt.Sprintf("(%d, %s)", k, coqBytes(v)))
				}
				dc := "None"
				if d != nil {
					dc = "(Some " + coqBytes(*d) + ")"
				}
				var key []byte
				if id == nil {
					if d != nil {
						key = *d
					}
				} else if v, ok := m[*id]; ok {
					key = v
				}
				panels = append(panels, panel{name, m, d, fmt.Sprintf("KMap %s %s", coqList(items), dc), key})
			}
			right, wr := ed25519.PublicKey(f.pub), ed25519.PublicKey(wrong)
			var other uint32 = 99
			if id != nil {
				other = *id + 1
				mk("right-id-right-key", map[uint32]ed25519.PublicKey{*id: right, other: wr}, &wr)
				mk("right-id-wrong-key", map[uint32]ed25519.PublicKey{*id: wr, other: right}, &right)
				mk("only-other-ids", map[uint32]ed25519.PublicKey{other: right}, &right)
				mk("empty-key-under-id", map[uint32]ed25519.PublicKey{*id: ed25519.PublicKey{}, other: right}, &right)
			} else {
				mk("no-id-default-right", map[uint32]ed25519.PublicKey{0: wr, 1: wr}, &right)
				mk("no-id-default-wrong", map[uint32]ed25519.PublicKey{0: right}, &wr)
				mk("no-id-no-default", map[uint32]ed25519.PublicKey{0: right, 1: right}, nil)
			}
			for _, p := range panels {
				class, _, pan := verifyGo(t.Bytes, biscuit.WithRootPublicKeys(p.m, p.d))
				res.Count("lookup "+p.name+string(t.Bytes), true)
				res.Dist("lookup:" + p.name)
				res.Dist("lookup-outcome:" + class)
				rep := map[string]interface{}{"panel": p.name, "token_id": rootIDString(id), "outcome": class, "token": fmt.Sprintf("%x", t.Bytes)}
				if fi == 0 {
					res.Sample(rep)
				}
				if pan != "" {
					res.Violate("panic:lookup", "key lookup panicked: "+pan, rep)
					continue
				}
				var expect string
				switch {
				case len(p.key) == 0:
					expect = "verify:ENoPublicKey"
				case refChainValid(p.key, t.C):
					expect = "ok"
				default:
					expect = "verify:EInvalidSignature"
				}
				if class != expect {
					res.Violate("lookup:"+p.name, fmt.Sprintf("key lookup '%s' for token id %s gives %s, expected %s (verification under exactly the registered key)", p.name, rootIDString(id), class, expect), rep)
				}
				if len(p.key) == 32 {
					f.addVerifyOracle(p.key, t.C)
				}
				sh.vc = append(sh.vc, fmt.Sprintf("{| vc_keys := %s; vc_cont := %s; vc_obs := %s |}", p.coq, t.C.coq(), classObs(class)))
				sh.vd = append(sh.vd, "lookup "+p.name)
			}
		}
	}
	sh.finish(res)
}

// ---------------- C17: revocation identifiers ----------------

func runC17(res *Result, rng *RNG, tier string, outDir string) {
	res.Rule = "token families with deliberately identical block contents on the same and on different tokens (fresh randomness per operation): after every derivation the revocation ids are compared with the block signatures found by an independent decode of the serialized token (protobuf-go), with the parent's ids (prefix), with the block count, and for uniqueness across all signing events of the family. Non-trivial = a derived token; distinct by token bytes."
	nfam := 20
	if tier == "thorough" {
		nfam = 600
	}
	var rcases, rdescs []string
	for fi := 0; fi < nfam; fi++ {
		r := rng.Fork()
		f := newFamilyShared(r, newOracle())
		genFamilyInto(f, r, true)
		f.frameCheck(res, "ids-changed-by-sibling")
		f.entropyCheck(res)
		// a sibling with identical content appended twice to the same parent
		if len(f.toks) > 0 {
			p := 0
			blk := simpleBlock(r, 9)
			for k := 0; k < 2; k++ {
				bb := f.toks[p].Tok.CreateBlock()
				fillBlockBuilder(bb, blk)
				if tok, err := f.toks[p].Tok.Append(detReader{r.Fork()}, bb.Build()); err == nil {
					f.add(&famToken{Tok: tok, Parent: p, Op: "append", RootID: f.toks[p].RootID, Blocks: append(append([]SBlock{}, f.toks[p].Blocks...), blk)})
				}
			}
		}
		seen := map[string]string{} // signature -> signing event
		for ti, t := range f.toks {
			ids := t.Tok.RevocationIds()
			rep := map[string]interface{}{"history_op": t.Op, "token": fmt.Sprintf("%x", t.Bytes), "ids": len(ids), "blocks": len(t.C.Blocks) + 1}
			res.Count(string(t.Bytes), t.Op != "build")
			res.Dist("derivation:" + t.Op)
			if fi == 0 && ti < 2 {
				res.Sample(rep)
			}
			sigs := [][]byte{t.C.Auth.Sig}
			for _, b := range t.C.Blocks {
				sigs = append(sigs, b.Sig)
			}
			if len(ids) != len(sigs) {
				res.Violate("count:"+t.Op, fmt.Sprintf("%d revocation ids for %d blocks", len(ids), len(sigs)), rep)
				continue
			}
			for i := range ids {
				if !bytes.Equal(ids[i], sigs[i]) {
					res.Violate("not-the-signature:"+t.Op, fmt.Sprintf("revocation id %d differs from the signature an independent decoder finds on block %d", i, i), rep)
				}
			}
			// the list handed out belongs to the caller: it reorders it (as a caller sorting identifiers for a
			// lookup does) and drops an entry; what the token reports afterwards must not have changed.  Only
			// the LIST is touched, never the bytes of an identifier.
			if len(ids) > 1 {
				mine := ids
				for i, j := 0, len(mine)-1; i < j; i, j = i+1, j-1 {
					mine[i], mine[j] = mine[j], mine[i]
				}
				mine[0] = nil
				again := t.Tok.RevocationIds()
				stable := len(again) == len(sigs)
				for i := 0; stable && i < len(again); i++ {
					stable = bytes.Equal(again[i], sigs[i])
				}
				if !stable {
					res.Violate("unstable-after-caller-reordered-its-list:"+t.Op, "the revocation identifiers a token reports changed after the caller reordered the list a previous call had returned", rep)
				}
				ids = again
			}
			if t.Parent >= 0 {
				pids := f.toks[t.Parent].Tok.RevocationIds()
				if len(pids) > len(ids) {
					res.Violate("prefix:"+t.Op, "a derived token has fewer revocation ids than its parent", rep)
				} else {
					for i := range pids {
						if !bytes.Equal(pids[i], ids[i]) {
							res.Violate("prefix:"+t.Op, fmt.Sprintf("revocation id %d of the parent changed after %s", i, t.Op), rep)
						}
					}
				}
			}
			// uniqueness per signing event: the id introduced by this token (append) or all of them (build)
			newIdx := -1
			if t.Op == "append" {
				newIdx = len(ids) - 1
			} else if t.Op == "build" {
				newIdx = 0
			}
			if newIdx >= 0 {
				ev := fmt.Sprintf("family %d token %d block %d", fi, ti, newIdx)
				if prev, dup := seen[string(ids[newIdx])]; dup {
					res.Violate("duplicate-id", fmt.Sprintf("two signing events share a revocation id: %s and %s", prev, ev), rep)
				}
				seen[string(ids[newIdx])] = ev
			}
			idItems := make([]string, len(ids))
			for i, id := range ids {
				idItems[i] = coqBytes(id)
			}
			rcases = append(rcases, fmt.Sprintf("(%s, %s)", t.C.coq(), coqList(idItems)))
			rdescs = append(rdescs, "revocation ids after "+t.Op)
		}
	}
	WriteShards(res, outDir, "C17", "Base Chain Corr", "", "(container * list bytes)", "fun c => list_eqb bytes_eqb (revocation_ids (fst c)) (snd c)", rcases, 300)
	res.ModelCases = len(rcases)
	res.CaseDescs = rdescs
}

// ---------------- C09: sealing ----------------

func c09CustomBaseTwin(res *Result, f *family, r *RNG) {
	base := []string{"acme-corp", "zz-tenant", "guest"}[:1+r.Intn(3)]
	tbl := datalog.SymbolTable(append([]string{}, base...))
	b := biscuit.NewBuilder(f.priv, biscuit.WithRNG(detReader{r.Fork()}), biscuit.WithSymbols(&tbl))
	words := []string{"guest", "superuser", "acme-corp", "ops", "file1"}
	w := func() string { return words[r.Intn(len(words))] }
	facts := []SPred{{Name: "role", Terms: []STerm{aStr(w())}}, {Name: "admin", Terms: []STerm{aStr(w())}}, {Name: "member", Terms: []STerm{aStr(w()), aStr(w())}}}
	for _, ft := range dedupePreds(facts) {
		b.AddAuthorityFact(biscuit.Fact{Predicate: ft.toBiscuit()})
	}
	tok, err := b.Build()
	if err != nil {
		return
	}
	for k := r.Intn(3); k > 0; k-- {
		bb := tok.CreateBlock()
		bb.AddFact(biscuit.Fact{Predicate: SPred{Name: "seen", Terms: []STerm{aStr(w()), aInt(int64(k))}}.toBiscuit()})
		if r.Bool() {
			bb.AddCheck(SCheck{{Head: SPred{Name: "query"}, Body: []SPred{{Name: "role", Terms: []STerm{aStr(w())}}}}}.toBiscuit())
		}
		t2, err := tok.Append(detReader{r.Fork()}, bb.Build())
		if err != nil {
			return
		}
		tok = t2
	}
	sealed, err := tok.Seal(detReader{r.Fork()})
	if err != nil {
		res.Violate("seal-failed", "sealing a library-built token (custom base symbols) failed: "+err.Error(), map[string]interface{}{"base": base})
		return
	}
	variants := map[string]*biscuit.Biscuit{"sealed": sealed}
	if bs, err := sealed.Serialize(); err == nil {
		t3 := datalog.SymbolTable(append([]string{}, base...))
		if rl, err := unmarshalerOwned(&biscuit.Unmarshaler{Symbols: &t3}, bs); err == nil {
			variants["sealed+reloaded"] = rl
		} else {
			res.Violate("sealed-reload-failed", "a sealed token over a custom base table does not unmarshal with that table: "+err.Error(), map[string]interface{}{"base": base})
		}
	}
	ks := biscuit.WithSingularRootPublicKey(f.pub)
	for pi := 0; pi < 6; pi++ {
		pol := SPolicy{Queries: []SRule{{Head: SPred{Name: "query"}, Body: []SPred{{Name: []string{"role", "admin"}[r.Intn(2)], Terms: []STerm{aStr(w())}}}}}}
		run := func(t *biscuit.Biscuit) string {
			a, err := t.AuthorizerFor(ks, biscuit.WithWorldOptions(longDuration()))
			if err != nil {
				return "create:" + err.Error()
			}
			a.AddPolicy(pol.toBiscuit())
			class, _, failed := classifyVerdict(a.Authorize())
			return class + " " + strings.Join(failed, ",")
		}
		want := run(tok)
		res.Dist("custom-base-twin")
		for vn, v := range variants {
			if got := run(v); got != want {
				res.Violate("sealed-verdict-differs:custom-base:"+vn, fmt.Sprintf("token over base table %q, policy %s: unsealed gives %q, %s gives %q", base, azOp{Kind: "policy", Policy: pol}, want, vn, got),
					map[string]interface{}{"base": base, "unsealed": tok.String(), "variant": v.String()})
			}
		}
	}
}

func runC09(res *Result, rng *RNG, tier string, outDir string) {
	res.Rule = "sealed/unsealed twins from random histories x a panel of authorizer contents: the sealed token must verify under the same root key, give the same verdict for every authorizer of the panel, keep the same revocation ids and root key id, refuse Append and Seal with an error, and all of this again after serialize/unmarshal; sealed envelopes with the seal signature, the last block or the last announced key altered must be rejected. Non-trivial = a twin pair with at least one appended block or a mutated sealed envelope; distinct by token bytes."
	nfam := 40
	if tier == "thorough" {
		nfam = 600
	}
	sh := newChainShards(outDir, "C09", 8)
	for fi := 0; fi < nfam; fi++ {
		r := rng.Fork()
		f := newFamilyShared(r, sh.nextFamily())
		var rid *uint32
		if r.Bool() {
			v := uint32(r.Intn(5))
			rid = &v
		}
		overridePub = f.pub
		cur := f.build(r, rid)
		for k := r.Intn(4); k > 0; k-- {
			if ni, err := f.append(r, cur); err == nil {
				cur = ni
			}
		}
		// the token that gets sealed was, four times out of ten, itself loaded from bytes (a holder receives a token,
		// seals it and passes it on): sealing must not depend on where the token object came from
		if r.Chance(40) {
			if ri, err := f.reload(cur); err == nil {
				cur = ri
				res.Dist("sealed-from:reloaded")
			}
		} else {
			res.Dist("sealed-from:built-or-appended")
		}
		si, err := f.seal(r, cur)
		u, s := f.toks[cur], (*famToken)(nil)
		rep0 := map[string]interface{}{"unsealed": fmt.Sprintf("%x", u.Bytes)}
		if err != nil {
			res.Violate("seal-failed", "sealing a library-built token failed: "+err.Error(), rep0)
			continue
		}
		s = f.toks[si]
		ri, err := f.reload(si)
		if err != nil {
			res.Violate("sealed-reload-failed", "a sealed token does not unmarshal: "+err.Error(), rep0)
			continue
		}
		variants := []*famToken{s, f.toks[ri]}
		res.Count(string(s.Bytes), len(u.C.Blocks) > 0)
		res.Dist(fmt.Sprintf("blocks:%d", len(u.C.Blocks)))
		ks := biscuit.WithSingularRootPublicKey(f.pub)
		for vi, v := range variants {
			vn := []string{"sealed", "sealed+reloaded"}[vi]
			rep := map[string]interface{}{"unsealed": fmt.Sprintf("%x", u.Bytes), "sealed": fmt.Sprintf("%x", v.Bytes), "variant": vn}
			if fi == 0 {
				res.Sample(rep)
			}
			class, _, pan := verifyGo(v.Bytes, ks)
			if pan != "" || class != "ok" {
				res.Violate("sealed-not-verifying:"+vn, "sealed token does not verify under the root key: "+class+pan, rep)
			}
			f.addVerifyOracle(f.pub, v.C)
			sh.vc = append(sh.vc, fmt.Sprintf("{| vc_keys := KSingular %s; vc_cont := %s; vc_obs := %s |}", coqBytes(f.pub), v.C.coq(), classObs(class)))
			sh.vd = append(sh.vd, vn)
			// frozen
			bb := v.Tok.CreateBlock()
			if _, err := v.Tok.Append(detReader{r.Fork()}, bb.Build()); err == nil {
				res.Violate("sealed-append-accepted:"+vn, "Append on a sealed token succeeded", rep)
			}
			if _, err := v.Tok.Seal(detReader{r.Fork()}); err == nil {
				res.Violate("sealed-seal-accepted:"+vn, "Seal on a sealed token succeeded", rep)
			}
			// same ids
			a, b := u.Tok.RevocationIds(), v.Tok.RevocationIds()
			same := len(a) == len(b)
			for i := 0; same && i < len(a); i++ {
				same = bytes.Equal(a[i], b[i])
			}
			if !same {
				res.Violate("sealed-revocation-ids:"+vn, "sealing changed the revocation identifiers", rep)
			}
			if rootIDString(u.Tok.RootKeyID()) != rootIDString(v.Tok.RootKeyID()) {
				res.Violate("sealed-root-id:"+vn, "sealing changed the root key id", rep)
			}
			// same authorization for a panel of authorizers
			for pi := 0; pi < 4; pi++ {
				pr := r.Fork()
				g := &azGen{rng: pr, pg: newProgGen(pr)}
				g.pg.sigs = []predSig{{"right", []int{KStr, KInt}}, {"owner", []int{KStr, KInt}}, {"res", []int{KStr, KInt}}, {"op", []int{KStr}}}
				sc := azScenario{MaxF: 1000, MaxI: 100, Ops: g.authorizerOps()}
				if pi%2 == 0 {
					sc.Ops = append([]azOp{{Kind: "fact", Fact: SPred{Name: "op", Terms: []STerm{aStr("read")}}}}, sc.Ops...)
				}
				sc.Ops = append(sc.Ops, azOp{Kind: "authorize"})
				o1, f1 := runScenarioGo(u.Tok, sc, entryAuthorizerFor)
				o2, f2 := runScenarioGo(v.Tok, sc, entryAuthorizerFor)
				if f1 != "" || f2 != "" {
					res.Violate("sealed-authorizer-creation:"+vn, f1+" / "+f2, rep)
					continue
				}
				v1, v2 := verdictOf(o1), verdictOf(o2)
				res.Dist("panel-verdict:" + strings.SplitN(v1.Class, ":", 2)[0])
				if v1.Class != v2.Class || strings.Join(v1.Failed, ",") != strings.Join(v2.Failed, ",") {
					res.Violate("sealed-verdict-differs:"+vn, fmt.Sprintf("unsealed token gives %s %v, sealed gives %s %v", v1.Class, v1.Failed, v2.Class, v2.Failed), scReplay(sc, o2, rep))
				}
			}
		}
		// a twin issued over a custom base symbol table: sealing must not change what the
		// in-memory token (nor its reloaded copy) authorizes
		if r.Chance(40) {
			c09CustomBaseTwin(res, f, r)
		}
		// tampering with the sealed envelope
		for _, m := range f.mutations(r, si) {
			class, _, pan := verifyGo(m.Bytes, ks)
			res.Count(string(m.Bytes), true)
			res.Dist("tamper:" + m.Name + ":" + class)
			rep := map[string]interface{}{"mutation": m.Name, "token": fmt.Sprintf("%x", m.Bytes), "outcome": class}
			if pan != "" {
				res.Violate("panic:"+m.Name, "verification panicked: "+pan, rep)
				continue
			}
			mc, err := containerOfBytes(m.Bytes)
			if err != nil {
				continue
			}
			if class == "ok" && !refChainValid(f.pub, mc) {
				res.Violate("tampered-sealed-accepted:"+m.Name, "an altered sealed token is accepted", rep)
			}
			if strings.HasPrefix(class, "unmarshal:decode") || class == "unmarshal:EMissingSymbols" {
				continue
			}
			f.addVerifyOracle(f.pub, mc)
			sh.vc = append(sh.vc, fmt.Sprintf("{| vc_keys := KSingular %s; vc_cont := %s; vc_obs := %s |}", coqBytes(f.pub), mc.coq(), classObs(class)))
			sh.vd = append(sh.vd, "tamper "+m.Name)
		}
		// model: Append/Seal on the sealed container are refused
		sh.cc = append(sh.cc, f.chain...)
		sh.cd = append(sh.cd, f.chainD...)
		sh.cc = append(sh.cc, fmt.Sprintf("{| cc_op := OpSeal (%s); cc_src := []; cc_obs := OErr ESealed |}", s.C.coq()),
			fmt.Sprintf("{| cc_op := OpAppend (%s) []; cc_src := %s; cc_obs := OErr ESealed |}", s.C.coq(), coqBytes(r.Bytes(40))))
		sh.cd = append(sh.cd, "seal on sealed", "append on sealed")
	}
	overridePub = nil
	sh.finish(res)
}

// chainShards collects the chain/verify cases of a few families at a time, each group with its
// own oracle tables, and writes one Cases file per group (evaluated in parallel by the check).
type chainShards struct {
	outDir, prop   string
	famPer, nfam   int
	orc            *oracle
	cc, cd, vc, vd []string
	groups         []map[string]interface{}
	descs          []string
	total, k       int
}

func newChainShards(outDir, prop string, famPer int) *chainShards {
	return &chainShards{outDir: outDir, prop: prop, famPer: famPer, orc: newOracle()}
}

func (s *chainShards) nextFamily() *oracle {
	if s.nfam == s.famPer {
		s.flush()
	}
	s.nfam++
	return s.orc
}

func (s *chainShards) flush() {
	cf := NewCasesFile("Base Chain Corr")
	cf.Raw(s.orc.coq(""))
	cf.Raw("Definition ccases : list chain_case := [\n  " + joinLines(s.cc) + "].\n")
	cf.Raw("Definition vcases : list verify_case := [\n  " + joinLines(s.vc) + "].\n")
	cf.Raw("Definition Mchain := Eval vm_compute in mismatches (chain_ok pub_tbl sign_tbl) ccases.\nPrint Mchain.\n")
	cf.Raw("Definition Mverify := Eval vm_compute in mismatches (verify_ok pub_tbl ver_tbl) vcases.\nPrint Mverify.\n")
	name := fmt.Sprintf("Cases_%s_%03d.v", s.prop, s.k)
	cf.WriteTo(s.outDir, name)
	s.groups = append(s.groups, map[string]interface{}{"file": name, "sizes": []int{len(s.cc), len(s.vc)}})
	s.descs = append(append(s.descs, s.cd...), s.vd...)
	s.total += len(s.cc) + len(s.vc)
	s.k++
	s.orc, s.cc, s.cd, s.vc, s.vd, s.nfam = newOracle(), nil, nil, nil, nil, 0
}

func (s *chainShards) finish(res *Result) {
	if s.nfam > 0 || s.k == 0 {
		s.flush()
	}
	res.ModelCases = s.total
	res.CaseDescs = s.descs
	res.Extra["groups"] = s.groups
}
