package main

import (
	"crypto/sha256"
	"encoding/hex"
	"encoding/json"
	"fmt"
	"os"
	"path/filepath"
	"sort"
	"strconv"
	"strings"

	biscuit "github.com/biscuit-auth/biscuit-go/v2"
)

// ---------- PRNG: every random choice derives from VERIF_SEED ----------

type RNG struct{ s uint64 }

func NewRNG(seed uint64) *RNG { return &RNG{s: seed ^ 0x9E3779B97F4A7C15} }
func (r *RNG) U64() uint64 {
	r.s += 0x9E3779B97F4A7C15
	z := r.s
	z = (z ^ (z >> 30)) * 0xBF58476D1CE4E5B9
	z = (z ^ (z >> 27)) * 0x94D049BB133111EB
	return z ^ (z >> 31)
}
func (r *RNG) Intn(n int) int {
	if n <= 0 {
		return 0
	}
	return int(r.U64() % uint64(n))
}
func (r *RNG) Bool() bool        { return r.U64()&1 == 1 }
func (r *RNG) Chance(p int) bool { return r.Intn(100) < p }
func (r *RNG) Bytes(n int) []byte {
	b := make([]byte, n)
	for i := range b {
		b[i] = byte(r.U64())
	}
	return b
}
func (r *RNG) Fork() *RNG { return NewRNG(r.U64()) }

// detReader is a deterministic io.Reader over a PRNG (a healthy random source)
type detReader struct{ r *RNG }

func (d detReader) Read(p []byte) (int, error) {
	for i := range p {
		p[i] = byte(d.r.U64())
	}
	return len(p), nil
}

// ---------- Gallina literal printing ----------

func coqBytes(b []byte) string {
	if len(b) == 0 {
		return "[]"
	}
	var sb strings.Builder
	sb.WriteByte('[')
	for i, c := range b {
		if i > 0 {
			sb.WriteByte(';')
		}
		sb.WriteString(strconv.Itoa(int(c)))
	}
	sb.WriteByte(']')
	return sb.String()
}
func coqStr(s string) string { return coqBytes([]byte(s)) }
func coqList(items []string) string {
	if len(items) == 0 {
		return "[]"
	}
	return "[" + strings.Join(items, "; ") + "]"
}
func coqOptN(p *uint32) string {
	if p == nil {
		return "None"
	}
	return fmt.Sprintf("(Some %d)", *p)
}
func coqZ(i int64) string {
	if i < 0 {
		return fmt.Sprintf("(%d)%%Z", i)
	}
	return fmt.Sprintf("%d%%Z", i)
}
func coqBool(b bool) string {
	if b {
		return "true"
	}
	return "false"
}

// ---------- run result, consumed by ./check ----------

type Violation struct {
	Key    string      `json:"key"`    // canonical witness key (matched against KNOWN_FINDINGS.txt)
	Desc   string      `json:"desc"`   // human readable
	Replay interface{} `json:"replay"` // the concrete input / history
}

type Result struct {
	Property           string                 `json:"property"`
	Tier               string                 `json:"tier"`
	Seed               uint64                 `json:"seed"`
	Evaluations        int                    `json:"evaluations"`
	DistinctNontrivial int                    `json:"distinct_nontrivial"`
	Rule               string                 `json:"rule"`
	Samples            []interface{}          `json:"samples"`
	Distribution       map[string]int         `json:"distribution"`
	Violations         []Violation            `json:"violations"` // property-directed oracle hits on the implementation
	ModelCases         int                    `json:"model_cases"`
	CaseDescs          []string               `json:"case_descs"` // one per model case, to explain a mismatch index
	Exhaustive         bool                   `json:"exhaustive"`
	Extra              map[string]interface{} `json:"extra,omitempty"`

	distinct map[string]bool
}

func NewResult(prop, tier string, seed uint64) *Result {
	return &Result{Property: prop, Tier: tier, Seed: seed, Distribution: map[string]int{}, distinct: map[string]bool{}, Extra: map[string]interface{}{}}
}

// Count records one evaluation; canon is the canonical form used for
// distinctness, nontrivial says whether it meets the property's rule.
func (r *Result) Count(canon string, nontrivial bool) {
	r.Evaluations++
	if nontrivial {
		h := sha256.Sum256([]byte(canon))
		k := hex.EncodeToString(h[:8])
		if !r.distinct[k] {
			r.distinct[k] = true
			r.DistinctNontrivial++
		}
	}
}
func (r *Result) Dist(k string) { r.Distribution[k]++ }
func (r *Result) Sample(s interface{}) {
	if len(r.Samples) < 5 {
		r.Samples = append(r.Samples, s)
	}
}
func (r *Result) Violate(key, desc string, replay interface{}) {
	// keep one violation per key (the first = smallest by construction of the streams); count all
	r.Dist("violation:" + key)
	for _, v := range r.Violations {
		if v.Key == key {
			return
		}
	}
	r.Violations = append(r.Violations, Violation{key, desc, replay})
}

func (r *Result) Write(dir string) {
	keys := make([]string, 0, len(r.Distribution))
	for k := range r.Distribution {
		keys = append(keys, k)
	}
	sort.Strings(keys)
	b, err := json.MarshalIndent(r, "", " ")
	if err != nil {
		fatal("marshal result: %v", err)
	}
	if err := os.WriteFile(filepath.Join(dir, "result.json"), b, 0o644); err != nil {
		fatal("%v", err)
	}
}

func fatal(format string, a ...interface{}) {
	fmt.Fprintf(os.Stderr, "harness: "+format+"\n", a...)
	os.Exit(3)
}

// CasesFile accumulates a Coq file evaluated by the check with one coqc call.
type CasesFile struct {
	sb    strings.Builder
	n     int
	descs []string
}

func NewCasesFile(imports string) *CasesFile {
	c := &CasesFile{}
	c.sb.WriteString("(* written by the harness; evaluated with vm_compute by ./check *)\n")
	c.sb.WriteString("From BV Require Import " + imports + ".\nOpen Scope N_scope.\n\n")
	return c
}
func (c *CasesFile) Raw(s string) { c.sb.WriteString(s) }
func (c *CasesFile) WriteTo(dir, name string) {
	if err := os.WriteFile(filepath.Join(dir, name), []byte(c.sb.String()), 0o644); err != nil {
		fatal("%v", err)
	}
}

// WriteShards writes the model cases in shards of `shard` cases each (files Cases_<prop>_<k>.v),
// every shard carrying the same preamble; the check evaluates them in parallel and
// maps mismatch indexes back through Extra["groups"].
func WriteShards(res *Result, outDir, prop, imports, preamble, typ, okExpr string, lines []string, shard int) {
	WriteShardsFn(res, outDir, prop, imports, func(int, int) string { return preamble }, typ, okExpr, lines, shard)
}

// WriteShardsFn is WriteShards with a preamble computed per shard (e.g. the oracle tables
// restricted to the cases of that shard).
func WriteShardsFn(res *Result, outDir, prop, imports string, preamble func(start, end int) string, typ, okExpr string, lines []string, shard int) {
	if shard <= 0 {
		shard = len(lines) + 1
	}
	var groups []map[string]interface{}
	k := 0
	for start := 0; start < len(lines) || k == 0; start += shard {
		end := start + shard
		if end > len(lines) {
			end = len(lines)
		}
		cf := NewCasesFile(imports)
		cf.Raw(preamble(start, end))
		cf.Raw("Definition cases : list " + typ + " := [\n  " + joinLines(lines[start:end]) + "].\n")
		cf.Raw("Definition M := Eval vm_compute in mismatches (" + okExpr + ") cases.\nPrint M.\n")
		name := fmt.Sprintf("Cases_%s_%03d.v", prop, k)
		cf.WriteTo(outDir, name)
		groups = append(groups, map[string]interface{}{"file": name, "sizes": []int{end - start}})
		k++
		if end >= len(lines) {
			break
		}
	}
	res.Extra["groups"] = groups
}

// ---- caller-owned buffers ----
// Every byte slice the harness hands to the library (token bytes, snapshot bytes, key material) lives in a
// buffer of its own that the harness OVERWRITES as soon as the call returns, as a caller that reuses a
// receive buffer or a key-rotation buffer would.  A token, authorizer or option value must not keep
// referring to its caller's memory: whatever it reports later has to come from its own copy.
func scribble(b []byte) {
	for i := range b {
		b[i] ^= 0xA5
	}
}

// currentResult: the result of the running property, so that the helpers below can report
var currentResult *Result

func tokenFace(t *biscuit.Biscuit) string {
	defer func() { recover() }()
	bs, err := t.Serialize()
	ids := t.RevocationIds()
	return fmt.Sprintf("%x|%v|%x|%s", bs, err, ids, t.String())
}

func ownedCheck(t *biscuit.Biscuit, err error, before string, orig []byte) {
	if err != nil || t == nil || currentResult == nil {
		return
	}
	after := tokenFace(t)
	if after != before {
		currentResult.Violate("caller-buffer-retained", "a token loaded from a caller's buffer changed (serialized form, revocation identifiers or printed form) when the caller reused that buffer after Unmarshal returned",
			map[string]interface{}{"token": fmt.Sprintf("%x", orig), "before_buffer_reuse": trunc(before, 600), "after_buffer_reuse": trunc(after, 600)})
	}
}

func unmarshalOwned(bs []byte) (*biscuit.Biscuit, error) {
	buf := append([]byte{}, bs...)
	t, err := biscuit.Unmarshal(buf)
	before := ""
	if err == nil {
		before = tokenFace(t)
	}
	scribble(buf)
	ownedCheck(t, err, before, bs)
	return t, err
}

func unmarshalerOwned(u *biscuit.Unmarshaler, bs []byte) (*biscuit.Biscuit, error) {
	buf := append([]byte{}, bs...)
	t, err := u.Unmarshal(buf)
	before := ""
	if err == nil {
		before = tokenFace(t)
	}
	scribble(buf)
	ownedCheck(t, err, before, bs)
	return t, err
}

func loadPoliciesOwned(a biscuit.Authorizer, bs []byte) error {
	buf := append([]byte{}, bs...)
	err := a.LoadPolicies(buf)
	scribble(buf)
	return err
}
