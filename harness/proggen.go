package main

import (
	"fmt"
	"sort"
	"strings"
)

// ---------- random Datalog programs at S level ----------

type predSig struct {
	Name string
	Cols []int // column kinds (KInt / KStr mostly)
}

type progGen struct {
	rng   *RNG
	sigs  []predSig
	names []string
	// the last rule generated with at least one constraint, with its variable typing: a later
	// rule may be its SIBLING (same head, same body, same number of constraints, other constraint
	// content) - the usual way of writing a disjunction
	last      *SRule
	lastQ     *SRule // the last query that had expressions (source of operator twins)
	lastVars  map[string]int
	lastOrder []string
}

var strPool = []string{"a", "b", "file1", "file2", "read", "write", "alice", "bob", "admin", ""}

// publishedDefaults is the default symbol table as the specification publishes it (indexes
// 0..27), written out here independently of the library: every one of them must be carried by
// its published index and never be re-declared in a block's own table.
var publishedDefaults = []string{"read", "write", "resource", "operation", "right", "time", "role", "owner", "tenant",
	"namespace", "user", "team", "service", "admin", "email", "group", "member", "ip_address", "client", "client_ip",
	"domain", "path", "version", "cluster", "node", "hostname", "nonce", "query"}

// defaultCursor walks through the published defaults so that each of them is used (as a string
// constant or a predicate name) within a few dozen generated programs, whatever the seed.
var defaultCursor int

func nextPublishedDefault() string {
	s := publishedDefaults[defaultCursor%len(publishedDefaults)]
	defaultCursor++
	return s
}

var varDefaultCursor int

func nextVarDefault() string {
	s := publishedDefaults[varDefaultCursor%len(publishedDefaults)]
	varDefaultCursor++
	return s
}

// isIdent: usable as a variable name in the text grammar ($name) and at every other level
func isIdent(s string) bool {
	if s == "" {
		return false
	}
	for i := 0; i < len(s); i++ {
		c := s[i]
		if !(c >= 'a' && c <= 'z' || c >= 'A' && c <= 'Z' || c == '_' || i > 0 && c >= '0' && c <= '9') {
			return false
		}
	}
	return true
}

func bytesOfLen(n int, b byte) []byte {
	out := make([]byte, n)
	for i := range out {
		out[i] = b + byte(i)
	}
	return out
}

func newProgGen(rng *RNG) *progGen {
	g := &progGen{rng: rng}
	n := 2 + rng.Intn(4)
	pool := []string{"p", "q", "r", "edge", "right", "owner", "resource", "operation", "user", "t"}
	perm := rng.Perm(len(pool))
	for i := 0; i < n; i++ {
		ar := []int{0, 1, 1, 2, 2, 2, 3}[rng.Intn(7)]
		cols := make([]int, ar)
		for j := range cols {
			cols[j] = []int{KInt, KInt, KStr, KStr, KDate, KBytes, KBool, KSet}[rng.Intn(8)]
			if rng.Chance(75) {
				cols[j] = []int{KInt, KStr}[rng.Intn(2)]
			}
		}
		name := pool[perm[i]]
		if rng.Chance(10) {
			name = nextPublishedDefault()
			for _, sg := range g.sigs {
				if sg.Name == name {
					name = pool[perm[i]]
				}
			}
		}
		g.sigs = append(g.sigs, predSig{name, cols})
	}
	// the same predicate NAME with another arity (its columns a prefix of, or an extension of, an
	// existing signature): facts of different arity are different facts, whatever their prefix
	if rng.Chance(25) && len(g.sigs) > 0 {
		base := g.sigs[rng.Intn(len(g.sigs))]
		var cols []int
		if len(base.Cols) > 0 && rng.Bool() {
			cols = append(cols, base.Cols[:len(base.Cols)-1]...)
		} else if len(base.Cols) < 3 {
			cols = append(append(cols, base.Cols...), []int{KInt, KStr}[rng.Intn(2)])
		}
		if len(cols) != len(base.Cols) {
			g.sigs = append(g.sigs, predSig{base.Name, cols})
		}
	}
	return g
}

func (r *RNG) Perm(n int) []int {
	p := make([]int, n)
	for i := range p {
		p[i] = i
	}
	for i := n - 1; i > 0; i-- {
		j := r.Intn(i + 1)
		p[i], p[j] = p[j], p[i]
	}
	return p
}

func (g *progGen) constant(kind int) STerm {
	r := g.rng
	switch kind {
	case KInt:
		return aInt(int64(r.Intn(6)))
	case KStr:
		if r.Chance(12) {
			return aStr(nextPublishedDefault())
		}
		return aStr(strPool[r.Intn(len(strPool))])
	case KDate:
		return aDate(uint64(1000 + r.Intn(3)))
	case KBytes:
		if r.Chance(6) {
			return aBytes(bytesOfLen(boundarySizes[r.Intn(len(boundarySizes))], byte(r.Intn(3))))
		}
		return aBytes([]byte{byte(r.Intn(3))})
	case KBool:
		return aBool(r.Bool())
	case KSet:
		// sets of every element type; a set of STRINGS holds symbol indexes, which every conversion between two
		// symbol tables (token -> authorizer, block -> token) has to translate without touching the original
		switch r.Intn(7) {
		case 4, 5:
			a, b := strPool[r.Intn(len(strPool))], strPool[r.Intn(len(strPool))]
			if r.Chance(30) {
				b = nextPublishedDefault()
			}
			if r.Chance(30) {
				return aSet(aStr(a), aStr(b), aStr("only in a set"))
			}
			return aSet(aStr(a), aStr(b))
		case 6:
			if r.Bool() {
				return aSet(aDate(uint64(1000+r.Intn(3))), aDate(uint64(1001+r.Intn(3))))
			}
			return aSet(aBool(r.Bool()))
		case 0:
			return aSet(aInt(int64(r.Intn(3))), aInt(int64(3+r.Intn(2))))
		case 1: // elements may repeat, any order: Set.Equal must be an equivalence (fix of Set.Equal)
			return aSet(aInt(int64(r.Intn(3))), aInt(int64(r.Intn(3))))
		case 2:
			return aSet(aInt(int64(r.Intn(2))), aInt(int64(r.Intn(2))), aInt(int64(r.Intn(3))))
		}
		return aSet(aBytes([]byte{byte(r.Intn(2))}))
	}
	return aInt(0)
}

func (g *progGen) fact() SPred {
	s := g.sigs[g.rng.Intn(len(g.sigs))]
	p := SPred{Name: s.Name}
	for _, c := range s.Cols {
		p.Terms = append(p.Terms, g.constant(c))
	}
	return p
}

// rule generates a rule (or a query when head is nil); vars maps variable name -> kind
func (g *progGen) body(maxPreds int) ([]SPred, map[string]int, []string) {
	r := g.rng
	n := 1 + r.Intn(maxPreds)
	vars := map[string]int{}
	var order []string
	var body []SPred
	for i := 0; i < n; i++ {
		s := g.sigs[r.Intn(len(g.sigs))]
		p := SPred{Name: s.Name}
		for _, c := range s.Cols {
			if r.Chance(70) {
				// prefer an existing variable of the same kind (join), else a fresh one
				var cands []string
				for _, v := range order {
					if vars[v] == c {
						cands = append(cands, v)
					}
				}
				var v string
				if len(cands) > 0 && r.Chance(55) {
					v = cands[r.Intn(len(cands))]
				} else {
					v = fmt.Sprintf("x%d", len(order))
					// a variable's name is a symbol like any other: a quarter of the fresh variables are named after
					// a published default symbol (all 28 in turn, so $read — index 0 — and $query — the last one —
					// come up in every run), some after a string or a predicate name the program also uses
					switch {
					case r.Chance(25):
						if d := nextVarDefault(); vars[d] == 0 {
							if _, used := vars[d]; !used {
								v = d
							}
						}
					case r.Chance(8):
						if d := strPool[r.Intn(len(strPool))]; isIdent(d) {
							if _, used := vars[d]; !used {
								v = d
							}
						}
					case r.Chance(8):
						if d := s.Name; isIdent(d) {
							if _, used := vars[d]; !used {
								v = d
							}
						}
					}
					vars[v] = c
					order = append(order, v)
				}
				p.Terms = append(p.Terms, aVar(v))
			} else {
				p.Terms = append(p.Terms, g.constant(c))
			}
		}
		body = append(body, p)
	}
	return body, vars, order
}

func (g *progGen) exprs(vars map[string]int, order []string, errProne bool) []SExpr {
	r := g.rng
	var out []SExpr
	if len(order) == 0 || !r.Chance(35) {
		return out
	}
	n := 1 + r.Intn(2)
	for i := 0; i < n; i++ {
		v := order[r.Intn(len(order))]
		val := func(t STerm) SOp { return SOp{Kind: 0, Val: t} }
		bin := func(o int) SOp { return SOp{Kind: 2, Bin: o} }
		if r.Chance(10) {
			// an expression whose value is not a boolean (not an error: the tuple is simply not
			// accepted — only the boolean true satisfies a constraint)
			switch {
			case vars[v] == KInt && r.Bool():
				out = append(out, SExpr{val(aVar(v)), val(aInt(1)), bin(9)})
			case vars[v] == KStr && r.Bool():
				out = append(out, SExpr{val(aVar(v)), SOp{Kind: 1, Un: 2}})
			case r.Bool():
				out = append(out, SExpr{val(aVar(v))})
			default:
				out = append(out, SExpr{val([]STerm{aInt(5), aStr("true"), aSet(aInt(1))}[r.Intn(3)])})
			}
			continue
		}
		switch vars[v] {
		case KInt:
			switch r.Intn(5) {
			case 0:
				out = append(out, SExpr{val(aVar(v)), val(aInt(int64(r.Intn(6)))), bin(r.Intn(5))})
			case 1:
				out = append(out, SExpr{val(aVar(v)), val(aInt(1)), bin(9), val(aInt(int64(r.Intn(6)))), bin(1)})
			case 2:
				out = append(out, SExpr{val(aSet(aInt(1), aInt(2), aInt(3))), val(aVar(v)), bin(5)})
			case 3:
				if errProne {
					out = append(out, SExpr{val(aInt(10)), val(aVar(v)), bin(12), val(aInt(2)), bin(2)})
				} else {
					out = append(out, SExpr{val(aVar(v)), val(aInt(2)), bin(11), val(aInt(4)), bin(3)})
				}
			default:
				out = append(out, SExpr{val(aVar(v)), val(aInt(3)), bin(0), SOp{Kind: 1, Un: 0}})
			}
		case KStr:
			switch r.Intn(4) {
			case 0:
				out = append(out, SExpr{val(aVar(v)), val(aStr(strPool[r.Intn(len(strPool))])), bin(4)})
			case 1:
				out = append(out, SExpr{val(aVar(v)), val(aStr("file")), bin(6)})
			case 2:
				out = append(out, SExpr{val(aVar(v)), val(aStr("x")), bin(9), val(aStr("ax")), bin(4), SOp{Kind: 1, Un: 1}})
			default:
				out = append(out, SExpr{val(aVar(v)), SOp{Kind: 1, Un: 2}, val(aInt(3)), bin(2)})
			}
		case KSet:
			// operations on a set bound through a variable (the value then belongs to a fact):
			// intersection / union with a constant on either side, membership, self-equality
			k := aSet(aInt(int64(1+r.Intn(3))), aInt(int64(2+r.Intn(3))))
			switch r.Intn(6) {
			case 0:
				out = append(out, SExpr{val(aVar(v)), val(k), bin(15), SOp{Kind: 1, Un: 2}, val(aInt(int64(r.Intn(3)))), bin(r.Intn(5))})
			case 1:
				out = append(out, SExpr{val(k), val(aVar(v)), bin(15), SOp{Kind: 1, Un: 2}, val(aInt(int64(r.Intn(3)))), bin(r.Intn(5))})
			case 2:
				out = append(out, SExpr{val(aVar(v)), val(k), bin(16), SOp{Kind: 1, Un: 2}, val(aInt(int64(1 + r.Intn(4)))), bin(r.Intn(5))})
			case 3:
				out = append(out, SExpr{val(aVar(v)), val(aInt(int64(r.Intn(4)))), bin(5)})
			case 4:
				out = append(out, SExpr{val(aVar(v)), val(k), bin(15), val(aInt(int64(1 + r.Intn(3)))), bin(5)})
			default:
				out = append(out, SExpr{val(aVar(v)), val(aVar(v)), bin(4)})
			}
		default:
			if errProne {
				out = append(out, SExpr{val(aVar(v)), val(aInt(1)), bin(0)}) // ill-typed comparison
			} else {
				out = append(out, SExpr{val(aVar(v)), val(aVar(v)), bin(4)})
			}
		}
	}
	return out
}

// operatorTwin: the same rule with ONE binary operator replaced by its sibling over the same operand types
// (< / >, <= / >=, starts_with / ends_with, && / ||, intersection / union): two rules, checks or queries that
// differ in nothing but the KIND of one operator are different content
var twinOp = map[int]int{0: 2, 2: 0, 1: 3, 3: 1, 6: 7, 7: 6, 13: 14, 14: 13, 15: 16, 16: 15}

func operatorTwin(r *RNG, src SRule) (SRule, bool) {
	type pos struct{ e, o int }
	var ps []pos
	for ei, e := range src.Exprs {
		for oi, op := range e {
			if op.Kind == 2 {
				if _, ok := twinOp[op.Bin]; ok {
					ps = append(ps, pos{ei, oi})
				}
			}
		}
	}
	if len(ps) == 0 {
		return src, false
	}
	p := ps[r.Intn(len(ps))]
	out := SRule{Head: src.Head, Body: src.Body}
	for ei, e := range src.Exprs {
		ne := append(SExpr{}, e...)
		if ei == p.e {
			ne[p.o].Bin = twinOp[ne[p.o].Bin]
		}
		out.Exprs = append(out.Exprs, ne)
	}
	return out, true
}

func (g *progGen) rule(errProne bool) SRule {
	r := g.rng
	if g.last != nil && r.Chance(8) {
		if tw, ok := operatorTwin(r, *g.last); ok {
			return tw
		}
	}
	if g.last != nil && r.Chance(18) {
		for try := 0; try < 60; try++ {
			es := g.exprs(g.lastVars, g.lastOrder, errProne)
			if len(es) == len(g.last.Exprs) && fmt.Sprint(es) != fmt.Sprint(g.last.Exprs) {
				return SRule{Head: g.last.Head, Body: g.last.Body, Exprs: es}
			}
		}
	}
	body, vars, order := g.body(3)
	hs := g.sigs[r.Intn(len(g.sigs))]
	if r.Chance(40) { // recursion: head predicate is one of the body predicates
		for _, s := range g.sigs {
			if s.Name == body[r.Intn(len(body))].Name {
				hs = s
			}
		}
	}
	head := SPred{Name: hs.Name}
	for _, c := range hs.Cols {
		var cands []string
		for _, v := range order {
			if vars[v] == c {
				cands = append(cands, v)
			}
		}
		switch {
		case len(cands) > 0 && r.Chance(80):
			head.Terms = append(head.Terms, aVar(cands[r.Intn(len(cands))]))
		case errProne && r.Chance(15):
			head.Terms = append(head.Terms, aVar("unbound"))
		default:
			head.Terms = append(head.Terms, g.constant(c))
		}
	}
	out := SRule{Head: head, Body: body, Exprs: g.exprs(vars, order, errProne)}
	if len(out.Exprs) > 0 {
		cp := out
		g.last, g.lastVars, g.lastOrder = &cp, vars, order
	}
	return out
}

func (g *progGen) query(errProne bool) SRule {
	body, vars, order := g.body(2)
	head := SPred{Name: "query"}
	if g.rng.Chance(50) {
		for _, v := range order {
			if g.rng.Bool() {
				head.Terms = append(head.Terms, aVar(v))
			}
		}
	}
	if g.lastQ != nil && g.rng.Chance(10) {
		if tw, ok := operatorTwin(g.rng, *g.lastQ); ok {
			return tw
		}
	}
	q := SRule{Head: head, Body: body, Exprs: g.exprs(vars, order, errProne)}
	if len(q.Exprs) > 0 {
		cp := q
		g.lastQ = &cp
	}
	if g.rng.Chance(8) { // expression-only query
		q = SRule{Head: SPred{Name: "query"}, Exprs: []SExpr{{{Kind: 0, Val: aInt(1)}, {Kind: 0, Val: aInt(int64(g.rng.Intn(3)))}, {Kind: 2, Bin: 0}}}}
	}
	return q
}

// ---------- reference least-fixpoint evaluator (independent of the library) ----------

type refWorld struct {
	facts []SPred
	index map[string]bool
}

// predKey identifies a fact up to the equality the engine uses: for a set term that is its
// length together with its distinct elements (same length and mutual inclusion = Set.Equal).
func predKey(p SPred) string {
	parts := make([]string, len(p.Terms))
	for i, t := range p.Terms {
		if !t.IsSet {
			parts[i] = t.String()
			continue
		}
		seen := map[string]bool{}
		var el []string
		for _, a := range t.Set {
			k := a.String()
			if !seen[k] {
				seen[k] = true
				el = append(el, k)
			}
		}
		sort.Strings(el)
		parts[i] = fmt.Sprintf("set%d{%s}", len(t.Set), strings.Join(el, ","))
	}
	return p.Name + "(" + strings.Join(parts, ";") + ")"
}

func (w *refWorld) add(p SPred) bool {
	k := predKey(p)
	if w.index[k] {
		return false
	}
	w.index[k] = true
	w.facts = append(w.facts, p)
	return true
}

type refOutcome struct {
	exprError   bool // some expression evaluation raised an error for some candidate tuple
	invalidRule bool // some head variable was unbound for a satisfying tuple
	setsInFacts bool // a set term occurs in a fact (Set.Equal is not an equivalence on lists with repeats)
}

func termMatches(pat, f STerm) bool {
	if pat.Kind() == KVar || f.Kind() == KVar {
		return true
	}
	return termEqualRef(pat, f)
}
func termEqualRef(a, b STerm) bool {
	if a.IsSet != b.IsSet {
		return false
	}
	if a.IsSet {
		if len(a.Set) != len(b.Set) {
			return false
		}
		incl := func(p, q []SAtom) bool {
			for _, x := range p {
				found := false
				for _, y := range q {
					if atomEq(x, y) {
						found = true
					}
				}
				if !found {
					return false
				}
			}
			return true
		}
		// an equivalence: same length and mutual inclusion
		return incl(a.Set, b.Set) && incl(b.Set, a.Set)
	}
	return atomEq(a.A, b.A)
}

// derive returns all head instances of rule r over facts (as a set), noting error conditions
func refDerive(r SRule, facts []SPred, out *refOutcome) []SPred {
	var res []SPred
	var rec func(i int, bind map[string]STerm)
	rec = func(i int, bind map[string]STerm) {
		if i == len(r.Body) {
			for _, e := range r.Exprs {
				v := refEval(e, bind)
				if v.Err != "" {
					out.exprError = true
					return
				}
				if v.Val.IsSet || v.Val.A.Kind != KBool || !v.Val.A.B {
					return
				}
			}
			h := SPred{Name: r.Head.Name}
			for _, t := range r.Head.Terms {
				if t.Kind() == KVar {
					b, ok := bind[t.A.S]
					if !ok {
						out.invalidRule = true
						return
					}
					h.Terms = append(h.Terms, b)
				} else {
					h.Terms = append(h.Terms, t)
				}
			}
			res = append(res, h)
			return
		}
		p := r.Body[i]
		for _, f := range facts {
			if f.Name != p.Name || len(f.Terms) != len(p.Terms) {
				continue
			}
			nb := map[string]STerm{}
			for k, v := range bind {
				nb[k] = v
			}
			ok := true
			for j, pt := range p.Terms {
				if pt.Kind() == KVar {
					if ex, has := nb[pt.A.S]; has {
						if !termEqualRef(f.Terms[j], ex) {
							ok = false
							break
						}
					} else {
						nb[pt.A.S] = f.Terms[j]
					}
				} else if !termMatches(pt, f.Terms[j]) {
					ok = false
					break
				}
			}
			if ok {
				rec(i+1, nb)
			}
		}
	}
	if len(r.Body) > 0 && len(facts) == 0 {
		return nil
	}
	rec(0, map[string]STerm{})
	return res
}

// refClosure computes the least model (bounded by cap facts); rounds = number of growing rounds
func refClosure(facts []SPred, rules []SRule, cap int) (w *refWorld, rounds int, out refOutcome, capped bool) {
	w = &refWorld{index: map[string]bool{}}
	for _, f := range facts {
		w.add(f)
		for _, t := range f.Terms {
			if t.IsSet {
				out.setsInFacts = false
			}
		}
	}
	for {
		var nf []SPred
		for _, r := range rules {
			nf = append(nf, refDerive(r, w.facts, &out)...)
		}
		grew := false
		for _, f := range nf {
			if w.add(f) {
				grew = true
				for _, t := range f.Terms {
					if t.IsSet {
						out.setsInFacts = false
					}
				}
			}
		}
		if !grew {
			return w, rounds, out, false
		}
		rounds++
		if len(w.facts) > cap {
			return w, rounds, out, true
		}
	}
}

func predSetDiff(a, b []SPred) (onlyA, onlyB []string) {
	ka, kb := map[string]bool{}, map[string]bool{}
	for _, p := range a {
		ka[predKey(p)] = true
	}
	for _, p := range b {
		kb[predKey(p)] = true
	}
	for k := range ka {
		if !kb[k] {
			onlyA = append(onlyA, k)
		}
	}
	for k := range kb {
		if !ka[k] {
			onlyB = append(onlyB, k)
		}
	}
	sort.Strings(onlyA)
	sort.Strings(onlyB)
	return
}

func rulesString(rs []SRule) string {
	parts := make([]string, len(rs))
	for i, r := range rs {
		parts[i] = r.String()
	}
	return strings.Join(parts, "; ")
}
func predsString(ps []SPred) string {
	parts := make([]string, len(ps))
	for i, p := range ps {
		parts[i] = p.String()
	}
	return strings.Join(parts, "; ")
}
