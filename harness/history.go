package main

import (
	"bytes"
	"crypto/ed25519"
	"errors"
	"fmt"
	"io"
	"sort"
	"strings"

	biscuit "github.com/biscuit-auth/biscuit-go/v2"
	"github.com/biscuit-auth/biscuit-go/v2/datalog"
	"github.com/biscuit-auth/biscuit-go/v2/pb"
	"google.golang.org/protobuf/proto"
)

func init() {
	runners["C07"] = runC07
	runners["C08"] = runC08
}

// ---------- D-level printing ----------

func dAtomCoq(t datalog.Term) string {
	switch v := t.(type) {
	case datalog.Variable:
		return fmt.Sprintf("DVar %d", uint32(v))
	case datalog.Integer:
		return "DInt " + coqZ(int64(v))
	case datalog.String:
		return fmt.Sprintf("DStr %d", uint64(v))
	case datalog.Date:
		return fmt.Sprintf("DDate %d", uint64(v))
	case datalog.Bytes:
		return "DBytes " + coqBytes(v)
	case datalog.Bool:
		return "DBool " + coqBool(bool(v))
	}
	return "?"
}
func dTermCoq(t datalog.Term) string {
	if s, ok := t.(datalog.Set); ok {
		items := make([]string, len(s))
		for i, e := range s {
			items[i] = dAtomCoq(e)
		}
		return "DSet " + coqList(items)
	}
	return "DA (" + dAtomCoq(t) + ")"
}
func dPredCoq(p datalog.Predicate) string {
	ts := make([]string, len(p.Terms))
	for i, t := range p.Terms {
		ts[i] = dTermCoq(t)
	}
	return fmt.Sprintf("{| dp_name := %d; dp_terms := %s |}", uint64(p.Name), coqList(ts))
}
func dExprCoq(e datalog.Expression) string {
	ops := make([]string, len(e))
	for i, o := range e {
		switch v := o.(type) {
		case datalog.Value:
			ops[i] = "DOVal (" + dTermCoq(v.ID) + ")"
		case datalog.UnaryOp:
			ops[i] = "DOUn " + unNames[v.UnaryOpFunc.Type()]
		case datalog.BinaryOp:
			ops[i] = "DOBin " + binNames[v.BinaryOpFunc.Type()]
		}
	}
	return coqList(ops)
}
func dRuleCoq(r datalog.Rule) string {
	body := make([]string, len(r.Body))
	for i, p := range r.Body {
		body[i] = dPredCoq(p)
	}
	es := make([]string, len(r.Expressions))
	for i, e := range r.Expressions {
		es[i] = dExprCoq(e)
	}
	return fmt.Sprintf("{| dr_head := %s; dr_body := %s; dr_exprs := %s |}", dPredCoq(r.Head), coqList(body), coqList(es))
}
func symsCoq(s datalog.SymbolTable) string {
	items := make([]string, len(s))
	for i, x := range s {
		items[i] = coqStr(x)
	}
	return coqList(items)
}
func dBlockCoq(b *biscuit.Block) string {
	syms, facts, rules, checks, ctx, ver := biscuit.VerifBlockContent(b)
	fs := make([]string, len(facts))
	for i, f := range facts {
		fs[i] = dPredCoq(f.Predicate)
	}
	rs := make([]string, len(rules))
	for i, r := range rules {
		rs[i] = dRuleCoq(r)
	}
	cs := make([]string, len(checks))
	for i, c := range checks {
		qs := make([]string, len(c.Queries))
		for j, q := range c.Queries {
			qs[j] = dRuleCoq(q)
		}
		cs[i] = coqList(qs)
	}
	return fmt.Sprintf("{| db_symbols := %s; db_context := %s; db_version := %d; db_facts := %s; db_rules := %s; db_checks := %s |}",
		symsCoq(syms), coqStr(ctx), ver, coqList(fs), coqList(rs), coqList(cs))
}
func tokenCoq(t *biscuit.Biscuit) string {
	auth, blocks, syms := biscuit.VerifTokenBlocks(t)
	bl := make([]string, len(blocks))
	for i, b := range blocks {
		bl[i] = dBlockCoq(b)
	}
	return fmt.Sprintf("{| tk_authority := %s; tk_blocks := %s; tk_symbols := %s; tk_container := %s |}",
		dBlockCoq(auth), coqList(bl), symsCoq(syms), containerOf(t).coq())
}

// ---------- histories ----------

type hOp struct {
	Kind  string
	I, J  int
	Base  []string
	RID   *uint32
	Fact  SPred
	Rule  SRule
	Check SCheck
	Str   string
	Src   []byte
}

func (o hOp) coq() string {
	switch o.Kind {
	case "newbuilder":
		items := make([]string, len(o.Base))
		for i, s := range o.Base {
			items[i] = coqStr(s)
		}
		return fmt.Sprintf("HNewBuilder %s %s", coqList(items), coqOptN(o.RID))
	case "bufact":
		return fmt.Sprintf("HBuAddFact %d%%nat %s", o.I, o.Fact.coq())
	case "burule":
		return fmt.Sprintf("HBuAddRule %d%%nat %s", o.I, o.Rule.coq())
	case "bucheck":
		return fmt.Sprintf("HBuAddCheck %d%%nat %s", o.I, o.Check.coq())
	case "buctx":
		return fmt.Sprintf("HBuSetContext %d%%nat %s", o.I, coqStr(o.Str))
	case "bubuild":
		return fmt.Sprintf("HBuBuild %d%%nat %s", o.I, coqBytes(o.Src))
	case "createblock":
		return fmt.Sprintf("HCreateBlock %d%%nat", o.I)
	case "bbfact":
		return fmt.Sprintf("HBbAddFact %d%%nat %s", o.I, o.Fact.coq())
	case "bbrule":
		return fmt.Sprintf("HBbAddRule %d%%nat %s", o.I, o.Rule.coq())
	case "bbcheck":
		return fmt.Sprintf("HBbAddCheck %d%%nat %s", o.I, o.Check.coq())
	case "bbctx":
		return fmt.Sprintf("HBbSetContext %d%%nat %s", o.I, coqStr(o.Str))
	case "bbbuild":
		return fmt.Sprintf("HBbBuild %d%%nat", o.I)
	case "append":
		return fmt.Sprintf("HAppend %d%%nat %d%%nat %s", o.I, o.J, coqBytes(o.Src))
	case "seal":
		return fmt.Sprintf("HSeal %d%%nat", o.I)
	case "reload":
		return fmt.Sprintf("HReload %d%%nat", o.I)
	case "getblockid":
		return fmt.Sprintf("HGetBlockID %d%%nat %s", o.I, o.Fact.coq())
	}
	return "?"
}
func (o hOp) String() string {
	switch o.Kind {
	case "bufact", "bbfact", "getblockid":
		return fmt.Sprintf("%s(%d, %s)", o.Kind, o.I, o.Fact.String())
	case "burule", "bbrule":
		return fmt.Sprintf("%s(%d, %s)", o.Kind, o.I, o.Rule.String())
	case "bucheck", "bbcheck":
		return fmt.Sprintf("%s(%d, %s)", o.Kind, o.I, azOp{Kind: "check", Check: o.Check}.String())
	case "append":
		return fmt.Sprintf("append(token %d, block %d)", o.I, o.J)
	case "newbuilder":
		return fmt.Sprintf("newbuilder(base=%v)", o.Base)
	}
	return fmt.Sprintf("%s(%d)", o.Kind, o.I)
}

type hWorld struct {
	priv      ed25519.PrivateKey
	pub       ed25519.PublicKey
	seed      []byte
	builders  []biscuit.Builder
	bbuilders []biscuit.BlockBuilder
	blocks    []*biscuit.Block
	tokens    []*biscuit.Biscuit
	// what each builder's caller supplied (S level), and which builder made which block
	buSupplied  []*SBlock
	bbSupplied  []*SBlock
	bbParent    []int
	blkFrom     []int    // block index -> bbuilder index
	blkSupplied []SBlock // block index -> what its builder held at the time of Build
	blkBuilt    []int    // bbuilder index -> number of Build calls
	tokContent  [][]SBlock
	buBase      [][]string
	tokForeign  []bool // carries a block built for another token's symbol table: content unspecified
	tokReuse    []bool // carries (or derives from a token carrying) a block of a block builder that was built more than once: the recorded finding
	tokBase     [][]string
	orc         *oracle
	unm         *biscuit.Unmarshaler // shared by all the reload operations of the history
	// ONE WithSymbols option value (and one caller-owned table) per base vocabulary, used by every
	// builder of the history that is issued over that vocabulary
	symBuilders map[string]func(src io.Reader, rid *uint32) biscuit.Builder
	symTables   map[string]*datalog.SymbolTable
}

func newHWorld(rng *RNG, orc *oracle) *hWorld {
	w := &hWorld{seed: rng.Bytes(32), orc: orc}
	w.priv = ed25519.NewKeyFromSeed(w.seed)
	w.pub = w.priv.Public().(ed25519.PublicKey)
	orc.addPub(w.seed)
	return w
}

// exec runs one op on the implementation; returns the coq hout
func (w *hWorld) exec(o hOp) (out string, panicked string) {
	defer func() {
		if r := recover(); r != nil {
			panicked = fmt.Sprint(r)
			out = "HPanicked"
		}
	}()
	failOf := func(err error) string {
		if errors.Is(err, biscuit.ErrDuplicateFact) {
			return "HFail EDuplicateFact"
		}
		c := errClass(err)
		if c == "EOther" {
			c = "EConvert"
		}
		return "HFail " + c
	}
	switch o.Kind {
	case "newbuilder":
		var b biscuit.Builder
		opts := []interface{}{}
		_ = opts
		switch {
		case len(o.Base) > 0:
			key := strings.Join(o.Base, "\x00")
			if w.symBuilders == nil {
				w.symBuilders = map[string]func(io.Reader, *uint32) biscuit.Builder{}
				w.symTables = map[string]*datalog.SymbolTable{}
			}
			if w.symBuilders[key] == nil {
				st := datalog.SymbolTable(append([]string{}, o.Base...))
				opt := biscuit.WithSymbols(&st)
				w.symTables[key] = &st
				w.symBuilders[key] = func(src io.Reader, rid *uint32) biscuit.Builder {
					if rid != nil {
						return biscuit.NewBuilder(w.priv, biscuit.WithRNG(src), opt, biscuit.WithRootKeyID(*rid))
					}
					return biscuit.NewBuilder(w.priv, biscuit.WithRNG(src), opt)
				}
			}
			b = w.symBuilders[key](currentSrc, o.RID)
		case o.RID != nil:
			b = biscuit.NewBuilder(w.priv, biscuit.WithRNG(currentSrc), biscuit.WithRootKeyID(*o.RID))
		default:
			b = biscuit.NewBuilder(w.priv, biscuit.WithRNG(currentSrc))
		}
		w.builders = append(w.builders, b)
		w.buBase = append(w.buBase, o.Base)
		w.buSupplied = append(w.buSupplied, &SBlock{})
		return "HDone", ""
	case "bufact":
		if err := w.builders[o.I].AddAuthorityFact(biscuit.Fact{Predicate: o.Fact.toBiscuit()}); err != nil {
			return failOf(err), ""
		}
		w.buSupplied[o.I].Facts = append(w.buSupplied[o.I].Facts, o.Fact)
		return "HDone", ""
	case "burule":
		w.builders[o.I].AddAuthorityRule(o.Rule.toBiscuit())
		w.buSupplied[o.I].Rules = append(w.buSupplied[o.I].Rules, o.Rule)
		return "HDone", ""
	case "bucheck":
		w.builders[o.I].AddAuthorityCheck(o.Check.toBiscuit())
		w.buSupplied[o.I].Checks = append(w.buSupplied[o.I].Checks, o.Check)
		return "HDone", ""
	case "buctx":
		w.builders[o.I].SetContext(o.Str)
		return "HDone", ""
	case "bubuild":
		// the builder's RNG is fixed at creation: rebuild the option through a package-level source
		currentSrc.data, currentSrc.pos = o.Src, 0
		tok, err := buildWithSource(w.builders[o.I])
		if err != nil {
			return failOf(err), ""
		}
		w.tokens = append(w.tokens, tok)
		w.tokContent = append(w.tokContent, []SBlock{cloneSBlock(*w.buSupplied[o.I])})
		w.tokBase = append(w.tokBase, w.buBase[o.I])
		w.tokForeign = append(w.tokForeign, false)
		w.tokReuse = append(w.tokReuse, false)
		w.registerSig(tok)
		return "HDone", ""
	case "createblock":
		w.bbuilders = append(w.bbuilders, w.tokens[o.I].CreateBlock())
		w.bbSupplied = append(w.bbSupplied, &SBlock{})
		w.bbParent = append(w.bbParent, o.I)
		w.blkBuilt = append(w.blkBuilt, 0)
		return "HDone", ""
	case "bbfact":
		if err := w.bbuilders[o.I].AddFact(biscuit.Fact{Predicate: o.Fact.toBiscuit()}); err != nil {
			return failOf(err), ""
		}
		w.bbSupplied[o.I].Facts = append(w.bbSupplied[o.I].Facts, o.Fact)
		return "HDone", ""
	case "bbrule":
		w.bbuilders[o.I].AddRule(o.Rule.toBiscuit())
		w.bbSupplied[o.I].Rules = append(w.bbSupplied[o.I].Rules, o.Rule)
		return "HDone", ""
	case "bbcheck":
		w.bbuilders[o.I].AddCheck(o.Check.toBiscuit())
		w.bbSupplied[o.I].Checks = append(w.bbSupplied[o.I].Checks, o.Check)
		return "HDone", ""
	case "bbctx":
		w.bbuilders[o.I].SetContext(o.Str)
		return "HDone", ""
	case "bbbuild":
		blk := w.bbuilders[o.I].Build()
		w.blkBuilt[o.I]++
		w.blocks = append(w.blocks, blk)
		w.blkFrom = append(w.blkFrom, o.I)
		// a block carries what its builder held when Build was called (not what is added later)
		w.blkSupplied = append(w.blkSupplied, cloneSBlock(*w.bbSupplied[o.I]))
		return "HDone", ""
	case "append":
		fr := &faultReader{data: o.Src, failErr: errInjected}
		tok, err := w.tokens[o.I].Append(fr, w.blocks[o.J])
		if err != nil {
			return failOf(err), ""
		}
		w.tokens = append(w.tokens, tok)
		w.tokContent = append(w.tokContent, append(append([]SBlock{}, w.tokContent[o.I]...), cloneSBlock(w.blkSupplied[o.J])))
		w.tokBase = append(w.tokBase, w.tokBase[o.I])
		{
			_, _, psyms := biscuit.VerifTokenBlocks(w.tokens[w.bbParent[w.blkFrom[o.J]]])
			_, _, tsyms := biscuit.VerifTokenBlocks(w.tokens[o.I])
			same := len(psyms) == len(tsyms)
			for k := 0; same && k < len(psyms); k++ {
				same = psyms[k] == tsyms[k] // (not a Join: the empty string is a legal symbol)
			}
			w.tokForeign = append(w.tokForeign, w.tokForeign[o.I] || !same)
			w.tokReuse = append(w.tokReuse, w.tokReuse[o.I] || w.blkBuilt[w.blkFrom[o.J]] > 1)
		}
		w.registerSig(tok)
		return "HDone", ""
	case "seal":
		tok, err := w.tokens[o.I].Seal(detReader{NewRNG(1)})
		if err != nil {
			return failOf(err), ""
		}
		w.tokens = append(w.tokens, tok)
		w.tokContent = append(w.tokContent, w.tokContent[o.I])
		w.tokBase = append(w.tokBase, w.tokBase[o.I])
		w.tokForeign = append(w.tokForeign, w.tokForeign[o.I])
		w.tokReuse = append(w.tokReuse, w.tokReuse[o.I])
		w.registerSig(tok)
		return "HDone", ""
	case "reload":
		bs, err := w.tokens[o.I].Serialize()
		if err != nil {
			return failOf(err), ""
		}
		// ONE Unmarshaler value serves every reload of a history (an application keeps one
		// around): decoding a token must not change the Unmarshaler nor earlier tokens
		if w.unm == nil {
			w.unm = &biscuit.Unmarshaler{Symbols: &datalog.SymbolTable{}}
		}
		tok, err := unmarshalerOwned(w.unm, bs)
		if err != nil {
			return failOf(err), ""
		}
		w.tokens = append(w.tokens, tok)
		w.tokContent = append(w.tokContent, w.tokContent[o.I])
		w.tokBase = append(w.tokBase, w.tokBase[o.I])
		w.tokForeign = append(w.tokForeign, w.tokForeign[o.I])
		w.tokReuse = append(w.tokReuse, w.tokReuse[o.I])
		return "HDone", ""
	case "getblockid":
		id, err := w.tokens[o.I].GetBlockID(biscuit.Fact{Predicate: o.Fact.toBiscuit()})
		if err != nil {
			return "HIndex None", ""
		}
		return fmt.Sprintf("HIndex (Some %d%%nat)", id), ""
	}
	return "HBad", ""
}

func cloneSBlock(b SBlock) SBlock {
	return SBlock{Facts: append([]SPred{}, b.Facts...), Rules: append([]SRule{}, b.Rules...), Checks: append([]SCheck{}, b.Checks...)}
}

// builders are created with WithRNG(&currentSrc) so that each Build can be given its own source
type srcReader struct {
	data []byte
	pos  int
}

func (s *srcReader) Read(p []byte) (int, error) {
	if s.pos >= len(s.data) {
		return 0, errInjected
	}
	n := copy(p, s.data[s.pos:])
	s.pos += n
	return n, nil
}

var currentSrc = &srcReader{}

func buildWithSource(b biscuit.Builder) (*biscuit.Biscuit, error) { return b.Build() }

// registerSig adds the oracle entries the model needs to reproduce the new token's envelope
func (w *hWorld) registerSig(t *biscuit.Biscuit) {
	c := containerOf(t)
	if c.ProofKind == 0 {
		w.orc.addPub(c.Proof)
	}
	// the last block was signed by the parent's secret (or the root for an authority block):
	// register signatures under every secret known so far — cheap and order-independent
	last := c.last()
	if len(c.Blocks) == 0 {
		w.orc.addSign(w.seed, last.payload())
	}
	for _, s := range w.orc.pkeys {
		if len(c.Blocks) > 0 && bytes.Equal(w.orc.pub[okey(s)], func() []byte {
			if len(c.Blocks) == 1 {
				return c.Auth.Key
			}
			return c.Blocks[len(c.Blocks)-2].Key
		}()) {
			w.orc.addSign(s, last.payload())
		}
		if c.ProofKind == 1 && bytes.Equal(w.orc.pub[okey(s)], last.Key) {
			w.orc.addSign(s, append(last.payload(), last.Sig...))
		}
	}
}

// ---------- history generation ----------

// sweepDefaults makes the next generated history start with a builder that uses all the
// published default symbols (set by the runners for the first history of a run)
var sweepDefaults bool

func genHistoryHooked(rng *RNG, w *hWorld, nOps int, allowRebuild bool, hook func([]hOp, []string)) ([]hOp, []string) {
	pg := newProgGen(rng)
	pg.sigs = []predSig{{"right", []int{KStr, KStr}}, {"owner", []int{KStr}}, {"res", []int{KStr, KInt}}, {"t", []int{KDate, KBytes, KBool}}, {"s", []int{KSet}}, {"user", []int{KInt}}}
	g := &azGen{rng: rng, pg: pg}
	var ops []hOp
	var outs []string
	nBu, nBb, nBlk, nTok := 0, 0, 0, 0
	emit := func(o hOp) string {
		out, pan := w.exec(o)
		_ = pan
		ops = append(ops, o)
		outs = append(outs, out)
		if hook != nil {
			hook(ops, outs)
		}
		return out
	}
	var lastBase []string
	newBuilder := func() {
		o := hOp{Kind: "newbuilder"}
		if lastBase != nil && rng.Chance(50) {
			// the same base vocabulary (and the same option value) as an earlier builder
			o.Base = lastBase
		} else if rng.Chance(25) {
			o.Base = []string{"corp", "tenant_x"}[:1+rng.Intn(2)]
			lastBase = o.Base
		}
		if rng.Chance(30) {
			v := uint32(rng.Intn(4))
			o.RID = &v
		}
		emit(o)
		nBu++
	}
	newBuilder()
	if sweepDefaults {
		// every published default symbol, as a predicate name and as a string constant
		sweepDefaults = false
		for k, d := range publishedDefaults {
			emit(hOp{Kind: "bufact", I: 0, Fact: SPred{Name: d, Terms: []STerm{aStr(publishedDefaults[(k+5)%len(publishedDefaults)]), aInt(int64(k))}}})
		}
	}
	builtBb := map[int]int{}
	// content and its operator twin in the SAME builder: a rule / check, then the same one with one binary
	// operator replaced by its sibling (two different elements that a careless de-duplication would merge),
	// and sometimes an exact repetition (which the caller supplied twice and the block must carry twice)
	ruleWithTwin := func(kind string, i int) {
		ru := pg.rule(false)
		emit(hOp{Kind: kind, I: i, Rule: ru})
		if rng.Chance(30) {
			if tw, ok := operatorTwin(rng, ru); ok {
				emit(hOp{Kind: kind, I: i, Rule: tw})
			}
		}
	}
	checkWithTwin := func(kind string, i int) {
		c := g.freshCheck()
		emit(hOp{Kind: kind, I: i, Check: c})
		if rng.Chance(30) {
			for k := range c {
				if tw, ok := operatorTwin(rng, c[k]); ok {
					c2 := append(SCheck{}, c...)
					c2[k] = tw
					emit(hOp{Kind: kind, I: i, Check: c2})
					break
				}
			}
		}
	}
	for len(ops) < nOps {
		r := rng.Intn(100)
		switch {
		case r < 6:
			newBuilder()
		case r < 22 && nBu > 0:
			i := rng.Intn(nBu)
			switch rng.Intn(4) {
			case 0, 1:
				emit(hOp{Kind: "bufact", I: i, Fact: pg.fact()})
			case 2:
				ruleWithTwin("burule", i)
			default:
				checkWithTwin("bucheck", i)
			}
		case r < 25 && nBu > 0:
			emit(hOp{Kind: "buctx", I: rng.Intn(nBu), Str: []string{"", "ctx", "tenant a"}[rng.Intn(3)]})
		case r < 36 && nBu > 0:
			n := 32 + rng.Intn(3)
			if rng.Chance(5) {
				n = rng.Intn(32)
			}
			if emit(hOp{Kind: "bubuild", I: rng.Intn(nBu), Src: rng.Bytes(n)}) == "HDone" {
				nTok++
			}
		case r < 50 && nTok > 0:
			// several builders from one token before any is filled
			t := rng.Intn(nTok)
			k := 1 + rng.Intn(2)
			for ; k > 0; k-- {
				emit(hOp{Kind: "createblock", I: t})
				nBb++
			}
		case r < 70 && nBb > 0:
			j := rng.Intn(nBb)
			if builtBb[j] > 0 && !allowRebuild {
				continue
			}
			switch rng.Intn(5) {
			case 0, 1:
				emit(hOp{Kind: "bbfact", I: j, Fact: pg.fact()})
			case 2:
				ruleWithTwin("bbrule", j)
			case 3:
				checkWithTwin("bbcheck", j)
			default:
				emit(hOp{Kind: "bbctx", I: j, Str: []string{"", "blockctx"}[rng.Intn(2)]})
			}
		case r < 78 && nBb > 0:
			j := rng.Intn(nBb)
			if builtBb[j] > 0 && !allowRebuild {
				continue
			}
			if emit(hOp{Kind: "bbbuild", I: j}) == "HDone" {
				nBlk++
			}
			builtBb[j]++
		case r < 88 && nTok > 0 && nBlk > 0:
			n := 32 + rng.Intn(2)
			if rng.Chance(5) {
				n = rng.Intn(32)
			}
			if emit(hOp{Kind: "append", I: rng.Intn(nTok), J: rng.Intn(nBlk), Src: rng.Bytes(n)}) == "HDone" {
				nTok++
			}
		case r < 92 && nTok > 0:
			if emit(hOp{Kind: "seal", I: rng.Intn(nTok)}) == "HDone" {
				nTok++
			}
		case r < 96 && nTok > 0:
			ti := rng.Intn(nTok)
			if len(w.tokBase[ti]) > 0 {
				continue // a token issued over a custom base table must be reloaded with that table (Unmarshaler.Symbols)
			}
			if emit(hOp{Kind: "reload", I: ti}) == "HDone" {
				nTok++
			}
		case nTok > 0:
			f := pg.fact()
			switch rng.Intn(4) {
			case 0, 1:
				f = SPred{Name: "fresh" + fmt.Sprint(rng.Intn(5)), Terms: []STerm{aStr("new string " + fmt.Sprint(rng.Intn(9)))}}
			case 2:
				// a predicate the token knows, with a string the token has never seen INSIDE A SET
				f = SPred{Name: f.Name, Terms: []STerm{aSet(aStr("read"), aStr("unseen in set "+fmt.Sprint(rng.Intn(9))))}}
			}
			emit(hOp{Kind: "getblockid", I: rng.Intn(nTok), Fact: f})
		}
	}
	// fork phase: siblings derived from a parent deep enough for its slices to have spare
	// capacity (3, 5 or 6 blocks) — the first sibling must not be affected by the second
	if nTok > 0 {
		// the parent of the fork: the deepest token issued over the default table (the phase reloads
		// with the default table) that carries no foreign or twice-built block
		best := -1
		for i := range w.tokens {
			if len(w.tokBase[i]) == 0 && !w.tokForeign[i] && !w.tokReuse[i] && (best < 0 || len(w.tokContent[i]) > len(w.tokContent[best])) {
				best = i
			}
		}
		sealedTok := func(i int) bool { return containerOf(w.tokens[i]).ProofKind != 0 }
		if best >= 0 && !sealedTok(best) {
			want := []int{3, 5, 6}[rng.Intn(3)]
			grow := func(parent int) int {
				emit(hOp{Kind: "createblock", I: parent})
				j := nBb
				nBb++
				emit(hOp{Kind: "bbfact", I: j, Fact: pg.fact()})
				if rng.Bool() {
					emit(hOp{Kind: "bbcheck", I: j, Check: g.check()})
				}
				if emit(hOp{Kind: "bbbuild", I: j}) != "HDone" {
					return -1
				}
				builtBb[j]++
				b := nBlk
				nBlk++
				if emit(hOp{Kind: "append", I: parent, J: b, Src: rng.Bytes(32)}) != "HDone" {
					return -1
				}
				nTok++
				return nTok - 1
			}
			cur := best
			for cur >= 0 && len(w.tokContent[cur])-1 < want {
				cur = grow(cur)
			}
			if cur >= 0 {
				if rng.Bool() {
					if emit(hOp{Kind: "reload", I: cur}) == "HDone" {
						nTok++
						cur = nTok - 1
					}
				}
				grow(cur)
				grow(cur)
				if emit(hOp{Kind: "seal", I: cur}) == "HDone" {
					nTok++
				}
				grow(cur)
				emit(hOp{Kind: "getblockid", I: cur, Fact: pg.fact()})
			}
		}
	}
	return ops, outs
}

// observation of every live object, for the frame oracle
func (w *hWorld) snapshot() []string {
	var out []string
	for i, t := range w.tokens {
		bs, _ := t.Serialize()
		ids := t.RevocationIds()
		out = append(out, fmt.Sprintf("token %d|%x|%s|%d ids|%s", i, bs, t.String(), len(ids), rootIDString(t.RootKeyID())))
	}
	for i, b := range w.blocks {
		out = append(out, fmt.Sprintf("block %d|%s", i, dBlockCoq(b)))
	}
	// the tables the caller handed to WithSymbols stay the caller's
	var keys []string
	for k := range w.symTables {
		keys = append(keys, k)
	}
	sort.Strings(keys)
	for _, k := range keys {
		out = append(out, fmt.Sprintf("caller table %q|%q", k, []string(*w.symTables[k])))
	}
	return out
}

// ---------- independent decoder (published schema + symbol rules only) ----------

func indepAtom(t *pb.TermV2, syms []string) (SAtom, error) {
	str := func(i uint64) string {
		if i < 1024 {
			if int(i) < len(publishedDefaults) {
				return publishedDefaults[i]
			}
			return fmt.Sprintf("<invalid symbol %d>", i)
		}
		if i-1024 < uint64(len(syms)) {
			return syms[i-1024]
		}
		return fmt.Sprintf("<invalid symbol %d>", i)
	}
	switch c := t.Content.(type) {
	case *pb.TermV2_Variable:
		return SAtom{Kind: KVar, S: str(uint64(c.Variable))}, nil
	case *pb.TermV2_Integer:
		return SAtom{Kind: KInt, I: c.Integer}, nil
	case *pb.TermV2_String_:
		return SAtom{Kind: KStr, S: str(c.String_)}, nil
	case *pb.TermV2_Date:
		return SAtom{Kind: KDate, U: c.Date}, nil
	case *pb.TermV2_Bytes:
		return SAtom{Kind: KBytes, Bytes: c.Bytes}, nil
	case *pb.TermV2_Bool:
		return SAtom{Kind: KBool, B: c.Bool}, nil
	}
	return SAtom{}, errors.New("not an atom")
}
func indepTerm(t *pb.TermV2, syms []string) (STerm, error) {
	if s, ok := t.Content.(*pb.TermV2_Set); ok {
		r := STerm{IsSet: true}
		for _, e := range s.Set.Set {
			a, err := indepAtom(e, syms)
			if err != nil {
				return r, err
			}
			r.Set = append(r.Set, a)
		}
		return r, nil
	}
	a, err := indepAtom(t, syms)
	return STerm{A: a}, err
}
func indepPred(p *pb.PredicateV2, syms []string) (SPred, error) {
	nameT, _ := indepAtom(&pb.TermV2{Content: &pb.TermV2_String_{String_: p.GetName()}}, syms)
	r := SPred{Name: nameT.S}
	for _, t := range p.Terms {
		x, err := indepTerm(t, syms)
		if err != nil {
			return r, err
		}
		r.Terms = append(r.Terms, x)
	}
	return r, nil
}
func indepRule(r *pb.RuleV2, syms []string) (SRule, error) {
	h, err := indepPred(r.Head, syms)
	if err != nil {
		return SRule{}, err
	}
	out := SRule{Head: h}
	for _, p := range r.Body {
		x, err := indepPred(p, syms)
		if err != nil {
			return out, err
		}
		out.Body = append(out.Body, x)
	}
	for _, e := range r.Expressions {
		var se SExpr
		for _, o := range e.Ops {
			switch c := o.Content.(type) {
			case *pb.Op_Value:
				v, err := indepTerm(c.Value, syms)
				if err != nil {
					return out, err
				}
				se = append(se, SOp{Kind: 0, Val: v})
			case *pb.Op_Unary:
				se = append(se, SOp{Kind: 1, Un: int(c.Unary.GetKind())})
			case *pb.Op_Binary:
				// published enum numbers -> datalog numbering
				m := map[pb.OpBinary_Kind]int{pb.OpBinary_LessThan: 0, pb.OpBinary_LessOrEqual: 1, pb.OpBinary_GreaterThan: 2, pb.OpBinary_GreaterOrEqual: 3,
					pb.OpBinary_Equal: 4, pb.OpBinary_Contains: 5, pb.OpBinary_Prefix: 6, pb.OpBinary_Suffix: 7, pb.OpBinary_Regex: 8, pb.OpBinary_Add: 9,
					pb.OpBinary_Sub: 10, pb.OpBinary_Mul: 11, pb.OpBinary_Div: 12, pb.OpBinary_And: 13, pb.OpBinary_Or: 14, pb.OpBinary_Intersection: 15, pb.OpBinary_Union: 16}
				se = append(se, SOp{Kind: 2, Bin: m[c.Binary.GetKind()]})
			}
		}
		out.Exprs = append(out.Exprs, se)
	}
	return out, nil
}

// indepDecode: bytes -> per-block content + contexts + versions, using protobuf-go and the published rules only
func indepDecode(bs []byte, base []string) ([]SBlock, []string, []uint32, error) {
	var c pb.Biscuit
	if err := proto.Unmarshal(bs, &c); err != nil {
		return nil, nil, nil, err
	}
	var pbs []*pb.Block
	for _, sb := range append([]*pb.SignedBlock{c.Authority}, c.Blocks...) {
		var b pb.Block
		if err := proto.Unmarshal(sb.Block, &b); err != nil {
			return nil, nil, nil, err
		}
		pbs = append(pbs, &b)
	}
	syms := append([]string{}, base...)
	var out []SBlock
	var ctxs []string
	var vers []uint32
	for bi, b := range pbs {
		// published symbol rules: a block's own table holds NEW symbols only (no default symbol,
		// nothing an earlier block or the base table declared), and the block is resolved from
		// the base table, the earlier blocks' tables and its own
		for _, s := range b.Symbols {
			for di, d := range publishedDefaults {
				if s == d {
					return nil, nil, nil, fmt.Errorf("block %d re-declares the default symbol %q (published index %d) in its own table %q", bi, s, di, b.Symbols)
				}
			}
			for _, e := range syms {
				if s == e {
					return nil, nil, nil, fmt.Errorf("block %d re-declares the symbol %q that an earlier table already holds", bi, s)
				}
			}
			syms = append(syms, s)
		}
		var sb SBlock
		for _, f := range b.FactsV2 {
			p, err := indepPred(f.Predicate, syms)
			if err != nil {
				return nil, nil, nil, err
			}
			sb.Facts = append(sb.Facts, p)
		}
		for _, r := range b.RulesV2 {
			x, err := indepRule(r, syms)
			if err != nil {
				return nil, nil, nil, err
			}
			sb.Rules = append(sb.Rules, x)
		}
		for _, ch := range b.ChecksV2 {
			var sc SCheck
			for _, q := range ch.Queries {
				x, err := indepRule(q, syms)
				if err != nil {
					return nil, nil, nil, err
				}
				sc = append(sc, x)
			}
			sb.Checks = append(sb.Checks, sc)
		}
		out = append(out, sb)
		ctxs = append(ctxs, b.GetContext())
		vers = append(vers, b.GetVersion())
	}
	return out, ctxs, vers, nil
}

func sblockEqual(a, b SBlock) bool { return blockString(a) == blockString(b) }

// versionGate rewrites the version field of one block of a serialized token (no re-signing is
// needed: the version is checked when the block is decoded) and expects Unmarshal to refuse
// everything but version 3.
func versionGate(res *Result, tok []byte, base []string, r *RNG, hist string) {
	var c pb.Biscuit
	if proto.Unmarshal(tok, &c) != nil {
		return
	}
	sbs := append([]*pb.SignedBlock{c.Authority}, c.Blocks...)
	for _, pos := range []int{0, len(sbs) / 2, len(sbs) - 1} {
		for _, v := range []int64{-1, 0, 1, 2, 3, 4, 5, 1<<32 - 1} { // -1 = field absent
			var c2 pb.Biscuit
			proto.Unmarshal(tok, &c2)
			sb := append([]*pb.SignedBlock{c2.Authority}, c2.Blocks...)[pos]
			var b pb.Block
			if proto.Unmarshal(sb.Block, &b) != nil {
				return
			}
			if v < 0 {
				b.Version = nil
			} else {
				u := uint32(v)
				b.Version = &u
			}
			nb, err := proto.Marshal(&b)
			if err != nil {
				continue
			}
			sb.Block = nb
			mb, err := proto.Marshal(&c2)
			if err != nil {
				continue
			}
			baseTbl := datalog.SymbolTable(append([]string{}, base...))
			_, uerr := unmarshalerOwned(&biscuit.Unmarshaler{Symbols: &baseTbl}, mb)
			res.Dist("version-gate")
			decl := fmt.Sprint(v)
			if v < 0 {
				decl = "absent (schema default 0)"
			}
			rep := map[string]interface{}{"history": hist, "block": pos, "declared_version": decl, "token": fmt.Sprintf("%x", mb)}
			if v != 3 && uerr == nil {
				res.Violate("unsupported-version-accepted", fmt.Sprintf("block %d declares schema version %s and Unmarshal accepts the token", pos, decl), rep)
			}
			if v == 3 && uerr != nil {
				res.Violate("version-3-rejected", "rewriting version 3 in place makes Unmarshal refuse the token: "+uerr.Error(), rep)
			}
		}
	}
}

// ---------- the two runners ----------

func runHistories(res *Result, rng *RNG, tier string, outDir string, prop string) {
	n, nOps := 24, 35
	if tier == "thorough" {
		n, nOps = 480, 70
	}
	const shard = 8
	orc := newOracle()
	var orcs []*oracle
	var lines, descs []string
	for h := 0; h < n; h++ {
		sweepDefaults = h == 0
		if h%shard == 0 {
			orc = newOracle()
			orcs = append(orcs, orc)
		}
		r := rng.Fork()
		w := newHWorld(r, orc)
		// install the per-build random source
		origNew := currentSrc
		_ = origNew
		allowRebuild := prop == "C08" && r.Chance(10)
		// builders must draw from currentSrc: patch via option at creation (see exec)
		ops, outs := genHistoryChecked(res, r, w, nOps, allowRebuild, prop)
		res.Count(histString(ops), len(w.tokens) >= 2)
		res.Dist(fmt.Sprintf("tokens:%d", len(w.tokens)))
		res.Dist(fmt.Sprintf("blocks:%d", len(w.blocks)))
		if h < 2 {
			res.Sample(map[string]interface{}{"history": histString(ops), "outputs": strings.Join(outs, " ")})
		}
		// version gate: every block position x every unsupported declaration (incl. the field
		// left out, which declares the schema default 0) must make Unmarshal refuse the token
		if len(w.tokens) > 0 {
			ti := r.Intn(len(w.tokens))
			if bs, err := w.tokens[ti].Serialize(); err == nil && !w.tokForeign[ti] {
				versionGate(res, bs, w.tokBase[ti], r, histString(ops))
			}
		}
		// final observations for the model
		toks := make([]string, len(w.tokens))
		bytesL := make([]string, len(w.tokens))
		for i, t := range w.tokens {
			toks[i] = tokenCoq(t)
			bs, _ := t.Serialize()
			bytesL[i] = coqBytes(bs)
		}
		blks := make([]string, len(w.blocks))
		for i, b := range w.blocks {
			blks[i] = dBlockCoq(b)
		}
		opl := make([]string, len(ops))
		for i, o := range ops {
			opl[i] = o.coq()
		}
		lines = append(lines, fmt.Sprintf("{| hc_seed := %s; hc_ops := %s; hc_outs := %s; hc_tokens := %s; hc_blocks := %s; hc_bytes := %s |}",
			coqBytes(w.seed), coqList(opl), coqList(outs), coqList(toks), coqList(blks), coqList(bytesL)))
		descs = append(descs, histString(ops))
	}
	WriteShardsFn(res, outDir, prop, "Base Term DTerm Symbols Chain Wire Token History Corr",
		func(start, end int) string { return orcs[start/shard].coq("") },
		"hist_case", "hist_ok pub_tbl sign_tbl", lines, shard)
	res.ModelCases = len(lines)
	res.CaseDescs = descs
}

func histString(ops []hOp) string {
	parts := make([]string, len(ops))
	for i, o := range ops {
		parts[i] = o.String()
	}
	s := strings.Join(parts, "; ")
	if len(s) > 3000 {
		s = s[:3000] + "..."
	}
	return s
}

// genHistoryChecked generates and runs a history, applying the property-directed oracles after every op
func genHistoryChecked(res *Result, rng *RNG, w *hWorld, nOps int, allowRebuild bool, prop string) ([]hOp, []string) {
	var prev []string
	hook := func(ops []hOp, outs []string) {
		o := ops[len(ops)-1]
		cur := w.snapshot()
		rep := map[string]interface{}{"history": histString(ops), "last_op": o.String()}
		// C08: no operation changes an existing token or block
		curMap := map[string]string{}
		for _, c := range cur {
			curMap[strings.SplitN(c, "|", 2)[0]] = c
		}
		for i := range prev {
			what := strings.SplitN(prev[i], "|", 2)[0]
			if c, ok := curMap[what]; ok && prev[i] != c {
				key := "frame:" + o.Kind
				if o.Kind == "bbbuild" || o.Kind == "bbfact" || o.Kind == "bbrule" || o.Kind == "bbcheck" {
					if w.blkBuilt[o.I] > 1 || (o.Kind != "bbbuild" && w.blkBuilt[o.I] > 0) {
						key = "blockbuilder-reused-after-build"
					}
				}
				res.Violate(key, fmt.Sprintf("operation %s changed the observable content of %s", o.String(), what), rep)
			}
		}
		prev = cur
		if outs[len(outs)-1] == "HPanicked" {
			key := "panic:" + o.Kind
			if o.Kind == "bbbuild" && w.blkBuilt[o.I] >= 1 {
				key = "blockbuilder-build-twice"
			}
			res.Violate(key, fmt.Sprintf("operation %s panicked", o.String()), rep)
		}
		// C07 / C08 siblings: a token produced by this op carries exactly what its callers supplied
		if outs[len(outs)-1] == "HDone" && (o.Kind == "bubuild" || o.Kind == "append" || o.Kind == "seal" || o.Kind == "reload") {
			ti := len(w.tokens) - 1
			tok := w.tokens[ti]
			bs, _ := tok.Serialize()
			got, _, vers, err := indepDecode(bs, w.tokBase[ti])
			want := w.tokContent[ti]
			// the token carries, or derives from a token that carries, a block of a block builder
			// built more than once: its content is the recorded finding, whatever the last op was
			built2 := w.tokReuse[ti]
			if o.Kind == "append" && w.blkBuilt[w.blkFrom[o.J]] > 1 {
				built2 = true
			}
			key := "content:" + o.Kind
			if built2 {
				key = "blockbuilder-build-twice"
			}
			if w.tokForeign[ti] {
				// a block built against another token's table was appended: its meaning is unspecified
			} else if err != nil {
				res.Violate(key, "independent decode of the serialized token failed: "+err.Error(), rep)
			} else {
				if len(got) != len(want) {
					res.Violate(key, fmt.Sprintf("token has %d blocks, %d were supplied", len(got), len(want)), rep)
				} else {
					for bi := range got {
						if !sblockEqual(got[bi], want[bi]) {
							rep2 := map[string]interface{}{"history": histString(ops), "last_op": o.String(), "block": bi, "decoded": blockString(got[bi]), "supplied": blockString(want[bi])}
							res.Violate(key, fmt.Sprintf("block %d of the serialized token decodes to content that differs from what its caller supplied", bi), rep2)
						}
						if vers[bi] != 3 {
							res.Violate("version", fmt.Sprintf("block %d carries version %d", bi, vers[bi]), rep)
						}
					}
				}
			}
			// reload fidelity
			baseTbl := datalog.SymbolTable(append([]string{}, w.tokBase[ti]...))
			t2, err := unmarshalerOwned(&biscuit.Unmarshaler{Symbols: &baseTbl}, bs)
			if o.Kind == "reload" && len(w.tokBase[ti]) > 0 {
				// the history's reload used the default table: the printed form legitimately differs
				t2, err = unmarshalerOwned(&biscuit.Unmarshaler{Symbols: &baseTbl}, bs)
			}
			if w.tokForeign[ti] || w.tokReuse[ti] {
				// carries a block built for another token's table (Append cannot tell, Unmarshal may
				// refuse it), or a block of a block builder built twice (the recorded finding, reported
				// above under its own key): what such a token reloads to is not specified
			} else if err != nil {
				res.Violate("reload:"+o.Kind, "a library-built token does not unmarshal: "+err.Error(), rep)
			} else {
				bs2, _ := t2.Serialize()
				if !bytes.Equal(bs, bs2) {
					res.Violate("reserialize:"+o.Kind, "unmarshal followed by serialize does not reproduce the bytes", rep)
				}
				if t2.String() != tok.String() {
					rep3 := map[string]interface{}{"history": histString(ops), "last_op": o.String(), "before": tok.String(), "after": t2.String()}
					res.Violate("reload-print:"+o.Kind, "printed form differs after serialization", rep3)
				}
				a, b := tok.RevocationIds(), t2.RevocationIds()
				same := len(a) == len(b)
				for i := 0; same && i < len(a); i++ {
					same = bytes.Equal(a[i], b[i])
				}
				if !same || rootIDString(tok.RootKeyID()) != rootIDString(t2.RootKeyID()) {
					res.Violate("reload-ids:"+o.Kind, "revocation ids or root key id differ after serialization", rep)
				}
				// authorization behaviour on a small panel
				overridePub = w.pub
				for pi := 0; pi < 2; pi++ {
					pr := NewRNG(uint64(ti*7 + pi))
					g := &azGen{rng: pr, pg: newProgGen(pr)}
					g.pg.sigs = []predSig{{"right", []int{KStr, KStr}}, {"owner", []int{KStr}}, {"res", []int{KStr, KInt}}, {"user", []int{KInt}}}
					sc := azScenario{MaxF: 1000, MaxI: 100, Ops: append(g.authorizerOps(), azOp{Kind: "authorize"})}
					o1, f1 := runScenarioGo(tok, sc, entryAuthorizerFor)
					o2, f2 := runScenarioGo(t2, sc, entryAuthorizerFor)
					if f1 != "" || f2 != "" {
						if f1 != f2 {
							res.Violate("reload-verify:"+o.Kind, "verification differs after serialization: "+f1+" / "+f2, rep)
						}
						continue
					}
					v1, v2 := verdictOf(o1), verdictOf(o2)
					if v1.Class != v2.Class || strings.Join(v1.Failed, ",") != strings.Join(v2.Failed, ",") {
						res.Violate("reload-verdict:"+o.Kind, fmt.Sprintf("authorization differs after serialization: %s vs %s", v1.Class, v2.Class), rep)
					}
				}
				overridePub = nil
			}
		}
	}
	ops, outs := genHistoryHooked(rng, w, nOps, allowRebuild, hook)
	return ops, outs
}

func runC07(res *Result, rng *RNG, tier string, outDir string) {
	res.Rule = "random histories (30-70 ops) over builders (default and custom base symbol tables, root ids, contexts), block builders created several at a time from one token and filled in interleaved order, build, append (also of one block to several tokens), seal, serialize/unmarshal, GetBlockID with fresh strings; contents use every term type, sets, nested expressions with every operator, default and fresh symbols shared across blocks. After every token-producing op: an independent decoder (protobuf-go + the published symbol rules only) must recover, block for block, exactly what the callers supplied, version 3; unmarshal/serialize must reproduce the bytes, the printed form, revocation ids, root id and authorization behaviour. The Coq model predicts every op's outcome, every token (D-level content, cumulative symbol table, envelope incl. the marshalled block bytes) and every built block. Non-trivial = a history producing at least 2 tokens; distinct by canonical history text."
	runHistories(res, rng, tier, outDir, "C07")
}

// c08Corpus: the recorded finding — a block builder used again after Build
func c08Corpus(res *Result) {
	orc := newOracle()
	w := newHWorld(NewRNG(99), orc)
	run := func(ops []hOp) {
		var all []hOp
		var outs []string
		var prev []string
		for _, o := range ops {
			out, _ := w.exec(o)
			all = append(all, o)
			outs = append(outs, out)
			cur := w.snapshot()
			rep := map[string]interface{}{"history": histString(all), "last_op": o.String()}
			curMap := map[string]string{}
			for _, c := range cur {
				curMap[strings.SplitN(c, "|", 2)[0]] = c
			}
			for _, pv := range prev {
				what := strings.SplitN(pv, "|", 2)[0]
				if c, ok := curMap[what]; ok && c != pv {
					res.Violate("blockbuilder-reused-after-build", fmt.Sprintf("operation %s changed the observable content of %s", o.String(), what), rep)
				}
			}
			prev = cur
			if out == "HPanicked" {
				res.Violate("blockbuilder-build-twice", fmt.Sprintf("operation %s panicked (second Build on one block builder)", o.String()), rep)
			}
		}
		// content of blocks built twice
		for bi, blk := range w.blocks {
			j := w.blkFrom[bi]
			if w.blkBuilt[j] < 2 {
				continue
			}
			_, _, psyms := biscuit.VerifTokenBlocks(w.tokens[w.bbParent[j]])
			bsyms, facts, _, _, _, _ := biscuit.VerifBlockContent(blk)
			all := datalog.SymbolTable(append(append([]string{}, psyms...), bsyms...))
			var got []SPred
			for _, f := range facts {
				got = append(got, predFromDatalog(&all, f.Predicate))
			}
			if predsString(got) != predsString(w.bbSupplied[j].Facts) {
				res.Violate("blockbuilder-build-twice", fmt.Sprintf("a block built by a second Build carries %s, its caller supplied %s", predsString(got), predsString(w.bbSupplied[j].Facts)),
					map[string]interface{}{"history": histString(all2(ops))})
			}
		}
	}
	f1 := SPred{Name: "a", Terms: []STerm{aStr("x")}}
	f2 := SPred{Name: "q", Terms: []STerm{aStr("w")}}
	run([]hOp{{Kind: "newbuilder"}, {Kind: "bufact", I: 0, Fact: f1}, {Kind: "bubuild", I: 0, Src: bytes.Repeat([]byte{7}, 32)},
		{Kind: "createblock", I: 0}, {Kind: "bbfact", I: 0, Fact: f2}, {Kind: "bbbuild", I: 0}, {Kind: "bbbuild", I: 0},
		{Kind: "createblock", I: 0}, {Kind: "bbfact", I: 1, Fact: SPred{Name: "z", Terms: []STerm{aInt(1)}}}, {Kind: "bbbuild", I: 1}, {Kind: "bbbuild", I: 1}})
	res.Count("corpus: block builder built twice", true)
}
func all2(o []hOp) []hOp { return o }

func runC08(res *Result, rng *RNG, tier string, outDir string) {
	c08Corpus(res)
	res.Rule = "the same history machine as C07, biased to sibling derivations; after EVERY operation every live token and every built block is observed (serialized bytes, printed form, revocation ids, root id, D-level block content) and compared with its previous observation: any change is a violation naming the operation; every token must carry exactly what its own callers supplied (sibling independence). 10% of histories also re-use block builders after Build (the recorded finding). Non-trivial = at least 2 tokens; distinct by canonical history text."
	runHistories(res, rng, tier, outDir, "C08")
}
