package main

import (
	"crypto/ed25519"
	"fmt"
	"os"
	"os/exec"
	"path/filepath"
	"strings"
	"sync"

	biscuit "github.com/biscuit-auth/biscuit-go/v2"
	"github.com/biscuit-auth/biscuit-go/v2/parser"
)

func init() {
	runners["C19"] = runC19
	workers["c19"] = c19Worker
}

// one operation of the property on the shared token; returns a canonical outcome
// that must not depend on what other goroutines do
func c19Op(kind int, tok *biscuit.Biscuit, pub ed25519.PublicKey, shared *c19Shared, r *RNG) string {
	switch kind {
	case 0: // verify signatures
		_, err := tok.AuthorizerFor(biscuit.WithSingularRootPublicKey(pub))
		return fmt.Sprint("verify:", err)
	case 1: // authorize on an own authorizer, using shared parsed values
		overrideLocal := pub
		a, err := tok.AuthorizerFor(biscuit.WithSingularRootPublicKey(overrideLocal), shared.opt)
		if err != nil {
			return "authorize:create:" + err.Error()
		}
		a.AddFact(shared.fact)
		// facts that differ between goroutines at index level (integers, dates): a world shared
		// behind the authorizers' backs would mix them up
		a.AddFact(biscuit.Fact{Predicate: biscuit.Predicate{Name: "mine", IDs: []biscuit.Term{biscuit.Integer(int64(r.Intn(1000)))}}})
		a.AddRule(shared.rule)
		a.AddCheck(shared.check)
		a.AddPolicy(shared.policy)
		a.AddPolicy(biscuit.DefaultAllowPolicy)
		// a regular expression this process has (most likely) not evaluated before
		if c, err := shared.p.Check(fmt.Sprintf(`check if right($f, "read"), $f.matches("^file[0-9]+$|^never%d$")`, r.Intn(100000)), nil); err == nil {
			a.AddCheck(c)
		}
		class, _, failed := classifyVerdict(a.Authorize())
		mine, _ := a.Query(biscuit.Rule{Head: biscuit.Predicate{Name: "q", IDs: []biscuit.Term{biscuit.Variable("m")}}, Body: []biscuit.Predicate{{Name: "mine", IDs: []biscuit.Term{biscuit.Variable("m")}}}})
		return "authorize:" + class + strings.Join(failed, ",") + fmt.Sprint(" mine=", mine)
	case 2: // query
		a, err := tok.AuthorizerFor(biscuit.WithSingularRootPublicKey(pub), shared.opt)
		if err != nil {
			return "query:create:" + err.Error()
		}
		a.Authorize()
		fs, err := a.Query(shared.rule)
		return fmt.Sprint("query:", len(fs), err)
	case 3:
		return "print:" + fmt.Sprint(len(tok.String()), len(tok.Code()))
	case 4: // get-block-id with a fresh string each time
		id, err := tok.GetBlockID(biscuit.Fact{Predicate: biscuit.Predicate{Name: "right", IDs: []biscuit.Term{biscuit.String(fmt.Sprintf("fresh-%d", r.Intn(1000))), biscuit.String("read")}}})
		id2, err2 := tok.GetBlockID(shared.present)
		return fmt.Sprint("getblockid:", id, err != nil, id2, err2)
	case 5: // create, fill, build, append
		bb := tok.CreateBlock()
		bb.AddFact(biscuit.Fact{Predicate: biscuit.Predicate{Name: "note", IDs: []biscuit.Term{biscuit.String(fmt.Sprintf("n%d", r.Intn(5))), biscuit.Integer(3)}}})
		bb.AddCheck(shared.check)
		blk := bb.Build()
		t2, err := tok.Append(detReader{r.Fork()}, blk)
		if err != nil {
			return "append:" + err.Error()
		}
		s := t2.String()
		_, err = t2.AuthorizerFor(biscuit.WithSingularRootPublicKey(pub))
		return fmt.Sprint("append:", strings.Count(s, "note("), err)
	case 6:
		t2, err := tok.Seal(detReader{r.Fork()})
		if err != nil {
			return "seal:" + err.Error()
		}
		_, err = t2.AuthorizerFor(biscuit.WithSingularRootPublicKey(pub))
		return fmt.Sprint("seal:", err)
	case 7:
		bs, err := tok.Serialize()
		return fmt.Sprint("serialize:", len(bs), err, len(tok.RevocationIds()))
	case 8: // shared parser instance
		c, err := shared.p.Check(`check if right($f, "read"), $f.starts_with("file")`, nil)
		return fmt.Sprint("parse:", len(c.Queries), err)
	}
	return "?"
}

type c19Shared struct {
	// ONE option value for all authorizers of all goroutines (an application builds its options once)
	opt     biscuit.AuthorizerOption
	fact    biscuit.Fact
	present biscuit.Fact
	rule    biscuit.Rule
	check   biscuit.Check
	policy  biscuit.Policy
	p       parser.Parser
}

// worker (built with -race): args = seed goroutines rounds
func c19Worker(args []string) {
	var seed uint64
	var ng, rounds int
	fmt.Sscan(args[0], &seed)
	fmt.Sscan(args[1], &ng)
	fmt.Sscan(args[2], &rounds)
	rng := NewRNG(seed)
	rootSeed := rng.Bytes(32)
	priv := ed25519.NewKeyFromSeed(rootSeed)
	pub := priv.Public().(ed25519.PublicKey)
	b := biscuit.NewBuilder(priv, biscuit.WithRNG(detReader{rng.Fork()}))
	p := parser.New()
	for _, txt := range []string{`right("file1", "read")`, `right("file2", "read")`, `owner("alice", "file1")`} {
		f, err := p.Fact(txt, nil)
		if err != nil {
			fatal("%v", err)
		}
		b.AddAuthorityFact(f)
	}
	r0, _ := p.Rule(`can($u, $f) <- owner($u, $f), right($f, "read")`, nil)
	b.AddAuthorityRule(r0)
	t0, err := b.Build()
	if err != nil {
		fatal("%v", err)
	}
	bb := t0.CreateBlock()
	c0, _ := p.Check(`check if right("file1", "read")`, nil)
	bb.AddCheck(c0)
	c1, _ := p.Check(`check if right($f, "read"), $f.matches("^fi.e[12]$")`, nil)
	bb.AddCheck(c1)
	t1, err := t0.Append(detReader{rng.Fork()}, bb.Build())
	if err != nil {
		fatal("%v", err)
	}
	// 3 (or 5) blocks after the authority: the token's slices then have spare capacity
	// (Go grows them 1, 2, 4, 8), which is what aliasing bugs need in order to show
	extra := 2
	if seed%2 == 1 {
		extra = 4
	}
	for k := 0; k < extra; k++ {
		bk := t1.CreateBlock()
		fk, _ := p.Fact(fmt.Sprintf(`seen("step%d")`, k), nil)
		bk.AddFact(fk)
		t1, err = t1.Append(detReader{rng.Fork()}, bk.Build())
		if err != nil {
			fatal("%v", err)
		}
	}
	bs, _ := t1.Serialize()
	// freshly unmarshalled: the decoder leaves spare capacity behind the block bytes.
	// Two objects from the same bytes: one is shared by the goroutines, the other gives the
	// reference outcomes afterwards (so that nothing is evaluated, and no lazily built state is
	// warmed, before the goroutines start).
	tok, err := unmarshalOwned(bs)
	if err != nil {
		fatal("%v", err)
	}
	tokRef, err := unmarshalOwned(bs)
	if err != nil {
		fatal("%v", err)
	}
	shared := &c19Shared{p: p, opt: biscuit.WithWorldOptions(longDuration())}
	shared.fact, _ = p.Fact(`op("read")`, nil)
	shared.present, _ = p.Fact(`right("file2", "read")`, nil)
	shared.rule, _ = p.Rule(`seen($f) <- right($f, "read")`, nil)
	shared.check, _ = p.Check(`check if right("file1", "read")`, nil)
	shared.policy, _ = p.Policy(`allow if can("alice", "file1")`, nil)

	plans := make([][]int, ng)
	seeds := make([]uint64, ng)
	for g := 0; g < ng; g++ {
		seeds[g] = rng.U64()
		for k := 0; k < rounds; k++ {
			plans[g] = append(plans[g], rng.Intn(9))
		}
	}
	run := func(g int, t *biscuit.Biscuit) []string {
		r := NewRNG(seeds[g])
		var out []string
		for _, k := range plans[g] {
			out = append(out, c19Op(k, t, pub, shared, r))
		}
		return out
	}
	// all together FIRST, on a process that has evaluated nothing yet; then the reference
	// (each goroutine's plan alone, on a second object decoded from the same bytes)
	conc := make([][]string, ng)
	var wg sync.WaitGroup
	for g := 0; g < ng; g++ {
		wg.Add(1)
		go func(g int) {
			defer wg.Done()
			defer func() {
				if p := recover(); p != nil {
					conc[g] = append(conc[g], fmt.Sprint("PANIC:", p))
				}
			}()
			conc[g] = run(g, tok)
		}(g)
	}
	wg.Wait()
	solo := make([][]string, ng)
	for g := 0; g < ng; g++ {
		solo[g] = run(g, tokRef)
	}
	for g := 0; g < ng; g++ {
		for k := range solo[g] {
			got := "<missing>"
			if k < len(conc[g]) {
				got = conc[g][k]
			}
			if got != solo[g][k] {
				fmt.Printf("\nDIFF\tgoroutine %d op %d kind %d\talone=%s\tconcurrent=%s\n", g, k, plans[g][k], solo[g][k], got)
			}
		}
		fmt.Printf("\nOPS\t%d\n", len(solo[g]))
	}
}

func runC19(res *Result, rng *RNG, tier string, outDir string) {
	res.Rule = "stress under the race detector (harness rebuilt with -race from the working tree): G goroutines x R rounds of randomly chosen operations of the property (verify, authorize on an own authorizer with shared parsed values, query, String/Code, GetBlockID with fresh strings, create/fill/build block + append, seal, serialize + revocation ids, parsing with one shared parser instance) on ONE shared token freshly unmarshalled from bytes (so spare capacity exists behind the stored block bytes); the token and the authorizers carry regular expressions, some never evaluated before in the process; the concurrent phase runs FIRST (nothing is warmed up), the reference (each plan alone on a second object decoded from the same bytes) afterwards. Oracle: any report of the race detector, any goroutine outcome differing from the outcome of the same operation sequence run alone, any panic or runtime fatal error. Non-trivial = every round (each is an operation racing with G-1 others); distinct by (run seed, goroutine, round)."
	runs, ng, rounds := 4, 8, 25
	if tier == "thorough" {
		runs, ng, rounds = 40, 16, 60
	}
	// build the -race worker from the working tree
	self, _ := os.Executable()
	raceBin := filepath.Join(filepath.Dir(self), "harness-race")
	hd := harnessDir()
	cmd := exec.Command("go", "build", "-race", "-tags", "verif", "-o", raceBin, ".")
	cmd.Dir = hd
	cmd.Env = append(os.Environ(), "GOFLAGS=-mod=mod", "GOPROXY=off", "GOSUMDB=off", "GOTOOLCHAIN=local")
	if out, err := cmd.CombinedOutput(); err != nil {
		fatal("race build failed: %v\n%s", err, out)
	}
	for i := 0; i < runs; i++ {
		seed := rng.U64()
		w := exec.Command(raceBin, "worker", "c19", fmt.Sprint(seed), fmt.Sprint(ng), fmt.Sprint(rounds))
		w.Env = append(os.Environ(), "GORACE=halt_on_error=0 history_size=3")
		outB, err := w.CombinedOutput()
		out := string(outB)
		rep := map[string]interface{}{"worker_seed": seed, "goroutines": ng, "rounds": rounds}
		nops := strings.Count(out, "OPS\t") * rounds
		for k := 0; k < nops; k++ {
			res.Count(fmt.Sprintf("%d/%d", seed, k), true)
		}
		res.Dist(fmt.Sprintf("run:%d-goroutines", ng))
		if i == 0 {
			res.Sample(rep)
		}
		if strings.Contains(out, "WARNING: DATA RACE") {
			idx := strings.Index(out, "WARNING: DATA RACE")
			ex := out[idx:]
			if len(ex) > 2500 {
				ex = ex[:2500]
			}
			site := "unknown"
			for _, l := range strings.Split(ex, "\n") {
				l = strings.TrimSpace(l)
				if strings.HasPrefix(l, "/repo/") {
					site = strings.SplitN(l, " ", 2)[0]
					break
				}
			}
			rep["race_report"] = ex
			res.Violate("data-race:"+filepath.Base(site), "the race detector reports a data race between goroutines sharing a token at "+site, rep)
		}
		for _, l := range strings.Split(out, "\n") {
			if strings.HasPrefix(l, "DIFF\t") {
				rep["diff"] = l
				res.Violate("outcome-depends-on-schedule", "a goroutine's result differs from its result running alone: "+l, rep)
				break
			}
		}
		if strings.Contains(out, "PANIC:") || (err != nil && !strings.Contains(out, "WARNING: DATA RACE")) {
			tail := out
			if len(tail) > 1500 {
				tail = tail[len(tail)-1500:]
			}
			rep["output"] = tail
			res.Violate("panic-or-crash", "the concurrent run crashed: "+fmt.Sprint(err), rep)
		}
	}
	// no per-case model evaluation: the model side of C19 is the footprint theorem + the generated pin
	cf := NewCasesFile("Base")
	cf.Raw("Definition M : list N := [].\nPrint M.\n")
	cf.WriteTo(outDir, "Cases_C19.v")
	res.ModelCases = 0
}

func harnessDir() string {
	if d := os.Getenv("VERIF_HARNESS_DIR"); d != "" {
		return d
	}
	return "/verif/harness"
}
