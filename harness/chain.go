package main

import (
	"crypto/ed25519"
	"errors"
	"fmt"
	"strings"

	biscuit "github.com/biscuit-auth/biscuit-go/v2"
	"github.com/biscuit-auth/biscuit-go/v2/datalog"
	"github.com/biscuit-auth/biscuit-go/v2/pb"
	"google.golang.org/protobuf/proto"
)

// ---------- observation of a token's envelope ----------

type obsSBlock struct {
	Block, Key, Sig []byte
	Alg             uint32
}
type obsContainer struct {
	RootID *uint32
	Auth   obsSBlock
	Blocks []obsSBlock
	// proof: kind 0 = next secret, 1 = final signature, 2 = none
	ProofKind int
	Proof     []byte
}

func sblockOf(sb *pb.SignedBlock) obsSBlock {
	return obsSBlock{Block: sb.Block, Key: sb.NextKey.Key, Sig: sb.Signature, Alg: uint32(sb.NextKey.GetAlgorithm())}
}

// containerOfBytes decodes the envelope with protobuf-go itself (not with biscuit-go).
func containerOfBytes(b []byte) (*obsContainer, error) {
	var c pb.Biscuit
	if err := proto.Unmarshal(b, &c); err != nil {
		return nil, err
	}
	o := &obsContainer{RootID: c.RootKeyId, Auth: sblockOf(c.Authority)}
	for _, sb := range c.Blocks {
		o.Blocks = append(o.Blocks, sblockOf(sb))
	}
	switch {
	case c.Proof.GetNextSecret() != nil:
		o.ProofKind, o.Proof = 0, c.Proof.GetNextSecret()
	case c.Proof.GetFinalSignature() != nil:
		o.ProofKind, o.Proof = 1, c.Proof.GetFinalSignature()
	default:
		o.ProofKind = 2
	}
	return o, nil
}

func containerOf(t *biscuit.Biscuit) *obsContainer {
	b, err := t.Serialize()
	if err != nil {
		fatal("serialize: %v", err)
	}
	c, err := containerOfBytes(b)
	if err != nil {
		fatal("re-decode of serialized token: %v", err)
	}
	return c
}

func (s obsSBlock) coq() string {
	return fmt.Sprintf("{| sb_block := %s; sb_alg := %d; sb_key := %s; sb_sig := %s |}",
		coqBytes(s.Block), s.Alg, coqBytes(s.Key), coqBytes(s.Sig))
}
func (c *obsContainer) coq() string {
	bl := make([]string, len(c.Blocks))
	for i, b := range c.Blocks {
		bl[i] = b.coq()
	}
	proof := "PNone"
	switch c.ProofKind {
	case 0:
		proof = "PNextSecret " + coqBytes(c.Proof)
	case 1:
		proof = "PFinalSig " + coqBytes(c.Proof)
	}
	return fmt.Sprintf("{| c_rootid := %s; c_auth := %s; c_blocks := %s; c_proof := %s |}",
		coqOptN(c.RootID), c.Auth.coq(), coqList(bl), proof)
}
func (s obsSBlock) payload() []byte {
	p := append([]byte{}, s.Block...)
	p = append(p, byte(s.Alg), byte(s.Alg>>8), byte(s.Alg>>16), byte(s.Alg>>24))
	return append(p, s.Key...)
}
func (c *obsContainer) last() obsSBlock {
	if len(c.Blocks) == 0 {
		return c.Auth
	}
	return c.Blocks[len(c.Blocks)-1]
}

// ---------- oracle tables computed with crypto/ed25519 itself ----------

type oracle struct {
	pub    map[string][]byte // seed -> public key
	sign   map[string][]byte // seed|msg -> signature
	verify map[string]bool   // key|msg|sig -> result
	vkeys  []([3][]byte)
	skeys  []([2][]byte)
	pkeys  [][]byte
}

func newOracle() *oracle {
	return &oracle{pub: map[string][]byte{}, sign: map[string][]byte{}, verify: map[string]bool{}}
}
func okey(parts ...[]byte) string {
	var sb strings.Builder
	for _, p := range parts {
		fmt.Fprintf(&sb, "%d:%x|", len(p), p)
	}
	return sb.String()
}
func (o *oracle) addPub(seed []byte) {
	if len(seed) != ed25519.SeedSize {
		return
	}
	k := okey(seed)
	if _, ok := o.pub[k]; !ok {
		o.pub[k] = ed25519.NewKeyFromSeed(seed).Public().(ed25519.PublicKey)
		o.pkeys = append(o.pkeys, seed)
	}
}
func (o *oracle) addSign(seed, msg []byte) {
	if len(seed) != ed25519.SeedSize {
		return
	}
	k := okey(seed, msg)
	if _, ok := o.sign[k]; !ok {
		o.sign[k] = ed25519.Sign(ed25519.NewKeyFromSeed(seed), msg)
		o.skeys = append(o.skeys, [2][]byte{seed, msg})
	}
}
func (o *oracle) addVerify(key, msg, sig []byte) {
	if len(key) != ed25519.PublicKeySize {
		return
	}
	k := okey(key, msg, sig)
	if _, ok := o.verify[k]; !ok {
		o.verify[k] = ed25519.Verify(key, msg, sig)
		o.vkeys = append(o.vkeys, [3][]byte{key, msg, sig})
	}
}
func (o *oracle) coq(prefix string) string {
	var sb strings.Builder
	items := []string{}
	for _, s := range o.pkeys {
		items = append(items, fmt.Sprintf("(%s, %s)", coqBytes(s), coqBytes(o.pub[okey(s)])))
	}
	fmt.Fprintf(&sb, "Definition %spub_tbl : list (bytes * bytes) := %s.\n", prefix, coqList(items))
	items = nil
	for _, s := range o.skeys {
		items = append(items, fmt.Sprintf("(%s, %s, %s)", coqBytes(s[0]), coqBytes(s[1]), coqBytes(o.sign[okey(s[0], s[1])])))
	}
	fmt.Fprintf(&sb, "Definition %ssign_tbl : list (bytes * bytes * bytes) := %s.\n", prefix, coqList(items))
	items = nil
	for _, s := range o.vkeys {
		items = append(items, fmt.Sprintf("(%s, %s, %s, %s)", coqBytes(s[0]), coqBytes(s[1]), coqBytes(s[2]), coqBool(o.verify[okey(s[0], s[1], s[2])])))
	}
	fmt.Fprintf(&sb, "Definition %sver_tbl : list (bytes * bytes * bytes * bool) := %s.\n", prefix, coqList(items))
	return sb.String()
}

// ---------- fault-injecting random source ----------

var errInjected = errors.New("verif: injected entropy failure")

type faultReader struct {
	data    []byte // bytes delivered before failing
	pos     int
	chunk   int   // max bytes per Read (short reads), 0 = unlimited
	failErr error // error returned once data is exhausted
	// resume: the failure is TRANSIENT — the error is reported once, then the source delivers these bytes
	// (a non-blocking descriptor that said EAGAIN, an interrupted read).  The draw that met the error has
	// failed all the same: nothing tells the library which bytes belong together.
	resume   []byte
	failed   bool
	failures int
	// eager: the error comes back TOGETHER with the last bytes the source has (n > 0 and err != nil in one
	// Read, which the io.Reader contract allows and which files, pipes and TLS connections do) instead of
	// by a separate (0, err) read
	eager bool
	// stutter: every other Read delivers nothing and no error ((0, nil), which the io.Reader contract
	// discourages but allows) before the next one delivers
	stutter bool
	idle    bool
}

func (f *faultReader) Read(p []byte) (int, error) {
	if f.stutter {
		f.idle = !f.idle
		if f.idle {
			return 0, nil
		}
	}
	if f.pos >= len(f.data) {
		if f.resume != nil && f.failed {
			n := copy(p, f.resume)
			if n == 0 {
				return 0, f.failErr
			}
			f.resume = f.resume[n:]
			return n, nil
		}
		f.failed = true
		f.failures++
		return 0, f.failErr
	}
	n := len(p)
	if f.chunk > 0 && n > f.chunk {
		n = f.chunk
	}
	if n > len(f.data)-f.pos {
		n = len(f.data) - f.pos
	}
	copy(p, f.data[f.pos:f.pos+n])
	f.pos += n
	if f.eager && f.pos >= len(f.data) {
		f.failed = true
		f.failures++
		return n, f.failErr
	}
	return n, nil
}

// tempErr: an error that calls itself temporary and a timeout, as net errors do
type tempErr struct{}

func (tempErr) Error() string   { return "verif: resource temporarily unavailable" }
func (tempErr) Temporary() bool { return true }
func (tempErr) Timeout() bool   { return true }

// errClass maps an implementation error to the model's small enum.
func errClass(err error) string {
	switch {
	case err == nil:
		return ""
	case errors.Is(err, errInjected):
		return "EEntropy"
	case errors.Is(err, biscuit.ErrInvalidKeySize):
		return "EInvalidKeySize"
	case errors.Is(err, biscuit.ErrInvalidSignatureSize):
		return "EInvalidSigSize"
	case errors.Is(err, biscuit.ErrInvalidSignature):
		return "EInvalidSignature"
	case errors.Is(err, biscuit.UnsupportedAlgorithm):
		return "EUnsupportedAlg"
	case errors.Is(err, biscuit.ErrNoPublicKeyAvailable):
		return "ENoPublicKey"
	case errors.Is(err, biscuit.ErrSymbolTableOverlap):
		return "ESymbolOverlap"
	case errors.Is(err, biscuit.ErrMissingSymbols):
		return "EMissingSymbols"
	}
	msg := err.Error()
	switch {
	case strings.Contains(msg, "invalid last signature"):
		return "EInvalidLastSig"
	case strings.Contains(msg, "cannot find proof"):
		return "ENoProof"
	case strings.Contains(msg, "sealed"):
		return "ESealed"
	}
	return "EOther"
}

// twinSymbols returns an empty symbol table (the default base table of the library).
func twinSymbols() *datalogSymbolTable { return &datalogSymbolTable{} }

type datalogSymbolTable = datalog.SymbolTable

// wireAppend: what the HOLDER of an open token can do without the library — decode the envelope,
// sign a block of its own making with the next secret found in the proof, announce a new key and
// put the new secret in the proof.  The block bytes are the caller's (any pb.Block).
func wireAppend(token []byte, blk *pb.Block, seed []byte) ([]byte, error) {
	c := &pb.Biscuit{}
	if err := proto.Unmarshal(token, c); err != nil {
		return nil, err
	}
	ns := c.GetProof().GetNextSecret()
	if len(ns) != 32 {
		return nil, errors.New("wireAppend: the token is not open")
	}
	bb, err := proto.Marshal(blk)
	if err != nil {
		return nil, err
	}
	cur := ed25519.NewKeyFromSeed(ns)
	npriv := ed25519.NewKeyFromSeed(seed)
	npub := npriv.Public().(ed25519.PublicKey)
	alg := pb.PublicKey_Ed25519
	msg := append(append(append([]byte{}, bb...), 0, 0, 0, 0), npub...)
	c.Blocks = append(c.Blocks, &pb.SignedBlock{Block: bb, NextKey: &pb.PublicKey{Algorithm: &alg, Key: npub}, Signature: ed25519.Sign(cur, msg)})
	c.Proof = &pb.Proof{Content: &pb.Proof_NextSecret{NextSecret: seed}}
	return proto.Marshal(c)
}

// declaringBlock: a block whose only content is the declaration of the given new symbols and one fact
// owner(#idx) over a default predicate name
func declaringBlock(symbols []string, idx uint64) *pb.Block {
	return &pb.Block{Version: proto.Uint32(3), Symbols: symbols,
		FactsV2: []*pb.FactV2{{Predicate: &pb.PredicateV2{Name: proto.Uint64(7), Terms: []*pb.TermV2{{Content: &pb.TermV2_String_{String_: idx}}}}}}}
}
