package main

import (
	"errors"
	"fmt"
	"github.com/biscuit-auth/biscuit-go/v2/parser"
	"runtime"
	"sort"
	"strings"
	"time"

	biscuit "github.com/biscuit-auth/biscuit-go/v2"
	"github.com/biscuit-auth/biscuit-go/v2/datalog"
)

func init() {
	runners["C04"] = runC04
	runners["C02"] = runC02
	runners["C03"] = runC03
	runners["C12"] = runC12
	runners["C13"] = runC13
	runners["C11"] = runC11
}

type azCases struct {
	lines []string
	descs []string
}

func (c *azCases) add(sc azScenario, obs []azObs) {
	for _, o := range obs {
		if o.Panic != "" {
			return
		}
		if strings.Contains(o.Class, "ETimeout") || o.QErr == "ETimeout" {
			return
		}
	}
	c.lines = append(c.lines, sc.coqCase(obs))
	d := sc.String()
	if len(d) > 600 {
		d = d[:600] + "..."
	}
	c.descs = append(c.descs, d)
}
func (c *azCases) write(res *Result, outDir, name string) {
	prop := strings.TrimSuffix(strings.TrimPrefix(name, "Cases_"), ".v")
	// every case is evaluated twice: by the S-level authorizer model and by the INDEX-level model
	// (symbol tables threaded through evaluation, Model/DEval.v), which is proved to refine to it
	WriteShards(res, outDir, prop, "Base Term Expr Datalog Authz DTerm Symbols Chain Wire Token Corr DEval CorrD", "", "authz_case",
		"fun c => authz_ok (fun _ _ => None) c && authz_case_ok_D (fun _ _ => None) c", c.lines, 400)
	res.ModelCases = len(c.lines)
	res.CaseDescs = c.descs
}

func scReplay(sc azScenario, obs []azObs, extra map[string]interface{}) map[string]interface{} {
	m := map[string]interface{}{"scenario": sc.String(), "observed": obsSummary(obs)}
	for k, v := range extra {
		m[k] = v
	}
	return m
}

func verdictOf(obs []azObs) *azObs {
	for i := range obs {
		if obs[i].Kind == "verdict" {
			return &obs[i]
		}
	}
	return nil
}
func anyPanic(res *Result, key string, sc azScenario, obs []azObs) bool {
	for _, o := range obs {
		if o.Panic != "" {
			res.Violate("panic:"+key, "authorizer operation panicked: "+o.Panic, scReplay(sc, obs, nil))
			return true
		}
	}
	return false
}

// ---------------- C04: verdict = the specified decision procedure ----------------

func runC04(res *Result, rng *RNG, tier string, outDir string) {
	res.Rule = "random tokens (authority + 0-3 blocks; facts, recursive rules, checks with 1-3 alternative queries) and authorizer contents (facts, rules, checks, 0-4 ordered allow/deny policies); 10% error-prone (out-of-fragment) scenarios. The implementation's verdict (class + which checks failed) is compared with an independent reference decision procedure over the reference least model, and with the Coq model (which also pins the world's ordered fact list and query results). Non-trivial = at least one rule fires at authority level or in a block and the verdict depends on a check or policy; distinct by canonical scenario text."
	n := 500
	if tier == "thorough" {
		n = 15000
	}
	var cs azCases
	for i := 0; i < n; i++ {
		r := rng.Fork()
		errProne := r.Chance(10)
		sc := genScenario(r, errProne, 3)
		if r.Chance(8) {
			sc.MaxF = 2 + r.Intn(12)
			sc.MaxI = 1 + r.Intn(3)
		}
		tok, err := buildToken(sc.Token, r)
		if err != nil {
			res.Dist("harness:token-build-error")
			continue
		}
		obs, fatal := runScenarioGo(tok, sc, entryAuthorizerFor)
		if fatal != "" {
			res.Violate("authorizer-creation", fatal, scReplay(sc, nil, nil))
			continue
		}
		if anyPanic(res, "authorize", sc, obs) {
			continue
		}
		v := verdictOf(obs)
		ref := refAuthorize(sc.Token, sc.Ops)
		res.Dist("verdict:" + strings.SplitN(v.Class, ":", 2)[0])
		res.Dist(fmt.Sprintf("blocks:%d", len(sc.Token)-1))
		baseN := 0
		for _, op := range sc.Ops {
			if op.Kind == "fact" {
				baseN++
			}
		}
		nontrivial := len(ref.World) > len(dedupePreds(append(append([]SPred{}, sc.Token[0].Facts...), factsOfOps(sc.Ops)...)))
		res.Count(sc.String(), nontrivial)
		if i < 3 {
			res.Sample(scReplay(sc, obs, map[string]interface{}{"reference": ref.Class}))
		}
		if ref.InFragment && sc.MaxF == 1000 {
			if strings.HasPrefix(v.Class, "runerror") {
				res.Violate("spurious-run-error", "in-fragment scenario within limits failed with "+v.Class, scReplay(sc, obs, nil))
			} else if v.Class != ref.Class {
				res.Violate("verdict:"+ref.Class+"->"+v.Class, fmt.Sprintf("verdict is %s, the decision procedure gives %s", v.Class, ref.Class), scReplay(sc, obs, map[string]interface{}{"reference_failed": ref.Failed}))
			} else if v.Class == "checks" && strings.Join(v.Failed, ",") != strings.Join(ref.Failed, ",") {
				res.Violate("failed-checks", fmt.Sprintf("failed checks %v, the decision procedure gives %v", v.Failed, ref.Failed), scReplay(sc, obs, nil))
			}
			// derived facts: the authority-level world must be the reference least model
			a, b := predSetDiff(v.World, ref.World)
			if len(a) > 0 || len(b) > 0 {
				res.Violate("world", fmt.Sprintf("authority-level world differs from the least model: implementation-only %v, reference-only %v", a, b), scReplay(sc, obs, nil))
			}
		} else {
			res.Dist("out-of-fragment-or-limited")
		}
		cs.add(sc, obs)
	}
	c04SharedParsedAuthorizer(res)
	cs.write(res, outDir, "Cases_C04.v")
}

func factsOfOps(ops []azOp) []SPred {
	var out []SPred
	for _, o := range ops {
		if o.Kind == "fact" {
			out = append(out, o.Fact)
		}
	}
	return out
}

// ---------------- C02: attenuation can only restrict ----------------

// adversarialBlock: content aimed at turning a refusal into an acceptance
func adversarialBlock(g *azGen, sc azScenario) SBlock {
	r := g.rng
	b := g.block(false)
	ground := func(p SPred) SPred {
		q := SPred{Name: p.Name}
		for _, t := range p.Terms {
			if t.Kind() == KVar {
				q.Terms = append(q.Terms, g.pg.constant([]int{KInt, KStr}[r.Intn(2)]))
			} else {
				q.Terms = append(q.Terms, t)
			}
		}
		return q
	}
	var targets []SRule
	for _, op := range sc.Ops {
		switch op.Kind {
		case "policy":
			targets = append(targets, op.Policy.Queries...)
		case "check":
			targets = append(targets, op.Check...)
		}
	}
	for _, blk := range sc.Token {
		for _, c := range blk.Checks {
			targets = append(targets, c...)
		}
	}
	if len(g.focus) > 0 {
		targets = g.focus
	}
	// shape of the adversarial block: knowledge supplied as facts and rules (default), through
	// rules only (a block without any fact of its own), or through facts only
	shape := r.Intn(10)
	factP, ruleP := 60, 30
	switch {
	case shape < 3: // rules only
		b.Facts = nil
		factP, ruleP = 0, 75
	case shape < 5: // facts only
		b.Rules = nil
		factP, ruleP = 70, 0
	}
	for _, q := range targets {
		for _, p := range q.Body {
			if r.Chance(factP) {
				b.Facts = append(b.Facts, ground(p)) // the very fact a query is waiting for
			}
			if r.Chance(ruleP) && len(sc.Token[0].Facts) > 0 { // a rule deriving it from any authority fact
				src := sc.Token[0].Facts[r.Intn(len(sc.Token[0].Facts))]
				body := SPred{Name: src.Name}
				for i := range src.Terms {
					body.Terms = append(body.Terms, aVar(fmt.Sprintf("v%d", i)))
				}
				b.Rules = append(b.Rules, SRule{Head: ground(p), Body: []SPred{body}})
			}
		}
	}
	b.Facts = dedupePreds(b.Facts)
	if r.Chance(50) {
		b.Checks = nil // no checks of its own: it can only try to add knowledge
	}
	return b
}

func runC02(res *Result, rng *RNG, tier string, outDir string) {
	res.Rule = "pairs (T, T+B) x one authorizer content: T random (authority + 0-2 blocks), B adversarial (facts copying authority predicates, the ground instances of every policy/check query body, rules deriving them from authority facts, symbols colliding with the authorizer's strings, with and without own checks). Property-directed oracle: Authorize(T+B) succeeds while Authorize(T) does not. Both runs are also predicted by the Coq model. Non-trivial = B non-empty and sharing a predicate name with T or the authorizer; distinct by canonical text."
	n := 250
	if tier == "thorough" {
		n = 12000
	}
	var cs azCases
	for i := 0; i < n; i++ {
		r := rng.Fork()
		sc := genScenario(r, r.Chance(8), 2)
		g := &azGen{rng: r, pg: newProgGen(r), err: false}
		g.pg.sigs = sigsOfScenario(sc)
		B := adversarialBlock(g, sc)
		sc2 := sc
		sc2.Token = append(append([]SBlock{}, sc.Token...), B)
		tok1, err1 := buildToken(sc.Token, r.Fork())
		tok2, err2 := buildToken(sc2.Token, r.Fork())
		if err1 != nil || err2 != nil {
			res.Dist("harness:token-build-error")
			continue
		}
		obs1, f1 := runScenarioGo(tok1, sc, entryAuthorizerFor)
		obs2, f2 := runScenarioGo(tok2, sc2, entryAuthorizerFor)
		if f1 != "" || f2 != "" {
			res.Violate("authorizer-creation", f1+f2, scReplay(sc2, nil, nil))
			continue
		}
		if anyPanic(res, "authorize", sc, obs1) || anyPanic(res, "authorize", sc2, obs2) {
			continue
		}
		v1, v2 := verdictOf(obs1), verdictOf(obs2)
		shares := false
		names := map[string]bool{}
		for _, s := range sigsOfScenario(sc) {
			names[s.Name] = true
		}
		for _, f := range B.Facts {
			if names[f.Name] {
				shares = true
			}
		}
		res.Count(sc2.String(), (len(B.Facts)+len(B.Rules)) > 0 && shares)
		res.Dist("parent:" + strings.SplitN(v1.Class, ":", 2)[0] + " child:" + strings.SplitN(v2.Class, ":", 2)[0])
		if i < 3 {
			res.Sample(scReplay(sc2, obs2, map[string]interface{}{"parent_verdict": v1.Class, "appended_block": blockString(B)}))
		}
		if v2.Class == "success" && v1.Class != "success" {
			res.Violate("attenuation-widens", fmt.Sprintf("T is refused (%s) but T+B is authorized", v1.Class), scReplay(sc2, obs2, map[string]interface{}{"parent_verdict": v1.Class, "parent_failed": v1.Failed, "appended_block": blockString(B)}))
		}
		cs.add(sc, obs1)
		cs.add(sc2, obs2)
	}
	c02CaptureWitness(res)
	c02CaptureMatrix(res)
	c02GateMatrix(res, rng, &cs)
	cs.write(res, outDir, "Cases_C02.v")
}

// c02GateMatrix: T is refused for exactly ONE reason — a single gate (an authorizer check, an authority-block
// check, a check of an earlier block, or the only allow policy) waits for the fact granted("x"), which nothing in T
// or in the authorizer provides — and everything else passes.  The appended block B then supplies that fact in
// every shape a block can take: as a fact, through a rule over an authority fact and NO fact of its own (a block
// that is rules only), through a rule with an expression, as fact and rule together, through a chain of two rules;
// alone or with unrelated content, appended directly to the authority or after one or two other blocks (which
// themselves carry facts, only rules, or nothing).  T+B must be refused in every combination, and both runs are
// model cases.  Random scenarios rarely fail for one reason only, so a change that lets the content of one block
// SHAPE reach the authorizer's policies, or an earlier block's checks, goes unseen there.
func c02GateMatrix(res *Result, rng *RNG, cs *azCases) {
	granted := SPred{Name: "granted", Terms: []STerm{aStr("x")}}
	src := SPred{Name: "user", Terms: []STerm{aStr("alice")}}
	srcV := SPred{Name: "user", Terms: []STerm{aVar("u")}}
	q := func(body ...SPred) SRule { return SRule{Head: SPred{Name: "query"}, Body: body} }
	tru := SRule{Head: SPred{Name: "query"}, Exprs: []SExpr{{{Kind: 0, Val: aBool(true)}}}}
	shapes := []struct {
		name string
		b    SBlock
	}{
		{"fact", SBlock{Facts: []SPred{granted}}},
		{"rule-only", SBlock{Rules: []SRule{{Head: granted, Body: []SPred{srcV}}}}},
		{"rule-only-expr", SBlock{Rules: []SRule{{Head: granted, Body: []SPred{srcV}, Exprs: []SExpr{{{Kind: 0, Val: aVar("u")}, {Kind: 0, Val: aStr("alice")}, {Kind: 2, Bin: 4}}}}}}},
		{"rule-chain", SBlock{Rules: []SRule{{Head: SPred{Name: "mid", Terms: []STerm{aVar("u")}}, Body: []SPred{srcV}}, {Head: granted, Body: []SPred{{Name: "mid", Terms: []STerm{aVar("u")}}}}}}},
		{"fact+rule", SBlock{Facts: []SPred{{Name: "note", Terms: []STerm{aInt(1)}}}, Rules: []SRule{{Head: granted, Body: []SPred{srcV}}}}},
		{"rule-only+check", SBlock{Rules: []SRule{{Head: granted, Body: []SPred{srcV}}}, Checks: []SCheck{{q(src)}}}},
		{"rule-from-own-fact", SBlock{Facts: []SPred{{Name: "seed", Terms: []STerm{aInt(7)}}}, Rules: []SRule{{Head: granted, Body: []SPred{{Name: "seed", Terms: []STerm{aVar("s")}}}}}}},
	}
	middles := []struct {
		name string
		bs   []SBlock
	}{
		{"none", nil},
		{"facts", []SBlock{{Facts: []SPred{{Name: "note", Terms: []STerm{aInt(2)}}}}}},
		{"rule-only", []SBlock{{Rules: []SRule{{Head: SPred{Name: "seen", Terms: []STerm{aVar("u")}}, Body: []SPred{srcV}}}}}},
		{"check-only", []SBlock{{Checks: []SCheck{{q(src)}}}}},
		{"rule-only,facts", []SBlock{{Rules: []SRule{{Head: SPred{Name: "seen", Terms: []STerm{aVar("u")}}, Body: []SPred{srcV}}}}, {Facts: []SPred{{Name: "note", Terms: []STerm{aInt(3)}}}}}},
	}
	gates := []string{"authorizer-check", "authority-check", "earlier-block-check", "allow-policy", "allow-policy-after-deny"}
	for _, gate := range gates {
		for _, mid := range middles {
			for _, sh := range shapes {
				auth := SBlock{Facts: []SPred{src, {Name: "resource", Terms: []STerm{aStr("file1")}}}}
				sc := azScenario{MaxF: 1000, MaxI: 100}
				blocks := append([]SBlock{}, mid.bs...)
				allowAll := azOp{Kind: "policy", Policy: SPolicy{Queries: []SRule{tru}}}
				switch gate {
				case "authorizer-check":
					sc.Ops = []azOp{{Kind: "check", Check: SCheck{q(granted)}}, allowAll}
				case "authority-check":
					auth.Checks = []SCheck{{q(granted)}}
					sc.Ops = []azOp{allowAll}
				case "earlier-block-check":
					blocks = append([]SBlock{{Facts: []SPred{{Name: "note", Terms: []STerm{aInt(0)}}}, Checks: []SCheck{{q(granted)}}}}, blocks...)
					sc.Ops = []azOp{allowAll}
				case "allow-policy":
					sc.Ops = []azOp{{Kind: "policy", Policy: SPolicy{Queries: []SRule{q(granted)}}}}
				case "allow-policy-after-deny":
					sc.Ops = []azOp{{Kind: "policy", Policy: SPolicy{Deny: true, Queries: []SRule{q(SPred{Name: "revoked", Terms: []STerm{aVar("r")}})}}},
						{Kind: "policy", Policy: SPolicy{Queries: []SRule{q(granted)}}},
						{Kind: "policy", Policy: SPolicy{Deny: true, Queries: []SRule{tru}}}}
				}
				sc.Ops = append(sc.Ops, azOp{Kind: "authorize"})
				sc.Token = append([]SBlock{auth}, blocks...)
				sc2 := sc
				sc2.Token = append(append([]SBlock{}, sc.Token...), sh.b)
				key := "gate=" + gate + " between=" + mid.name + " appended=" + sh.name
				tok1, err1 := buildToken(sc.Token, rng.Fork())
				tok2, err2 := buildToken(sc2.Token, rng.Fork())
				if err1 != nil || err2 != nil {
					res.Dist("harness:token-build-error")
					continue
				}
				obs1, f1 := runScenarioGo(tok1, sc, entryAuthorizerFor)
				obs2, f2 := runScenarioGo(tok2, sc2, entryAuthorizerFor)
				res.Count("gate-matrix "+key, true)
				res.Dist("gate-matrix:" + gate)
				if f1 != "" || f2 != "" {
					res.Violate("authorizer-creation", f1+f2, scReplay(sc2, nil, map[string]interface{}{"matrix": key}))
					continue
				}
				if anyPanic(res, "authorize", sc, obs1) || anyPanic(res, "authorize", sc2, obs2) {
					continue
				}
				v1, v2 := verdictOf(obs1), verdictOf(obs2)
				if v1.Class == "success" {
					res.Violate("gate-open-without-the-fact", "T is authorized although the only gate waits for a fact nothing provides ("+key+")", scReplay(sc, obs1, map[string]interface{}{"matrix": key}))
					continue
				}
				if v2.Class == "success" {
					res.Violate("attenuation-widens", fmt.Sprintf("T is refused (%s) but T+B is authorized (%s)", v1.Class, key), scReplay(sc2, obs2, map[string]interface{}{"matrix": key, "parent_verdict": v1.Class, "parent_failed": v1.Failed, "appended_block": blockString(sh.b)}))
				}
				cs.add(sc, obs1)
				cs.add(sc2, obs2)
			}
		}
	}
}

// c04SharedParsedAuthorizer: authorizer code given as text (parser.FromStringAuthorizer) and
// installed with AddAuthorizer; ONE parsed value serves two authorizers, each of which then
// receives one more policy.  The verdict of each must be the one the decision procedure gives
// for ITS content (k base policies that match nothing, then its own policy), for every k —
// Go's append leaves spare capacity in the parsed policy list for some k only.
func c04SharedParsedAuthorizer(res *Result) {
	pub, priv := rootKeys()
	b := biscuit.NewBuilder(priv, biscuit.WithRNG(detReader{NewRNG(21)}))
	f, _ := parser.FromStringFact(`user("alice")`)
	b.AddAuthorityFact(f)
	tok, err := b.Build()
	if err != nil {
		fatal("shared parsed authorizer: %v", err)
	}
	for k := 0; k <= 9; k++ {
		var sb strings.Builder
		sb.WriteString(`operation("read");` + "\n")
		for i := 0; i < k; i++ {
			fmt.Fprintf(&sb, "allow if nomatch(%d);\n", i)
		}
		run := func(shared bool) (string, string) {
			parsed, err := parser.FromStringAuthorizer(sb.String())
			if err != nil {
				fatal("shared parsed authorizer: parse: %v", err)
			}
			parsed2 := parsed
			if !shared {
				parsed2, _ = parser.FromStringAuthorizer(sb.String())
			}
			mk := func(p biscuit.ParsedAuthorizer, own string) biscuit.Authorizer {
				a, err := tok.AuthorizerFor(biscuit.WithSingularRootPublicKey(pub), biscuit.WithWorldOptions(longDuration()))
				if err != nil {
					fatal("shared parsed authorizer: %v", err)
				}
				a.AddAuthorizer(p)
				pol, _ := parser.FromStringPolicy(own)
				a.AddPolicy(pol)
				return a
			}
			a1 := mk(parsed, `allow if user("alice"), operation("read")`)
			a2 := mk(parsed2, `deny if true`)
			c1, _, _ := classifyVerdict(a1.Authorize())
			c2, _, _ := classifyVerdict(a2.Authorize())
			return c1, c2
		}
		var s1, s2 string
		if pan := usable(func() { s1, s2 = run(true) }); pan != "" {
			res.Violate("panic:shared-parsed-authorizer", "AddAuthorizer / AddPolicy / Authorize panicked: "+pan, map[string]interface{}{"base_policies": k})
			continue
		}
		res.Count(fmt.Sprintf("shared-parsed-authorizer %d", k), true)
		res.Dist("shared-parsed-authorizer")
		rep := map[string]interface{}{"authorizer_code": sb.String(), "base_policies": k, "first_authorizer_adds": `allow if user("alice"), operation("read")`, "second_authorizer_adds": "deny if true",
			"verdicts": s1 + " / " + s2}
		if s1 != "success" || s2 != "denied" {
			res.Violate("shared-parsed-authorizer", fmt.Sprintf("one parsed authorizer value (%d policies that match nothing) installed in two authorizers, each then given its own policy: verdicts %s / %s, the decision procedure gives success / denied (first matching policy of each authorizer's own list)", k, s1, s2), rep)
		}
	}
}

// c02CaptureWitness: the pre-repair finding F9 — an authority block issued over a custom
// base table, read with the default table, re-bound by a symbol that an appended block declares.
func c02CaptureWitness(res *Result) {
	_, priv := rootKeys()
	pub, _ := rootKeys()
	base := datalog.SymbolTable{"corp_admin"}
	b := biscuit.NewBuilder(priv, biscuit.WithSymbols(&base))
	b.AddAuthorityFact(biscuit.Fact{Predicate: biscuit.Predicate{Name: "role", IDs: []biscuit.Term{biscuit.String("corp_admin")}}})
	t0, err := b.Build()
	if err != nil {
		fatal("capture witness build: %v", err)
	}
	bs, _ := t0.Serialize()
	rep := map[string]interface{}{"token": fmt.Sprintf("%x", bs), "scenario": "authority role(#1024) issued over base table [corp_admin]; verifier uses the default table; holder appends a block whose first new symbol is \"corp_admin\"; policy allow if role(\"corp_admin\")"}
	res.Count("capture-witness", true)
	tok, err := unmarshalOwned(bs)
	verdict := func(t *biscuit.Biscuit) error {
		a, err := t.AuthorizerFor(biscuit.WithSingularRootPublicKey(pub), biscuit.WithWorldOptions(datalog.WithMaxDuration(20*time.Second)))
		if err != nil {
			return err
		}
		a.AddPolicy(biscuit.Policy{Kind: biscuit.PolicyKindAllow, Queries: []biscuit.Rule{{Head: biscuit.Predicate{Name: "q"}, Body: []biscuit.Predicate{{Name: "role", IDs: []biscuit.Term{biscuit.String("corp_admin")}}}}}})
		return a.Authorize()
	}
	if err != nil {
		res.Dist("capture-witness:rejected-at-unmarshal")
		// repaired behaviour: the dangling reference is refused.  The holder can still append on the WIRE a block
		// that declares a symbol for the dangling index: that token must be refused too
		wireCapture(res, "dangling-symbol-capture:wire", bs, err, verdict, rep)
		return
	}
	e1 := verdict(tok)
	bb := tok.CreateBlock()
	bb.AddFact(biscuit.Fact{Predicate: biscuit.Predicate{Name: "note", IDs: []biscuit.Term{biscuit.String("corp_admin")}}})
	t2, err := tok.Append(detReader{NewRNG(5)}, bb.Build())
	if err != nil {
		return
	}
	e2 := verdict(t2)
	if e1 != nil && e2 == nil {
		res.Violate("dangling-symbol-capture", "an appended block re-binds a dangling symbol of the authority block: T refused ("+e1.Error()+"), T+B authorized", rep)
	}
}

// wireCapture: T (bytes) was refused at Unmarshal because a block refers to a symbol nothing declares.  The holder
// appends, at wire level, blocks that declare "corp_admin" at the dangling index — as the block's first new symbol,
// and after one or two other new symbols when the dangling index is further away — and every such T+B must be refused.
func wireCapture(res *Result, key string, tBytes []byte, tErr error, verdict func(*biscuit.Biscuit) error, rep map[string]interface{}) {
	for pad := 0; pad <= 2; pad++ {
		syms := []string{}
		for i := 0; i < pad; i++ {
			syms = append(syms, fmt.Sprintf("pad%d", i))
		}
		syms = append(syms, "corp_admin")
		tb, err := wireAppend(tBytes, declaringBlock(syms, uint64(1024+pad)), NewRNG(uint64(77+pad)).Bytes(32))
		if err != nil {
			return
		}
		var e2 error
		pan := usable(func() {
			t2, err := unmarshalOwned(tb)
			if err != nil {
				e2 = err
				return
			}
			e2 = verdict(t2)
		})
		res.Dist("capture-wire:" + map[bool]string{true: "refused", false: "ACCEPTED"}[e2 != nil || pan != ""])
		if pan != "" {
			res.Violate("panic:"+key, "a token extended on the wire with a block declaring a dangling symbol panicked: "+pan, rep)
			return
		}
		if e2 == nil {
			r2 := map[string]interface{}{"parent_token_refused_with": tErr.Error(), "extended_token": fmt.Sprintf("%x", tb), "appended_block_declares": syms}
			for k, v := range rep {
				r2[k] = v
			}
			res.Violate(key, "a block appended on the wire declares a symbol for a dangling index of an earlier block: T refused ("+tErr.Error()+"), T+B authorized", r2)
			return
		}
	}
}

// c02CaptureMatrix: the same capture attempted at every POSITION a symbol can occupy in a block
// (fact term, predicate name, rule body constant, rule head constant, check body constant,
// expression constant, set element in an expression, set element in a fact).  The authority
// block is issued over the base table ["corp_admin"], so that read with the default table the
// word is a dangling index; the holder's block B then declares "corp_admin" as its first symbol.
// Whatever the position: not (T refused and T+B authorized).
func c02CaptureMatrix(res *Result) {
	pub, priv := rootKeys()
	type cse struct {
		name       string
		facts      []string
		rules      []string
		checks     []string
		authFacts  []string
		authPolicy string
	}
	W := `"corp_admin"`
	// every other name, string and variable is a DEFAULT symbol, so that the word under test is
	// the block's only non-default symbol: read with the default table it is index 1024, dangling
	cases := []cse{
		{"fact-term", []string{`role(` + W + `)`}, nil, nil, nil, `allow if role(` + W + `)`},
		{"predicate-name", []string{`corp_admin("read")`}, nil, nil, nil, `allow if corp_admin("read")`},
		{"rule-body-constant", nil, []string{`right("read") <- role(` + W + `)`}, nil, []string{`role(` + W + `)`}, `allow if right("read")`},
		{"rule-head-constant", nil, []string{`group(` + W + `) <- role("read")`}, nil, []string{`role("read")`}, `allow if group(` + W + `)`},
		{"check-body-constant", []string{`user("read")`}, nil, []string{`check if resource(` + W + `)`}, []string{`resource(` + W + `)`}, `allow if user("read")`},
		{"expression-constant", []string{`user("read")`}, nil, []string{`check if resource($user), $user == ` + W}, []string{`resource(` + W + `)`}, `allow if user("read")`},
		{"expression-method-argument", []string{`user("read")`}, nil, []string{`check if resource($user), $user.starts_with(` + W + `)`}, []string{`resource(` + W + `)`}, `allow if user("read")`},
		{"set-element-in-expression", []string{`user("read")`}, nil, []string{`check if resource($user), [` + W + `, "read"].contains($user)`}, []string{`resource(` + W + `)`}, `allow if user("read")`},
		{"set-element-in-fact", []string{`member([` + W + `])`}, nil, nil, nil, `allow if member($s), $s.contains(` + W + `)`},
		{"later-set-element-in-expression", []string{`user("read")`}, nil, []string{`check if resource($user), ["read", "write", ` + W + `].contains($user)`}, []string{`resource(` + W + `)`}, `allow if user("read")`},
		{"later-set-element-in-fact", []string{`member(["read", ` + W + `])`}, nil, nil, nil, `allow if member($s), $s.contains(` + W + `)`},
		{"rule-expression-constant", nil, []string{`right($user) <- resource($user), $user == ` + W}, nil, []string{`resource(` + W + `)`}, `allow if right(` + W + `)`},
	}
	var all []cse
	for _, c := range cases {
		all = append(all, c)
		if len(c.checks) > 0 && len(c.rules) == 0 {
			// the same check carried by a LATER block (the authority keeps the facts): the
			// dangling index is then in block 1, and the capturing block is block 2
			c2 := c
			c2.name = c.name + "@block1"
			all = append(all, c2)
		}
	}
	for _, c := range all {
		inBlock1 := strings.HasSuffix(c.name, "@block1")
		base := datalog.SymbolTable{"corp_admin"}
		b := biscuit.NewBuilder(priv, biscuit.WithSymbols(&base), biscuit.WithRNG(detReader{NewRNG(11)}))
		ok := true
		for _, t := range c.facts {
			f, err := parser.FromStringFact(t)
			ok = ok && err == nil && b.AddAuthorityFact(f) == nil
		}
		for _, t := range c.rules {
			r, err := parser.FromStringRule(t)
			ok = ok && err == nil && b.AddAuthorityRule(r) == nil
		}
		if !inBlock1 {
			for _, t := range c.checks {
				ch, err := parser.FromStringCheck(t)
				ok = ok && err == nil && b.AddAuthorityCheck(ch) == nil
			}
		}
		t0, err := b.Build()
		if !ok || err != nil {
			fatal("capture matrix %s: cannot build the authority block: %v", c.name, err)
		}
		if inBlock1 {
			bb := t0.CreateBlock()
			for _, t := range c.checks {
				ch, err := parser.FromStringCheck(t)
				ok = ok && err == nil && bb.AddCheck(ch) == nil
			}
			t0, err = t0.Append(detReader{NewRNG(12)}, bb.Build())
			if !ok || err != nil {
				fatal("capture matrix %s: cannot build block 1: %v", c.name, err)
			}
		}
		bs, _ := t0.Serialize()
		res.Count("capture-matrix:"+c.name, true)
		rep := map[string]interface{}{"position": c.name, "token": fmt.Sprintf("%x", bs), "authority_facts": c.facts, "authority_rules": c.rules, "authority_checks": c.checks,
			"authorizer_facts": c.authFacts, "policy": c.authPolicy, "scenario": "authority issued over base table [corp_admin], read with the default table; B's first new symbol is \"corp_admin\""}
		tok, err := unmarshalOwned(bs)
		verdict := func(t *biscuit.Biscuit) error {
			a, err := t.AuthorizerFor(biscuit.WithSingularRootPublicKey(pub), biscuit.WithWorldOptions(longDuration()))
			if err != nil {
				return err
			}
			for _, ft := range c.authFacts {
				f, _ := parser.FromStringFact(ft)
				a.AddFact(f)
			}
			pol, _ := parser.FromStringPolicy(c.authPolicy)
			a.AddPolicy(pol)
			return a.Authorize()
		}
		if err != nil {
			res.Dist("capture-matrix:" + c.name + ":rejected-at-unmarshal")
			wireCapture(res, "dangling-symbol-capture:wire:"+c.name, bs, err, verdict, rep)
			continue
		}
		var e1, e2 error
		pan := usable(func() {
			e1 = verdict(tok)
			bb := tok.CreateBlock()
			bb.AddFact(biscuit.Fact{Predicate: biscuit.Predicate{Name: "note", IDs: []biscuit.Term{biscuit.String("corp_admin")}}})
			t2, err := tok.Append(detReader{NewRNG(5)}, bb.Build())
			if err != nil {
				e2 = err
				return
			}
			e2 = verdict(t2)
		})
		if pan != "" {
			res.Violate("panic:capture-matrix:"+c.name, "a token with a dangling symbol ("+c.name+") panicked: "+pan, rep)
			continue
		}
		res.Dist("capture-matrix:" + c.name + ":accepted")
		if e1 != nil && e2 == nil {
			res.Violate("dangling-symbol-capture:"+c.name, "an appended block re-binds a dangling symbol of the authority block ("+c.name+"): T refused ("+e1.Error()+"), T+B authorized", rep)
		}
	}
}

func sigsOfScenario(sc azScenario) []predSig {
	seen := map[string]bool{}
	var out []predSig
	add := func(p SPred) {
		if p.Name == "query" || seen[p.Name] {
			return
		}
		seen[p.Name] = true
		s := predSig{Name: p.Name}
		for _, t := range p.Terms {
			k := t.Kind()
			if k == KVar {
				k = KInt
			}
			s.Cols = append(s.Cols, k)
		}
		out = append(out, s)
	}
	for _, b := range sc.Token {
		for _, f := range b.Facts {
			add(f)
		}
		for _, r := range b.Rules {
			add(r.Head)
		}
	}
	for _, op := range sc.Ops {
		if op.Kind == "fact" {
			add(op.Fact)
		}
	}
	if len(out) == 0 {
		out = append(out, predSig{Name: "p", Cols: []int{KInt}})
	}
	return out
}

// ---------------- C03: block scoping ----------------

func runC03(res *Result, rng *RNG, tier string, outDir string) {
	res.Rule = "a base token with 1-3 later blocks versus variants in which the facts and rules (not the checks) of one later block are replaced by adversarial content, or a check-free block is inserted at a random position; the same authorizer content and query panel. Oracle: every verdict component other than the changed block's own checks (authorizer checks, authority checks, policy outcome, other blocks' checks), the authority-level world and all query results must be identical. Non-trivial = the replaced content is non-empty and shares predicate names with the rest; distinct by canonical text."
	n := 220
	if tier == "thorough" {
		n = 10000
	}
	var cs azCases
	for i := 0; i < n; i++ {
		r := rng.Fork()
		sc := genScenario(r, false, 2)
		if len(sc.Token) < 2 {
			sc.Token = append(sc.Token, (&azGen{rng: r, pg: newProgGen(r)}).block(false))
		}
		g := &azGen{rng: r, pg: newProgGen(r)}
		g.pg.sigs = sigsOfScenario(sc)
		for q := 0; q < 2; q++ {
			sc.Ops = append(sc.Ops, azOp{Kind: "query", Rule: g.pg.query(false)})
		}
		k := 1 + r.Intn(len(sc.Token)-1)
		insertMode := r.Chance(35)
		if r.Chance(40) {
			// aim at the checks of the block that will FOLLOW the changed one
			nxt := k
			if !insertMode {
				nxt = k + 1
			}
			if nxt < len(sc.Token) {
				for _, c := range sc.Token[nxt].Checks {
					g.focus = append(g.focus, c...)
				}
			}
		}
		adv := adversarialBlock(g, sc)
		// probes: every OTHER later block gets checks that ask for exactly what the changed
		// block supplies or derives; their outcome must not depend on the changed block
		{
			var probes []SPred
			for _, f := range adv.Facts {
				probes = append(probes, f)
			}
			for _, ru := range adv.Rules {
				probes = append(probes, ru.Head)
			}
			toks := append([]SBlock{}, sc.Token...)
			for j := 1; j < len(toks) && len(probes) > 0; j++ {
				if j == k && !insertMode {
					continue
				}
				blk := toks[j]
				blk.Checks = append([]SCheck{}, blk.Checks...)
				for c := 0; c < 2; c++ {
					pr := probes[r.Intn(len(probes))]
					blk.Checks = append(blk.Checks, SCheck{SRule{Head: SPred{Name: "query"}, Body: []SPred{pr}}})
				}
				toks[j] = blk
			}
			sc.Token = toks
		}
		variant := sc
		variant.Token = append([]SBlock{}, sc.Token...)
		if insertMode {
			adv.Checks = nil
			variant.Token = append(append(append([]SBlock{}, sc.Token[:k]...), adv), sc.Token[k:]...)
		} else {
			variant.Token[k] = SBlock{Facts: adv.Facts, Rules: adv.Rules, Checks: sc.Token[k].Checks}
		}
		tok1, err1 := buildToken(sc.Token, r.Fork())
		tok2, err2 := buildToken(variant.Token, r.Fork())
		if err1 != nil || err2 != nil {
			res.Dist("harness:token-build-error")
			continue
		}
		obs1, f1 := runScenarioGo(tok1, sc, entryAuthorizerFor)
		obs2, f2 := runScenarioGo(tok2, variant, entryAuthorizerFor)
		if f1 != "" || f2 != "" {
			continue
		}
		if anyPanic(res, "authorize", sc, obs1) || anyPanic(res, "authorize", variant, obs2) {
			continue
		}
		v1, v2 := verdictOf(obs1), verdictOf(obs2)
		res.Count(variant.String(), len(adv.Facts)+len(adv.Rules) > 0)
		if insertMode {
			res.Dist("variant:insert")
		} else {
			res.Dist("variant:replace")
		}
		if i < 3 {
			res.Sample(scReplay(variant, obs2, map[string]interface{}{"changed_block": k, "insert": insertMode, "base_verdict": v1.Class}))
		}
		cs.add(sc, obs1)
		cs.add(variant, obs2)
		if strings.HasPrefix(v1.Class, "runerror") || strings.HasPrefix(v2.Class, "runerror") {
			res.Dist("skipped:run-error")
			continue
		}
		// components other than block k
		comp := func(v *azObs, skip int, shiftFrom int) []string {
			var out []string
			for _, f := range v.Failed {
				var bi, ci int
				if strings.HasPrefix(f, "authorizer#") {
					out = append(out, f)
					continue
				}
				fmt.Sscanf(f, "block%d#%d", &bi, &ci)
				if bi == skip {
					continue
				}
				if shiftFrom > 0 && bi > shiftFrom {
					bi--
				}
				out = append(out, fmt.Sprintf("block%d#%d", bi, ci))
			}
			return out
		}
		var c1, c2 []string
		if insertMode {
			c1 = comp(v1, -1, 0)
			c2 = comp(v2, k, k)
		} else {
			c1 = comp(v1, k, 0)
			c2 = comp(v2, k, 0)
		}
		rep := scReplay(variant, obs2, map[string]interface{}{"base": sc.String(), "base_observed": obsSummary(obs1), "changed_block": k, "insert": insertMode})
		if strings.Join(c1, ",") != strings.Join(c2, ",") {
			res.Violate("other-checks-affected", fmt.Sprintf("changing block %d changed other checks: %v vs %v", k, c1, c2), rep)
		}
		// policy outcome is visible only when no check fails at all
		if len(v1.Failed) == 0 && len(v2.Failed) == 0 && v1.Class != v2.Class {
			res.Violate("policy-affected", fmt.Sprintf("changing block %d changed the policy outcome: %s vs %s", k, v1.Class, v2.Class), rep)
		}
		a, b := predSetDiff(v1.World, v2.World)
		if len(a) > 0 || len(b) > 0 {
			res.Violate("world-affected", fmt.Sprintf("block %d content reached the authority-level world: %v / %v", k, a, b), rep)
		}
		for j := range obs1 {
			if obs1[j].Kind == "query" {
				x, y := predSetDiff(obs1[j].QRes, obs2[j].QRes)
				if len(x) > 0 || len(y) > 0 || obs1[j].QErr != obs2[j].QErr {
					res.Violate("query-affected", fmt.Sprintf("block %d content changed an authorizer query result: %v / %v", k, x, y), rep)
				}
			}
		}
	}
	c03SharedValueMatrix(res)
	c02CaptureMatrix(res)
	cs.write(res, outDir, "Cases_C03.v")
}

// ---------------- C12: determinism and order independence ----------------

func renameRule(r SRule, suffix string) SRule {
	rn := func(t STerm) STerm {
		if t.Kind() == KVar {
			return aVar(t.A.S + suffix)
		}
		return t
	}
	rp := func(p SPred) SPred {
		q := SPred{Name: p.Name}
		for _, t := range p.Terms {
			q.Terms = append(q.Terms, rn(t))
		}
		return q
	}
	out := SRule{Head: rp(r.Head)}
	for _, p := range r.Body {
		out.Body = append(out.Body, rp(p))
	}
	for _, e := range r.Exprs {
		var ne SExpr
		for _, o := range e {
			if o.Kind == 0 {
				o.Val = rn(o.Val)
			}
			ne = append(ne, o)
		}
		out.Exprs = append(out.Exprs, ne)
	}
	return out
}

func shuffleBlock(r *RNG, b SBlock, rename bool) SBlock {
	var out SBlock
	for _, i := range r.Perm(len(b.Facts)) {
		out.Facts = append(out.Facts, b.Facts[i])
	}
	for _, i := range r.Perm(len(b.Rules)) {
		rr := b.Rules[i]
		if rename {
			rr = renameRule(rr, "_r")
		}
		out.Rules = append(out.Rules, rr)
	}
	for _, i := range r.Perm(len(b.Checks)) {
		c := b.Checks[i]
		var nc SCheck
		for _, j := range r.Perm(len(c)) {
			q := c[j]
			if rename {
				q = renameRule(q, "_q")
			}
			nc = append(nc, q)
		}
		out.Checks = append(out.Checks, nc)
	}
	return out
}

func runC12(res *Result, rng *RNG, tier string, outDir string) {
	res.Rule = "each error-free scenario is presented (1) with facts, rules, checks and the queries inside checks shuffled in every block and in the authorizer (policies keep their order), (2) with variables renamed consistently per rule, (3) with an authorizer fact added twice, (4) with Authorize called a second and third time on the same authorizer, (5) with a Query on the authorizer before Authorize. Oracle: verdict class, number of failed checks, the derived fact SET and query result SETS are identical across presentations. Non-trivial = at least 2 facts and 1 rule or check to permute; distinct by canonical text."
	n := 130
	if tier == "thorough" {
		n = 8000
	}
	c12SiblingRules(res)
	var cs azCases
	for i := 0; i < n; i++ {
		r := rng.Fork()
		sc := genScenario(r, false, 2)
		g := &azGen{rng: r, pg: newProgGen(r)}
		g.pg.sigs = sigsOfScenario(sc)
		sc.Ops = append(sc.Ops, azOp{Kind: "query", Rule: g.pg.query(false)})
		// a third of the scenarios run just below the fact limit: a fact supplied twice is one
		// fact, so duplicating facts must not push a run over the limit
		if r.Chance(33) {
			refw, _, _, capped := refClosure(append(append([]SPred{}, factsOfOps(sc.Ops)...), sc.Token[0].Facts...), rulesOfScenario(sc), 900)
			most := len(refw.facts)
			for _, blk := range sc.Token[1:] {
				bw, _, _, bc := refClosure(append(append([]SPred{}, refw.facts...), blk.Facts...), blk.Rules, 900)
				capped = capped || bc
				if len(bw.facts) > most {
					most = len(bw.facts)
				}
			}
			if !capped {
				sc.MaxF = most + 1 + r.Intn(2)
				res.Dist("near-fact-limit")
			}
		}
		tok, err := buildToken(sc.Token, r.Fork())
		if err != nil {
			continue
		}
		base, f := runScenarioGo(tok, sc, entryAuthorizerFor)
		if f != "" || anyPanic(res, "authorize", sc, base) {
			continue
		}
		vb := verdictOf(base)
		if strings.HasPrefix(vb.Class, "runerror") {
			res.Dist("skipped:run-error")
			continue
		}
		nitems := 0
		for _, b := range sc.Token {
			nitems += len(b.Facts) + len(b.Rules) + len(b.Checks)
		}
		res.Count(sc.String(), nitems >= 3)
		cs.add(sc, base)
		if i < 2 {
			res.Sample(scReplay(sc, base, nil))
		}
		for variant := 0; variant < 5; variant++ {
			vs := sc
			vs.Token = nil
			vs.Ops = nil
			name := []string{"shuffle", "rename", "duplicate", "repeat", "query-first"}[variant]
			switch variant {
			case 0, 1:
				for _, b := range sc.Token {
					vs.Token = append(vs.Token, shuffleBlock(r, b, variant == 1))
				}
				var facts, rules, checks, rest []azOp
				for _, op := range sc.Ops {
					switch op.Kind {
					case "fact":
						facts = append(facts, op)
					case "rule":
						if variant == 1 {
							op.Rule = renameRule(op.Rule, "_a")
						}
						rules = append(rules, op)
					case "check":
						var nc SCheck
						for _, j := range r.Perm(len(op.Check)) {
							q := op.Check[j]
							if variant == 1 {
								q = renameRule(q, "_c")
							}
							nc = append(nc, q)
						}
						op.Check = nc
						checks = append(checks, op)
					default:
						rest = append(rest, op)
					}
				}
				for _, j := range r.Perm(len(facts)) {
					vs.Ops = append(vs.Ops, facts[j])
				}
				for _, j := range r.Perm(len(rules)) {
					vs.Ops = append(vs.Ops, rules[j])
				}
				for _, j := range r.Perm(len(checks)) {
					vs.Ops = append(vs.Ops, checks[j])
				}
				vs.Ops = append(vs.Ops, rest...)
			case 2:
				vs.Token = sc.Token
				for _, op := range sc.Ops {
					vs.Ops = append(vs.Ops, op)
					if op.Kind == "fact" {
						vs.Ops = append(vs.Ops, op, op)
					}
				}
				if len(sc.Token[0].Facts) > 0 { // an authority fact repeated by the authorizer
					vs.Ops = append([]azOp{{Kind: "fact", Fact: sc.Token[0].Facts[0]}}, vs.Ops...)
				}
			case 3:
				vs.Token = sc.Token
				for _, op := range sc.Ops {
					vs.Ops = append(vs.Ops, op)
					if op.Kind == "authorize" {
						vs.Ops = append(vs.Ops, azOp{Kind: "authorize"}, azOp{Kind: "authorize"})
					}
				}
			case 4: // the authorizer is queried once BEFORE Authorize: the outcome depends on content only
				vs.Token = sc.Token
				for _, op := range sc.Ops {
					if op.Kind == "authorize" {
						vs.Ops = append(vs.Ops, azOp{Kind: "query", Rule: g.pg.query(false)})
					}
					vs.Ops = append(vs.Ops, op)
				}
			}
			tv, err := buildToken(vs.Token, r.Fork())
			if err != nil {
				continue
			}
			ov, f := runScenarioGo(tv, vs, entryAuthorizerFor)
			if f != "" || anyPanic(res, "authorize", vs, ov) {
				continue
			}
			res.Count(vs.String(), true)
			res.Dist("variant:" + name)
			cs.add(vs, ov)
			rep := scReplay(vs, ov, map[string]interface{}{"base": sc.String(), "base_observed": obsSummary(base), "variant": name})
			// all verdicts of the variant (3 for repeat) must agree with the base verdict
			for _, o := range ov {
				if o.Kind != "verdict" {
					continue
				}
				if o.Class != vb.Class || len(o.Failed) != len(vb.Failed) {
					res.Violate("verdict-changes:"+name, fmt.Sprintf("presentation '%s' changes the verdict: %s (%d failed) vs %s (%d failed)", name, o.Class, len(o.Failed), vb.Class, len(vb.Failed)), rep)
				}
				a, b := predSetDiff(o.World, vb.World)
				if len(a) > 0 || len(b) > 0 {
					res.Violate("derived-set-changes:"+name, fmt.Sprintf("presentation '%s' changes the derived facts: %v / %v", name, a, b), rep)
				}
			}
			var qb, qv *azObs
			for j := range base {
				if base[j].Kind == "query" {
					qb = &base[j]
				}
			}
			for j := range ov {
				if ov[j].Kind == "query" {
					qv = &ov[j]
				}
			}
			if qb != nil && qv != nil && variant != 1 {
				a, b := predSetDiff(qb.QRes, qv.QRes)
				if len(a) > 0 || len(b) > 0 {
					res.Violate("query-set-changes:"+name, fmt.Sprintf("presentation '%s' changes a query result: %v / %v", name, a, b), rep)
				}
			}
		}
	}
	cs.write(res, outDir, "Cases_C12.v")
}

// ---------------- C13: Reset gives a clean authorizer ----------------

func runC13(res *Result, rng *RNG, tier string, outDir string) {
	res.Rule = "histories of 2-5 rounds (add random facts/rules/checks/policies with Add* calls or, for a third of the rounds, as a snapshot loaded with LoadPolicies; then Authorize and/or Query, then Reset) on ONE authorizer, rounds of every outcome class (success, denied, no match, failed checks, run-limit error); the observations of the last round are compared with the same round on a freshly created authorizer for the same token. Non-trivial = the earlier rounds added at least one fact or rule; distinct by canonical history text."
	n := 200
	if tier == "thorough" {
		n = 10000
	}
	c13TimedOutRound(res)
	var cs azCases
	for i := 0; i < n; i++ {
		r := rng.Fork()
		sc := genScenario(r, r.Chance(10), 2)
		g := &azGen{rng: r, pg: newProgGen(r), err: false}
		g.pg.sigs = sigsOfScenario(sc)
		if r.Chance(15) {
			sc.MaxF = 3 + r.Intn(10)
		}
		tokForLoad, _ := buildToken(sc.Token, r.Fork())
		round := func() []azOp {
			ops := g.authorizerOps()
			// facts that token checks are waiting for: leak candidates
			for _, blk := range sc.Token {
				for _, c := range blk.Checks {
					for _, q := range c {
						for _, p := range q.Body {
							if r.Chance(50) {
								f := SPred{Name: p.Name}
								for _, t := range p.Terms {
									if t.Kind() == KVar {
										f.Terms = append(f.Terms, g.pg.constant([]int{KInt, KStr}[r.Intn(2)]))
									} else {
										f.Terms = append(f.Terms, t)
									}
								}
								ops = append(ops, azOp{Kind: "fact", Fact: f})
							}
						}
					}
				}
			}
			// sometimes the round's content arrives as a snapshot (LoadPolicies) instead of Add* calls
			if r.Chance(35) && tokForLoad != nil {
				if src, err := newAuthorizer(tokForLoad, 1000, 100, entryAuthorizerFor); err == nil {
					var bs []byte
					var serr error
					func() {
						defer func() {
							if p := recover(); p != nil {
								serr = fmt.Errorf("panic: %v", p)
							}
						}()
						applyContent(src, ops)
						bs, serr = src.SerializePolicies()
					}()
					if serr == nil {
						ops = []azOp{{Kind: "load", Load: ops, LoadBytes: bs}}
					}
				}
			}
			switch r.Intn(5) {
			case 0:
				ops = append(ops, azOp{Kind: "query", Rule: g.pg.query(false)})
			case 1:
				ops = append(ops, azOp{Kind: "authorize"}, azOp{Kind: "query", Rule: g.pg.query(false)})
			case 2: // a query BEFORE the authorization: the token's content is loaded by Authorize all the same
				ops = append(ops, azOp{Kind: "query", Rule: g.pg.query(false)}, azOp{Kind: "authorize"})
			default:
				ops = append(ops, azOp{Kind: "authorize"})
			}
			return ops
		}
		nr := 2 + r.Intn(4)
		hist := sc
		hist.Ops = nil
		var last []azOp
		prior := 0
		for k := 0; k < nr; k++ {
			last = round()
			if k < nr-1 {
				for _, o := range last {
					if o.Kind == "fact" || o.Kind == "rule" || o.Kind == "load" {
						prior++
					}
				}
			}
			hist.Ops = append(hist.Ops, last...)
			if k < nr-1 {
				hist.Ops = append(hist.Ops, azOp{Kind: "reset"})
			}
		}
		freshSc := sc
		freshSc.Ops = last
		tok, err := buildToken(sc.Token, r.Fork())
		if err != nil {
			continue
		}
		oh, f1 := runScenarioGo(tok, hist, entryAuthorizerFor)
		of, f2 := runScenarioGo(tok, freshSc, entryAuthorizerFor)
		if f1 != "" || f2 != "" || anyPanic(res, "history", hist, oh) || anyPanic(res, "history", freshSc, of) {
			continue
		}
		res.Count(hist.String(), prior > 0)
		res.Dist(fmt.Sprintf("rounds:%d", nr))
		for _, o := range oh {
			if o.Kind == "verdict" {
				res.Dist("round-outcome:" + strings.SplitN(o.Class, ":", 2)[0])
			}
		}
		if i < 2 {
			res.Sample(scReplay(hist, oh, nil))
		}
		cs.add(hist, oh)
		cs.add(freshSc, of)
		tail := oh[len(oh)-len(of):]
		rep := scReplay(hist, oh, map[string]interface{}{"fresh_observed": obsSummary(of)})
		for j := range of {
			a, b := tail[j], of[j]
			switch b.Kind {
			case "verdict":
				if a.Class != b.Class || strings.Join(a.Failed, ",") != strings.Join(b.Failed, ",") {
					res.Violate("reset-leak:verdict", fmt.Sprintf("after Reset the round gives %s %v, a fresh authorizer gives %s %v", a.Class, a.Failed, b.Class, b.Failed), rep)
				}
				x, y := predSetDiff(a.World, b.World)
				if len(x) > 0 || len(y) > 0 {
					res.Violate("reset-leak:world", fmt.Sprintf("after Reset the world differs from a fresh authorizer's: %v / %v", x, y), rep)
				}
			case "query":
				x, y := predSetDiff(a.QRes, b.QRes)
				if len(x) > 0 || len(y) > 0 || a.QErr != b.QErr {
					res.Violate("reset-leak:query", fmt.Sprintf("after Reset a query differs from a fresh authorizer's: %v / %v", x, y), rep)
				}
			}
		}
	}
	cs.write(res, outDir, "Cases_C13.v")
}

// ---------------- C11: limits, entry points, no stranded goroutines ----------------

func datalogGoroutines() int {
	n, _ := datalogGoroutineStates()
	return n
}

// datalogGoroutineStates counts the goroutines with a frame of the datalog package and, among
// them, those that are running or runnable (i.e. not blocked).
func datalogGoroutineStates() (total, active int) {
	buf := make([]byte, 4<<20)
	n := runtime.Stack(buf, true)
	for _, g := range strings.Split(string(buf[:n]), "\n\n") {
		if !strings.Contains(g, "biscuit-go/v2/datalog.") {
			continue
		}
		total++
		hdr := g
		if i := strings.Index(g, "\n"); i >= 0 {
			hdr = g[:i]
		}
		if strings.Contains(hdr, "[running") || strings.Contains(hdr, "[runnable") {
			active++
		}
	}
	return
}

// strandedGoroutines decides "stays blocked forever" as well as an observer can: it polls until
// the census is back to base; once `patience` has passed it looks at the states: if in three
// samples 200 ms apart none of the remaining datalog goroutines is running or runnable they are
// blocked on each other or on nobody (stranded) and their number is returned; while some of them
// still compute it keeps waiting (up to a cap, then gives the benefit of the doubt).
func strandedGoroutines(res *Result, base int, patience time.Duration) int {
	start := time.Now()
	for {
		total, _ := datalogGoroutineStates()
		if total-base <= 0 {
			return 0
		}
		el := time.Since(start)
		if el > patience {
			quiet := true
			for k := 0; k < 3; k++ {
				t, a := datalogGoroutineStates()
				if t-base <= 0 {
					return 0
				}
				if a > 0 {
					quiet = false
					break
				}
				time.Sleep(200 * time.Millisecond)
			}
			if quiet {
				t, _ := datalogGoroutineStates()
				return t - base
			}
			if el > 180*time.Second {
				res.Dist("census:still-computing-at-cap")
				return 0
			}
		}
		time.Sleep(50 * time.Millisecond)
	}
}

func runC11(res *Result, rng *RNG, tier string, outDir string) {
	res.Rule = "(a) programs of every outcome class (fixpoint reached, fact limit, iteration limit, ill-typed expression, division by zero, invalid rule with 0/1/>=2 matches) x limit grids placed just below / at / above the measured need, through Authorize; (b) both entry points (AuthorizerFor, Authorizer) x option lists: the limits in force (world and base world, before and after Reset) must equal the options supplied; (c) goroutine census (runtime.Stack filtered to datalog frames) after every evaluation, any outcome: must return to 0; a goroutine counts as stranded only when, after 2 s, none of the remaining datalog goroutines is running or runnable in three samples (a goroutine that still computes, or is slow to be scheduled, is not blocked); a slow program under a 10 ms maxDuration must report the timeout error. Non-trivial = the run hits a limit, an error, or needs >= 2 rounds; distinct by canonical text."
	n := 250
	if tier == "thorough" {
		n = 6000
	}
	var cs azCases
	base := datalogGoroutines()
	for i := 0; i < n; i++ {
		r := rng.Fork()
		errProne := r.Chance(35)
		sc := genScenario(r, errProne, 1)
		// measure the need with generous limits using the reference
		ref, rounds, _, capped := refClosure(append(append([]SPred{}, factsOfOps(sc.Ops)...), sc.Token[0].Facts...), rulesOfScenario(sc), 900)
		need := len(ref.facts)
		if capped {
			continue
		}
		// the same for every later block: its world is the authority-level fixpoint plus its own
		// facts, closed under its own rules
		type blockNeed struct{ facts, rounds int }
		var bneeds []blockNeed
		for _, blk := range sc.Token[1:] {
			bw, br, _, bcap := refClosure(append(append([]SPred{}, ref.facts...), blk.Facts...), blk.Rules, 900)
			if bcap {
				bneeds = nil
				break
			}
			bneeds = append(bneeds, blockNeed{len(bw.facts), br})
		}
		grid := r.Intn(6)
		if len(bneeds) > 0 && r.Chance(40) {
			// place the fact limit relative to a later block's need
			bn := bneeds[r.Intn(len(bneeds))]
			if bn.facts > need {
				sc.MaxF = bn.facts + r.Intn(2) - r.Intn(2)
				grid = 5
			}
		}
		switch grid {
		case 0:
			sc.MaxF = need // at the limit: >= maxFacts errors
		case 1:
			sc.MaxF = need + 1 // just above
		case 2:
			if need > 1 {
				sc.MaxF = need - 1
			}
		case 3:
			sc.MaxI = rounds // one short of the confirming round
		case 4:
			sc.MaxI = rounds + 1
		default:
		}
		entry := azEntry(r.Intn(2))
		tok, err := buildToken(sc.Token, r.Fork())
		if err != nil {
			continue
		}
		// (b) options honoured by this entry point
		a, err := newAuthorizer(tok, sc.MaxF, sc.MaxI, entry)
		if err != nil {
			res.Violate("authorizer-creation", err.Error(), scReplay(sc, nil, nil))
			continue
		}
		ename := []string{"AuthorizerFor", "Authorizer"}[entry]
		w, b := biscuit.VerifAuthorizerLimits(a)
		want := [2]int{sc.MaxF, sc.MaxI}
		rep0 := scReplay(sc, nil, map[string]interface{}{"entry": ename, "limits_in_force": fmt.Sprint(w, b), "limits_supplied": fmt.Sprint(want)})
		if w != want || b != want {
			res.Violate("options-dropped:"+ename, fmt.Sprintf("%s: limits in force %v (base %v) differ from the options supplied %v", ename, w, b, want), rep0)
		}
		a.AddFact(biscuit.Fact{Predicate: biscuit.Predicate{Name: "tmp", IDs: []biscuit.Term{biscuit.Integer(1)}}})
		a.Reset()
		w2, b2 := biscuit.VerifAuthorizerLimits(a)
		if w2 != want || b2 != want {
			res.Violate("options-lost-on-reset:"+ename, fmt.Sprintf("%s: limits after Reset %v (base %v) differ from the options supplied %v", ename, w2, b2, want), rep0)
		}
		// (a) the run itself
		obs, f := runScenarioGo(tok, sc, entry)
		if f != "" || anyPanic(res, "authorize", sc, obs) {
			continue
		}
		v := verdictOf(obs)
		res.Dist("entry:" + ename)
		res.Dist("outcome:" + v.Class)
		res.Count(sc.String(), strings.HasPrefix(v.Class, "runerror") || rounds >= 2)
		if i < 3 {
			res.Sample(scReplay(sc, obs, map[string]interface{}{"entry": ename, "need_facts": need, "need_rounds": rounds}))
		}
		cs.add(sc, obs)
		rv := refAuthorize(sc.Token, sc.Ops)
		rep := scReplay(sc, obs, map[string]interface{}{"entry": ename, "need_facts": need, "need_rounds": rounds})
		if rv.InFragment {
			if need >= sc.MaxF && v.Class != "runerror:EMaxFacts" && !(rounds+1 > sc.MaxI) {
				res.Violate("fact-limit-ignored", fmt.Sprintf("authority-level least model has %d facts >= maxFacts %d but Authorize returned %s", need, sc.MaxF, v.Class), rep)
			}
			if need < sc.MaxF && rounds+1 > sc.MaxI && !strings.HasPrefix(v.Class, "runerror") {
				res.Violate("iteration-limit-ignored", fmt.Sprintf("fixpoint needs %d rounds > maxIterations %d but Authorize returned %s", rounds+1, sc.MaxI, v.Class), rep)
			}
			// a limit hit while a LATER block is evaluated must be reported as that limit too
			if need < sc.MaxF && rounds+1 <= sc.MaxI {
				for bi, bn := range bneeds {
					if bn.facts >= sc.MaxF || bn.rounds+1 > sc.MaxI {
						if bn.facts >= sc.MaxF && bn.rounds+1 <= sc.MaxI && v.Class != "runerror:EMaxFacts" {
							res.Violate("block-fact-limit-not-distinguishable", fmt.Sprintf("block %d's world has %d facts >= maxFacts %d but Authorize returned %s (raw error %q): the limit error must be recognisable with errors.Is", bi+1, bn.facts, sc.MaxF, v.Class, v.Raw), rep)
						} else if !strings.HasPrefix(v.Class, "runerror") {
							res.Violate("block-limit-ignored", fmt.Sprintf("block %d exceeds a limit (facts %d / maxFacts %d, rounds %d / maxIterations %d) but Authorize returned %s", bi+1, bn.facts, sc.MaxF, bn.rounds+1, sc.MaxI, v.Class), rep)
						}
						break
					}
				}
			}
			if v.Class == "success" || v.Class == "denied" || v.Class == "nomatch" || v.Class == "checks" {
				// no silent truncation: the world must be the least model
				x, y := predSetDiff(v.World, rv.World)
				if len(x) > 0 || len(y) > 0 {
					res.Violate("silent-truncation", fmt.Sprintf("Authorize returned %s but the world is not the fixpoint: %v / %v", v.Class, x, y), rep)
				}
			}
		}
		// (c) census
		time.Sleep(time.Duration(2+len(sc.Token)) * time.Millisecond)
		if g := datalogGoroutines() - base; g != 0 {
			if g = strandedGoroutines(res, base, 2*time.Second); g != 0 {
				res.Violate("stranded-goroutine:"+strings.SplitN(v.Class, ":", 2)[0], fmt.Sprintf("%d goroutine(s) of the datalog package still alive 2 s after Authorize returned %s", g, v.Class), rep)
				base = datalogGoroutines()
			}
		}
	}
	// census at datalog level over a matrix of early-return shapes: head {bound, unbound} x
	// expression {none, true for all, error on the k-th fact, false on some} x 1-4 facts x fact order
	{
		k := 0
		for _, unbound := range []bool{false, true} {
			for exprKind := 0; exprKind < 5; exprKind++ {
				for nf := 1; nf <= 4; nf++ {
					for _, rev := range []bool{false, true} {
						k++
						syms := &datalog.SymbolTable{}
						w := datalog.NewWorld(datalog.WithMaxDuration(10 * time.Second))
						vals := []int64{1, 2, 0, 3}[:nf]
						if rev {
							for i, j := 0, len(vals)-1; i < j; i, j = i+1, j-1 {
								vals[i], vals[j] = vals[j], vals[i]
							}
						}
						for _, v := range vals {
							w.AddFact(datalog.Fact{Predicate: SPred{Name: "n", Terms: []STerm{aInt(v)}}.toDatalog(syms)})
						}
						hv := "x"
						if unbound {
							hv = "zz"
						}
						rule := SRule{Head: SPred{Name: "h", Terms: []STerm{aVar(hv)}}, Body: []SPred{{Name: "n", Terms: []STerm{aVar("x")}}}}
						val := func(t STerm) SOp { return SOp{Kind: 0, Val: t} }
						switch exprKind {
						case 1:
							rule.Exprs = []SExpr{{val(aVar("x")), val(aInt(0)), {Kind: 2, Bin: 3}}}
						case 2: // 10 / x >= 0 : error when x = 0
							rule.Exprs = []SExpr{{val(aInt(10)), val(aVar("x")), {Kind: 2, Bin: 12}, val(aInt(0)), {Kind: 2, Bin: 3}}}
						case 3: // false on some
							rule.Exprs = []SExpr{{val(aVar("x")), val(aInt(2)), {Kind: 2, Bin: 0}}}
						case 4: // ill-typed on every fact
							rule.Exprs = []SExpr{{val(aVar("x")), val(aStr("s")), {Kind: 2, Bin: 0}}}
						}
						w.AddRule(rule.toDatalog(syms))
						err := w.Run(syms)
						w.QueryRule(rule.toDatalog(syms), syms)
						res.Count(fmt.Sprintf("census %d", k), true)
						res.Dist("census:" + runErrClass(err))
						time.Sleep(3 * time.Millisecond)
						if g := datalogGoroutines() - base; g != 0 {
							if g = strandedGoroutines(res, base, 2*time.Second); g != 0 {
								res.Violate("stranded-goroutine:"+runErrClass(err), fmt.Sprintf("%d goroutine(s) left blocked after World.Run / QueryRule returned %v", g, err),
									map[string]interface{}{"rule": rule.String(), "facts": fmt.Sprint(vals)})
								base = datalogGoroutines()
							}
						}
					}
				}
			}
		}
	}
	// timeout: a cross product that takes far longer than 30 ms
	{
		syms := &datalog.SymbolTable{}
		w := datalog.NewWorld(datalog.WithMaxFacts(10000000), datalog.WithMaxIterations(1000), datalog.WithMaxDuration(10*time.Millisecond))
		for j := 0; j < 40; j++ {
			w.AddFact(datalog.Fact{Predicate: SPred{Name: "d", Terms: []STerm{aInt(int64(j))}}.toDatalog(syms)})
		}
		cross := SRule{Head: SPred{Name: "c", Terms: []STerm{aVar("a"), aVar("b"), aVar("c")}}, Body: []SPred{{Name: "d", Terms: []STerm{aVar("a")}}, {Name: "d", Terms: []STerm{aVar("b")}}, {Name: "d", Terms: []STerm{aVar("c")}}}}
		w.AddRule(cross.toDatalog(syms))
		t0 := time.Now()
		err := w.Run(syms)
		el := time.Since(t0)
		res.Count("timeout", true)
		res.Dist("timeout:" + runErrClass(err))
		if !errors.Is(err, datalog.ErrWorldRunLimitTimeout) {
			res.Violate("timeout-not-reported", fmt.Sprintf("64000-fact cross product under maxDuration 10ms returned %v after %v", err, el), map[string]interface{}{"rule": cross.String()})
		} else if el > 5*time.Second {
			res.Violate("timeout-late", fmt.Sprintf("timeout reported after %v for maxDuration 10ms", el), map[string]interface{}{"rule": cross.String()})
		}
		// the worker finishes its current rule application and exits: wait for it (it is not
		// blocked, it computes; only goroutines that are blocked with nobody to wake them count)
		if g := strandedGoroutines(res, base, 20*time.Second); g != 0 {
			res.Violate("stranded-goroutine:timeout", fmt.Sprintf("%d goroutine(s) blocked for ever after a timed-out Run", g), map[string]interface{}{"rule": cross.String()})
		}
	}
	sort.Strings(cs.descs[:0])
	cs.write(res, outDir, "Cases_C11.v")
}

func rulesOfScenario(sc azScenario) []SRule {
	var rs []SRule
	for _, op := range sc.Ops {
		if op.Kind == "rule" {
			rs = append(rs, op.Rule)
		}
	}
	return append(rs, sc.Token[0].Rules...)
}

// c03SharedValueMatrix: evaluating an expression must not change the values it is given.  An
// authority fact carries a set; a check-free block B applies an operation to that set, bound
// through a variable (left or right operand); an observer (a check of another block, or a query
// of the authorizer after Authorize) depends on the elements of the set.  T (without B) and T
// with B inserted before / appended after the observer block must agree (B has no check), and the
// authority facts read back after Authorize must be the ones the token carries.
func c03SharedValueMatrix(res *Result) {
	pub, priv := rootKeys()
	type cse struct {
		name, fact, brule, observer, query string
	}
	cases := []cse{
		{"intersection-left", `tags([1, 2, 3])`, `kept(1) <- tags($s), $s.intersection([2, 3]).length() == 2`, `check if tags($s), $s.contains(1)`, `q($s) <- tags($s)`},
		{"intersection-right", `tags([1, 2, 3])`, `kept(1) <- tags($s), [2, 3].intersection($s).length() == 2`, `check if tags($s), $s.contains(1)`, `q($s) <- tags($s)`},
		{"intersection-left-last", `tags([1, 2, 3])`, `kept(1) <- tags($s), $s.intersection([3]).contains(3)`, `check if tags($s), $s.contains(1), $s.contains(2)`, `q($s) <- tags($s)`},
		{"intersection-self", `tags([1, 2, 3])`, `kept(1) <- tags($s), $s.intersection($s).length() == 3`, `check if tags($s), $s.length() == 3`, `q($s) <- tags($s)`},
		{"union-left", `tags([1, 2, 3])`, `kept(1) <- tags($s), $s.union([4, 1]).length() == 4`, `check if tags($s), $s.length() == 3, !$s.contains(4)`, `q($s) <- tags($s)`},
		{"union-right", `tags([1, 2, 3])`, `kept(1) <- tags($s), [4, 1].union($s).length() == 4`, `check if tags($s), $s.length() == 3, !$s.contains(4)`, `q($s) <- tags($s)`},
		{"strings-intersection-left", `labels(["read", "write", "admin"])`, `kept(1) <- labels($s), $s.intersection(["write", "admin"]).length() == 2`, `check if labels($s), $s.contains("read")`, `q($s) <- labels($s)`},
		{"strings-union-left", `labels(["read", "write", "admin"])`, `kept(1) <- labels($s), $s.union(["other"]).length() == 4`, `check if labels($s), $s.length() == 3`, `q($s) <- labels($s)`},
		{"two-sets", `pair([1, 2, 3], [2, 3])`, `kept(1) <- pair($s, $t), $s.intersection($t) == $t`, `check if pair($s, $t), $s.contains(1), $t.length() == 2`, `q($s, $t) <- pair($s, $t)`},
		{"in-check-of-same-block", `tags([1, 2, 3])`, ``, `check if tags($s), $s.intersection([2, 3]).length() == 2, $s.contains(1)`, `q($s) <- tags($s)`},
	}
	for _, c := range cases {
		build := func(order string) (*biscuit.Biscuit, error) { // order: letters B (check-free block) and O (observer block)
			b := biscuit.NewBuilder(priv, biscuit.WithRNG(detReader{NewRNG(21)}))
			f, err := parser.FromStringFact(c.fact)
			if err != nil {
				return nil, err
			}
			b.AddAuthorityFact(f)
			t, err := b.Build()
			if err != nil {
				return nil, err
			}
			for i, o := range order {
				bb := t.CreateBlock()
				if o == 'B' {
					if c.brule == "" {
						continue
					}
					r, err := parser.FromStringRule(c.brule)
					if err != nil {
						return nil, err
					}
					bb.AddRule(r)
				} else {
					ch, err := parser.FromStringCheck(c.observer)
					if err != nil {
						return nil, err
					}
					bb.AddCheck(ch)
				}
				if t, err = t.Append(detReader{NewRNG(uint64(30 + i))}, bb.Build()); err != nil {
					return nil, err
				}
			}
			bs, err := t.Serialize()
			if err != nil {
				return nil, err
			}
			return unmarshalOwned(bs)
		}
		type outcome struct{ verdict, first, second, query string }
		run := func(order string) (o outcome, panicked string) {
			panicked = usable(func() {
				t, err := build(order)
				if err != nil {
					fatal("shared-value matrix %s/%s: cannot build: %v", c.name, order, err)
				}
				a, err := t.AuthorizerFor(biscuit.WithSingularRootPublicKey(pub), biscuit.WithWorldOptions(longDuration()))
				if err != nil {
					fatal("shared-value matrix %s/%s: %v", c.name, order, err)
				}
				a.AddPolicy(biscuit.DefaultAllowPolicy)
				o.first = fmt.Sprint(a.Authorize())
				o.second = fmt.Sprint(a.Authorize())
				q, err := parser.FromStringRule(c.query)
				if err != nil {
					fatal("shared-value matrix %s: %v", c.name, err)
				}
				fs, err := a.Query(q)
				o.query = fmt.Sprint(fs, err)
			})
			return
		}
		ref, pan := run("O")
		res.Count("shared-value:"+c.name, true)
		rep := map[string]interface{}{"case": c.name, "authority_fact": c.fact, "check_free_block_rule": c.brule, "observer_check": c.observer, "query": c.query, "alone": ref}
		if pan != "" {
			res.Violate("panic:shared-value:"+c.name, "panic: "+pan, rep)
			continue
		}
		if ref.first != "<nil>" || ref.second != "<nil>" {
			res.Violate("shared-value:"+c.name+":observer-alone", "the observer block alone is refused ("+ref.first+" / second Authorize "+ref.second+"): evaluating an expression changed the authority fact's set", rep)
			continue
		}
		for _, order := range []string{"BO", "OB", "BOB"} {
			got, pan := run(order)
			rep2 := map[string]interface{}{"case": c.name, "authority_fact": c.fact, "check_free_block_rule": c.brule, "observer_check": c.observer, "query": c.query, "blocks": order, "alone": ref, "with_check_free_block": got}
			res.Dist("shared-value:" + order)
			if pan != "" {
				res.Violate("panic:shared-value:"+c.name, "panic: "+pan, rep2)
			} else if got.first != ref.first || got.second != ref.second {
				res.Violate("check-free-block-changes-verdict:shared-value:"+c.name, "a check-free block whose rule applies an operation to an authority fact's set changes the verdict (blocks "+order+"): alone "+ref.first+", with it "+got.first+" / "+got.second, rep2)
			} else if got.query != ref.query {
				res.Violate("check-free-block-changes-facts:shared-value:"+c.name, "a check-free block whose rule applies an operation to an authority fact's set changes that fact as read back by Query: alone "+ref.query+", with it "+got.query, rep2)
			}
		}
	}
}

// c12SiblingRules: a disjunction written as two rules with the same head and the same body that
// differ only in their constraints.  Both rules must be applied wherever they are supplied
// (authorizer, authority block, one in each, a later block) and in whichever order.
func c12SiblingRules(res *Result) {
	pub, priv := rootKeys()
	pairs := [][2]string{
		{`readable($r) <- resource($r), $r.starts_with("a")`, `readable($r) <- resource($r), $r.ends_with("z")`},
		{`small($n) <- size($n), $n < 2`, `small($n) <- size($n), $n == 7`},
		{`ok($s) <- tags($s), $s.contains(1)`, `ok($s) <- tags($s), $s.contains(9)`},
	}
	facts := [][]string{{`resource("abc")`, `resource("xyz")`}, {`size(1)`, `size(7)`}, {`tags([1, 2])`, `tags([9])`}}
	checks := []string{`check if readable("abc"), readable("xyz")`, `check if small(1), small(7)`, `check if ok([1, 2]), ok([9])`}
	for k, pr := range pairs {
		for _, place := range []string{"authorizer", "authority", "split", "block1"} {
			var outs []string
			for _, ord := range [][2]int{{0, 1}, {1, 0}} {
				var verdict string
				pan := usable(func() {
					b := biscuit.NewBuilder(priv, biscuit.WithRNG(detReader{NewRNG(41)}))
					for _, ft := range facts[k] {
						f, err := parser.FromStringFact(ft)
						if err != nil {
							fatal("sibling rules: %v", err)
						}
						b.AddAuthorityFact(f)
					}
					r0, err0 := parser.FromStringRule(pr[ord[0]])
					r1, err1 := parser.FromStringRule(pr[ord[1]])
					ch, err2 := parser.FromStringCheck(checks[k])
					if err0 != nil || err1 != nil || err2 != nil {
						fatal("sibling rules: %v %v %v", err0, err1, err2)
					}
					if place == "authority" {
						b.AddAuthorityRule(r0)
						b.AddAuthorityRule(r1)
					}
					if place == "split" {
						b.AddAuthorityRule(r0)
					}
					t, err := b.Build()
					if err != nil {
						fatal("sibling rules: %v", err)
					}
					if place == "block1" {
						bb := t.CreateBlock()
						bb.AddRule(r0)
						bb.AddRule(r1)
						bb.AddCheck(ch)
						if t, err = t.Append(detReader{NewRNG(42)}, bb.Build()); err != nil {
							fatal("sibling rules: %v", err)
						}
					}
					a, err := t.AuthorizerFor(biscuit.WithSingularRootPublicKey(pub), biscuit.WithWorldOptions(longDuration()))
					if err != nil {
						fatal("sibling rules: %v", err)
					}
					if place == "authorizer" {
						a.AddRule(r0)
						a.AddRule(r1)
					}
					if place == "split" {
						a.AddRule(r1)
					}
					if place != "block1" {
						a.AddCheck(ch)
					}
					a.AddPolicy(biscuit.DefaultAllowPolicy)
					verdict = fmt.Sprint(a.Authorize())
				})
				res.Count(fmt.Sprintf("sibling-rules:%d:%s:%v", k, place, ord), true)
				res.Dist("sibling-rules:" + place)
				rep := map[string]interface{}{"rules_in_order": []string{pr[ord[0]], pr[ord[1]]}, "placed_in": place, "authority_facts": facts[k], "check": checks[k]}
				if pan != "" {
					res.Violate("panic:sibling-rules", "panic: "+pan, rep)
					continue
				}
				outs = append(outs, verdict)
				if verdict != "<nil>" {
					res.Violate("sibling-rule-dropped:"+place, "two rules with the same head and body and different constraints ("+place+"): each fact satisfies one of them, the check needing both is refused: "+verdict, rep)
				}
			}
			if len(outs) == 2 && outs[0] != outs[1] {
				res.Violate("rule-order-changes-verdict:"+place, "swapping two sibling rules changes the outcome: "+outs[0]+" vs "+outs[1], map[string]interface{}{"rules": pr, "placed_in": place})
			}
		}
	}
}

// c13TimedOutRound: a round that ends with the time limit leaves a library goroutine computing
// (it finishes the rule it is applying).  After Reset, and after that goroutine is gone, the
// authorizer must still be as good as new: what the abandoned evaluation derives must not reach
// the world of the next round.  (On a machine where the round does not time out the scenario is
// skipped; nothing here depends on timing for its verdict.)
func c13TimedOutRound(res *Result) {
	pub, priv := rootKeys()
	b := biscuit.NewBuilder(priv, biscuit.WithRNG(detReader{NewRNG(61)}))
	ch, err := parser.FromStringCheck(`check if operation("read")`)
	if err != nil {
		fatal("timed-out round: %v", err)
	}
	b.AddAuthorityCheck(ch)
	tok, err := b.Build()
	if err != nil {
		fatal("timed-out round: %v", err)
	}
	const n = 90
	first := func(a biscuit.Authorizer) {
		for i := 0; i < n; i++ {
			a.AddFact(biscuit.Fact{Predicate: biscuit.Predicate{Name: "n", IDs: []biscuit.Term{biscuit.Integer(int64(i))}}})
		}
		r, err := parser.FromStringRule(fmt.Sprintf(`operation("read") <- n($a), n($b), n($c), $a + $b + $c == %d`, 3*(n-1)))
		if err != nil {
			fatal("timed-out round: %v", err)
		}
		a.AddRule(r)
		a.AddPolicy(biscuit.DefaultAllowPolicy)
	}
	second := func(a biscuit.Authorizer) {
		f, _ := parser.FromStringFact(`operation("write")`)
		a.AddFact(f)
		a.AddPolicy(biscuit.DefaultAllowPolicy)
	}
	base := datalogGoroutines()
	generous, err := tok.AuthorizerFor(biscuit.WithSingularRootPublicKey(pub), biscuit.WithWorldOptions(datalog.WithMaxDuration(10*time.Minute)))
	if err != nil {
		fatal("timed-out round: %v", err)
	}
	first(generous)
	start := time.Now()
	if err := generous.Authorize(); err != nil {
		res.Dist("timed-out-round:skipped:first-request-fails")
		return
	}
	full := time.Since(start)
	limit := full / 8
	if limit < 20*time.Millisecond {
		res.Dist("timed-out-round:skipped:machine-too-fast")
		return
	}
	opts := biscuit.WithWorldOptions(datalog.WithMaxDuration(limit))
	fresh, err := tok.AuthorizerFor(biscuit.WithSingularRootPublicKey(pub), opts)
	if err != nil {
		fatal("timed-out round: %v", err)
	}
	second(fresh)
	want, _, _ := classifyVerdict(fresh.Authorize())
	reused, err := tok.AuthorizerFor(biscuit.WithSingularRootPublicKey(pub), opts)
	if err != nil {
		fatal("timed-out round: %v", err)
	}
	first(reused)
	if err := reused.Authorize(); !errors.Is(err, datalog.ErrWorldRunLimitTimeout) {
		res.Dist("timed-out-round:skipped:no-timeout")
		return
	}
	reused.Reset()
	// wait until the abandoned evaluation is over
	deadline := time.Now().Add(6*full + 5*time.Second)
	for time.Now().Before(deadline) && datalogGoroutines() > base {
		time.Sleep(20 * time.Millisecond)
	}
	time.Sleep(50 * time.Millisecond)
	res.Count("timed-out-round", true)
	res.Dist("timed-out-round:run")
	world := reused.PrintWorld()
	second(reused)
	got, _, _ := classifyVerdict(reused.Authorize())
	rep := map[string]interface{}{"token": `check if operation("read")`, "round1": fmt.Sprintf("%d facts n(i) and operation(\"read\") <- n($a), n($b), n($c), $a + $b + $c == %d, time limit %v (full evaluation %v): timeout", n, 3*(n-1), limit, full),
		"then": "Reset, wait for the library goroutine to end", "round2": `operation("write"), allow if true`, "fresh": want, "reused": got, "world_after_reset_and_wait": world}
	if strings.Contains(world, "operation(") || strings.Contains(world, "n(") {
		res.Violate("reset-leak:world-after-timeout", "after a timed-out round and Reset the authorizer's world is not empty once the abandoned evaluation has ended", rep)
	}
	if got != want {
		res.Violate("reset-leak:verdict-after-timeout", "after a timed-out round and Reset the authorizer answers "+got+" where a new authorizer answers "+want, rep)
	}
}
