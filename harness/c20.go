package main

import (
	"crypto/ed25519"
	"errors"
	"fmt"
	"io"
	"os"
	"syscall"

	biscuit "github.com/biscuit-auth/biscuit-go/v2"
)

func init() { runners["C20"] = runC20 }

// C20: every fault point k of the supplied random source, on every operation
// that draws randomness (Builder.Build, New, Append), in every failure style.
func runC20(res *Result, rng *RNG, tier string, outDir string) {
	res.Rule = "fault space enumerated completely: op in {Build, New, Append} x k in [0,40] bytes delivered before the source fails x style in {error, 1-byte reads, 7-byte reads, io.EOF, io.ErrUnexpectedEOF, the same errors returned TOGETHER with the last bytes (n > 0 and err in one Read), sources whose every other Read returns (0, nil), and TRANSIENT failures after which the source delivers again: EAGAIN, EINTR, an error with Temporary()/Timeout(), os.ErrDeadlineExceeded, a wrapped EAGAIN, a plain error, io.EOF}; a case is non-trivial when the source fails strictly inside the 32-byte draw (0<k<32) or delivers enough (k>=32); distinct by (op,k,style)"
	res.Exhaustive = true
	rootSeed := rng.Bytes(32)
	priv := ed25519.NewKeyFromSeed(rootSeed)
	pub := priv.Public().(ed25519.PublicKey)
	orc := newOracle()
	orc.addPub(rootSeed)

	fact := biscuit.Fact{Predicate: biscuit.Predicate{Name: "right", IDs: []biscuit.Term{biscuit.String("file1"), biscuit.String("read")}}}
	mkBuilder := func(r io.Reader, rid *uint32) biscuit.Builder {
		opts := []interface{}{}
		_ = opts
		var b biscuit.Builder
		if rid != nil {
			b = biscuit.NewBuilder(priv, biscuit.WithRNG(r), biscuit.WithRootKeyID(*rid))
		} else {
			b = biscuit.NewBuilder(priv, biscuit.WithRNG(r))
		}
		if err := b.AddAuthorityFact(fact); err != nil {
			fatal("AddAuthorityFact: %v", err)
		}
		return b
	}
	// twins built with a healthy source give the block bytes for failing cases
	twin, err := mkBuilder(detReader{rng.Fork()}, nil).Build()
	if err != nil {
		fatal("twin build: %v", err)
	}
	twinC := containerOf(twin)
	mkBlock := func(t *biscuit.Biscuit) *biscuit.Block {
		bb := t.CreateBlock()
		bb.AddFact(biscuit.Fact{Predicate: biscuit.Predicate{Name: "op", IDs: []biscuit.Term{biscuit.String("read"), biscuit.Integer(7)}}})
		return bb.Build()
	}
	twin2, err := twin.Append(detReader{rng.Fork()}, mkBlock(twin))
	if err != nil {
		fatal("twin append: %v", err)
	}
	twin2C := containerOf(twin2)
	appendBlk := twin2C.Blocks[0].Block
	parentSecret := twinC.Proof
	orc.addPub(parentSecret)

	wrappedAgain := fmt.Errorf("read /dev/hwrng: %w", syscall.EAGAIN)
	styles := []struct {
		name    string
		chunk   int
		err     error
		resume  bool // the source delivers again after having reported the error once
		eager   bool // the error is returned together with the last bytes (n > 0, err != nil in one Read)
		stutter bool // every other Read returns (0, nil)
	}{{"error", 0, errInjected, false, false, false}, {"read1", 1, errInjected, false, false, false}, {"read7", 7, errInjected, false, false, false}, {"eof", 0, io.EOF, false, false, false}, {"ueof", 3, io.ErrUnexpectedEOF, false, false, false},
		{"eagain-resume", 0, syscall.EAGAIN, true, false, false}, {"eintr-resume", 5, syscall.EINTR, true, false, false}, {"temporary-resume", 0, tempErr{}, true, false, false},
		{"deadline-resume", 0, os.ErrDeadlineExceeded, true, false, false}, {"wrapped-eagain-resume", 0, wrappedAgain, true, false, false}, {"error-resume", 0, errInjected, true, false, false}, {"eof-resume", 0, io.EOF, true, false, false},
		{"eof-with-last-bytes", 0, io.EOF, false, true, false}, {"eof-with-last-bytes-read5", 5, io.EOF, false, true, false}, {"error-with-last-bytes", 0, errInjected, false, true, false},
		{"ueof-with-last-bytes", 11, io.ErrUnexpectedEOF, false, true, false}, {"eof-with-last-bytes-resume", 0, io.EOF, true, true, false},
		{"stutter-error", 6, errInjected, false, false, true}, {"stutter-eof-with-last-bytes", 9, io.EOF, false, true, true}}
	ops := []string{"Build", "New", "Append"}

	cf := NewCasesFile("Base Chain Corr")
	var caseLines []string
	rid7 := uint32(7)
	for _, op := range ops {
		for k := 0; k <= 40; k++ {
			for si, st := range styles {
				data := rng.Bytes(k)
				fr := &faultReader{data: data, chunk: st.chunk, failErr: st.err, eager: st.eager, stutter: st.stutter}
				if st.resume {
					fr.resume = rng.Bytes(96)
				}
				var rid *uint32
				if (k+si)%3 == 0 {
					rid = &rid7
				}
				var tok *biscuit.Biscuit
				var opErr error
				panicked := ""
				func() {
					defer func() {
						if r := recover(); r != nil {
							panicked = fmt.Sprint(r)
						}
					}()
					switch op {
					case "Build":
						tok, opErr = mkBuilder(fr, rid).Build()
					case "New":
						syms := twinSymbols()
						bb := biscuit.NewBlockBuilder(syms)
						bb.AddFact(fact)
						tok, opErr = biscuit.New(fr, priv, twinSymbols(), bb.Build())
					case "Append":
						tok, opErr = twin.Append(fr, mkBlock(twin))
					}
				}()
				desc := fmt.Sprintf("%s k=%d style=%s", op, k, st.name)
				res.Count(desc, k > 0)
				res.Dist("op=" + op)
				switch {
				case k < 32:
					res.Dist("fault-inside-draw")
				default:
					res.Dist("enough-entropy")
				}
				res.Sample(map[string]interface{}{"op": op, "k": k, "style": st.name, "outcome": outcomeString(tok, opErr, panicked)})

				replay := map[string]interface{}{"op": op, "k": k, "style": st.name, "data": fmt.Sprintf("%x", data), "root_seed": fmt.Sprintf("%x", rootSeed)}
				// ---- property-directed oracle on the implementation
				var obs string
				if panicked != "" {
					res.Violate("panic:"+op, fmt.Sprintf("%s with a source failing after %d bytes panicked: %s", op, k, panicked), replay)
					obs = "OPanic"
				} else if k < 32 {
					if opErr == nil || tok != nil {
						res.Violate("no-error:"+op, fmt.Sprintf("%s with a source failing after %d<32 bytes returned token=%v err=%v", op, k, tok != nil, opErr), replay)
					}
					if opErr != nil {
						if errors.Is(opErr, st.err) || errors.Is(opErr, io.ErrUnexpectedEOF) || errors.Is(opErr, io.EOF) {
							obs = "OErr EEntropy"
						} else {
							obs = "OErr " + errClass(opErr)
						}
					}
				} else {
					if opErr != nil || tok == nil {
						res.Violate("spurious-error:"+op, fmt.Sprintf("%s with %d>=32 bytes of entropy failed: %v", op, k, opErr), replay)
						obs = "OErr " + errClass(opErr)
					}
				}
				if tok != nil && panicked == "" {
					c := containerOf(tok)
					if len(data) >= 32 {
						want := ed25519.NewKeyFromSeed(data[:32]).Public().(ed25519.PublicKey)
						if c.ProofKind != 0 || string(c.Proof) != string(data[:32]) {
							res.Violate("wrong-secret:"+op, fmt.Sprintf("%s: next secret is not the 32 bytes the source delivered", op), replay)
						}
						if string(c.last().Key) != string(want) {
							res.Violate("wrong-next-key:"+op, fmt.Sprintf("%s: announced key is not derived from the delivered bytes", op), replay)
						}
					} else {
						replay["next_secret_of_returned_token"] = fmt.Sprintf("%x", c.Proof)
						res.Violate("token-from-failed-source:"+op, fmt.Sprintf("%s returned a token although the source delivered only %d bytes; its next secret %x did not come from the source", op, len(data), c.Proof), replay)
					}
					if _, err := tok.AuthorizerFor(biscuit.WithSingularRootPublicKey(pub)); err != nil {
						res.Violate("not-verifying:"+op, fmt.Sprintf("%s: returned token does not verify: %v", op, err), replay)
					}
					if op == "Build" && ((rid == nil) != (tok.RootKeyID() == nil) || (rid != nil && *tok.RootKeyID() != *rid)) {
						res.Violate("root-id-lost:"+op, "Build lost the root key id", replay)
					}
					obs = "OOk " + c.coq()
				}
				if obs == "" {
					obs = "OErr EOther"
				}
				// ---- model case
				var opc string
				switch op {
				case "Build", "New":
					r := rid
					if op == "New" {
						r = nil
					}
					blk := twinC.Auth.Block
					opc = fmt.Sprintf("OpBuild %s %s %s", coqBytes(rootSeed), coqOptN(r), coqBytes(blk))
					if k >= 32 {
						orc.addPub(data[:32])
						nk := ed25519.NewKeyFromSeed(data[:32]).Public().(ed25519.PublicKey)
						orc.addSign(rootSeed, payloadOf(blk, nk))
					}
				case "Append":
					opc = fmt.Sprintf("OpAppend (%s) %s", twinC.coq(), coqBytes(appendBlk))
					if k >= 32 {
						orc.addPub(data[:32])
						nk := ed25519.NewKeyFromSeed(data[:32]).Public().(ed25519.PublicKey)
						orc.addSign(parentSecret, payloadOf(appendBlk, nk))
					}
				}
				caseLines = append(caseLines, fmt.Sprintf("{| cc_op := %s; cc_src := %s; cc_obs := %s |}", opc, coqBytes(data), obs))
				res.CaseDescs = append(res.CaseDescs, desc)
			}
		}
	}
	// no source supplied at all (nil): the operations fall back to the system source; they must succeed,
	// twice in a row give different next keys, and the tokens must verify.  (Not a model case: the bytes drawn
	// are not observable.)
	for _, op := range ops {
		var secrets []string
		for rep := 0; rep < 2; rep++ {
			var tok *biscuit.Biscuit
			var opErr error
			panicked := ""
			func() {
				defer func() {
					if r := recover(); r != nil {
						panicked = fmt.Sprint(r)
					}
				}()
				switch op {
				case "Build":
					b := biscuit.NewBuilder(priv)
					if rep == 1 {
						b = biscuit.NewBuilder(priv, biscuit.WithRNG(nil))
					}
					b.AddAuthorityFact(fact)
					tok, opErr = b.Build()
				case "New":
					bb := biscuit.NewBlockBuilder(twinSymbols())
					bb.AddFact(fact)
					tok, opErr = biscuit.New(nil, priv, twinSymbols(), bb.Build())
				case "Append":
					tok, opErr = twin.Append(nil, mkBlock(twin))
				}
			}()
			desc := fmt.Sprintf("%s with no source (nil) #%d", op, rep)
			res.Count(desc, true)
			res.Dist("nil-source")
			replay := map[string]interface{}{"op": op, "style": "nil source", "root_seed": fmt.Sprintf("%x", rootSeed)}
			switch {
			case panicked != "":
				res.Violate("panic:"+op, op+" without a random source panicked: "+panicked, replay)
			case opErr != nil || tok == nil:
				res.Violate("spurious-error:"+op, fmt.Sprintf("%s without a random source (system source) failed: %v", op, opErr), replay)
			default:
				c := containerOf(tok)
				if c.ProofKind != 0 || len(c.Proof) != 32 {
					res.Violate("wrong-secret:"+op, op+": no 32-byte next secret", replay)
					continue
				}
				want := ed25519.NewKeyFromSeed(c.Proof).Public().(ed25519.PublicKey)
				if string(c.last().Key) != string(want) {
					res.Violate("wrong-next-key:"+op, op+": announced key is not derived from the next secret", replay)
				}
				if _, err := tok.AuthorizerFor(biscuit.WithSingularRootPublicKey(pub)); err != nil {
					res.Violate("not-verifying:"+op, fmt.Sprintf("%s: returned token does not verify: %v", op, err), replay)
				}
				secrets = append(secrets, string(c.Proof))
			}
		}
		if len(secrets) == 2 && secrets[0] == secrets[1] {
			res.Violate("degenerate-key:"+op, op+" without a random source produced the same next secret twice", map[string]interface{}{"op": op, "style": "nil source"})
		}
	}
	res.ModelCases = len(caseLines)
	cf.Raw(orc.coq(""))
	cf.Raw("Definition cases : list chain_case := [\n  " + joinLines(caseLines) + "].\n")
	cf.Raw("Definition M := Eval vm_compute in mismatches (chain_ok pub_tbl sign_tbl) cases.\nPrint M.\n")
	cf.WriteTo(outDir, "Cases_C20.v")
}

func payloadOf(blk []byte, key []byte) []byte {
	p := append([]byte{}, blk...)
	p = append(p, 0, 0, 0, 0)
	return append(p, key...)
}

func joinLines(l []string) string {
	out := ""
	for i, s := range l {
		if i > 0 {
			out += ";\n  "
		}
		out += s
	}
	return out
}

func outcomeString(tok *biscuit.Biscuit, err error, panicked string) string {
	switch {
	case panicked != "":
		return "panic: " + panicked
	case err != nil:
		return "error: " + err.Error()
	case tok != nil:
		return "token"
	}
	return "nil,nil"
}
