package main

import (
	"errors"
	"fmt"
	"go/ast"
	goparser "go/parser"
	"go/token"
	"math"
	"math/big"
	"os"
	"path/filepath"
	"regexp"
	"sort"
	"strconv"
	"strings"

	"github.com/biscuit-auth/biscuit-go/v2/datalog"
)

func init() { runners["C06"] = runC06 }

func exprErrClass(err error) string {
	switch {
	case errors.Is(err, datalog.ErrExprDivByZero):
		return "EDivZero"
	case errors.Is(err, datalog.ErrInt64Overflow):
		return "EOverflow"
	case strings.Contains(err.Error(), "invalid regex"):
		return "ERegex"
	case strings.Contains(err.Error(), "unknown variable"):
		return "EUnknownVar"
	}
	return "EIllTyped"
}

type evalObs struct {
	Panic string
	Err   string // class
	Val   *STerm
}

func (o evalObs) coq() string {
	switch {
	case o.Panic != "":
		return "OPanic"
	case o.Err != "":
		if o.Err == "EIllTyped" {
			return "eI"
		}
		return "OErr " + o.Err
	}
	if !o.Val.IsSet && o.Val.A.Kind == KBool {
		if o.Val.A.B {
			return "bT"
		}
		return "bF"
	}
	return "OOk (" + o.Val.coq() + ")"
}
func (o evalObs) String() string {
	switch {
	case o.Panic != "":
		return "panic: " + o.Panic
	case o.Err != "":
		return "error " + o.Err
	}
	return o.Val.String()
}

// evalGo runs the implementation's stack machine on S-level ops with bindings.
func evalGo(e SExpr, bind map[string]STerm) (obs evalObs) {
	defer func() {
		if r := recover(); r != nil {
			obs = evalObs{Panic: fmt.Sprint(r)}
		}
	}()
	syms := &datalog.SymbolTable{}
	de := e.toDatalog(syms)
	vals := map[datalog.Variable]*datalog.Term{}
	for k, v := range bind {
		t := v.toDatalog(syms)
		vals[datalog.Variable(syms.Insert(k))] = &t
	}
	res, err := de.Evaluate(vals, syms)
	// evaluation is a function: the values bound to the variables are unchanged afterwards, and
	// evaluating the same expression object again gives the same result
	for k, v := range bind {
		if after := termFromDatalog(syms, *vals[datalog.Variable(syms.Insert(k))]); after.String() != v.String() {
			c06Mutations = append(c06Mutations, map[string]interface{}{"expression": exprString(e), "variable": k, "bound_to": v.String(), "after_evaluation": after.String()})
		}
	}
	if res2, err2 := de.Evaluate(vals, syms); (err == nil) != (err2 == nil) || (err == nil && !res.Equal(res2)) {
		c06Mutations = append(c06Mutations, map[string]interface{}{"expression": exprString(e), "first_evaluation": fmt.Sprint(res, err), "second_evaluation": fmt.Sprint(res2, err2)})
	}
	if err != nil {
		return evalObs{Err: exprErrClass(err)}
	}
	st := termFromDatalog(syms, res)
	return evalObs{Val: &st}
}

// operands or bound values changed by an evaluation (reported at the end of the run)
var c06Mutations []map[string]interface{}

// ---------- independent reference for binary operators (from the property's table) ----------

func refBinary(op int, l, r STerm) evalObs {
	ill := evalObs{Err: "EIllTyped"}
	b := func(v bool) evalObs { t := aBool(v); return evalObs{Val: &t} }
	lk, rk := l.Kind(), r.Kind()
	inSet := func(s []SAtom, a SAtom) bool {
		for _, x := range s {
			if atomEq(x, a) {
				return true
			}
		}
		return false
	}
	switch op {
	case 0, 1, 2, 3:
		cmp := 0
		switch {
		case lk == KInt && rk == KInt:
			if l.A.I < r.A.I {
				cmp = -1
			} else if l.A.I > r.A.I {
				cmp = 1
			}
		case lk == KDate && rk == KDate:
			if l.A.U < r.A.U {
				cmp = -1
			} else if l.A.U > r.A.U {
				cmp = 1
			}
		default:
			return ill
		}
		return b([]bool{cmp < 0, cmp <= 0, cmp > 0, cmp >= 0}[op])
	case 4:
		if lk != rk || lk == KVar {
			return ill
		}
		if lk == KSet {
			if len(l.Set) != len(r.Set) {
				return b(false)
			}
			for _, x := range l.Set {
				if !inSet(r.Set, x) {
					return b(false)
				}
			}
			for _, x := range r.Set {
				if !inSet(l.Set, x) {
					return b(false)
				}
			}
			return b(true)
		}
		return b(atomEq(l.A, r.A))
	case 5:
		if lk == KStr {
			if rk != KStr {
				return ill
			}
			return b(strings.Contains(l.A.S, r.A.S))
		}
		if rk == KVar || lk != KSet {
			return ill
		}
		if rk == KSet {
			for _, x := range r.Set {
				if !inSet(l.Set, x) {
					return b(false)
				}
			}
			return b(true)
		}
		return b(inSet(l.Set, r.A))
	case 6, 7, 8:
		if lk != KStr || rk != KStr {
			return ill
		}
		switch op {
		case 6:
			return b(strings.HasPrefix(l.A.S, r.A.S))
		case 7:
			return b(strings.HasSuffix(l.A.S, r.A.S))
		}
		re, err := regexp.Compile(r.A.S)
		if err != nil {
			return evalObs{Err: "ERegex"}
		}
		return b(re.MatchString(l.A.S))
	case 9, 10, 11, 12:
		if op == 9 && lk == KStr {
			if rk != KStr {
				return ill
			}
			t := aStr(l.A.S + r.A.S)
			return evalObs{Val: &t}
		}
		if lk != KInt || rk != KInt {
			return ill
		}
		x, y := big.NewInt(l.A.I), big.NewInt(r.A.I)
		z := new(big.Int)
		switch op {
		case 9:
			z.Add(x, y)
		case 10:
			z.Sub(x, y)
		case 11:
			z.Mul(x, y)
		case 12:
			if r.A.I == 0 {
				return evalObs{Err: "EDivZero"}
			}
			z.Quo(x, y) // truncated division
		}
		if !z.IsInt64() {
			return evalObs{Err: "EOverflow"}
		}
		t := aInt(z.Int64())
		return evalObs{Val: &t}
	case 13, 14:
		if lk != KBool || rk != KBool {
			return ill
		}
		if op == 13 {
			return b(l.A.B && r.A.B)
		}
		return b(l.A.B || r.A.B)
	case 15, 16:
		if lk != KSet || rk != KSet {
			return ill
		}
		res := STerm{IsSet: true}
		// the results are sets: each element once (operand literals may repeat an element)
		if op == 15 {
			for _, x := range l.Set {
				if inSet(r.Set, x) && !inSet(res.Set, x) {
					res.Set = append(res.Set, x)
				}
			}
		} else {
			for _, x := range append(append([]SAtom{}, l.Set...), r.Set...) {
				if !inSet(res.Set, x) {
					res.Set = append(res.Set, x)
				}
			}
		}
		return evalObs{Val: &res}
	}
	return ill
}

func refUnary(op int, v STerm) evalObs {
	ill := evalObs{Err: "EIllTyped"}
	switch op {
	case 0:
		if v.Kind() != KBool {
			return ill
		}
		t := aBool(!v.A.B)
		return evalObs{Val: &t}
	case 1:
		return evalObs{Val: &v}
	case 2:
		var n int
		switch v.Kind() {
		case KStr:
			n = len(v.A.S)
		case KBytes:
			n = len(v.A.Bytes)
		case KSet:
			n = len(v.Set)
		default:
			return ill
		}
		t := aInt(int64(n))
		return evalObs{Val: &t}
	}
	return ill
}

// set results are compared as multisets-in-order by the model; the reference
// compares them as sets of elements (order is not part of the property)
func obsAgree(a, b evalObs) bool {
	if a.Panic != "" || b.Panic != "" {
		return false
	}
	if a.Err != "" || b.Err != "" {
		return a.Err == b.Err
	}
	if a.Val.IsSet != b.Val.IsSet {
		return false
	}
	if a.Val.IsSet {
		for _, x := range a.Val.Set {
			found := false
			for _, y := range b.Val.Set {
				if atomEq(x, y) {
					found = true
				}
			}
			if !found {
				return false
			}
		}
		for _, x := range b.Val.Set {
			found := false
			for _, y := range a.Val.Set {
				if atomEq(x, y) {
					found = true
				}
			}
			if !found {
				return false
			}
		}
		return true
	}
	return atomEq(a.Val.A, b.Val.A)
}

func c06Panel(tier string) []STerm {
	p := []STerm{
		aInt(0), aInt(1), aInt(-1), aInt(2), aInt(7), aInt(math.MaxInt64), aInt(math.MinInt64), aInt(math.MaxInt64 - 1), aInt(math.MinInt64 + 1), aInt(1 << 32), aInt(-(1 << 31)), aInt(3037000500),
		aStr(""), aStr("abc"), aStr("ab"), aStr("bc"), aStr("a.c"), aStr("["),
		// patterns whose only regex syntax is a backslash escape, a malformed escape, and subjects for them
		aStr(`file\d`), aStr("file7"), aStr(`a\.c`), aStr(`ab\`),
		aDate(0), aDate(1), aDate(1700000000), aDate(math.MaxUint64),
		aBytes(nil), aBytes([]byte{1}), aBytes([]byte{1, 2}),
		aBool(true), aBool(false),
		aSet(aInt(1), aInt(2)), aSet(aInt(2)), aSet(aInt(1), aInt(1)), aSet(aInt(3)), aSet(aInt(1), aInt(1), aInt(2)), aSet(aInt(1), aInt(2), aInt(2)), aSet(aInt(2), aInt(1)),
		aSet(aStr("abc"), aStr("x")), aSet(aStr("x")),
		aSet(aBytes([]byte{1})), aSet(aBytes([]byte{1}), aBytes(nil)),
		aSet(aBool(true)), aSet(aDate(1)), aSet(),
		aVar("v"),
	}
	if tier == "thorough" {
		p = append(p, aInt(-7), aInt(math.MaxInt32), aStr("c"), aStr("^a.*c$"), aSet(aInt(2), aInt(1)), aSet(aDate(1), aDate(2)), aSet(aBytes([]byte{2})), aBytes([]byte{2}))
	}
	return p
}

func runC06(res *Result, rng *RNG, tier string, outDir string) {
	res.Rule = "(a) exhaustive sweep: every binary operator x every ordered pair of a panel of operand values (64-bit boundary integers, empty and non-empty strings/byte arrays, dates, booleans, sets of every element type incl. sets of bytes and the empty set, an unresolved variable), and every unary operator x every panel value; (b) random typed expression trees of depth <= 6 in postfix with variable bindings, ~15% ill-typed; (c) malformed operator sequences (random op lists, stack underflow, leftover operands, stack overflow at the bound). Non-trivial = not an ill-typed pair of atoms of different types for (a), depth >= 2 for (b), every case for (c); distinct by canonical (ops, operands)."
	panel := c06Panel(tier)
	cf := NewCasesFile("Base Term Expr Corr")
	rxTable := map[string]string{} // "pattern\x00subject" -> coq option bool
	addRx := func(pat, subj string) {
		k := pat + "\x00" + subj
		if _, ok := rxTable[k]; ok {
			return
		}
		re, err := regexp.Compile(pat)
		if err != nil {
			rxTable[k] = "None"
		} else {
			rxTable[k] = "(Some " + coqBool(re.MatchString(subj)) + ")"
		}
	}
	var strs []string
	for _, t := range panel {
		if t.Kind() == KStr {
			strs = append(strs, t.A.S)
		}
	}
	for _, p := range strs {
		for _, s := range strs {
			addRx(p, s)
		}
	}

	// ---- (a) exhaustive sweep
	var binRows, unRows []string
	for op := 0; op < 17; op++ {
		for i, l := range panel {
			row := make([]string, len(panel))
			for j, r := range panel {
				e := SExpr{{Kind: 0, Val: l}, {Kind: 0, Val: r}, {Kind: 2, Bin: op}}
				var got evalObs
				if l.Kind() == KVar || r.Kind() == KVar {
					// an unresolved variable cannot be pushed by Evaluate: call the operator directly
					got = evalBinaryDirect(op, l, r)
				} else {
					got = evalGo(e, nil)
				}
				row[j] = got.coq()
				want := refBinary(op, l, r)
				canon := fmt.Sprintf("bin %d %s %s", op, l, r)
				nontrivial := !(want.Err == "EIllTyped" && !l.IsSet && !r.IsSet && l.Kind() != r.Kind())
				res.Count(canon, nontrivial)
				res.Dist("sweep:" + binNames[op])
				if got.Err != "" {
					res.Dist("outcome:error:" + got.Err)
				} else if got.Panic == "" {
					res.Dist("outcome:value")
				}
				replay := map[string]interface{}{"op": binNames[op], "left": l.String(), "right": r.String(), "got": got.String(), "want": want.String()}
				if got.Panic != "" {
					res.Violate("panic:"+binNames[op]+":"+kindName(l)+":"+kindName(r), fmt.Sprintf("%s on %s, %s panicked: %s", binNames[op], l, r, got.Panic), replay)
				} else if !obsAgree(got, want) {
					res.Violate("table:"+binNames[op]+":"+kindName(l)+":"+kindName(r), fmt.Sprintf("%s on %s, %s gives %s, the operator table says %s", binNames[op], l, r, got, want), replay)
				}
				if i == 0 && j == 0 {
					res.Sample(replay)
				}
			}
			binRows = append(binRows, fmt.Sprintf("(%s, %d, %s)", binNames[op], i, coqList(row)))
			res.CaseDescs = append(res.CaseDescs, fmt.Sprintf("sweep %s left=%s", binNames[op], l))
		}
	}
	for op := 0; op < 3; op++ {
		row := make([]string, len(panel))
		for j, v := range panel {
			var got evalObs
			if v.Kind() == KVar {
				got = evalUnaryDirect(op, v)
			} else {
				got = evalGo(SExpr{{Kind: 0, Val: v}, {Kind: 1, Un: op}}, nil)
			}
			row[j] = got.coq()
			want := refUnary(op, v)
			res.Count(fmt.Sprintf("un %d %s", op, v), true)
			res.Dist("sweep:" + unNames[op])
			replay := map[string]interface{}{"op": unNames[op], "operand": v.String(), "got": got.String(), "want": want.String()}
			if got.Panic != "" {
				res.Violate("panic:"+unNames[op]+":"+kindName(v), fmt.Sprintf("%s on %s panicked: %s", unNames[op], v, got.Panic), replay)
			} else if !obsAgree(got, want) {
				res.Violate("table:"+unNames[op]+":"+kindName(v), fmt.Sprintf("%s on %s gives %s, the operator table says %s", unNames[op], v, got, want), replay)
			}
		}
		unRows = append(unRows, fmt.Sprintf("(%s, %s)", unNames[op], coqList(row)))
		res.CaseDescs = append(res.CaseDescs, "sweep "+unNames[op])
	}

	// ---- (b) random trees, (c) malformed sequences
	nTrees, nMal := 400, 200
	if tier == "thorough" {
		nTrees, nMal = 12000, 4000
	}
	var exprCases []string
	var exprDescs []string
	bind := map[string]STerm{"i": aInt(5), "s": aStr("hello"), "b": aBool(true), "d": aDate(1000), "set": aSet(aInt(1), aInt(5)), "y": aBytes([]byte{9})}
	bindCoq := []string{}
	for _, k := range []string{"i", "s", "b", "d", "set", "y"} {
		bindCoq = append(bindCoq, fmt.Sprintf("(%s, %s)", coqStr(k), bind[k].coq()))
	}
	g := &exprGen{rng: rng, addRx: addRx}
	for n := 0; n < nTrees; n++ {
		depth := 1 + rng.Intn(6)
		ty := []int{KBool, KBool, KInt, KStr, KSet}[rng.Intn(5)]
		e := g.gen(ty, depth)
		got := evalGo(e, bind)
		want := refEval(e, bind)
		res.Count("tree "+exprString(e), depth >= 2)
		res.Dist(fmt.Sprintf("tree-depth:%d", depth))
		if got.Err != "" {
			res.Dist("outcome:error:" + got.Err)
		} else if got.Panic == "" {
			res.Dist("outcome:value")
		}
		replay := map[string]interface{}{"ops": exprString(e), "bindings": "i=5 s=\"hello\" b=true d=date(1000) set=[1,5] y=hex:09", "got": got.String(), "want": want.String()}
		if n < 2 {
			res.Sample(replay)
		}
		if got.Panic != "" {
			res.Violate("panic:tree", "evaluation of a postfix expression panicked: "+got.Panic, replay)
		} else if !obsAgree(got, want) {
			res.Violate("tree-value", fmt.Sprintf("postfix %s evaluates to %s, the reference tree evaluation gives %s", exprString(e), got, want), replay)
		}
		exprCases = append(exprCases, fmt.Sprintf("{| ec_ops := %s; ec_bind := cbind; ec_obs := %s |}", e.coq(), got.coq()))
		exprDescs = append(exprDescs, "tree "+exprString(e))
	}
	for n := 0; n < nMal; n++ {
		var e SExpr
		switch rng.Intn(4) {
		case 0: // random op list
			ln := rng.Intn(8)
			for i := 0; i < ln; i++ {
				e = append(e, g.randomOp())
			}
		case 1: // valid tree with one op removed or duplicated
			e = g.gen(KBool, 1+rng.Intn(4))
			if len(e) > 0 {
				i := rng.Intn(len(e))
				if rng.Bool() {
					e = append(append(SExpr{}, e[:i]...), e[i+1:]...)
				} else {
					e = append(append(append(SExpr{}, e[:i]...), e[i]), e[i:]...)
				}
			}
		case 2: // stack overflow at the bound: k values then k-1 additions
			k := 999 + rng.Intn(4)
			for i := 0; i < k; i++ {
				e = append(e, SOp{Kind: 0, Val: aInt(1)})
			}
			for i := 0; i < k-1; i++ {
				e = append(e, SOp{Kind: 2, Bin: 9})
			}
		case 3: // unknown variable
			e = SExpr{{Kind: 0, Val: aVar("nope")}, {Kind: 0, Val: aInt(1)}, {Kind: 2, Bin: 4}}
		}
		// whatever two strings a (mis-paired) regex operator may meet, the model needs Go's answer
		{
			pool := []string{"hello"}
			for _, o := range e {
				if o.Kind == 0 && !o.Val.IsSet && o.Val.A.Kind == KStr {
					pool = append(pool, o.Val.A.S)
				}
			}
			if len(pool) <= 12 {
				for _, p := range pool {
					for _, sj := range pool {
						addRx(p, sj)
					}
				}
			}
		}
		got := evalGo(e, bind)
		want := refEval(e, bind)
		res.Count("mal "+exprString(e), true)
		res.Dist("malformed")
		if got.Err != "" {
			res.Dist("outcome:error:" + got.Err)
		} else if got.Panic == "" {
			res.Dist("outcome:value")
		}
		es := exprString(e)
		if len(es) > 300 {
			es = es[:300] + "..."
		}
		replay := map[string]interface{}{"ops": es, "len": len(e), "got": got.String(), "want": want.String()}
		if got.Panic != "" {
			res.Violate("panic:malformed", "evaluation of a malformed operator sequence panicked: "+got.Panic, replay)
		} else if !obsAgree(got, want) {
			res.Violate("malformed-value", fmt.Sprintf("operator sequence %s gives %s, expected %s", es, got, want), replay)
		}
		exprCases = append(exprCases, fmt.Sprintf("{| ec_ops := %s; ec_bind := cbind; ec_obs := %s |}", e.coq(), got.coq()))
		exprDescs = append(exprDescs, "malformed "+es)
	}

	// ---- (e) a string operand whose index no table entry backs (an attacker's token can carry
	// one up to the evaluator through an authorizer snapshot; Str then yields the placeholder
	// "<invalid symbol N>"): every string operator, against an EMPTY table and a one-entry table,
	// must behave exactly as on that placeholder string — and never index out of range
	for _, tbl := range []datalog.SymbolTable{{}, {"unrelated"}} {
		for _, idx := range []uint64{1024 + uint64(len(tbl)), 1030, 1 << 40} {
			ph := fmt.Sprintf("<invalid symbol %d>", idx)
			for op := 0; op < 17; op++ {
				for _, unary := range []bool{false, true} {
					if unary && op > 2 {
						continue
					}
					var de datalog.Expression
					var se SExpr
					if unary {
						de = datalog.Expression{datalog.Value{ID: datalog.String(idx)}, sUnaryOp(op)}
						se = SExpr{{Kind: 0, Val: aStr(ph)}, {Kind: 1, Un: op}}
					} else {
						de = datalog.Expression{datalog.Value{ID: datalog.String(idx)}, datalog.Value{ID: datalog.String(idx)}, sBinaryOp(op)}
						se = SExpr{{Kind: 0, Val: aStr(ph)}, {Kind: 0, Val: aStr(ph)}, {Kind: 2, Bin: op}}
					}
					t := append(datalog.SymbolTable{}, tbl...)
					got := func() (o evalObs) {
						defer func() {
							if r := recover(); r != nil {
								o = evalObs{Panic: fmt.Sprint(r)}
							}
						}()
						res, err := de.Evaluate(map[datalog.Variable]*datalog.Term{}, &t)
						if err != nil {
							return evalObs{Err: exprErrClass(err)}
						}
						st := termFromDatalog(&t, res)
						return evalObs{Val: &st}
					}()
					addRx(ph, ph)
					want := refEval(se, nil)
					res.Count(fmt.Sprintf("dangling %d %v %d %d", op, unary, idx, len(tbl)), true)
					res.Dist("dangling-string-operand")
					replay := map[string]interface{}{"operator": exprString(se), "string_index": idx, "table": fmt.Sprint([]string(tbl)), "got": got.String(), "want": want.String()}
					if got.Panic != "" {
						res.Violate("panic:dangling-string-operand", fmt.Sprintf("evaluating %s on a string index %d that the table %q does not hold panicked: %s", exprString(se), idx, []string(tbl), got.Panic), replay)
					} else if !obsAgree(got, want) {
						res.Violate("dangling-string-operand", fmt.Sprintf("string index %d (table %q): %s gives %s, on the placeholder string it denotes the operator table gives %s", idx, []string(tbl), exprString(se), got, want), replay)
					}
				}
			}
		}
	}

	// ---- (d) integer boundary sweep: arithmetic and comparison operators over the integer panel
	ipanel := c06IntPanel(rng.Fork(), tier)
	var intRows, intDescs []string
	for _, op := range []int{9, 10, 11, 12, 0, 4} {
		for i, lv := range ipanel {
			l := aInt(lv)
			row := make([]string, len(ipanel))
			for j, rv := range ipanel {
				r := aInt(rv)
				got := evalGo(SExpr{{Kind: 0, Val: l}, {Kind: 0, Val: r}, {Kind: 2, Bin: op}}, nil)
				row[j] = got.coq()
				want := refBinary(op, l, r)
				res.Count(fmt.Sprintf("int %d %d %d", op, lv, rv), true)
				res.Dist("intsweep:" + binNames[op])
				replay := map[string]interface{}{"op": binNames[op], "left": l.String(), "right": r.String(), "got": got.String(), "want": want.String()}
				if got.Panic != "" {
					res.Violate("panic:"+binNames[op]+":int:int", fmt.Sprintf("%s on %s, %s panicked: %s", binNames[op], l, r, got.Panic), replay)
				} else if !obsAgree(got, want) {
					res.Violate("table:"+binNames[op]+":int:int", fmt.Sprintf("%s on %s, %s gives %s, exact integer arithmetic says %s", binNames[op], l, r, got, want), replay)
				}
			}
			intRows = append(intRows, fmt.Sprintf("(%s, %d, %s)", binNames[op], i, coqList(row)))
			intDescs = append(intDescs, fmt.Sprintf("intsweep %s left=%d", binNames[op], lv))
		}
	}

	// ---- emit
	rxItems := []string{}
	for k, v := range rxTable {
		ps := strings.SplitN(k, "\x00", 2)
		rxItems = append(rxItems, fmt.Sprintf("(%s, %s, %s)", coqStr(ps[0]), coqStr(ps[1]), v))
	}
	pitems := make([]string, len(panel))
	for i, t := range panel {
		pitems[i] = t.coq()
	}
	cf.Raw("Definition rx_tbl : list (bytes * bytes * option bool) := " + coqList(rxItems) + ".\n")
	cf.Raw("Definition panel : list term := " + coqList(pitems) + ".\n")
	cf.Raw("Definition bin_rows : list (binop * N * list (obs term)) := [\n  " + joinLines(binRows) + "].\n")
	cf.Raw("Definition un_rows : list (unop * list (obs term)) := [\n  " + joinLines(unRows) + "].\n")
	cf.Raw("Definition cbind : bindings := " + coqList(bindCoq) + ".\n")
	cf.Raw("Definition ecases : list expr_case := [\n  " + joinLines(exprCases) + "].\n")
	cf.Raw("Definition Mbin := Eval vm_compute in mismatches (bin_row_ok (orx rx_tbl) panel) bin_rows.\nPrint Mbin.\n")
	cf.Raw("Definition Mun := Eval vm_compute in mismatches (un_row_ok (orx rx_tbl) panel) un_rows.\nPrint Mun.\n")
	cf.Raw("Definition Mexpr := Eval vm_compute in mismatches (expr_ok (orx rx_tbl)) ecases.\nPrint Mexpr.\n")
	ipitems := make([]string, len(ipanel))
	for i, v := range ipanel {
		ipitems[i] = aInt(v).coq()
	}
	// the integer sweep goes to files of its own so that it is evaluated in parallel
	const intShard = 110
	groups := []map[string]interface{}{{"file": "Cases_C06.v", "sizes": []int{len(binRows), len(unRows), len(exprCases)}}}
	for k, start := 0, 0; start < len(intRows); k, start = k+1, start+intShard {
		end := start + intShard
		if end > len(intRows) {
			end = len(intRows)
		}
		cfi := NewCasesFile("Base Term Expr Corr")
		cfi.Raw("Definition ipanel : list term := " + coqList(ipitems) + ".\n")
		cfi.Raw("Definition int_rows : list (binop * N * list (obs term)) := [\n  " + joinLines(intRows[start:end]) + "].\n")
		cfi.Raw("Definition Mint := Eval vm_compute in mismatches (bin_row_ok (orx []) ipanel) int_rows.\nPrint Mint.\n")
		name := fmt.Sprintf("Cases_C06_int%02d.v", k)
		cfi.WriteTo(outDir, name)
		groups = append(groups, map[string]interface{}{"file": name, "sizes": []int{end - start}})
	}
	res.Extra["groups"] = groups
	res.ModelCases = len(binRows)*len(panel) + len(unRows)*len(panel) + len(exprCases) + len(intRows)*len(ipanel)
	res.Extra["group_sizes"] = []int{len(binRows), len(unRows), len(exprCases), len(intRows)}
	res.Extra["int_panel_size"] = len(ipanel)
	res.Extra["mined_literals"] = minedIntLiterals()
	res.CaseDescs = append(res.CaseDescs, exprDescs...)
	res.CaseDescs = append(res.CaseDescs, intDescs...)
	for _, m := range c06Mutations {
		res.Violate("evaluation-changes-its-operands", "evaluating an expression changed a value it was given (or a second evaluation of the same expression object differs from the first)", m)
	}
	res.Extra["operand_mutation_checks"] = "every evaluation: bound values and direct operands compared before/after; every tree evaluated twice"
	res.Exhaustive = false
	res.Extra["panel_size"] = len(panel)
	res.Extra["sweep_pairs_per_operator"] = len(panel) * len(panel)
	cf.WriteTo(outDir, "Cases_C06.v")
}

// minedIntLiterals returns the integer literals (> 255) written in the non-test Go sources of
// the library's datalog package and root package: thresholds a fast path or a guard compares
// against are exactly the values at which arithmetic behaviour can change.
func minedIntLiterals() []int64 {
	repo := os.Getenv("VERIF_REPO")
	if repo == "" {
		repo = "/repo"
	}
	seen := map[int64]bool{}
	var out []int64
	for _, dir := range []string{repo, filepath.Join(repo, "datalog"), filepath.Join(repo, "parser")} {
		ents, err := os.ReadDir(dir)
		if err != nil {
			continue
		}
		for _, e := range ents {
			n := e.Name()
			if e.IsDir() || !strings.HasSuffix(n, ".go") || strings.HasSuffix(n, "_test.go") || strings.HasSuffix(n, ".pb.go") {
				continue
			}
			fset := token.NewFileSet()
			f, err := goparser.ParseFile(fset, filepath.Join(dir, n), nil, 0)
			if err != nil {
				continue
			}
			ast.Inspect(f, func(nd ast.Node) bool {
				if bl, ok := nd.(*ast.BasicLit); ok && bl.Kind == token.INT {
					txt := strings.ReplaceAll(bl.Value, "_", "")
					var v int64
					if u, err := strconv.ParseUint(txt, 0, 64); err == nil {
						v = int64(u)
					} else {
						return true
					}
					if (v > 255 || v < -255) && !seen[v] {
						seen[v] = true
						out = append(out, v)
					}
				}
				return true
			})
		}
	}
	sort.Slice(out, func(i, j int) bool { return out[i] < out[j] })
	return out
}

// c06IntPanel: 64-bit boundary values, powers of two and their neighbours, the square-root
// and cube-root thresholds of 2^63, every literal mined from the source with its neighbours,
// and random pairs straddling the multiplication overflow boundary.
func c06IntPanel(rng *RNG, tier string) []int64 {
	seen := map[int64]bool{}
	var p []int64
	add := func(v int64) {
		if !seen[v] {
			seen[v] = true
			p = append(p, v)
		}
	}
	for _, v := range []int64{0, 1, -1, 2, -2, 3, 10, math.MaxInt64, math.MinInt64, math.MaxInt64 - 1, math.MinInt64 + 1,
		3037000499, 3037000500, -3037000499, -3037000500, 2097151, 2097152, 2642245, 2642246} {
		add(v)
	}
	for _, k := range []uint{15, 16, 31, 32, 33, 62} {
		add(int64(1)<<k - 1)
		add(int64(1) << k)
		add(-(int64(1) << k))
		add(-(int64(1) << k) - 1)
	}
	for _, v := range minedIntLiterals() {
		add(v - 1)
		add(v)
		add(v + 1)
		add(-v)
	}
	n := 6
	if tier == "thorough" {
		n = 30
	}
	for i := 0; i < n; i++ {
		a := int64(rng.U64()>>uint(1+rng.Intn(60))) + 2
		b := math.MaxInt64 / a
		add(a)
		add(b)
		add(b + 1)
		if rng.Bool() {
			add(-b - 1)
		}
	}
	return p
}

func kindName(t STerm) string {
	return []string{"var", "int", "str", "date", "bytes", "bool", "set"}[t.Kind()]
}

func evalBinaryDirect(op int, l, r STerm) (obs evalObs) {
	defer func() {
		if rec := recover(); rec != nil {
			obs = evalObs{Panic: fmt.Sprint(rec)}
		}
	}()
	syms := &datalog.SymbolTable{}
	dl, dr := l.toDatalog(syms), r.toDatalog(syms)
	res, err := dBin[op].Eval(dl, dr, syms)
	if al, ar := termFromDatalog(syms, dl), termFromDatalog(syms, dr); al.String() != l.String() || ar.String() != r.String() {
		c06Mutations = append(c06Mutations, map[string]interface{}{"operator": binNames[op], "left": l.String(), "right": r.String(), "left_after": al.String(), "right_after": ar.String()})
	}
	if err != nil {
		return evalObs{Err: exprErrClass(err)}
	}
	st := termFromDatalog(syms, res)
	return evalObs{Val: &st}
}
func evalUnaryDirect(op int, v STerm) (obs evalObs) {
	defer func() {
		if rec := recover(); rec != nil {
			obs = evalObs{Panic: fmt.Sprint(rec)}
		}
	}()
	syms := &datalog.SymbolTable{}
	res, err := dUn[op].Eval(v.toDatalog(syms), syms)
	if err != nil {
		return evalObs{Err: exprErrClass(err)}
	}
	st := termFromDatalog(syms, res)
	return evalObs{Val: &st}
}

func exprString(e SExpr) string {
	parts := make([]string, len(e))
	for i, o := range e {
		parts[i] = o.String()
	}
	return strings.Join(parts, " ")
}

// refEval: reference evaluation of an op sequence with an explicit stack
// (bound 1000), using the reference operator tables.
func refEval(e SExpr, bind map[string]STerm) evalObs {
	ill := evalObs{Err: "EIllTyped"}
	var st []STerm
	push := func(t STerm) bool {
		if len(st) >= 1000 {
			return false
		}
		st = append(st, t)
		return true
	}
	for _, o := range e {
		switch o.Kind {
		case 0:
			v := o.Val
			if v.Kind() == KVar {
				b, ok := bind[v.A.S]
				if !ok {
					return evalObs{Err: "EUnknownVar"}
				}
				v = b
			}
			if !push(v) {
				return ill
			}
		case 1:
			if len(st) < 1 {
				return ill
			}
			x := st[len(st)-1]
			st = st[:len(st)-1]
			r := refUnary(o.Un, x)
			if r.Err != "" {
				return r
			}
			push(*r.Val)
		case 2:
			if len(st) < 2 {
				return ill
			}
			r, l := st[len(st)-1], st[len(st)-2]
			st = st[:len(st)-2]
			x := refBinary(o.Bin, l, r)
			if x.Err != "" {
				return x
			}
			push(*x.Val)
		}
	}
	if len(st) != 1 {
		return ill
	}
	return evalObs{Val: &st[0]}
}

type exprGen struct {
	rng   *RNG
	addRx func(p, s string)
}

func (g *exprGen) leaf(ty int) STerm {
	r := g.rng
	switch ty {
	case KInt:
		if r.Chance(30) {
			return aVar("i")
		}
		return aInt([]int64{0, 1, 2, 3, 5, -1, -4, 100, math.MaxInt64, math.MinInt64, 1 << 31}[r.Intn(11)])
	case KStr:
		if r.Chance(30) {
			return aVar("s")
		}
		return aStr([]string{"", "a", "hello", "hel", "llo", "x y", "h.llo"}[r.Intn(7)])
	case KBool:
		if r.Chance(20) {
			return aVar("b")
		}
		return aBool(r.Bool())
	case KDate:
		if r.Chance(30) {
			return aVar("d")
		}
		return aDate(uint64(r.Intn(2000)))
	case KBytes:
		if r.Chance(30) {
			return aVar("y")
		}
		return aBytes(r.Bytes(r.Intn(3)))
	case KSet:
		if r.Chance(30) {
			return aVar("set")
		}
		n := 1 + r.Intn(3)
		s := STerm{IsSet: true}
		for i := 0; i < n; i++ {
			s.Set = append(s.Set, aInt(int64(r.Intn(6))).A)
		}
		return s
	}
	return aInt(0)
}

func (g *exprGen) gen(ty int, depth int) SExpr {
	r := g.rng
	if r.Chance(4) { // ill-typed injection
		ty = []int{KInt, KStr, KBool, KDate, KBytes, KSet}[r.Intn(6)]
	}
	if depth <= 1 {
		return SExpr{{Kind: 0, Val: g.leaf(ty)}}
	}
	val := func(t STerm) SExpr { return SExpr{{Kind: 0, Val: t}} }
	cat := func(a, b SExpr, op SOp) SExpr { return append(append(append(SExpr{}, a...), b...), op) }
	bin := func(o int) SOp { return SOp{Kind: 2, Bin: o} }
	if r.Chance(10) {
		return append(g.gen(ty, depth-1), SOp{Kind: 1, Un: 1}) // parens
	}
	switch ty {
	case KBool:
		switch r.Intn(9) {
		case 0:
			return cat(g.gen(KBool, depth-1), g.gen(KBool, depth-1), bin(13+r.Intn(2)))
		case 1:
			return append(g.gen(KBool, depth-1), SOp{Kind: 1, Un: 0})
		case 2:
			return cat(g.gen(KInt, depth-1), g.gen(KInt, depth-1), bin(r.Intn(5)))
		case 3:
			return cat(g.gen(KDate, 1), g.gen(KDate, 1), bin(r.Intn(5)))
		case 4:
			return cat(g.gen(KStr, depth-1), g.gen(KStr, depth-1), bin([]int{4, 5, 6, 7}[r.Intn(4)]))
		case 5:
			return cat(g.gen(KSet, depth-1), g.gen(KInt, depth-1), bin(5))
		case 6:
			return cat(g.gen(KSet, depth-1), g.gen(KSet, depth-1), bin([]int{4, 5}[r.Intn(2)]))
		case 7:
			// regex on literal strings only (the oracle table must know the pair)
			subj := []string{"hello", "abc", ""}[r.Intn(3)]
			pat := []string{"^h.*o$", "b", "[", "l+"}[r.Intn(4)]
			g.addRx(pat, subj)
			return cat(val(aStr(subj)), val(aStr(pat)), bin(8))
		default:
			return cat(g.gen(KBytes, 1), g.gen(KBytes, 1), bin(4))
		}
	case KInt:
		switch r.Intn(4) {
		case 0, 1:
			return cat(g.gen(KInt, depth-1), g.gen(KInt, depth-1), bin(9+r.Intn(4)))
		case 2:
			return append(g.gen([]int{KStr, KSet, KBytes}[r.Intn(3)], depth-1), SOp{Kind: 1, Un: 2})
		default:
			return val(g.leaf(KInt))
		}
	case KStr:
		if r.Chance(60) {
			return cat(g.gen(KStr, depth-1), g.gen(KStr, depth-1), bin(9))
		}
		return val(g.leaf(KStr))
	case KSet:
		if r.Chance(60) {
			return cat(g.gen(KSet, depth-1), g.gen(KSet, depth-1), bin(15+r.Intn(2)))
		}
		return val(g.leaf(KSet))
	}
	return val(g.leaf(ty))
}

func (g *exprGen) randomOp() SOp {
	r := g.rng
	switch r.Intn(3) {
	case 0:
		return SOp{Kind: 0, Val: g.leaf([]int{KInt, KStr, KBool, KSet}[r.Intn(4)])}
	case 1:
		return SOp{Kind: 1, Un: r.Intn(3)}
	}
	return SOp{Kind: 2, Bin: r.Intn(17)}
}
