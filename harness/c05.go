package main

import (
	"errors"
	"fmt"
	"sort"
	"strings"
	"time"

	"github.com/biscuit-auth/biscuit-go/v2/datalog"
)

func init() { runners["C05"] = runC05 }

func runErrClass(err error) string {
	var ire datalog.InvalidRuleError
	switch {
	case err == nil:
		return ""
	case errors.Is(err, datalog.ErrWorldRunLimitMaxFacts):
		return "EMaxFacts"
	case errors.Is(err, datalog.ErrWorldRunLimitMaxIterations):
		return "EMaxIterations"
	case errors.Is(err, datalog.ErrWorldRunLimitTimeout):
		return "ETimeout"
	case errors.As(err, &ire):
		return "EInvalidRule"
	}
	return exprErrClass(err)
}

func coqOptErr(c string) string {
	if c == "" {
		return "None"
	}
	return "(Some " + c + ")"
}

type dlProgram struct {
	Facts   []SPred
	Rules   []SRule
	Queries []SRule
	MaxF    int
	MaxI    int
	ErrPr   bool
}

func genProgram(rng *RNG) dlProgram {
	g := newProgGen(rng)
	p := dlProgram{MaxF: 1000, MaxI: 100}
	p.ErrPr = rng.Chance(12)
	nf := 2 + rng.Intn(14)
	if rng.Chance(10) {
		nf = 20 + rng.Intn(20)
	}
	if rng.Chance(4) {
		nf = 0
	}
	for i := 0; i < nf; i++ {
		p.Facts = append(p.Facts, g.fact())
	}
	if rng.Chance(20) && len(p.Facts) > 0 { // duplicates
		p.Facts = append(p.Facts, p.Facts[rng.Intn(len(p.Facts))])
	}
	nr := rng.Intn(5)
	for i := 0; i < nr; i++ {
		p.Rules = append(p.Rules, g.rule(p.ErrPr))
	}
	nq := 1 + rng.Intn(2)
	for i := 0; i < nq; i++ {
		p.Queries = append(p.Queries, g.query(p.ErrPr))
	}
	if rng.Chance(15) { // tight limits
		p.MaxF = 1 + rng.Intn(25)
		p.MaxI = rng.Intn(4)
	}
	return p
}

type dlObs struct {
	Facts   []SPred
	Err     string
	Queries [][]SPred
	Panic   string
}

func runProgramGo(p dlProgram) (o dlObs) {
	defer func() {
		if r := recover(); r != nil {
			o.Panic = fmt.Sprint(r)
		}
	}()
	for attempt := 0; attempt < 3; attempt++ {
		syms := &datalog.SymbolTable{}
		w := datalog.NewWorld(datalog.WithMaxFacts(p.MaxF), datalog.WithMaxIterations(p.MaxI), datalog.WithMaxDuration(20*time.Second))
		for _, f := range p.Facts {
			w.AddFact(datalog.Fact{Predicate: f.toDatalog(syms)})
		}
		for _, r := range p.Rules {
			w.AddRule(r.toDatalog(syms))
		}
		err := w.Run(syms)
		o = dlObs{Err: runErrClass(err)}
		if o.Err == "ETimeout" {
			continue
		}
		for _, f := range *w.Facts() {
			o.Facts = append(o.Facts, predFromDatalog(syms, f.Predicate))
		}
		for _, q := range p.Queries {
			fs := w.QueryRule(q.toDatalog(syms), syms)
			var ps []SPred
			for _, f := range *fs {
				ps = append(ps, predFromDatalog(syms, f.Predicate))
			}
			o.Queries = append(o.Queries, ps)
		}
		return o
	}
	return o
}

func (p dlProgram) replay(o dlObs) map[string]interface{} {
	return map[string]interface{}{"facts": predsString(p.Facts), "rules": rulesString(p.Rules), "queries": rulesString(p.Queries),
		"max_facts": p.MaxF, "max_iterations": p.MaxI, "observed_error": o.Err, "observed_facts": predsString(o.Facts)}
}

func (p dlProgram) coqCase(o dlObs) string {
	rs := make([]string, len(p.Rules))
	for i, r := range p.Rules {
		rs[i] = r.coq()
	}
	qs := make([]string, len(p.Queries))
	for i, q := range p.Queries {
		qs[i] = q.coq()
	}
	oq := make([]string, len(o.Queries))
	for i, q := range o.Queries {
		oq[i] = predsCoq(q)
	}
	return fmt.Sprintf("{| dc_facts := %s; dc_rules := %s; dc_limits := {| max_facts := %d; max_iterations := %d |}; dc_queries := %s; dc_obs_facts := %s; dc_obs_err := %s; dc_obs_queries := %s |}",
		predsCoq(p.Facts), coqList(rs), maxN(p.MaxF), maxN(p.MaxI), coqList(qs), predsCoq(o.Facts), coqOptErr(o.Err), coqList(oq))
}
func maxN(i int) int {
	if i < 0 {
		return 0
	}
	return i
}

// checkProgramOracle: the implementation's result against the reference least model.
func checkProgramOracle(res *Result, p dlProgram, o dlObs, prefix string) (derived int, joinWidth int) {
	rep := p.replay(o)
	if o.Panic != "" {
		res.Violate(prefix+"panic", "Datalog evaluation panicked: "+o.Panic, rep)
		return
	}
	if o.Err == "ETimeout" {
		res.Dist("harness:timeout-skipped")
		return
	}
	w, rounds, out, capped := refClosure(p.Facts, p.Rules, 3000)
	for _, r := range p.Rules {
		if len(r.Body) > joinWidth {
			joinWidth = len(r.Body)
		}
	}
	if capped {
		return
	}
	base := &refWorld{index: map[string]bool{}}
	for _, f := range p.Facts {
		base.add(f)
	}
	derived = len(w.facts) - len(base.facts)
	inFragment := !out.exprError && !out.invalidRule && !out.setsInFacts
	if !inFragment {
		res.Dist("out-of-fragment")
		// an expression that fails to evaluate for a tuple the join reaches (no earlier expression
		// of the rule being false for it), or a head variable left unbound, must end the run with
		// an error: success would mean the tuple was silently accepted or dropped
		if o.Err == "" && (out.exprError || out.invalidRule) {
			what := "an expression fails to evaluate"
			if !out.exprError {
				what = "a head variable is not bound by the body"
			}
			res.Violate(prefix+"error-swallowed", "run reported success although "+what+" for a tuple of the join", rep)
		}
		return
	}
	switch o.Err {
	case "":
		onlyGo, onlyRef := predSetDiff(o.Facts, w.facts)
		if len(onlyRef) > 0 {
			res.Violate(prefix+"missing-fact", fmt.Sprintf("run succeeded but derivable facts are missing: %v", onlyRef), rep)
		}
		if len(onlyGo) > 0 {
			res.Violate(prefix+"extra-fact", fmt.Sprintf("run produced facts that are not derivable: %v", onlyGo), rep)
		}
		if len(w.facts) >= p.MaxF {
			res.Violate(prefix+"limit-ignored", fmt.Sprintf("least model has %d facts >= maxFacts %d but run reported success", len(w.facts), p.MaxF), rep)
		}
		// queries: result sets against the reference
		for i, q := range p.Queries {
			var qo refOutcome
			want := refDerive(q, w.facts, &qo)
			if qo.exprError || qo.invalidRule {
				continue
			}
			a, b := predSetDiff(o.Queries[i], want)
			if len(a) > 0 || len(b) > 0 {
				res.Violate(prefix+"query-result", fmt.Sprintf("query %s: implementation-only %v, reference-only %v", q.String(), a, b), rep)
			}
		}
	case "EMaxFacts":
		if len(w.facts) < p.MaxF {
			res.Violate(prefix+"spurious-max-facts", fmt.Sprintf("least model has %d < maxFacts %d facts but run reported the fact limit", len(w.facts), p.MaxF), rep)
		}
	case "EMaxIterations":
		if rounds+1 <= p.MaxI && len(w.facts) < p.MaxF {
			res.Violate(prefix+"spurious-max-iterations", fmt.Sprintf("fixpoint is reached in %d rounds (+1 to confirm) <= maxIterations %d but run reported the iteration limit", rounds, p.MaxI), rep)
		}
	default:
		res.Violate(prefix+"spurious-error", "error-free program failed with "+o.Err, rep)
	}
	// every fact present must be derivable, whatever the outcome
	if o.Err != "" {
		onlyGo, _ := predSetDiff(o.Facts, w.facts)
		if len(onlyGo) > 0 {
			res.Violate(prefix+"extra-fact", fmt.Sprintf("world holds facts that are not derivable: %v", onlyGo), rep)
		}
	}
	return
}

func runC05(res *Result, rng *RNG, tier string, outDir string) {
	res.Rule = "random Datalog programs: 2-5 predicates of arity 0-3 over columns of every constant type (mostly small integers and strings so that joins meet), 0-40 base facts with duplicates, 0-4 rules with 1-3 body predicates, repeated variables, self-joins, recursion (40% of rules derive one of their body predicates), expressions over bound variables; 12% of programs are error-prone (division by a bound variable, ill-typed comparison, unbound head variable), 15% have tight limits. Observed: error class of World.Run, World.Facts() as an ORDERED list, QueryRule results as ordered lists. Non-trivial = at least one derived fact and a rule with a join of width >= 2; distinct by canonical program text."
	n := 700
	if tier == "thorough" {
		n = 36000
	}
	cf := NewCasesFile("Base Term Expr Datalog Corr")
	var lines []string
	for i := 0; i < n; i++ {
		p := genProgram(rng.Fork())
		o := runProgramGo(p)
		derived, jw := checkProgramOracle(res, p, o, "")
		canon := predsString(p.Facts) + "|" + rulesString(p.Rules) + "|" + rulesString(p.Queries) + fmt.Sprint(p.MaxF, p.MaxI)
		res.Count(canon, derived > 0 && jw >= 2)
		res.Dist(fmt.Sprintf("rules:%d", len(p.Rules)))
		if o.Err == "" {
			res.Dist("outcome:ok")
		} else {
			res.Dist("outcome:" + o.Err)
		}
		if derived > 0 {
			res.Dist("derives-facts")
		}
		if i < 3 {
			res.Sample(p.replay(o))
		}
		if o.Panic != "" || o.Err == "ETimeout" {
			continue
		}
		if len(p.Rules) > 0 && i%5 == 0 {
			cloneCheck(res, p, o, []int{3, 5, 6, 7, 0, 1}[(i/5)%6])
		}
		lines = append(lines, p.coqCase(o))
		res.CaseDescs = append(res.CaseDescs, "program facts="+predsString(p.Facts)+" rules="+rulesString(p.Rules))
	}
	res.ModelCases = len(lines)
	_ = cf
	WriteShards(res, outDir, "C05", "Base Term Expr Datalog Corr", "", "dl_case", "dl_ok (fun _ _ => None)", lines, 500)
}

// cloneCheck: a world obtained with Clone() owns its rules.  The origin holds the program's facts
// and k rules that can derive nothing (k chosen so that Go leaves spare capacity behind a slice
// grown one element at a time); the clone receives the program's rules, THEN the origin receives
// as many other rules.  Only the clone is run: its model must be the program's model.
// (Facts are not added after cloning and the origin is not run: this is about rules.)
func cloneCheck(res *Result, p dlProgram, direct dlObs, k int) {
	var got []SPred
	var errc string
	pan := usable(func() {
		syms := &datalog.SymbolTable{}
		w := datalog.NewWorld(datalog.WithMaxFacts(p.MaxF), datalog.WithMaxIterations(p.MaxI), datalog.WithMaxDuration(20*time.Second))
		for _, f := range p.Facts {
			w.AddFact(datalog.Fact{Predicate: f.toDatalog(syms)})
		}
		filler := SRule{Head: SPred{Name: "zz_filler", Terms: []STerm{aVar("n")}}, Body: []SPred{{Name: "zz_none", Terms: []STerm{aVar("n")}}}}
		for i := 0; i < k; i++ {
			w.AddRule(filler.toDatalog(syms))
		}
		c := w.Clone()
		for _, r := range p.Rules {
			c.AddRule(r.toDatalog(syms))
		}
		for range p.Rules {
			stranger := SRule{Head: SPred{Name: "zz_stranger"}, Body: []SPred{{Name: "zz_none", Terms: []STerm{aVar("n")}}}}
			if len(p.Facts) > 0 {
				b := SPred{Name: p.Facts[0].Name}
				for i := range p.Facts[0].Terms {
					b.Terms = append(b.Terms, aVar(fmt.Sprintf("v%d", i)))
				}
				stranger.Body = []SPred{b}
			}
			w.AddRule(stranger.toDatalog(syms))
		}
		errc = runErrClass(c.Run(syms))
		for _, f := range *c.Facts() {
			got = append(got, predFromDatalog(syms, f.Predicate))
		}
	})
	res.Dist(fmt.Sprintf("clone-check:origin-rules:%d", k))
	rep := map[string]interface{}{"facts": predsString(p.Facts), "rules_added_to_the_clone": rulesString(p.Rules), "origin_rules_before_clone": k, "direct_model": predsString(direct.Facts), "clone_model": predsString(got)}
	if pan != "" {
		res.Violate("panic:clone", "panic: "+pan, rep)
		return
	}
	if errc == "ETimeout" {
		return
	}
	a, b := []string{}, []string{}
	for _, f := range direct.Facts {
		a = append(a, f.String())
	}
	for _, f := range got {
		b = append(b, f.String())
	}
	sort.Strings(a)
	sort.Strings(b)
	if errc != direct.Err || strings.Join(a, ";") != strings.Join(b, ";") {
		res.Violate("clone-shares-rules", "a cloned world evaluated other rules than the ones it was given (rules added to the origin after cloning): error "+errc+" vs "+direct.Err, rep)
	}
}
