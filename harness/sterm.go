package main

import (
	"encoding/hex"
	"fmt"
	"sort"
	"strings"
	"time"

	biscuit "github.com/biscuit-auth/biscuit-go/v2"
	"github.com/biscuit-auth/biscuit-go/v2/datalog"
)

// S-level terms: strings and variable names carry their contents.
const (
	KVar = iota
	KInt
	KStr
	KDate
	KBytes
	KBool
	KSet
)

type SAtom struct {
	Kind  int
	S     string // KVar name / KStr content
	I     int64
	U     uint64 // KDate
	Bytes []byte
	B     bool
}
type STerm struct {
	IsSet bool
	A     SAtom
	Set   []SAtom
}

func aVar(n string) STerm   { return STerm{A: SAtom{Kind: KVar, S: n}} }
func aInt(i int64) STerm    { return STerm{A: SAtom{Kind: KInt, I: i}} }
func aStr(s string) STerm   { return STerm{A: SAtom{Kind: KStr, S: s}} }
func aDate(u uint64) STerm  { return STerm{A: SAtom{Kind: KDate, U: u}} }
func aBytes(b []byte) STerm { return STerm{A: SAtom{Kind: KBytes, Bytes: b}} }
func aBool(b bool) STerm    { return STerm{A: SAtom{Kind: KBool, B: b}} }
func aSet(ts ...STerm) STerm {
	s := STerm{IsSet: true}
	for _, t := range ts {
		s.Set = append(s.Set, t.A)
	}
	return s
}
func (t STerm) Kind() int {
	if t.IsSet {
		return KSet
	}
	return t.A.Kind
}

func (a SAtom) coq() string {
	switch a.Kind {
	case KVar:
		return "AVar " + coqStr(a.S)
	case KInt:
		return "AInt " + coqZ(a.I)
	case KStr:
		return "AStr " + coqStr(a.S)
	case KDate:
		return fmt.Sprintf("ADate %d", a.U)
	case KBytes:
		return "ABytes " + coqBytes(a.Bytes)
	case KBool:
		return "ABool " + coqBool(a.B)
	}
	return "?"
}
func (t STerm) coq() string {
	if t.IsSet {
		items := make([]string, len(t.Set))
		for i, a := range t.Set {
			items[i] = a.coq()
		}
		return "TSet " + coqList(items)
	}
	return "TA (" + t.A.coq() + ")"
}
func (a SAtom) String() string {
	switch a.Kind {
	case KVar:
		return "$" + a.S
	case KInt:
		return fmt.Sprint(a.I)
	case KStr:
		return fmt.Sprintf("%q", a.S)
	case KDate:
		return fmt.Sprintf("date(%d)", a.U)
	case KBytes:
		return "hex:" + hex.EncodeToString(a.Bytes)
	case KBool:
		return fmt.Sprint(a.B)
	}
	return "?"
}
func (t STerm) String() string {
	if t.IsSet {
		parts := make([]string, len(t.Set))
		for i, a := range t.Set {
			parts[i] = a.String()
		}
		return "[" + strings.Join(parts, ", ") + "]"
	}
	return t.A.String()
}
func atomEq(a, b SAtom) bool {
	if a.Kind != b.Kind {
		return false
	}
	switch a.Kind {
	case KVar, KStr:
		return a.S == b.S
	case KInt:
		return a.I == b.I
	case KDate:
		return a.U == b.U
	case KBytes:
		return string(a.Bytes) == string(b.Bytes)
	case KBool:
		return a.B == b.B
	}
	return false
}

// ---- to / from the datalog package (D level, through a symbol table)

func (a SAtom) toDatalog(syms *datalog.SymbolTable) datalog.Term {
	switch a.Kind {
	case KVar:
		return datalog.Variable(syms.Insert(a.S))
	case KInt:
		return datalog.Integer(a.I)
	case KStr:
		return syms.Insert(a.S)
	case KDate:
		return datalog.Date(a.U)
	case KBytes:
		return datalog.Bytes(a.Bytes)
	case KBool:
		return datalog.Bool(a.B)
	}
	panic("bad atom")
}
func (t STerm) toDatalog(syms *datalog.SymbolTable) datalog.Term {
	if t.IsSet {
		s := make(datalog.Set, 0, len(t.Set))
		for _, a := range t.Set {
			s = append(s, a.toDatalog(syms))
		}
		return s
	}
	return t.A.toDatalog(syms)
}
func atomFromDatalog(syms *datalog.SymbolTable, t datalog.Term) SAtom {
	switch v := t.(type) {
	case datalog.Variable:
		return SAtom{Kind: KVar, S: syms.Str(datalog.String(v))}
	case datalog.Integer:
		return SAtom{Kind: KInt, I: int64(v)}
	case datalog.String:
		return SAtom{Kind: KStr, S: syms.Str(v)}
	case datalog.Date:
		return SAtom{Kind: KDate, U: uint64(v)}
	case datalog.Bytes:
		return SAtom{Kind: KBytes, Bytes: []byte(v)}
	case datalog.Bool:
		return SAtom{Kind: KBool, B: bool(v)}
	}
	panic(fmt.Sprintf("atomFromDatalog: %T", t))
}
func termFromDatalog(syms *datalog.SymbolTable, t datalog.Term) STerm {
	if s, ok := t.(datalog.Set); ok {
		r := STerm{IsSet: true}
		for _, e := range s {
			r.Set = append(r.Set, atomFromDatalog(syms, e))
		}
		return r
	}
	return STerm{A: atomFromDatalog(syms, t)}
}

// ---- to / from the biscuit package (builder level)

func (a SAtom) toBiscuit() biscuit.Term {
	switch a.Kind {
	case KVar:
		return biscuit.Variable(a.S)
	case KInt:
		return biscuit.Integer(a.I)
	case KStr:
		return biscuit.String(a.S)
	case KDate:
		return biscuit.Date(time.Unix(int64(a.U), 0))
	case KBytes:
		return biscuit.Bytes(a.Bytes)
	case KBool:
		return biscuit.Bool(a.B)
	}
	panic("bad atom")
}
func (t STerm) toBiscuit() biscuit.Term {
	if t.IsSet {
		s := make(biscuit.Set, 0, len(t.Set))
		for _, a := range t.Set {
			s = append(s, a.toBiscuit())
		}
		return s
	}
	return t.A.toBiscuit()
}
func atomFromBiscuit(t biscuit.Term) SAtom {
	switch v := t.(type) {
	case biscuit.Variable:
		return SAtom{Kind: KVar, S: string(v)}
	case biscuit.Integer:
		return SAtom{Kind: KInt, I: int64(v)}
	case biscuit.String:
		return SAtom{Kind: KStr, S: string(v)}
	case biscuit.Date:
		return SAtom{Kind: KDate, U: uint64(time.Time(v).Unix())}
	case biscuit.Bytes:
		return SAtom{Kind: KBytes, Bytes: []byte(v)}
	case biscuit.Bool:
		return SAtom{Kind: KBool, B: bool(v)}
	}
	panic(fmt.Sprintf("atomFromBiscuit: %T", t))
}
func termFromBiscuit(t biscuit.Term) STerm {
	if s, ok := t.(biscuit.Set); ok {
		r := STerm{IsSet: true}
		for _, e := range s {
			r.Set = append(r.Set, atomFromBiscuit(e))
		}
		return r
	}
	return STerm{A: atomFromBiscuit(t)}
}

// ---- predicates, rules, checks, policies at S level

type SPred struct {
	Name  string
	Terms []STerm
}
type SOp struct {
	Kind int // 0 value, 1 unary, 2 binary
	Val  STerm
	Un   int // 0 negate 1 parens 2 length
	Bin  int // datalog.BinaryOpType numbering
}
type SExpr []SOp
type SRule struct {
	Head  SPred
	Body  []SPred
	Exprs []SExpr
}
type SCheck []SRule
type SPolicy struct {
	Deny    bool
	Queries []SRule
}
type SBlock struct {
	Facts  []SPred
	Rules  []SRule
	Checks []SCheck
}

var unNames = []string{"UNegate", "UParens", "ULength"}
var binNames = []string{"BLessThan", "BLessOrEqual", "BGreaterThan", "BGreaterOrEqual", "BEqual", "BContains",
	"BPrefix", "BSuffix", "BRegex", "BAdd", "BSub", "BMul", "BDiv", "BAnd", "BOr", "BIntersection", "BUnion"}

func (p SPred) coq() string {
	ts := make([]string, len(p.Terms))
	for i, t := range p.Terms {
		ts[i] = t.coq()
	}
	return fmt.Sprintf("{| p_name := %s; p_terms := %s |}", coqStr(p.Name), coqList(ts))
}
func (o SOp) coq() string {
	switch o.Kind {
	case 0:
		return "OVal (" + o.Val.coq() + ")"
	case 1:
		return "OUn " + unNames[o.Un]
	}
	return "OBin " + binNames[o.Bin]
}
func (e SExpr) coq() string {
	ops := make([]string, len(e))
	for i, o := range e {
		ops[i] = o.coq()
	}
	return coqList(ops)
}
func (r SRule) coq() string {
	body := make([]string, len(r.Body))
	for i, p := range r.Body {
		body[i] = p.coq()
	}
	es := make([]string, len(r.Exprs))
	for i, e := range r.Exprs {
		es[i] = e.coq()
	}
	return fmt.Sprintf("{| r_head := %s; r_body := %s; r_exprs := %s |}", r.Head.coq(), coqList(body), coqList(es))
}
func (c SCheck) coq() string {
	qs := make([]string, len(c))
	for i, q := range c {
		qs[i] = q.coq()
	}
	return coqList(qs)
}
func (p SPolicy) coq() string {
	k := "Allow"
	if p.Deny {
		k = "Deny"
	}
	return fmt.Sprintf("{| pol_kind := %s; pol_queries := %s |}", k, SCheck(p.Queries).coq())
}
func (b SBlock) coq() string {
	fs := make([]string, len(b.Facts))
	for i, f := range b.Facts {
		fs[i] = f.coq()
	}
	rs := make([]string, len(b.Rules))
	for i, r := range b.Rules {
		rs[i] = r.coq()
	}
	cs := make([]string, len(b.Checks))
	for i, c := range b.Checks {
		cs[i] = c.coq()
	}
	return fmt.Sprintf("{| b_facts := %s; b_rules := %s; b_checks := %s |}", coqList(fs), coqList(rs), coqList(cs))
}
func (p SPred) String() string {
	ts := make([]string, len(p.Terms))
	for i, t := range p.Terms {
		ts[i] = t.String()
	}
	return p.Name + "(" + strings.Join(ts, ", ") + ")"
}
func (o SOp) String() string {
	switch o.Kind {
	case 0:
		return o.Val.String()
	case 1:
		return unNames[o.Un]
	}
	return binNames[o.Bin]
}
func (r SRule) String() string {
	parts := []string{}
	for _, p := range r.Body {
		parts = append(parts, p.String())
	}
	for _, e := range r.Exprs {
		ops := []string{}
		for _, o := range e {
			ops = append(ops, o.String())
		}
		parts = append(parts, "{"+strings.Join(ops, " ")+"}")
	}
	return r.Head.String() + " <- " + strings.Join(parts, ", ")
}

// to biscuit builder level
func (p SPred) toBiscuit() biscuit.Predicate {
	ids := make([]biscuit.Term, 0, len(p.Terms))
	for _, t := range p.Terms {
		ids = append(ids, t.toBiscuit())
	}
	return biscuit.Predicate{Name: p.Name, IDs: ids}
}

var bUn = []biscuit.UnaryOp{biscuit.UnaryNegate, biscuit.UnaryParens, biscuit.UnaryLength}
var bBin = []biscuit.BinaryOp{biscuit.BinaryLessThan, biscuit.BinaryLessOrEqual, biscuit.BinaryGreaterThan, biscuit.BinaryGreaterOrEqual,
	biscuit.BinaryEqual, biscuit.BinaryContains, biscuit.BinaryPrefix, biscuit.BinarySuffix, biscuit.BinaryRegex, biscuit.BinaryAdd,
	biscuit.BinarySub, biscuit.BinaryMul, biscuit.BinaryDiv, biscuit.BinaryAnd, biscuit.BinaryOr, biscuit.BinaryIntersection, biscuit.BinaryUnion}

func (e SExpr) toBiscuit() biscuit.Expression {
	out := make(biscuit.Expression, 0, len(e))
	for _, o := range e {
		switch o.Kind {
		case 0:
			out = append(out, biscuit.Value{Term: o.Val.toBiscuit()})
		case 1:
			out = append(out, bUn[o.Un])
		default:
			out = append(out, bBin[o.Bin])
		}
	}
	return out
}
func (r SRule) toBiscuit() biscuit.Rule {
	body := make([]biscuit.Predicate, 0, len(r.Body))
	for _, p := range r.Body {
		body = append(body, p.toBiscuit())
	}
	es := make([]biscuit.Expression, 0, len(r.Exprs))
	for _, e := range r.Exprs {
		es = append(es, e.toBiscuit())
	}
	return biscuit.Rule{Head: r.Head.toBiscuit(), Body: body, Expressions: es}
}
func (c SCheck) toBiscuit() biscuit.Check {
	qs := make([]biscuit.Rule, 0, len(c))
	for _, q := range c {
		qs = append(qs, q.toBiscuit())
	}
	return biscuit.Check{Queries: qs}
}
func (p SPolicy) toBiscuit() biscuit.Policy {
	k := biscuit.PolicyKind(biscuit.PolicyKindAllow)
	if p.Deny {
		k = biscuit.PolicyKindDeny
	}
	return biscuit.Policy{Kind: k, Queries: SCheck(p.Queries).toBiscuit().Queries}
}

// to datalog level
var dUn = []datalog.UnaryOpFunc{datalog.Negate{}, datalog.Parens{}, datalog.Length{}}
var dBin = []datalog.BinaryOpFunc{datalog.LessThan{}, datalog.LessOrEqual{}, datalog.GreaterThan{}, datalog.GreaterOrEqual{}, datalog.Equal{},
	datalog.Contains{}, datalog.Prefix{}, datalog.Suffix{}, datalog.Regex{}, datalog.Add{}, datalog.Sub{}, datalog.Mul{}, datalog.Div{},
	datalog.And{}, datalog.Or{}, datalog.Intersection{}, datalog.Union{}}

func (p SPred) toDatalog(syms *datalog.SymbolTable) datalog.Predicate {
	ts := make([]datalog.Term, 0, len(p.Terms))
	for _, t := range p.Terms {
		ts = append(ts, t.toDatalog(syms))
	}
	return datalog.Predicate{Name: syms.Insert(p.Name), Terms: ts}
}
func (e SExpr) toDatalog(syms *datalog.SymbolTable) datalog.Expression {
	out := make(datalog.Expression, 0, len(e))
	for _, o := range e {
		switch o.Kind {
		case 0:
			out = append(out, datalog.Value{ID: o.Val.toDatalog(syms)})
		case 1:
			out = append(out, datalog.UnaryOp{UnaryOpFunc: dUn[o.Un]})
		default:
			out = append(out, datalog.BinaryOp{BinaryOpFunc: dBin[o.Bin]})
		}
	}
	return out
}
func (r SRule) toDatalog(syms *datalog.SymbolTable) datalog.Rule {
	body := make([]datalog.Predicate, 0, len(r.Body))
	for _, p := range r.Body {
		body = append(body, p.toDatalog(syms))
	}
	es := make([]datalog.Expression, 0, len(r.Exprs))
	for _, e := range r.Exprs {
		es = append(es, e.toDatalog(syms))
	}
	return datalog.Rule{Head: r.Head.toDatalog(syms), Body: body, Expressions: es}
}
func predFromDatalog(syms *datalog.SymbolTable, p datalog.Predicate) SPred {
	r := SPred{Name: syms.Str(p.Name)}
	for _, t := range p.Terms {
		r.Terms = append(r.Terms, termFromDatalog(syms, t))
	}
	return r
}
func predFromBiscuit(p biscuit.Predicate) SPred {
	r := SPred{Name: p.Name}
	for _, t := range p.IDs {
		r.Terms = append(r.Terms, termFromBiscuit(t))
	}
	return r
}
func predsCoq(ps []SPred) string {
	items := make([]string, len(ps))
	for i, p := range ps {
		items[i] = p.coq()
	}
	return coqList(items)
}
func sortedPredStrings(ps []SPred) []string {
	out := make([]string, len(ps))
	for i, p := range ps {
		out[i] = p.String()
	}
	sort.Strings(out)
	return out
}

func sUnaryOp(i int) datalog.UnaryOp   { return datalog.UnaryOp{UnaryOpFunc: dUn[i]} }
func sBinaryOp(i int) datalog.BinaryOp { return datalog.BinaryOp{BinaryOpFunc: dBin[i]} }
