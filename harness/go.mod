module verifharness

go 1.19

require (
	github.com/biscuit-auth/biscuit-go/v2 v2.0.0
	google.golang.org/protobuf v1.34.2
)

require github.com/alecthomas/participle/v2 v2.1.1 // indirect

replace github.com/biscuit-auth/biscuit-go/v2 => /repo
