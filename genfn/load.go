package main

import (
	"fmt"
	"go/ast"
	"go/parser"
	"go/token"
	"math/big"
	"os"
	"path/filepath"
	"sort"
	"strings"
)

// loadPkg parses the non-test files of dir that carry no "verif" build tag.
func loadPkg(dir string) *Pkg {
	p := &Pkg{
		fset:   token.NewFileSet(),
		types:  map[string]*ast.TypeSpec{},
		funcs:  map[string]*ast.FuncDecl{},
		consts: map[string]*constInfo{},
		vars:   map[string]*ast.ValueSpec{},
		varIdx: map[string]int{},
	}
	ents, err := os.ReadDir(dir)
	if err != nil {
		fatal("cannot read %s: %v", dir, err)
	}
	var names []string
	for _, e := range ents {
		n := e.Name()
		if e.IsDir() || !strings.HasSuffix(n, ".go") || strings.HasSuffix(n, "_test.go") {
			continue
		}
		names = append(names, n)
	}
	sort.Strings(names)
	for _, n := range names {
		path := filepath.Join(dir, n)
		f, err := parser.ParseFile(p.fset, path, nil, parser.ParseComments)
		if err != nil {
			fatal("parse error: %v", err)
		}
		if hasVerifTag(f) {
			continue
		}
		p.files = append(p.files, f)
	}
	if len(p.files) == 0 {
		fatal("no Go files in %s", dir)
	}
	for _, f := range p.files {
		for _, d := range f.Decls {
			switch d := d.(type) {
			case *ast.FuncDecl:
				key := d.Name.Name
				if d.Recv != nil && len(d.Recv.List) == 1 {
					key = recvTypeName(d.Recv.List[0].Type) + "." + key
				}
				p.funcs[key] = d
			case *ast.GenDecl:
				switch d.Tok {
				case token.TYPE:
					for _, s := range d.Specs {
						ts := s.(*ast.TypeSpec)
						p.types[ts.Name.Name] = ts
					}
				case token.VAR:
					for _, s := range d.Specs {
						vs := s.(*ast.ValueSpec)
						for i, n := range vs.Names {
							p.vars[n.Name] = vs
							p.varIdx[n.Name] = i
						}
					}
				}
			}
		}
	}
	// constants need the types (for typed constants): second pass
	for _, f := range p.files {
		for _, d := range f.Decls {
			if gd, ok := d.(*ast.GenDecl); ok && gd.Tok == token.CONST {
				p.loadConsts(gd)
			}
		}
	}
	return p
}

func hasVerifTag(f *ast.File) bool {
	for _, cg := range f.Comments {
		if cg.Pos() >= f.Package {
			break
		}
		for _, c := range cg.List {
			t := strings.TrimSpace(c.Text)
			if strings.HasPrefix(t, "//go:build") || strings.HasPrefix(t, "// +build") {
				if strings.Contains(t, "verif") {
					return true
				}
			}
		}
	}
	return false
}

func recvTypeName(e ast.Expr) string {
	if s, ok := e.(*ast.StarExpr); ok {
		e = s.X
	}
	if id, ok := e.(*ast.Ident); ok {
		return id.Name
	}
	return "?"
}

// loadConsts evaluates the integer constants of one const declaration (iota,
// implicit repetition of the previous expression).  Constants that are not
// integer expressions are skipped (and are unknown identifiers if used).
func (p *Pkg) loadConsts(gd *ast.GenDecl) {
	var lastVals []ast.Expr
	var lastType ast.Expr
	for iota, s := range gd.Specs {
		vs := s.(*ast.ValueSpec)
		vals, typ := vs.Values, vs.Type
		if len(vals) == 0 {
			vals, typ = lastVals, lastType
		} else {
			lastVals, lastType = vals, typ
		}
		for i, n := range vs.Names {
			if i >= len(vals) {
				continue
			}
			v, ok := p.constEval(vals[i], int64(iota))
			if !ok {
				continue
			}
			ci := &constInfo{val: v, typ: tUntypedInt}
			if typ != nil {
				t, err := p.resolveTypeErr(typ)
				if err != nil || !t.isInteger() {
					continue
				}
				ci.typ = t
			}
			p.consts[n.Name] = ci
		}
	}
}

var mathConsts = map[string]string{
	"MinInt64": "-9223372036854775808", "MaxInt64": "9223372036854775807",
	"MinInt": "-9223372036854775808", "MaxInt": "9223372036854775807",
	"MinInt32": "-2147483648", "MaxInt32": "2147483647",
	"MaxUint32": "4294967295", "MaxUint64": "18446744073709551615",
	"MaxUint8": "255", "MaxInt8": "127", "MinInt8": "-128",
	"MaxInt16": "32767", "MinInt16": "-32768", "MaxUint16": "65535",
}

// constEval evaluates an untyped integer constant expression.
func (p *Pkg) constEval(e ast.Expr, iota int64) (*big.Int, bool) {
	switch e := e.(type) {
	case *ast.BasicLit:
		if e.Kind == token.INT {
			v, ok := new(big.Int).SetString(strings.ReplaceAll(e.Value, "_", ""), 0)
			return v, ok
		}
		return nil, false
	case *ast.Ident:
		if e.Name == "iota" && iota >= 0 {
			return big.NewInt(iota), true
		}
		if c, ok := p.consts[e.Name]; ok {
			return c.val, true
		}
		return nil, false
	case *ast.SelectorExpr:
		if x, ok := e.X.(*ast.Ident); ok && x.Name == "math" {
			if s, ok := mathConsts[e.Sel.Name]; ok {
				v, _ := new(big.Int).SetString(s, 10)
				return v, true
			}
		}
		return nil, false
	case *ast.ParenExpr:
		return p.constEval(e.X, iota)
	case *ast.UnaryExpr:
		v, ok := p.constEval(e.X, iota)
		if !ok {
			return nil, false
		}
		switch e.Op {
		case token.SUB:
			return new(big.Int).Neg(v), true
		case token.ADD:
			return v, true
		}
		return nil, false
	case *ast.BinaryExpr:
		a, ok1 := p.constEval(e.X, iota)
		b, ok2 := p.constEval(e.Y, iota)
		if !ok1 || !ok2 {
			return nil, false
		}
		return constBinop(e.Op, a, b)
	}
	return nil, false
}

func constBinop(op token.Token, a, b *big.Int) (*big.Int, bool) {
	switch op {
	case token.ADD:
		return new(big.Int).Add(a, b), true
	case token.SUB:
		return new(big.Int).Sub(a, b), true
	case token.MUL:
		return new(big.Int).Mul(a, b), true
	case token.QUO:
		if b.Sign() == 0 {
			return nil, false
		}
		return new(big.Int).Quo(a, b), true
	case token.REM:
		if b.Sign() == 0 {
			return nil, false
		}
		return new(big.Int).Rem(a, b), true
	case token.SHL:
		if !b.IsInt64() || b.Int64() < 0 || b.Int64() > 200 {
			return nil, false
		}
		return new(big.Int).Lsh(a, uint(b.Int64())), true
	case token.SHR:
		if !b.IsInt64() || b.Int64() < 0 || b.Int64() > 200 {
			return nil, false
		}
		return new(big.Int).Rsh(a, uint(b.Int64())), true
	}
	return nil, false
}

// resolveTypeErr maps a type expression to a T.
func (p *Pkg) resolveTypeErr(e ast.Expr) (*T, error) {
	switch e := e.(type) {
	case *ast.Ident:
		switch e.Name {
		case "int":
			return tInt, nil
		case "int64":
			return tInt64, nil
		case "int32", "rune":
			return tInt32, nil
		case "uint64", "uint":
			return tUint64, nil
		case "uint32":
			return tUint32, nil
		case "byte", "uint8":
			return tUint8, nil
		case "bool":
			return tBool, nil
		case "string":
			return tString, nil
		case "error":
			return tError, nil
		}
		ts, ok := p.types[e.Name]
		if !ok {
			return nil, fmt.Errorf("unknown type %s", e.Name)
		}
		if _, isIface := ts.Type.(*ast.InterfaceType); isIface {
			if e.Name == "Term" {
				return tTerm, nil
			}
			return nil, fmt.Errorf("interface type %s (only Term is represented)", e.Name)
		}
		u, err := p.resolveTypeErr(ts.Type)
		if err != nil {
			return nil, fmt.Errorf("type %s: %v", e.Name, err)
		}
		c := *u
		c.Name = e.Name
		return &c, nil
	case *ast.StarExpr:
		if s, ok := e.X.(*ast.SelectorExpr); ok {
			if x, ok := s.X.(*ast.Ident); ok {
				if x.Name == "big" && s.Sel.Name == "Int" {
					return tBigInt, nil
				}
				if x.Name == "regexp" && s.Sel.Name == "Regexp" {
					return tRegexp, nil
				}
			}
		}
		u, err := p.resolveTypeErr(e.X)
		if err != nil {
			return nil, err
		}
		return &T{K: KPtr, Elem: u}, nil
	case *ast.ArrayType:
		el, err := p.resolveTypeErr(e.Elt)
		if err != nil {
			return nil, err
		}
		if e.Len == nil {
			return &T{K: KSlice, Elem: el}, nil
		}
		if _, ok := e.Len.(*ast.Ellipsis); ok {
			return &T{K: KArray, Elem: el, Len: -1}, nil
		}
		n, ok := p.constEval(e.Len, -1)
		if !ok {
			return nil, fmt.Errorf("array length is not a constant")
		}
		return &T{K: KArray, Elem: el, Len: n.Int64()}, nil
	case *ast.StructType:
		if e.Fields == nil || len(e.Fields.List) == 0 {
			return &T{K: KStruct}, nil
		}
		return nil, fmt.Errorf("struct type with fields")
	case *ast.ParenExpr:
		return p.resolveTypeErr(e.X)
	}
	return nil, fmt.Errorf("type expression %T", e)
}

// assignedAnywhere reports whether a package-level variable is assigned,
// incremented or has its address taken anywhere in the package.
func (p *Pkg) assignedAnywhere(name string) (bool, ast.Node) {
	var hit ast.Node
	for _, f := range p.files {
		ast.Inspect(f, func(n ast.Node) bool {
			if hit != nil {
				return false
			}
			isName := func(e ast.Expr) bool {
				for {
					switch x := e.(type) {
					case *ast.ParenExpr:
						e = x.X
						continue
					case *ast.IndexExpr:
						e = x.X
						continue
					case *ast.SliceExpr:
						e = x.X
						continue
					}
					break
				}
				id, ok := e.(*ast.Ident)
				return ok && id.Name == name
			}
			switch n := n.(type) {
			case *ast.AssignStmt:
				if n.Tok != token.DEFINE {
					for _, l := range n.Lhs {
						if isName(l) {
							hit = n
						}
					}
				}
			case *ast.IncDecStmt:
				if isName(n.X) {
					hit = n
				}
			case *ast.UnaryExpr:
				if n.Op == token.AND && isName(n.X) {
					hit = n
				}
			}
			return true
		})
	}
	return hit != nil, hit
}

func fatal(format string, a ...interface{}) {
	fmt.Fprintf(os.Stderr, "genfn: "+format+"\n", a...)
	os.Exit(2)
}
