package main

import (
	"fmt"
	"go/ast"
	"go/parser"
	"go/token"
	"math/big"
	"os"
	"path/filepath"
	"sort"
	"strings"
)

// loadPkg parses the non-test files of dir that carry no "verif" build tag.
func loadPkg(dir string) *Pkg {
	p := &Pkg{
		fset:   token.NewFileSet(),
		types:  map[string]*ast.TypeSpec{},
		funcs:  map[string]*ast.FuncDecl{},
		consts: map[string]*constInfo{},
		vars:   map[string]*ast.ValueSpec{},
		varIdx: map[string]int{},
	}
	ents, err := os.ReadDir(dir)
	if err != nil {
		fatal("cannot read %s: %v", dir, err)
	}
	var names []string
	for _, e := range ents {
		n := e.Name()
		if e.IsDir() || !strings.HasSuffix(n, ".go") || strings.HasSuffix(n, "_test.go") {
			continue
		}
		names = append(names, n)
	}
	sort.Strings(names)
	for _, n := range names {
		path := filepath.Join(dir, n)
		f, err := parser.ParseFile(p.fset, path, nil, parser.ParseComments)
		if err != nil {
			fatal("parse error: %v", err)
		}
		if hasVerifTag(f) {
			continue
		}
		p.files = append(p.files, f)
	}
	if len(p.files) == 0 {
		fatal("no Go files in %s", dir)
	}
	for _, f := range p.files {
		for _, d := range f.Decls {
			switch d := d.(type) {
			case *ast.FuncDecl:
				key := d.Name.Name
				if d.Recv != nil && len(d.Recv.List) == 1 {
					key = recvTypeName(d.Recv.List[0].Type) + "." + key
				}
				p.funcs[key] = d
			case *ast.GenDecl:
				switch d.Tok {
				case token.TYPE:
					for _, s := range d.Specs {
						ts := s.(*ast.TypeSpec)
						p.types[ts.Name.Name] = ts
					}
				case token.VAR:
					for _, s := range d.Specs {
						vs := s.(*ast.ValueSpec)
						for i, n := range vs.Names {
							p.vars[n.Name] = vs
							p.varIdx[n.Name] = i
						}
					}
				}
			}
		}
	}
	// constants need the types (for typed constants): second pass
	for _, f := range p.files {
		for _, d := range f.Decls {
			if gd, ok := d.(*ast.GenDecl); ok && gd.Tok == token.CONST {
				p.loadConsts(gd)
			}
		}
	}
	return p
}

func hasVerifTag(f *ast.File) bool {
	for _, cg := range f.Comments {
		if cg.Pos() >= f.Package {
			break
		}
		for _, c := range cg.List {
			t := strings.TrimSpace(c.Text)
			if strings.HasPrefix(t, "//go:build") || strings.HasPrefix(t, "// +build") {
				if strings.Contains(t, "verif") {
					return true
				}
			}
		}
	}
	return false
}

func recvTypeName(e ast.Expr) string {
	if s, ok := e.(*ast.StarExpr); ok {
		e = s.X
	}
	if id, ok := e.(*ast.Ident); ok {
		return id.Name
	}
	return "?"
}

// loadConsts evaluates the integer constants of one const declaration (iota,
// implicit repetition of the previous expression).  Constants that are not
// integer expressions are skipped (and are unknown identifiers if used).
func (p *Pkg) loadConsts(gd *ast.GenDecl) {
	var lastVals []ast.Expr
	var lastType ast.Expr
	for iota, s := range gd.Specs {
		vs := s.(*ast.ValueSpec)
		vals, typ := vs.Values, vs.Type
		if len(vals) == 0 {
			vals, typ = lastVals, lastType
		} else {
			lastVals, lastType = vals, typ
		}
		for i, n := range vs.Names {
			if i >= len(vals) {
				continue
			}
			v, ok := p.constEval(vals[i], int64(iota))
			if !ok {
				continue
			}
			ci := &constInfo{val: v, typ: tUntypedInt}
			if typ != nil {
				t, err := p.resolveTypeErr(typ)
				if err != nil || !t.isInteger() {
					continue
				}
				ci.typ = t
			}
			p.consts[n.Name] = ci
		}
	}
}

var mathConsts = map[string]string{
	"MinInt64": "-9223372036854775808", "MaxInt64": "9223372036854775807",
	"MinInt": "-9223372036854775808", "MaxInt": "9223372036854775807",
	"MinInt32": "-2147483648", "MaxInt32": "2147483647",
	"MaxUint32": "4294967295", "MaxUint64": "18446744073709551615",
	"MaxUint8": "255", "MaxInt8": "127", "MinInt8": "-128",
	"MaxInt16": "32767", "MinInt16": "-32768", "MaxUint16": "65535",
}

// constEval evaluates an untyped integer constant expression.
func (p *Pkg) constEval(e ast.Expr, iota int64) (*big.Int, bool) {
	switch e := e.(type) {
	case *ast.BasicLit:
		if e.Kind == token.INT {
			v, ok := new(big.Int).SetString(strings.ReplaceAll(e.Value, "_", ""), 0)
			return v, ok
		}
		return nil, false
	case *ast.Ident:
		if e.Name == "iota" && iota >= 0 {
			return big.NewInt(iota), true
		}
		if c, ok := p.consts[e.Name]; ok {
			return c.val, true
		}
		return nil, false
	case *ast.SelectorExpr:
		if x, ok := e.X.(*ast.Ident); ok && x.Name == "math" {
			if s, ok := mathConsts[e.Sel.Name]; ok {
				v, _ := new(big.Int).SetString(s, 10)
				return v, true
			}
		}
		return nil, false
	case *ast.ParenExpr:
		return p.constEval(e.X, iota)
	case *ast.UnaryExpr:
		v, ok := p.constEval(e.X, iota)
		if !ok {
			return nil, false
		}
		switch e.Op {
		case token.SUB:
			return new(big.Int).Neg(v), true
		case token.ADD:
			return v, true
		}
		return nil, false
	case *ast.BinaryExpr:
		a, ok1 := p.constEval(e.X, iota)
		b, ok2 := p.constEval(e.Y, iota)
		if !ok1 || !ok2 {
			return nil, false
		}
		return constBinop(e.Op, a, b)
	}
	return nil, false
}

func constBinop(op token.Token, a, b *big.Int) (*big.Int, bool) {
	switch op {
	case token.ADD:
		return new(big.Int).Add(a, b), true
	case token.SUB:
		return new(big.Int).Sub(a, b), true
	case token.MUL:
		return new(big.Int).Mul(a, b), true
	case token.QUO:
		if b.Sign() == 0 {
			return nil, false
		}
		return new(big.Int).Quo(a, b), true
	case token.REM:
		if b.Sign() == 0 {
			return nil, false
		}
		return new(big.Int).Rem(a, b), true
	case token.SHL:
		if !b.IsInt64() || b.Int64() < 0 || b.Int64() > 200 {
			return nil, false
		}
		return new(big.Int).Lsh(a, uint(b.Int64())), true
	case token.SHR:
		if !b.IsInt64() || b.Int64() < 0 || b.Int64() > 200 {
			return nil, false
		}
		return new(big.Int).Rsh(a, uint(b.Int64())), true
	}
	return nil, false
}

// resolveTypeErr maps a type expression to a T.
func (p *Pkg) resolveTypeErr(e ast.Expr) (*T, error) {
	switch e := e.(type) {
	case *ast.Ident:
		switch e.Name {
		case "int":
			return tInt, nil
		case "int64":
			return tInt64, nil
		case "int32", "rune":
			return tInt32, nil
		case "uint64", "uint":
			return tUint64, nil
		case "uint32":
			return tUint32, nil
		case "byte", "uint8":
			return tUint8, nil
		case "bool":
			return tBool, nil
		case "string":
			return tString, nil
		case "error":
			return tError, nil
		}
		ts, ok := p.types[e.Name]
		if !ok {
			return nil, fmt.Errorf("unknown type %s", e.Name)
		}
		if _, isIface := ts.Type.(*ast.InterfaceType); isIface {
			if e.Name == "Term" {
				return tTerm, nil
			}
			if ifaceFor(e.Name) != nil {
				if err := p.checkIface(e.Name); err != nil {
					return nil, err
				}
				return &T{K: KIface, Name: e.Name}, nil
			}
			return nil, fmt.Errorf("interface type %s (only Term, Op, UnaryOpFunc, BinaryOpFunc are represented)", e.Name)
		}
		if st, ok := ts.Type.(*ast.StructType); ok && structFieldCount(st) >= 2 {
			return p.resolveRec(e.Name, st)
		}
		u, err := p.resolveTypeErr(ts.Type)
		if err != nil {
			return nil, fmt.Errorf("type %s: %v", e.Name, err)
		}
		c := *u
		c.Name = e.Name
		return &c, nil
	case *ast.StarExpr:
		if s, ok := e.X.(*ast.SelectorExpr); ok {
			if x, ok := s.X.(*ast.Ident); ok {
				if x.Name == "big" && s.Sel.Name == "Int" {
					return tBigInt, nil
				}
				if x.Name == "regexp" && s.Sel.Name == "Regexp" {
					return tRegexp, nil
				}
			}
		}
		u, err := p.resolveTypeErr(e.X)
		if err != nil {
			return nil, err
		}
		return &T{K: KPtr, Elem: u}, nil
	case *ast.ArrayType:
		el, err := p.resolveTypeErr(e.Elt)
		if err != nil {
			return nil, err
		}
		if e.Len == nil {
			return &T{K: KSlice, Elem: el}, nil
		}
		if _, ok := e.Len.(*ast.Ellipsis); ok {
			return &T{K: KArray, Elem: el, Len: -1}, nil
		}
		n, ok := p.constEval(e.Len, -1)
		if !ok {
			return nil, fmt.Errorf("array length is not a constant")
		}
		return &T{K: KArray, Elem: el, Len: n.Int64()}, nil
	case *ast.StructType:
		if e.Fields == nil || len(e.Fields.List) == 0 {
			return &T{K: KStruct}, nil
		}
		// a struct with exactly one field is represented by that field
		if len(e.Fields.List) == 1 && len(e.Fields.List[0].Names) <= 1 && e.Fields.List[0].Tag == nil {
			f := e.Fields.List[0]
			ft, err := p.resolveTypeErr(f.Type)
			if err != nil {
				return nil, fmt.Errorf("struct field: %v", err)
			}
			// stage H: struct{ *SymbolTable } (SymbolDebugger): the embedded pointer is a READ-ONLY view of
			// the table (taken to be non-nil, as a *SymbolTable parameter is).  A call that writes through
			// it is refused by emitCall (the argument is not a pointer parameter of the caller), and no
			// statement of the subset assigns a field.  Every other pointer field stays refused.
			roTable := len(f.Names) == 0 && ft.K == KPtr && ft.Elem.Name == "SymbolTable" && typeStr(f.Type) == "*SymbolTable"
			if (ft.K == KPtr || ft.K == KBigInt || ft.K == KRegexp) && !roTable {
				return nil, fmt.Errorf("struct with a pointer field (aliasing is not represented)")
			}
			if roTable {
				return &T{K: KWrap, Elem: ft, Field: "SymbolTable", Embedded: true}, nil
			}
			if len(f.Names) == 1 {
				return &T{K: KWrap, Elem: ft, Field: f.Names[0].Name}, nil
			}
			id, ok := f.Type.(*ast.Ident)
			if !ok {
				return nil, fmt.Errorf("embedded field of type %T", f.Type)
			}
			return &T{K: KWrap, Elem: ft, Field: id.Name, Embedded: true}, nil
		}
		return nil, fmt.Errorf("struct type with several fields")
	case *ast.MapType:
		kt, err := p.resolveTypeErr(e.Key)
		if err != nil {
			return nil, err
		}
		vt, err := p.resolveTypeErr(e.Value)
		if err != nil {
			return nil, err
		}
		// the only map of the subset: map[Variable]*Term, the model's dbindings (Model/DEval.v)
		if kt.Name == "Variable" && vt.K == KPtr && vt.Elem.K == KIface && vt.Elem.Name == "Term" {
			return &T{K: KMap, Key: kt, Elem: vt}, nil
		}
		// a set of strings: map[string]struct{} (unnamed key and value types), represented by list bytes
		if kt.K == KString && kt.Name == "" && vt.K == KStruct && vt.Name == "" {
			return &T{K: KStrSet}, nil
		}
		return nil, fmt.Errorf("map type map[%v]%v (only map[Variable]*Term and map[string]struct{} are represented)", kt, vt)
	case *ast.ParenExpr:
		return p.resolveTypeErr(e.X)
	}
	return nil, fmt.Errorf("type expression %T", e)
}

func structFieldCount(st *ast.StructType) int {
	n := 0
	if st.Fields == nil {
		return 0
	}
	for _, f := range st.Fields.List {
		if len(f.Names) == 0 {
			n++
		}
		n += len(f.Names)
	}
	return n
}

// resolveRec: a struct with several fields is represented only when the table recReps
// names a record of the model for it, and the declaration in the source has exactly
// the fields of the table (names, type expressions, order; no embedded field, no tag).
func (p *Pkg) resolveRec(name string, st *ast.StructType) (*T, error) {
	rep := recFor(name)
	if rep == nil {
		return nil, fmt.Errorf("struct type %s with several fields (only the structs of the table recReps are represented)", name)
	}
	if p.recMemo == nil {
		p.recMemo = map[string]*T{}
	}
	if t, ok := p.recMemo[name]; ok {
		return t, nil
	}
	type fld struct {
		name string
		typ  ast.Expr
	}
	var got []fld
	for _, f := range st.Fields.List {
		if len(f.Names) == 0 {
			return nil, fmt.Errorf("struct type %s: embedded field in a struct represented by the record %s", name, rep.coq)
		}
		if f.Tag != nil {
			return nil, fmt.Errorf("struct type %s: field tag", name)
		}
		for _, n := range f.Names {
			got = append(got, fld{n.Name, f.Type})
		}
	}
	var gs, ws []string
	for _, g := range got {
		gs = append(gs, g.name+" "+typeStr(g.typ))
	}
	for _, w := range rep.fields {
		ws = append(ws, w.goName+" "+w.goType)
	}
	if strings.Join(gs, "; ") != strings.Join(ws, "; ") {
		return nil, fmt.Errorf("struct type %s: the fields in the source {%s} differ from those of the model's record %s {%s}",
			name, strings.Join(gs, "; "), rep.coq, strings.Join(ws, "; "))
	}
	t := &T{K: KRec, Name: name, Ctor: rep.ctor, Coq: rep.coq}
	for i, g := range got {
		ft, err := p.resolveTypeErr(g.typ)
		if err != nil {
			return nil, fmt.Errorf("struct type %s, field %s: %v", name, g.name, err)
		}
		t.Fields = append(t.Fields, RecField{name: g.name, typ: ft, proj: rep.fields[i].proj})
	}
	p.recMemo[name] = t
	return t, nil
}

// typeStr prints a type expression (for the comparison of method signatures).
func typeStr(e ast.Expr) string {
	switch e := e.(type) {
	case *ast.Ident:
		return e.Name
	case *ast.StarExpr:
		return "*" + typeStr(e.X)
	case *ast.ArrayType:
		if e.Len == nil {
			return "[]" + typeStr(e.Elt)
		}
		return "[" + exprStr(e.Len) + "]" + typeStr(e.Elt)
	case *ast.SelectorExpr:
		return typeStr(e.X) + "." + e.Sel.Name
	case *ast.MapType:
		return "map[" + typeStr(e.Key) + "]" + typeStr(e.Value)
	case *ast.ParenExpr:
		return typeStr(e.X)
	case *ast.InterfaceType:
		return "interface{...}"
	case *ast.StructType:
		return "struct{...}"
	}
	return fmt.Sprintf("%T", e)
}

func fieldTypes(fl *ast.FieldList) []string {
	var out []string
	if fl == nil {
		return out
	}
	for _, f := range fl.List {
		n := len(f.Names)
		if n == 0 {
			n = 1
		}
		for i := 0; i < n; i++ {
			out = append(out, typeStr(f.Type))
		}
	}
	return out
}

// checkIface compares the implementors of a represented interface listed in
// ifaceReps with the types of the package whose method set (value receivers)
// contains every method of the interface with the same signature.
func (p *Pkg) checkIface(name string) error {
	if err, done := p.ifaceChecked[name]; done {
		return err
	}
	if p.ifaceChecked == nil {
		p.ifaceChecked = map[string]error{}
	}
	err := p.checkIface1(name)
	p.ifaceChecked[name] = err
	return err
}

func (p *Pkg) checkIface1(name string) error {
	rep := ifaceFor(name)
	it := p.types[name].Type.(*ast.InterfaceType)
	type msig struct {
		name            string
		params, results []string
	}
	var methods []msig
	for _, m := range it.Methods.List {
		ft, ok := m.Type.(*ast.FuncType)
		if !ok || len(m.Names) != 1 {
			return fmt.Errorf("interface %s: embedded interface or type list", name)
		}
		methods = append(methods, msig{m.Names[0].Name, fieldTypes(ft.Params), fieldTypes(ft.Results)})
	}
	eq := func(a, b []string) bool {
		if len(a) != len(b) {
			return false
		}
		for i := range a {
			if a[i] != b[i] {
				return false
			}
		}
		return true
	}
	found := map[string]bool{}
	for tn, ts := range p.types {
		if _, isIface := ts.Type.(*ast.InterfaceType); isIface {
			continue
		}
		all := true
		for _, m := range methods {
			d, ok := p.funcs[tn+"."+m.name]
			if !ok || d.Recv == nil {
				all = false
				break
			}
			if _, ptr := d.Recv.List[0].Type.(*ast.StarExpr); ptr {
				all = false // *T implements the interface, not T
				break
			}
			if !eq(fieldTypes(d.Type.Params), m.params) || !eq(fieldTypes(d.Type.Results), m.results) {
				all = false
				break
			}
		}
		if all {
			found[tn] = true
		}
	}
	var missing, extra []string
	for _, im := range rep.impls {
		if !found[im.goType] {
			extra = append(extra, im.goType)
		}
		delete(found, im.goType)
	}
	for tn := range found {
		missing = append(missing, tn)
	}
	sort.Strings(missing)
	if len(missing) > 0 || len(extra) > 0 {
		return fmt.Errorf("interface %s: the implementors in the source differ from the constructors of the model's %s (implementing types without a constructor: %v; constructors without an implementing type: %v)",
			name, rep.coq, missing, extra)
	}
	return nil
}

// assignedAnywhere reports whether a package-level variable is assigned,
// incremented or has its address taken anywhere in the package.
func (p *Pkg) assignedAnywhere(name string) (bool, ast.Node) {
	var hit ast.Node
	for _, f := range p.files {
		ast.Inspect(f, func(n ast.Node) bool {
			if hit != nil {
				return false
			}
			isName := func(e ast.Expr) bool {
				for {
					switch x := e.(type) {
					case *ast.ParenExpr:
						e = x.X
						continue
					case *ast.IndexExpr:
						e = x.X
						continue
					case *ast.SliceExpr:
						e = x.X
						continue
					}
					break
				}
				id, ok := e.(*ast.Ident)
				return ok && id.Name == name
			}
			switch n := n.(type) {
			case *ast.AssignStmt:
				if n.Tok != token.DEFINE {
					for _, l := range n.Lhs {
						if isName(l) {
							hit = n
						}
					}
				}
			case *ast.IncDecStmt:
				if isName(n.X) {
					hit = n
				}
			case *ast.UnaryExpr:
				if n.Op == token.AND && isName(n.X) {
					hit = n
				}
			}
			return true
		})
	}
	return hit != nil, hit
}

func fatal(format string, a ...interface{}) {
	fmt.Fprintf(os.Stderr, "genfn: "+format+"\n", a...)
	os.Exit(2)
}
