package main

import (
	"fmt"
	"go/ast"
	"go/token"
	"math/big"
	"strconv"
	"strings"
)

type econt func(env *Env, v Val) string

const hole = "\x00HOLE\x00"

// tryPure translates e and reports whether the translation is a plain term
// (no panic path, no call, no change of the environment).
func (tr *Tr) tryPure(e ast.Expr, env *Env) (Val, bool) {
	var got Val
	calls := 0
	same := true
	s := tr.expr(e, env, func(e2 *Env, v Val) string {
		calls++
		got = v
		for b, v0 := range env.val {
			if e2.val[b].term != v0.term {
				same = false
			}
		}
		return hole
	})
	return got, s == hole && calls == 1 && same
}

func (tr *Tr) intLit(c *big.Int, t *T, at ast.Node) Val {
	lo, hi := t.intRange()
	if c.Cmp(lo) < 0 || c.Cmp(hi) > 0 {
		tr.fail(at, "constant %s out of the range of %v", c.String(), t)
	}
	var term string
	if t.isSigned() {
		if c.Sign() < 0 {
			term = "(" + c.String() + ")%Z"
		} else {
			term = c.String() + "%Z"
		}
	} else {
		term = c.String() + "%N"
	}
	return Val{term: term, typ: t, cst: c}
}

func bytesLit(s string) string {
	if len(s) == 0 {
		return "[]"
	}
	parts := make([]string, len(s))
	for i := 0; i < len(s); i++ {
		parts[i] = strconv.Itoa(int(s[i]))
	}
	return "[" + strings.Join(parts, ";") + "]%N"
}

// coerce converts a value to the type a context requires (assignability).
func (tr *Tr) coerce(v Val, to *T, at ast.Node) Val {
	if v.poison != "" {
		tr.use(v, at)
	}
	from := v.typ
	if sameType(from, to) {
		return v
	}
	switch {
	case from.K == KUntypedInt && to.isInteger():
		return tr.intLit(v.cst, to, at)
	case from.K == KUntypedNil && to.K == KError:
		return Val{term: "None", typ: to}
	case from.K == KUntypedNil && to.K == KSlice:
		return Val{term: "[]", typ: to}
	case from.K == KUntypedNil && to.K == KIface:
		return Val{term: "?", typ: to, poison: "nil Term"}
	case to.K == KIface && from.K == KAtom:
		return Val{term: "DA " + paren(v.term), typ: to}
	case to.K == KIface && from.Name != "":
		if im := implIn(to, from.Name); im != nil {
			return Val{term: fillPat(im.termPat, paren(v.term)), typ: to}
		}
	case to.K == KAtom && from.Name != "":
		if im := implFor(from.Name); im != nil && im.atomPat != "" {
			return Val{term: fmt.Sprintf(im.atomPat, paren(v.term)), typ: to}
		}
	case from.K == to.K && (from.Name == "" || to.Name == "") && from.K != KIface && from.K != KAtom:
		// identical underlying types, one of them unnamed
		if from.K == KSlice || from.K == KArray || from.K == KPtr {
			if !sameType(from.Elem, to.Elem) {
				break
			}
			if from.K != KPtr && isAtomList(from) != isAtomList(to) {
				break // a Set holds atoms, another []Term holds terms
			}
		}
		if from.K == KWrap || from.K == KMap {
			break
		}
		nv := v
		nv.typ = to
		return nv
	}
	tr.fail(at, "use of a value of type %v as %v", from, to)
	return Val{}
}

func (tr *Tr) expr(e ast.Expr, env *Env, k econt) string {
	switch e := e.(type) {
	case *ast.ParenExpr:
		return tr.expr(e.X, env, k)
	case *ast.BasicLit:
		switch e.Kind {
		case token.INT:
			c, ok := new(big.Int).SetString(strings.ReplaceAll(e.Value, "_", ""), 0)
			if !ok {
				tr.fail(e, "integer literal %s", e.Value)
			}
			return k(env, Val{term: "?", typ: tUntypedInt, cst: c})
		case token.STRING:
			s, err := strconv.Unquote(e.Value)
			if err != nil {
				tr.fail(e, "string literal %s", e.Value)
			}
			return k(env, Val{term: bytesLit(s), typ: tString})
		case token.CHAR:
			s, _, _, err := strconv.UnquoteChar(e.Value[1:len(e.Value)-1], '\'')
			if err != nil {
				tr.fail(e, "rune literal %s", e.Value)
			}
			return k(env, Val{term: "?", typ: tUntypedInt, cst: big.NewInt(int64(s))})
		}
		tr.fail(e, "literal %s", e.Value)
	case *ast.Ident:
		return k(env, tr.ident(e, env))
	case *ast.SelectorExpr:
		if x, ok := e.X.(*ast.Ident); ok && x.Name == "math" && env.scope["math"] == nil {
			if c, ok := tr.p.constEval(e, -1); ok {
				return k(env, Val{term: "?", typ: tUntypedInt, cst: c})
			}
		}
		if tr.pkgName(e.X, env) == "" {
			// x.f on a struct with a single field f: the representation of x
			return tr.expr(e.X, env, func(e1 *Env, x Val) string {
				x = tr.use(x, e.X)
				t := x.typ
				if t.K == KPtr && (t.Elem.K == KWrap || t.Elem.K == KRec) {
					t = t.Elem
				}
				// a field promoted from the embedded field of a single-field struct
				for t.K == KWrap && t.Embedded && t.Field != e.Sel.Name {
					t = t.Elem
				}
				if t.K == KRec {
					// a struct represented by a record of the model: the projection
					for _, f := range t.Fields {
						if f.name == e.Sel.Name {
							return k(e1, Val{term: f.proj + " " + paren(x.term), typ: f.typ})
						}
					}
					tr.fail(e, "selector %s on a value of type %v", e.Sel.Name, x.typ)
				}
				if t.K != KWrap || t.Field != e.Sel.Name {
					tr.fail(e, "selector %s on a value of type %v", e.Sel.Name, x.typ)
				}
				return k(e1, Val{term: x.term, typ: t.Elem})
			})
		}
		tr.fail(e, "selector %s", exprStr(e))
	case *ast.StarExpr:
		return tr.expr(e.X, env, func(e2 *Env, v Val) string {
			if v.typ.K != KPtr {
				tr.fail(e, "dereference of a value of type %v", v.typ)
			}
			nv := tr.use(v, e)
			nv.typ = v.typ.Elem
			return k(e2, nv)
		})
	case *ast.UnaryExpr:
		return tr.unary(e, env, k)
	case *ast.BinaryExpr:
		return tr.binary(e, env, k)
	case *ast.CallExpr:
		return tr.callExpr(e, env, k)
	case *ast.IndexExpr:
		return tr.expr(e.X, env, func(e1 *Env, l Val) string {
			return tr.expr(e.Index, e1, func(e2 *Env, i Val) string {
				l, i = tr.use(l, e.X), tr.use(i, e.Index)
				if l.typ.K == KMap {
					// p := m[k]: nil when k is absent (or present with a nil value: the
					// representation holds exactly the keys with a non-nil value).  The
					// continuation is translated twice: with a pointer known to be non-nil
					// (its pointee is the value found) and with a pointer known to be nil
					// (comparable with nil, not dereferenceable).
					kv := tr.coerce(i, l.typ.Key, e.Index)
					tr.needDEval = true
					binder := tr.fresh("p")
					some := k(e2, Val{term: binder, typ: l.typ.Elem, nilState: 2})
					none := k(e2, Val{term: "?", typ: l.typ.Elem, nilState: 1, poison: "nil pointer read out of a map (absent key)"})
					return fmt.Sprintf("match dlookup %s %s with\n| Some %s =>\n%s\n| None =>\n%s\nend", paren(l.term), paren(kv.term),
						binder, ind(ind(some)), ind(ind(none)))
				}
				if l.typ.K == KStrSet {
					tr.fail(e, "single-value read of a map[string]struct{} (only _, ok := m[k])")
				}
				if l.typ.K == KPtr && l.typ.Elem.K == KArray {
					l.typ = l.typ.Elem
				}
				if !l.typ.isList() && l.typ.K != KString {
					tr.fail(e, "index of a value of type %v", l.typ)
				}
				if i.typ.K == KUntypedInt {
					i = tr.coerce(i, tInt, e.Index)
				}
				if !i.typ.isInteger() {
					tr.fail(e.Index, "index of type %v", i.typ)
				}
				it := i.term
				if i.typ.isUnsigned() {
					it = "Z.of_N " + paren(i.term)
				}
				et := tUint8
				if l.typ.K != KString {
					et = elemType(l.typ)
				}
				name := tr.fresh("elt")
				return fmt.Sprintf("match idx %s %s with\n| Some %s =>\n%s\n| None => %s\nend",
					paren(l.term), paren(it), name, ind(ind(k(e2, Val{term: name, typ: et}))), tr.panicOut(e2, "site_index"))
			})
		})
	case *ast.SliceExpr:
		if e.Slice3 {
			tr.fail(e, "3-index slice")
		}
		return tr.expr(e.X, env, func(e1 *Env, l Val) string {
			l = tr.use(l, e.X)
			if !l.typ.isList() && l.typ.K != KString {
				tr.fail(e, "slice of a value of type %v", l.typ)
			}
			bound := func(b ast.Expr, def string, e *Env, kk func(*Env, string) string) string {
				if b == nil {
					return kk(e, def)
				}
				return tr.expr(b, e, func(e2 *Env, v Val) string {
					v = tr.use(v, b)
					if v.typ.K == KUntypedInt {
						v = tr.coerce(v, tInt, b)
					}
					if !v.typ.isInteger() {
						tr.fail(b, "slice bound of type %v", v.typ)
					}
					if v.typ.isUnsigned() {
						return kk(e2, "(Z.of_N "+paren(v.term)+")")
					}
					return kk(e2, paren(v.term))
				})
			}
			return bound(e.Low, "0%Z", e1, func(e2 *Env, lo string) string {
				return bound(e.High, "(len_int "+paren(l.term)+")", e2, func(e3 *Env, hi string) string {
					name := tr.fresh("sl")
					rt := l.typ
					if rt.K == KArray {
						rt = &T{K: KSlice, Elem: rt.Elem}
					}
					return fmt.Sprintf("match slice %s %s %s with\n| Some %s =>\n%s\n| None => %s\nend",
						paren(l.term), lo, hi, name, ind(ind(k(e3, Val{term: name, typ: rt}))), tr.panicOut(e3, "site_slice"))
				})
			})
		})
	case *ast.TypeAssertExpr:
		if e.Type == nil {
			tr.fail(e, ".(type) outside a type switch")
		}
		return tr.expr(e.X, env, func(e1 *Env, x Val) string {
			x = tr.use(x, e.X)
			if x.typ.K != KIface && x.typ.K != KAtom {
				tr.fail(e, "type assertion on a value of type %v", x.typ)
			}
			tid, ok := e.Type.(*ast.Ident)
			if !ok {
				tr.fail(e, "type assertion to %T", e.Type)
			}
			binder := tr.fresh("a")
			pat, known := tr.patFor(x.typ, tid.Name, binder)
			if !known {
				tr.fail(e, "type assertion to %s, which is not a represented Term type", tid.Name)
			}
			if pat == "" {
				return tr.panicOut(e1, "site_assert")
			}
			pt := tr.payloadType(tid.Name, e)
			payload := Val{term: binder, typ: pt}
			if !strings.Contains(pat, binder) {
				payload.term = "tt" // a struct{} implementor carries nothing
			}
			return tr.letScrut(x, func(sc string) string {
				return fmt.Sprintf("match %s with\n| %s =>\n%s\n| _ => %s\nend", sc, pat,
					ind(ind(k(e1, payload))), tr.panicOut(e1, "site_assert"))
			})
		})
	case *ast.CompositeLit:
		if e.Type == nil {
			tr.fail(e, "composite literal without a type")
		}
		t := tr.resolveType(e.Type)
		if t.K == KRec || t.K == KWrap {
			return tr.structLit(e, t, env, k)
		}
		if !t.isList() {
			tr.fail(e, "composite literal of type %v", t)
		}
		var doElt func(i int, env *Env, acc []string) string
		doElt = func(i int, env *Env, acc []string) string {
			if i == len(e.Elts) {
				term := "[]"
				if len(acc) > 0 {
					term = "[" + strings.Join(acc, "; ") + "]"
				}
				rt := t
				if t.K == KArray && t.Len < 0 {
					c := *t
					c.Len = int64(len(acc))
					rt = &c
				}
				return k(env, Val{term: term, typ: rt})
			}
			if _, kv := e.Elts[i].(*ast.KeyValueExpr); kv {
				tr.fail(e.Elts[i], "keyed element in a composite literal")
			}
			return tr.expr(e.Elts[i], env, func(e2 *Env, v Val) string {
				v = tr.coerce(tr.use(v, e.Elts[i]), elemType(t), e.Elts[i])
				return doElt(i+1, e2, append(append([]string{}, acc...), v.term))
			})
		}
		return doElt(0, env, nil)
	}
	tr.fail(e, "expression %T", e)
	return ""
}

// structLit: T{...} for a struct represented by a record of the model (every field given,
// all keyed or all positional; the elements are evaluated in source order) or by its
// single field.
func (tr *Tr) structLit(e *ast.CompositeLit, t *T, env *Env, k econt) string {
	var names []string
	var types []*T
	if t.K == KRec {
		for _, f := range t.Fields {
			names = append(names, f.name)
			types = append(types, f.typ)
		}
	} else {
		names, types = []string{t.Field}, []*T{t.Elem}
	}
	if len(e.Elts) != len(names) {
		tr.fail(e, "composite literal of type %v with %d of its %d fields (a zero-valued field is not represented)", t, len(e.Elts), len(names))
	}
	pos := make([]int, len(e.Elts)) // the field each element initialises
	var exprs []ast.Expr
	keyed := 0
	seen := map[int]bool{}
	for i, el := range e.Elts {
		if kv, ok := el.(*ast.KeyValueExpr); ok {
			keyed++
			id, ok := kv.Key.(*ast.Ident)
			idx := -1
			if ok {
				for j, n := range names {
					if n == id.Name {
						idx = j
					}
				}
			}
			if idx < 0 || seen[idx] {
				tr.fail(kv, "key of a composite literal of type %v", t)
			}
			seen[idx] = true
			pos[i] = idx
			exprs = append(exprs, kv.Value)
		} else {
			pos[i] = i
			exprs = append(exprs, el)
		}
	}
	if keyed != 0 && keyed != len(e.Elts) {
		tr.fail(e, "composite literal mixing keyed and positional elements")
	}
	return tr.evalList(exprs, env, func(e2 *Env, vs []Val) string {
		terms := make([]string, len(names))
		for i, v := range vs {
			cv := tr.coerce(tr.use(v, exprs[i]), types[pos[i]], exprs[i])
			terms[pos[i]] = paren(cv.term)
		}
		if t.K == KWrap {
			return k(e2, Val{term: vs[0].term, typ: t})
		}
		return k(e2, Val{term: t.Ctor + " " + strings.Join(terms, " "), typ: t})
	})
}

func exprStr(e ast.Expr) string {
	switch x := e.(type) {
	case *ast.Ident:
		return x.Name
	case *ast.SelectorExpr:
		return exprStr(x.X) + "." + x.Sel.Name
	case *ast.StarExpr:
		return "*" + exprStr(x.X)
	case *ast.CallExpr:
		return exprStr(x.Fun) + "(...)"
	case *ast.ParenExpr:
		return "(" + exprStr(x.X) + ")"
	}
	return fmt.Sprintf("%T", e)
}

// make(map[string]struct{}) / make(map[string]struct{}, len(x)): the empty set of strings.
// The size hint only reserves space; it is accepted when it is a len(...) (never negative,
// total) and is not represented.  Any other map type, or any other hint, is refused.
func (tr *Tr) makeMap(call *ast.CallExpr, env *Env, k econt) string {
	t := tr.resolveType(call.Args[0])
	if t.K != KStrSet {
		tr.fail(call, "make of type %v (only make(map[string]struct{}[, len(x)]))", t)
	}
	tr.needGoMap = true
	switch len(call.Args) {
	case 1:
		return k(env, Val{term: "strset_empty", typ: t})
	case 2:
		hint, ok := unparen(call.Args[1]).(*ast.CallExpr)
		if !ok {
			tr.fail(call.Args[1], "size hint of make(map) that is not len(...)")
		}
		if id, ok := hint.Fun.(*ast.Ident); !ok || id.Name != "len" || env.scope["len"] != nil {
			tr.fail(call.Args[1], "size hint of make(map) that is not len(...)")
		}
		return tr.expr(call.Args[1], env, func(e *Env, n Val) string {
			tr.use(n, call.Args[1])
			return k(e, Val{term: "strset_empty", typ: t})
		})
	}
	tr.fail(call, "make(map) with %d arguments", len(call.Args))
	return ""
}

// named error variables of the package and their classes
var errorClasses = map[string]string{
	"ErrInt64Overflow": "EOverflow",
	"ErrExprDivByZero": "EDivZero",
}

// errors constructed by fmt.Errorf that the model distinguishes from EIllTyped, by
// their exact format string (a changed message falls back to EIllTyped, and the
// equality with the model is no longer provable: the table is then to be revisited)
var errorfClasses = map[string]string{
	"datalog: expressions: unknown variable %d": "EUnknownVar", // Model/DEval.v step_D, Model/Expr.v
}

func (tr *Tr) ident(e *ast.Ident, env *Env) Val {
	if b, ok := env.scope[e.Name]; ok {
		v := env.val[b]
		if v.poison != "" {
			return v
		}
		if v.typ == nil {
			v.typ = b.typ
		}
		return v
	}
	switch e.Name {
	case "nil":
		return Val{term: "?", typ: tUntypedNil}
	case "true":
		return Val{term: "true", typ: tBool}
	case "false":
		return Val{term: "false", typ: tBool}
	case "_":
		tr.fail(e, "use of _")
	}
	if c, ok := tr.p.consts[e.Name]; ok {
		if c.typ.K == KUntypedInt {
			return Val{term: "?", typ: tUntypedInt, cst: c.val}
		}
		v := tr.intLit(c.val, c.typ, e)
		v.term += " (* " + e.Name + " *)"
		v.term = "(" + v.term + ")"
		return v
	}
	if vs, ok := tr.p.vars[e.Name]; ok {
		return tr.pkgVar(e, vs)
	}
	tr.fail(e, "identifier %s (not a local, constant or variable of the package)", e.Name)
	return Val{}
}

// pkgVar: a package-level variable with an initialiser that nothing in the
// package assigns is a constant; it becomes a Definition.
func (tr *Tr) pkgVar(e *ast.Ident, vs *ast.ValueSpec) Val {
	name := e.Name
	idx := tr.p.varIdx[name]
	if len(vs.Values) != len(vs.Names) {
		tr.fail(e, "package variable %s without its own initialiser", name)
	}
	if hit, where := tr.p.assignedAnywhere(name); hit {
		tr.fail(e, "package variable %s, which is assigned at %s", name, tr.p.pos(where))
	}
	init := vs.Values[idx]
	// error values
	if call, ok := init.(*ast.CallExpr); ok {
		fn := exprStr(call.Fun)
		if fn == "errors.New" || fn == "fmt.Errorf" {
			cls, ok := errorClasses[name]
			if !ok {
				cls = "EIllTyped"
			}
			return Val{term: "Some " + cls, typ: tError}
		}
	}
	coqName := "go_" + name
	if tr.emitted[coqName] {
		return Val{term: coqName, typ: tr.infos["var:"+name].results[0]}
	}
	savedFn, savedCounter := tr.fn, tr.counter
	tr.fn = &FuncInfo{key: "var " + name}
	defer func() { tr.fn, tr.counter = savedFn, savedCounter }()
	empty := &Env{scope: map[string]*Binding{}, val: map[*Binding]Val{}}
	v, pure := tr.tryPure(init, empty)
	if !pure {
		tr.fail(init, "initialiser of package variable %s is not a total expression", name)
	}
	if vs.Type != nil {
		v = tr.coerce(v, tr.resolveType(vs.Type), init)
	} else if v.typ.K == KUntypedInt {
		v = tr.coerce(v, tInt, init)
	}
	tr.out = append(tr.out, fmt.Sprintf("(* %s: var %s *)\nDefinition %s : %s :=\n%s.\n",
		tr.p.pos(vs), name, coqName, coqType(v.typ), ind(v.term)))
	tr.emitted[coqName] = true
	tr.infos["var:"+name] = &FuncInfo{results: []*T{v.typ}}
	return Val{term: coqName, typ: v.typ}
}

func (tr *Tr) unary(e *ast.UnaryExpr, env *Env, k econt) string {
	if e.Op == token.AND {
		// &T{...}: a pointer to a fresh allocation; the value is the pointee, the
		// variable it initialises becomes the only name of that pointee (bindAll)
		lit, ok := unparen(e.X).(*ast.CompositeLit)
		if !ok {
			tr.fail(e, "address of %T (only &T{...} initialising a local, and return &local)", e.X)
		}
		return tr.expr(lit, env, func(e1 *Env, v Val) string {
			v = tr.use(v, lit)
			return k(e1, Val{term: v.term, typ: &T{K: KPtr, Elem: v.typ}, fresh: true})
		})
	}
	return tr.expr(e.X, env, func(e1 *Env, v Val) string {
		v = tr.use(v, e.X)
		switch e.Op {
		case token.NOT:
			if v.typ.K != KBool {
				tr.fail(e, "! on a value of type %v", v.typ)
			}
			return k(e1, Val{term: negb(v.term), typ: v.typ})
		case token.SUB:
			if v.cst != nil {
				c := new(big.Int).Neg(v.cst)
				if v.typ.K == KUntypedInt {
					return k(e1, Val{term: "?", typ: tUntypedInt, cst: c})
				}
				return k(e1, tr.intLit(c, v.typ, e))
			}
			if v.typ.isSigned() && v.typ.opPrefix() != "" {
				return k(e1, Val{term: v.typ.opPrefix() + "_neg " + paren(v.term), typ: v.typ})
			}
			tr.fail(e, "unary - on a value of type %v", v.typ)
		case token.ADD:
			if v.typ.isInteger() || v.typ.K == KUntypedInt {
				return k(e1, v)
			}
		}
		tr.fail(e, "unary operator %s", e.Op)
		return ""
	})
}

func negb(t string) string {
	switch t {
	case "true":
		return "false"
	case "false":
		return "true"
	}
	if strings.HasPrefix(t, "negb ") && isAtomic(t[5:]) {
		return t[5:]
	}
	return "negb " + paren(t)
}

func (tr *Tr) binary(e *ast.BinaryExpr, env *Env, k econt) string {
	switch e.Op {
	case token.LAND, token.LOR:
		return tr.expr(e.X, env, func(e1 *Env, a Val) string {
			a = tr.use(a, e.X)
			if a.typ.K != KBool {
				tr.fail(e.X, "operand of %s of type %v", e.Op, a.typ)
			}
			and := e.Op == token.LAND
			// short circuit decided statically
			if a.term == "true" && !and || a.term == "false" && and {
				return k(e1, a)
			}
			if a.term == "true" && and || a.term == "false" && !and {
				return tr.expr(e.Y, e1, func(e2 *Env, b Val) string {
					b = tr.use(b, e.Y)
					if b.typ.K != KBool {
						tr.fail(e.Y, "operand of %s of type %v", e.Op, b.typ)
					}
					return k(e2, Val{term: b.term, typ: a.typ})
				})
			}
			if b, pure := tr.tryPure(e.Y, e1); pure {
				b = tr.use(b, e.Y)
				if b.typ.K != KBool {
					tr.fail(e.Y, "operand of %s of type %v", e.Op, b.typ)
				}
				op := "orb"
				if and {
					op = "andb"
				}
				return k(e1, Val{term: op + " " + paren(a.term) + " " + paren(b.term), typ: a.typ})
			}
			// the right operand can panic or calls a function: explicit short circuit
			right := tr.expr(e.Y, e1, func(e2 *Env, b Val) string {
				b = tr.use(b, e.Y)
				return k(e2, Val{term: b.term, typ: a.typ})
			})
			if and {
				return "if " + a.term + " then\n" + ind(right) + "\nelse\n" + ind(k(e1, Val{term: "false", typ: a.typ}))
			}
			return "if " + a.term + " then\n" + ind(k(e1, Val{term: "true", typ: a.typ})) + "\nelse\n" + ind(right)
		})
	}
	return tr.expr(e.X, env, func(e1 *Env, a Val) string {
		return tr.expr(e.Y, e1, func(e2 *Env, b Val) string {
			switch e.Op {
			case token.EQL, token.NEQ, token.LSS, token.LEQ, token.GTR, token.GEQ:
				return tr.compare(e, e.Op, a, b, e2, k)
			}
			return tr.arith(e, e.Op, tr.use(a, e.X), tr.use(b, e.Y), e2, k)
		})
	})
}

// unify gives two operands a common type (untyped constants take the other's type).
func (tr *Tr) unify(at ast.Node, a, b Val) (Val, Val) {
	if a.typ.K == KUntypedInt && b.typ.K != KUntypedInt {
		a = tr.coerce(a, b.typ, at)
	} else if b.typ.K == KUntypedInt && a.typ.K != KUntypedInt {
		b = tr.coerce(b, a.typ, at)
	}
	if a.typ.K == KUntypedNil && b.typ.K != KUntypedNil {
		a = tr.coerce(a, b.typ, at)
	} else if b.typ.K == KUntypedNil && a.typ.K != KUntypedNil {
		b = tr.coerce(b, a.typ, at)
	}
	return a, b
}

func (tr *Tr) compare(at ast.Node, op token.Token, a, b Val, env *Env, k econt) string {
	// comparison with nil
	if a.typ.K == KError && b.typ.K == KUntypedNil || b.typ.K == KError && a.typ.K == KUntypedNil {
		ev := a
		if a.typ.K == KUntypedNil {
			ev = b
		}
		ev = tr.use(ev, at)
		var t string
		switch {
		case ev.term == "None":
			t = "false"
		case strings.HasPrefix(ev.term, "Some "):
			t = "true"
		default:
			t = "is_some " + paren(ev.term)
		}
		switch op {
		case token.NEQ:
			return k(env, Val{term: t, typ: tBool})
		case token.EQL:
			return k(env, Val{term: negb(t), typ: tBool})
		}
		tr.fail(at, "ordering of errors")
	}
	if (a.typ.K == KPtr && b.typ.K == KUntypedNil || b.typ.K == KPtr && a.typ.K == KUntypedNil) && (op == token.EQL || op == token.NEQ) {
		pv := a
		if a.typ.K == KUntypedNil {
			pv = b
		}
		switch pv.nilState {
		case 1:
			return k(env, Val{term: strconv.FormatBool(op == token.EQL), typ: tBool})
		case 2:
			return k(env, Val{term: strconv.FormatBool(op == token.NEQ), typ: tBool})
		}
		tr.fail(at, "comparison with nil of a pointer that was not just read out of a map")
	}
	a, b = tr.use(a, at), tr.use(b, at)
	a, b = tr.unify(at, a, b)
	if a.typ.K == KUntypedInt {
		c := a.cst.Cmp(b.cst)
		r := map[token.Token]bool{token.EQL: c == 0, token.NEQ: c != 0, token.LSS: c < 0, token.LEQ: c <= 0, token.GTR: c > 0, token.GEQ: c >= 0}[op]
		return k(env, Val{term: strconv.FormatBool(r), typ: tBool})
	}
	if !sameType(a.typ, b.typ) {
		tr.fail(at, "comparison of %v with %v", a.typ, b.typ)
	}
	t := a.typ
	x, y := paren(a.term), paren(b.term)
	var term string
	ord := func(ns string) {
		switch op {
		case token.EQL:
			term = ns + ".eqb " + x + " " + y
		case token.NEQ:
			term = "negb (" + ns + ".eqb " + x + " " + y + ")"
		case token.LSS:
			term = ns + ".ltb " + x + " " + y
		case token.LEQ:
			term = ns + ".leb " + x + " " + y
		case token.GTR:
			term = ns + ".ltb " + y + " " + x
		case token.GEQ:
			term = ns + ".leb " + y + " " + x
		}
	}
	eq := func(f string) {
		switch op {
		case token.EQL:
			term = f + " " + x + " " + y
		case token.NEQ:
			term = "negb (" + f + " " + x + " " + y + ")"
		default:
			tr.fail(at, "ordering of values of type %v", t)
		}
	}
	switch {
	case t.isSigned():
		ord("Z")
	case t.isUnsigned():
		ord("N")
	case t.K == KBool:
		eq("Bool.eqb")
	case t.K == KString:
		eq("bytes_eqb")
	default:
		tr.fail(at, "comparison of values of type %v", t)
	}
	return k(env, Val{term: term, typ: tBool})
}

func (tr *Tr) arith(at ast.Node, op token.Token, a, b Val, env *Env, k econt) string {
	// shifts: constant count only
	if op == token.SHL {
		if b.cst == nil || b.cst.Sign() < 0 || b.cst.Cmp(big.NewInt(64)) > 0 {
			tr.fail(at, "shift by a count that is not a small constant")
		}
		if a.typ.K == KUntypedInt {
			c, _ := constBinop(op, a.cst, b.cst)
			return k(env, Val{term: "?", typ: tUntypedInt, cst: c})
		}
		pfx := a.typ.opPrefix()
		if pfx != "i64" && pfx != "u64" {
			tr.fail(at, "shift of a value of type %v", a.typ)
		}
		return k(env, Val{term: fmt.Sprintf("%s_shl %s %s%%Z", pfx, paren(a.term), b.cst.String()), typ: a.typ})
	}
	a, b = tr.unify(at, a, b)
	if a.typ.K == KUntypedInt && b.typ.K == KUntypedInt {
		c, ok := constBinop(op, a.cst, b.cst)
		if !ok {
			tr.fail(at, "constant operation %s", op)
		}
		return k(env, Val{term: "?", typ: tUntypedInt, cst: c})
	}
	if !sameType(a.typ, b.typ) {
		tr.fail(at, "operator %s on %v and %v", op, a.typ, b.typ)
	}
	t := a.typ
	if t.K == KString && op == token.ADD {
		return k(env, Val{term: paren(a.term) + " ++ " + paren(b.term), typ: t})
	}
	if !t.isInteger() || t.opPrefix() == "" {
		tr.fail(at, "operator %s on values of type %v", op, t)
	}
	if a.cst != nil && b.cst != nil {
		// typed constant expression: Go rejects an overflow at compile time
		if c, ok := constBinop(op, a.cst, b.cst); ok {
			return k(env, tr.intLit(c, t, at))
		}
	}
	pfx := t.opPrefix()
	x, y := paren(a.term), paren(b.term)
	switch op {
	case token.ADD:
		return k(env, Val{term: pfx + "_add " + x + " " + y, typ: t})
	case token.SUB:
		return k(env, Val{term: pfx + "_sub " + x + " " + y, typ: t})
	case token.MUL:
		return k(env, Val{term: pfx + "_mul " + x + " " + y, typ: t})
	case token.QUO, token.REM:
		if pfx != "i64" && pfx != "u64" {
			tr.fail(at, "division on values of type %v", t)
		}
		f := pfx + "_quo"
		if op == token.REM {
			f = pfx + "_rem"
		}
		q := tr.fresh("q")
		return fmt.Sprintf("match %s %s %s with\n| Some %s =>\n%s\n| None => %s\nend", f, x, y, q,
			ind(ind(k(env, Val{term: q, typ: t}))), tr.panicOut(env, "site_div"))
	}
	tr.fail(at, "operator %s", op)
	return ""
}

// ---------- calls ----------

// args evaluates expressions left to right.
func (tr *Tr) evalList(es []ast.Expr, env *Env, k func(*Env, []Val) string) string {
	var rec func(i int, e *Env, acc []Val) string
	rec = func(i int, e *Env, acc []Val) string {
		if i == len(es) {
			return k(e, acc)
		}
		return tr.expr(es[i], e, func(e2 *Env, v Val) string {
			return rec(i+1, e2, append(append([]Val{}, acc...), v))
		})
	}
	return rec(0, env, nil)
}

func (tr *Tr) pkgName(e ast.Expr, env *Env) string {
	if id, ok := e.(*ast.Ident); ok {
		if _, local := env.scope[id.Name]; local {
			return ""
		}
		switch id.Name {
		case "fmt", "strings", "errors", "big", "regexp", "math", "bytes":
			return id.Name
		}
	}
	return ""
}

// callExpr: a call in a single-value context.
func (tr *Tr) callExpr(call *ast.CallExpr, env *Env, k econt) string {
	if call.Ellipsis != token.NoPos {
		tr.fail(call, "call with ...")
	}
	// conversions and builtins
	if id, ok := call.Fun.(*ast.Ident); ok {
		if _, local := env.scope[id.Name]; !local {
			if s, done := tr.builtinOrConv(id, call, env, k); done {
				return s
			}
		}
	}
	if _, ok := call.Fun.(*ast.ArrayType); ok {
		return tr.conversion(call, tr.resolveType(call.Fun), env, k)
	}
	if p, ok := call.Fun.(*ast.ParenExpr); ok {
		if t, err := tr.p.resolveTypeErr(p.X); err == nil {
			return tr.conversion(call, t, env, k)
		}
	}
	if sel, ok := call.Fun.(*ast.SelectorExpr); ok {
		if pk := tr.pkgName(sel.X, env); pk != "" {
			if pk == "regexp" && sel.Sel.Name == "Compile" {
				tr.fail(call, "regexp.Compile in a single-value context")
			}
			return tr.libCall(pk, sel.Sel.Name, call, env, k)
		}
	}
	return tr.callMulti(call, env, func(e *Env, vals []Val) string {
		if len(vals) != 1 {
			tr.fail(call, "call with %d results in a single-value context", len(vals))
		}
		return k(e, vals[0])
	})
}

func (tr *Tr) builtinOrConv(id *ast.Ident, call *ast.CallExpr, env *Env, k econt) (string, bool) {
	switch id.Name {
	case "len":
		if len(call.Args) != 1 {
			tr.fail(call, "len with %d arguments", len(call.Args))
		}
		return tr.expr(call.Args[0], env, func(e *Env, v Val) string {
			v = tr.use(v, call.Args[0])
			if v.typ.K == KPtr && v.typ.Elem.K == KArray {
				v.typ = v.typ.Elem
			}
			if !v.typ.isList() && v.typ.K != KString {
				tr.fail(call, "len of a value of type %v", v.typ)
			}
			return k(e, Val{term: "len_int " + paren(v.term), typ: tInt})
		}), true
	case "append":
		if len(call.Args) < 1 {
			tr.fail(call, "append without arguments")
		}
		return tr.evalList(call.Args, env, func(e *Env, vs []Val) string {
			s := tr.use(vs[0], call.Args[0])
			if s.typ.K != KSlice {
				tr.fail(call, "append to a value of type %v", s.typ)
			}
			if len(vs) == 1 {
				return k(e, s)
			}
			var elts []string
			for i, v := range vs[1:] {
				et := elemType(s.typ)
				if et.K == KAtom && v.typ.K == KIface {
					tr.fail(call.Args[i+1], "append of a Term that is not known to be an atom to a Set (DTerm.v: a Set holds atoms)")
				}
				elts = append(elts, tr.coerce(tr.use(v, call.Args[i+1]), et, call.Args[i+1]).term)
			}
			return k(e, Val{term: paren(s.term) + " ++ [" + strings.Join(elts, "; ") + "]", typ: s.typ})
		}), true
	case "make":
		if len(call.Args) >= 1 {
			if _, isMap := unparen(call.Args[0]).(*ast.MapType); isMap {
				return tr.makeMap(call, env, k), true
			}
		}
		if len(call.Args) != 2 {
			tr.fail(call, "make with %d arguments (only make(T, len))", len(call.Args))
		}
		t := tr.resolveType(call.Args[0])
		if t.K != KSlice {
			tr.fail(call, "make of type %v", t)
		}
		return tr.expr(call.Args[1], env, func(e *Env, n Val) string {
			n = tr.use(n, call.Args[1])
			if n.typ.K == KUntypedInt {
				n = tr.coerce(n, tInt, call.Args[1])
			}
			if !n.typ.isSigned() {
				tr.fail(call, "make with a length of type %v", n.typ)
			}
			z := tr.zero(elemType(t), call)
			if z.poison != "" {
				tr.fail(call, "make of a slice whose zero element is not represented (%s)", z.poison)
			}
			name := tr.fresh("made")
			return fmt.Sprintf("match make_list %s %s with\n| Some %s =>\n%s\n| None => %s\nend", paren(z.term), paren(n.term), name,
				ind(ind(k(e, Val{term: name, typ: t}))), tr.panicOut(e, "site_make"))
		}), true
	case "new":
		if len(call.Args) == 1 && exprStr(call.Args[0]) == "big.Int" && env.scope["big"] == nil {
			return k(env, Val{term: "0%Z", typ: tBigInt, cst: nil}), true
		}
		tr.fail(call, "new(%s) (only new(big.Int))", exprStr(call.Args[0]))
	case "panic", "copy", "cap", "delete", "print", "println", "min", "max", "recover", "close", "complex", "real", "imag", "clear":
		tr.fail(call, "builtin %s in an expression", id.Name)
	}
	if _, isFunc := tr.p.funcs[id.Name]; isFunc {
		return "", false
	}
	if t, err := tr.p.resolveTypeErr(id); err == nil {
		return tr.conversion(call, t, env, k), true
	}
	return "", false
}

func (tr *Tr) conversion(call *ast.CallExpr, to *T, env *Env, k econt) string {
	if len(call.Args) != 1 {
		tr.fail(call, "conversion with %d arguments", len(call.Args))
	}
	return tr.expr(call.Args[0], env, func(e *Env, v Val) string {
		v = tr.use(v, call.Args[0])
		from := v.typ
		switch {
		case to.isInteger() && from.K == KUntypedInt:
			return k(e, tr.intLit(v.cst, to, call))
		case to.isInteger() && from.isInteger():
			if v.cst != nil {
				// constant conversion: must be representable (Go compile-time rule)
				return k(e, tr.intLit(v.cst, to, call))
			}
			flo, fhi := from.intRange()
			tlo, thi := to.intRange()
			if flo.Cmp(tlo) >= 0 && fhi.Cmp(thi) <= 0 {
				// every value of the source type is a value of the target type
				if from.isSigned() == to.isSigned() {
					return k(e, Val{term: v.term, typ: to})
				}
				if from.isUnsigned() && to.isSigned() {
					return k(e, Val{term: "Z.of_N " + paren(v.term), typ: to})
				}
			}
			z := v.term
			if from.isUnsigned() {
				z = "Z.of_N " + paren(v.term)
			}
			return k(e, Val{term: to.wrapFn() + " " + paren(z), typ: to})
		case to.K == KBool && from.K == KBool:
			return k(e, Val{term: v.term, typ: to})
		case to.K == KString && from.K == KString:
			return k(e, Val{term: v.term, typ: to})
		case to.K == KString && from.K == KSlice && from.Elem.K == KUint8,
			to.K == KSlice && to.Elem.K == KUint8 && from.K == KString:
			return k(e, Val{term: v.term, typ: to})
		case to.K == KSlice && from.K == KSlice && sameType(to.Elem, from.Elem):
			return k(e, Val{term: v.term, typ: to})
		case to.K == KIface && (from.K == KIface || from.K == KAtom || implFor(from.Name) != nil):
			return k(e, tr.coerce(v, to, call))
		}
		tr.fail(call, "conversion from %v to %v", from, to)
		return ""
	})
}

// libCall: fmt / strings / errors / math/big / bytes functions with one result.
func (tr *Tr) libCall(pk, name string, call *ast.CallExpr, env *Env, k econt) string {
	full := pk + "." + name
	strFn := map[string]string{"strings.HasPrefix": "has_prefix", "strings.HasSuffix": "has_suffix",
		"strings.Contains": "contains_sub", "bytes.Equal": "bytes_eqb", "bytes.HasPrefix": "has_prefix",
		"bytes.HasSuffix": "has_suffix", "bytes.Contains": "contains_sub"}
	if f, ok := strFn[full]; ok {
		if len(call.Args) != 2 {
			tr.fail(call, "%s with %d arguments", full, len(call.Args))
		}
		return tr.evalList(call.Args, env, func(e *Env, vs []Val) string {
			for i, v := range vs {
				v = tr.use(v, call.Args[i])
				if pk == "strings" && v.typ.K != KString || pk == "bytes" && !(v.typ.K == KSlice && v.typ.Elem.K == KUint8) {
					tr.fail(call.Args[i], "argument of %s of type %v", full, v.typ)
				}
			}
			return k(e, Val{term: f + " " + paren(vs[0].term) + " " + paren(vs[1].term), typ: tBool})
		})
	}
	switch full {
	case "strings.Join":
		// stage H: strings.Join(elems []string, sep string) = the model's Printer.join sep elems
		if len(call.Args) != 2 {
			tr.fail(call, "strings.Join with %d arguments", len(call.Args))
		}
		return tr.evalList(call.Args, env, func(e *Env, vs []Val) string {
			l, sep := tr.use(vs[0], call.Args[0]), tr.use(vs[1], call.Args[1])
			if !(l.typ.K == KSlice && l.typ.Elem.K == KString) || sep.typ.K != KString {
				tr.fail(call, "strings.Join(%v, %v)", l.typ, sep.typ)
			}
			tr.needPrinter = true
			return k(e, Val{term: "Printer.join " + paren(sep.term) + " " + paren(l.term), typ: tString})
		})
	case "big.NewInt":
		if len(call.Args) != 1 {
			tr.fail(call, "big.NewInt with %d arguments", len(call.Args))
		}
		return tr.expr(call.Args[0], env, func(e *Env, v Val) string {
			v = tr.coerce(tr.use(v, call.Args[0]), tInt64, call.Args[0])
			return k(e, Val{term: v.term, typ: tBigInt})
		})
	case "errors.New":
		return tr.evalList(call.Args, env, func(e *Env, vs []Val) string {
			return k(e, Val{term: "Some EIllTyped", typ: tError})
		})
	case "fmt.Errorf":
		if len(call.Args) < 1 {
			tr.fail(call, "fmt.Errorf without a format")
		}
		lit, ok := unparen(call.Args[0]).(*ast.BasicLit)
		if !ok || lit.Kind != token.STRING {
			tr.fail(call, "fmt.Errorf with a format that is not a string literal")
		}
		format, _ := strconv.Unquote(lit.Value)
		verbs := parseVerbs(format)
		if verbs == nil {
			tr.fail(call, "format string %s", lit.Value)
		}
		nargs := 0
		wrapIdx := -1
		for _, v := range verbs {
			if v.verb != 0 {
				if v.verb == 'w' {
					if wrapIdx >= 0 {
						tr.fail(call, "fmt.Errorf with several %%w")
					}
					wrapIdx = nargs
				}
				nargs++
			}
		}
		if nargs != len(call.Args)-1 {
			tr.fail(call, "fmt.Errorf: %d verbs for %d arguments", nargs, len(call.Args)-1)
		}
		// the arguments are evaluated (they may call methods); only a %w argument matters
		return tr.evalList(call.Args[1:], env, func(e *Env, vs []Val) string {
			if wrapIdx < 0 {
				// an error that reports another error (with %v, %s) keeps its class; any other constructed error is EIllTyped
				n := 0
				for i, v := range vs {
					if v.typ != nil && v.typ.K == KError {
						wrapIdx = i
						n++
					}
				}
				if n == 0 {
					if cls, ok := errorfClasses[format]; ok {
						return k(e, Val{term: "Some " + cls, typ: tError})
					}
					return k(e, Val{term: "Some EIllTyped", typ: tError})
				}
				if n > 1 {
					tr.fail(call, "fmt.Errorf with several error arguments")
				}
			}
			w := tr.use(vs[wrapIdx], call.Args[wrapIdx+1])
			if w.typ.K != KError {
				tr.fail(call.Args[wrapIdx+1], "%%w argument of type %v", w.typ)
			}
			if strings.HasPrefix(w.term, "Some ") {
				return k(e, Val{term: w.term, typ: tError})
			}
			if w.term == "None" {
				return k(e, Val{term: "Some EIllTyped", typ: tError})
			}
			return k(e, Val{term: "Some (wrap_err " + paren(w.term) + ")", typ: tError})
		})
	case "fmt.Sprintf":
		if len(call.Args) < 1 {
			tr.fail(call, "fmt.Sprintf without a format")
		}
		lit, ok := unparen(call.Args[0]).(*ast.BasicLit)
		if !ok || lit.Kind != token.STRING {
			tr.fail(call, "fmt.Sprintf with a format that is not a string literal")
		}
		format, _ := strconv.Unquote(lit.Value)
		verbs := parseVerbs(format)
		if verbs == nil {
			tr.fail(call, "format string %s", lit.Value)
		}
		return tr.evalList(call.Args[1:], env, func(e *Env, vs []Val) string {
			var parts []string
			ai := 0
			for _, v := range verbs {
				if v.verb == 0 {
					if v.lit != "" {
						parts = append(parts, bytesLit(v.lit))
					}
					continue
				}
				if ai >= len(vs) {
					tr.fail(call, "fmt.Sprintf: more verbs than arguments")
				}
				a := tr.use(vs[ai], call.Args[ai+1])
				switch v.verb {
				case 'd':
					if a.typ.K == KUntypedInt {
						a = tr.coerce(a, tInt, call)
					}
					switch {
					case a.typ.isSigned():
						parts = append(parts, "fmt_d_Z "+paren(a.term))
					case a.typ.isUnsigned():
						parts = append(parts, "fmt_d_N "+paren(a.term))
					default:
						tr.fail(call.Args[ai+1], "%%d of a value of type %v", a.typ)
					}
				case 'v':
					// stage H: %v of a value of the interface type Term: fmt calls String() on a Stringer
					// (after Formatter and error, which no implementor is: termStringers checks the source)
					if a.typ.K == KIface && a.typ.Name == "Term" {
						parts = append(parts, tr.termViaStringer(a, call.Args[ai+1]))
						ai++
						continue
					}
					// %v of an integer whose type declares none of the methods fmt looks for is %d
					if a.typ.Name == "" || !(a.typ.isSigned() || a.typ.isUnsigned()) {
						tr.fail(call.Args[ai+1], "%%v of a value of type %v (only a named integer type without String/Error/Format/GoString)", a.typ)
					}
					for _, m := range []string{"String", "Error", "Format", "GoString"} {
						if _, has := tr.p.funcs[a.typ.Name+"."+m]; has {
							tr.fail(call.Args[ai+1], "%%v of a value of type %v, which declares %s", a.typ, m)
						}
					}
					if a.typ.isSigned() {
						parts = append(parts, "fmt_d_Z "+paren(a.term))
					} else {
						parts = append(parts, "fmt_d_N "+paren(a.term))
					}
				case 's':
					if a.typ.K == KIface && a.typ.Name == "Term" { // stage H: as %v
						parts = append(parts, tr.termViaStringer(a, call.Args[ai+1]))
						ai++
						continue
					}
					if a.typ.K != KString || a.typ.Name != "" {
						tr.fail(call.Args[ai+1], "%%s of a value of type %v", a.typ)
					}
					parts = append(parts, paren(a.term))
				default:
					tr.fail(call, "fmt.Sprintf verb %%%c", v.verb)
				}
				ai++
			}
			if ai != len(vs) {
				tr.fail(call, "fmt.Sprintf: %d verbs for %d arguments", ai, len(vs))
			}
			if len(parts) == 0 {
				return k(e, Val{term: "[]", typ: tString})
			}
			return k(e, Val{term: strings.Join(parts, " ++ "), typ: tString})
		})
	}
	tr.fail(call, "call of %s", full)
	return ""
}

type verbPart struct {
	lit  string
	verb byte
}

// parseVerbs splits a format string; nil on a verb with flags/width (not in the subset).
func parseVerbs(f string) []verbPart {
	var out []verbPart
	cur := ""
	for i := 0; i < len(f); i++ {
		if f[i] != '%' {
			cur += string(f[i])
			continue
		}
		if i+1 >= len(f) {
			return nil
		}
		i++
		c := f[i]
		if c == '%' {
			cur += "%"
			continue
		}
		if !(c >= 'a' && c <= 'z' || c >= 'A' && c <= 'Z') {
			if c == '#' && i+1 < len(f) && f[i+1] == 'v' {
				i++
				c = 'v'
			} else {
				return nil
			}
		}
		out = append(out, verbPart{lit: cur})
		cur = ""
		out = append(out, verbPart{verb: c})
	}
	out = append(out, verbPart{lit: cur})
	return out
}

// bigOp: z.Add(x, y), z.Sub, z.Mul, z.Set, z.SetInt64 on math/big values: the new value of z.
func (tr *Tr) bigOp(call *ast.CallExpr, sel *ast.SelectorExpr, env *Env, k econt) string {
	ops := map[string]string{"Add": "+", "Sub": "-", "Mul": "*"}
	switch sel.Sel.Name {
	case "Add", "Sub", "Mul":
		if len(call.Args) != 2 {
			tr.fail(call, "big.Int.%s with %d arguments", sel.Sel.Name, len(call.Args))
		}
		return tr.evalList(call.Args, env, func(e *Env, vs []Val) string {
			for i, v := range vs {
				if tr.use(v, call.Args[i]).typ.K != KBigInt {
					tr.fail(call.Args[i], "argument of big.Int.%s of type %v", sel.Sel.Name, v.typ)
				}
			}
			return k(e, Val{term: fmt.Sprintf("(%s %s %s)%%Z", paren(vs[0].term), ops[sel.Sel.Name], paren(vs[1].term)), typ: tBigInt})
		})
	case "Set":
		if len(call.Args) != 1 {
			tr.fail(call, "big.Int.Set with %d arguments", len(call.Args))
		}
		return tr.expr(call.Args[0], env, func(e *Env, v Val) string {
			if tr.use(v, call.Args[0]).typ.K != KBigInt {
				tr.fail(call.Args[0], "argument of big.Int.Set of type %v", v.typ)
			}
			return k(e, Val{term: v.term, typ: tBigInt})
		})
	case "SetInt64":
		if len(call.Args) != 1 {
			tr.fail(call, "big.Int.SetInt64 with %d arguments", len(call.Args))
		}
		return tr.expr(call.Args[0], env, func(e *Env, v Val) string {
			v = tr.coerce(tr.use(v, call.Args[0]), tInt64, call.Args[0])
			return k(e, Val{term: v.term, typ: tBigInt})
		})
	}
	tr.fail(call, "math/big method %s", sel.Sel.Name)
	return ""
}

// callMulti translates a call of a package function, a method (static or through
// the Term interface), regexp.Compile, or a math/big / regexp method, and passes
// all results to k.  For a callee with results (T, error), k is called twice:
// with (v, nil) and with (<not represented>, Some e).
func (tr *Tr) callMulti(call *ast.CallExpr, env *Env, k func(*Env, []Val) string) string {
	if call.Ellipsis != token.NoPos {
		tr.fail(call, "call with ...")
	}
	switch f := call.Fun.(type) {
	case *ast.Ident:
		if _, local := env.scope[f.Name]; local {
			tr.fail(call, "call of a function value")
		}
		if _, ok := tr.p.funcs[f.Name]; ok {
			fi := tr.translate(f.Name, call)
			return tr.evalList(call.Args, env, func(e *Env, vs []Val) string {
				return tr.emitCall(call, fi, nil, call.Args, vs, e, k)
			})
		}
		return tr.callExpr(call, env, func(e *Env, v Val) string { return k(e, []Val{v}) })
	case *ast.SelectorExpr:
		if pk := tr.pkgName(f.X, env); pk != "" {
			if pk == "regexp" && f.Sel.Name == "Compile" {
				if len(call.Args) != 1 {
					tr.fail(call, "regexp.Compile with %d arguments", len(call.Args))
				}
				return tr.expr(call.Args[0], env, func(e *Env, p Val) string {
					p = tr.use(p, call.Args[0])
					if p.typ.K != KString {
						tr.fail(call, "regexp.Compile of a value of type %v", p.typ)
					}
					pat := p.term
					pre := ""
					if !isAtomic(pat) {
						n := tr.fresh("pat")
						pre = fmt.Sprintf("let %s := %s in\n", n, pat)
						pat = n
					}
					en := tr.fresh("e")
					okB := k(e, []Val{{term: pat, typ: tRegexp}, {term: "None", typ: tError}})
					errB := k(e, []Val{{term: "?", typ: tRegexp, poison: "the result of a failed regexp.Compile"}, {term: "Some " + en, typ: tError}})
					return pre + fmt.Sprintf("match rx_compile_err rx %s with\n| None =>\n%s\n| Some %s =>\n%s\nend", pat, ind(ind(okB)), en, ind(ind(errB)))
				})
			}
			return tr.libCall(pk, f.Sel.Name, call, env, func(e *Env, v Val) string { return k(e, []Val{v}) })
		}
		// method call
		return tr.expr(f.X, env, func(e1 *Env, recv Val) string {
			recv = tr.use(recv, f.X)
			rt := recv.typ
			if rt.K == KPtr && rt.Elem.Name != "" {
				rt = rt.Elem
			}
			// a method promoted from the embedded field of a single-field struct
			for rt.K == KWrap && rt.Embedded {
				if _, declared := tr.p.funcs[rt.Name+"."+f.Sel.Name]; declared {
					break
				}
				rt = rt.Elem
				recv = Val{term: recv.term, typ: rt}
			}
			if rt.K == KPtr && rt.Elem.Name != "" { // stage H: the embedded field is a pointer (*SymbolTable)
				rt = rt.Elem
			}
			switch {
			case rt.K == KBigInt:
				switch f.Sel.Name {
				case "IsInt64":
					return k(e1, []Val{{term: "in_int64 " + paren(recv.term), typ: tBool}})
				case "Int64":
					return k(e1, []Val{{term: "wrap_i64 " + paren(recv.term), typ: tInt64}})
				case "Sign":
					return k(e1, []Val{{term: "Z.sgn " + paren(recv.term), typ: tInt}})
				case "Cmp":
					return tr.evalList(call.Args, e1, func(e2 *Env, vs []Val) string {
						if len(vs) != 1 || vs[0].typ.K != KBigInt {
							tr.fail(call, "big.Int.Cmp arguments")
						}
						return k(e2, []Val{{term: fmt.Sprintf("match (%s ?= %s)%%Z with Lt => (-1)%%Z | Eq => 0%%Z | Gt => 1%%Z end", paren(recv.term), paren(vs[0].term)), typ: tInt}})
					})
				case "Add", "Sub", "Mul", "Set", "SetInt64":
					// as a value: only on a receiver that is a fresh allocation (no alias)
					if c, ok := unparen(f.X).(*ast.CallExpr); ok {
						fn := exprStr(c.Fun)
						if fn == "big.NewInt" || fn == "new" {
							return tr.bigOp(call, f, e1, func(e2 *Env, v Val) string { return k(e2, []Val{v}) })
						}
					}
					tr.fail(call, "value of big.Int.%s on a receiver that is not a fresh big.NewInt(...) (aliasing is not represented)", f.Sel.Name)
				}
				tr.fail(call, "math/big method %s", f.Sel.Name)
			case rt.K == KRegexp:
				switch f.Sel.Name {
				case "MatchString", "Match":
					return tr.evalList(call.Args, e1, func(e2 *Env, vs []Val) string {
						if len(vs) != 1 {
							tr.fail(call, "regexp match with %d arguments", len(vs))
						}
						a := tr.use(vs[0], call.Args[0])
						if !(a.typ.K == KString || a.typ.K == KSlice && a.typ.Elem.K == KUint8) {
							tr.fail(call, "regexp match on a value of type %v", a.typ)
						}
						return k(e2, []Val{{term: fmt.Sprintf("rx_match rx %s %s", paren(recv.term), paren(a.term)), typ: tBool}})
					})
				}
				tr.fail(call, "regexp method %s", f.Sel.Name)
			case rt.K == KIface && rt.Name == "Term" && f.Sel.Name == "String" && len(call.Args) == 0:
				// Term.String() through the interface: NOT translated (time formatting, hex, %d);
				// it is the oracle parameter tstr of the function (the theorems hold for every tstr)
				if !tr.fn.usesTstr {
					tr.fail(call, "internal: Term.String() in a function without the oracle tstr")
				}
				return k(e1, []Val{{term: "tstr " + paren(recv.term), typ: tString}})
			case rt.K == KIface || rt.K == KAtom:
				fi := tr.dispatcher(rt, f.Sel.Name, call)
				return tr.evalList(call.Args, e1, func(e2 *Env, vs []Val) string {
					return tr.emitCall(call, fi, &recv, call.Args, vs, e2, k)
				})
			case rt.Name != "":
				key := rt.Name + "." + f.Sel.Name
				if _, ok := tr.p.funcs[key]; !ok {
					tr.fail(call, "method %s of type %v (not declared in the package)", f.Sel.Name, rt)
				}
				fi := tr.translate(key, call)
				rd := fi.decl.Recv.List[0]
				hasRecvParam := len(fi.params) == len(fi.decl.Type.Params.List) && false
				_ = hasRecvParam
				_ = rd
				return tr.evalList(call.Args, e1, func(e2 *Env, vs []Val) string {
					return tr.emitCall(call, fi, &recv, call.Args, vs, e2, k)
				})
			}
			tr.fail(call, "method call on a value of type %v", recv.typ)
			return ""
		})
	}
	tr.fail(call, "call of %T", call.Fun)
	return ""
}

func countParams(d *ast.FuncDecl) int {
	n := 0
	for _, f := range d.Type.Params.List {
		if len(f.Names) == 0 {
			n++
		}
		n += len(f.Names)
	}
	return n
}

// emitCall emits the application of a translated function and the match on its outcome.
func (tr *Tr) emitCall(call *ast.CallExpr, fi *FuncInfo, recv *Val, argExprs []ast.Expr, args []Val, env *Env,
	k func(*Env, []Val) string) string {
	all := []Val{}
	nodes := []ast.Node{}
	hasRecv := fi.dispatch || (fi.decl != nil && fi.decl.Recv != nil && len(fi.params) == countParams(fi.decl)+1)
	if hasRecv {
		if recv == nil {
			tr.fail(call, "internal: missing receiver")
		}
		all = append(all, *recv)
		nodes = append(nodes, call.Fun)
	}
	for i, a := range args {
		all = append(all, a)
		nodes = append(nodes, argExprs[i])
	}
	if len(all) != len(fi.params) {
		tr.fail(call, "call of %s with %d arguments for %d parameters", fi.key, len(all), len(fi.params))
	}
	var terms []string
	if fi.usesRx {
		terms = append(terms, "rx")
	}
	if fi.usesTstr {
		if !tr.fn.usesTstr {
			tr.fail(call, "internal: call of a function with the oracle tstr from one without")
		}
		terms = append(terms, "tstr")
	}
	e := env
	var mutB []*Binding
	for i, p := range fi.params {
		v := all[i]
		if p.typ.K == KPtr {
			// the pointee is passed; it must be (the pointee of) a pointer parameter when the callee writes it
			var pv Val
			switch {
			case v.typ.K == KPtr && sameType(v.typ.Elem, p.typ.Elem):
				pv = tr.use(v, nodes[i])
			case sameType(v.typ, p.typ.Elem) && !fi.mutates[i]:
				pv = tr.use(v, nodes[i]) // x.M() on an addressable x, M only reads
			default:
				tr.fail(nodes[i], "argument of type %v for a parameter of type %v", v.typ, p.typ)
			}
			if fi.mutates[i] {
				var id *ast.Ident
				switch n := nodes[i].(type) {
				case *ast.Ident:
					id = n
				case *ast.SelectorExpr:
					id, _ = unparen(n.X).(*ast.Ident)
				case *ast.ParenExpr:
					id, _ = unparen(n).(*ast.Ident)
				}
				var b *Binding
				if id != nil {
					b = env.scope[id.Name]
				}
				if b == nil || !(b.ptrParam && tr.isMutated(b) || b.ptrLocal) {
					tr.fail(nodes[i], "%s writes through this argument, which is not a pointer parameter of the caller", fi.key)
				}
				for _, ob := range mutB {
					if ob == b {
						tr.fail(nodes[i], "%s writes through two arguments that are the same pointer", fi.key)
					}
				}
				mutB = append(mutB, b)
			}
			terms = append(terms, paren(pv.term))
			continue
		}
		if fi.mutates[i] {
			tr.fail(nodes[i], "%s writes its map parameter: a call of such a function is not represented", fi.key)
		}
		if v.typ.K == KPtr && sameType(v.typ.Elem, p.typ) {
			nv := tr.use(v, nodes[i])
			nv.typ = p.typ
			v = nv
		}
		cv := tr.coerce(tr.use(v, nodes[i]), p.typ, nodes[i])
		terms = append(terms, paren(cv.term))
	}
	app := fi.coqName
	if len(terms) > 0 {
		app += " " + strings.Join(terms, " ")
	}
	pre := ""
	scrut := app
	if len(mutB) > 0 {
		var names []string
		for _, b := range mutB {
			n := tr.fresh(b.goName)
			names = append(names, n)
			v := e.val[b]
			v.term = n
			e = e.set(b, v)
		}
		r := tr.fresh("r")
		pre = fmt.Sprintf("let '(%s, %s) := %s in\n", strings.Join(names, ", "), r, app)
		scrut = r
	}
	// result values
	resVal := func(t *T, term string) Val {
		if t.K == KPtr {
			return Val{term: term, typ: t}
		}
		return Val{term: term, typ: t}
	}
	en, pn := tr.fresh("e"), tr.fresh("p")
	var okPat, okBody, errBody string
	switch fi.rk {
	case RUnit:
		okPat, okBody = "_", k(e, nil)
		errBody = tr.ret(e, "Err "+en)
	case RErr:
		okPat, okBody = "_", k(e, []Val{{term: "None", typ: tError}})
		errBody = k(e, []Val{{term: "Some " + en, typ: tError}})
	case RVal:
		vn := tr.fresh("v")
		okPat = vn
		rv := resVal(fi.results[0], vn)
		if fi.results[0].K == KIface {
			rv.poison = "a Term that may be nil (result of " + fi.key + ")"
		}
		okBody = k(e, []Val{rv})
		errBody = tr.ret(e, "Err "+en)
	case RValErr:
		vn := tr.fresh("v")
		okPat = vn
		okBody = k(e, []Val{resVal(fi.results[0], vn), {term: "None", typ: tError}})
		errBody = k(e, []Val{{term: "?", typ: fi.results[0], poison: "the value returned beside a non-nil error by " + fi.key},
			{term: "Some " + en, typ: tError}})
	case RTuple:
		var names []string
		var vals []Val
		for _, r := range fi.results {
			n := tr.fresh("v")
			names = append(names, n)
			vals = append(vals, resVal(r, n))
		}
		okPat = "(" + strings.Join(names, ", ") + ")"
		okBody = k(e, vals)
		errBody = tr.ret(e, "Err "+en)
	}
	return pre + fmt.Sprintf("match %s with\n| Ok %s =>\n%s\n| Err %s =>\n%s\n| Panic %s => %s\nend",
		scrut, okPat, ind(ind(okBody)), en, ind(ind(errBody)), pn, tr.ret(e, "Panic "+pn))
}

// dispatcher builds (once) the function that selects the method of the dynamic
// type of a value of a represented interface (Term, an element of a Set, Op,
// UnaryOpFunc, BinaryOpFunc).  An implementation with a struct{} receiver has no
// receiver parameter; an implementation that does not write through a pointer
// parameter that another one writes through returns that pointee unchanged.
func (tr *Tr) dispatcher(rt *T, method string, at ast.Node) *FuncInfo {
	atom := rt.K == KAtom
	iname := rt.Name
	key := iname + "." + method
	coq := "go_" + iname + "_" + method
	if atom {
		key = "TermAtom." + method
		coq = "go_TermAtom_" + method
	}
	if fi, ok := tr.infos[key]; ok {
		return fi
	}
	var impls []*FuncInfo
	var pats []string
	var offs []int
	for _, im := range implsOf(rt) {
		if atom && im.atomPat == "" {
			continue
		}
		k := im.goType + "." + method
		if _, ok := tr.p.funcs[k]; !ok {
			tr.fail(at, "method %s through the interface %s: %s has no such method", method, iname, im.goType)
		}
		fi := tr.translate(k, at)
		if fi.decl.Recv == nil {
			tr.fail(at, "method %s through the interface %s: %s is not a method", method, iname, k)
		}
		off := len(fi.params) - countParams(fi.decl)
		if off != 0 && off != 1 {
			tr.fail(at, "internal: parameters of %s", k)
		}
		if off == 0 && rt.Name == "Term" {
			tr.fail(at, "method %s through the interface Term: %s has no value receiver parameter", method, k)
		}
		impls = append(impls, fi)
		offs = append(offs, off)
		if atom {
			pats = append(pats, im.atomPat)
		} else {
			pats = append(pats, im.termPat)
		}
	}
	first := impls[0]
	d := &FuncInfo{key: key, coqName: coq, dispatch: true, results: first.results, rk: first.rk, payload: first.payload}
	d.params = append(d.params, &Param{goName: "recv", typ: rt})
	d.params = append(d.params, first.params[offs[0]:]...)
	d.mutates = make([]bool, len(d.params))
	for j, fi := range impls {
		if len(fi.params)-offs[j] != len(d.params)-1 || fi.rk != first.rk || fi.payload != first.payload {
			tr.fail(at, "method %s through the interface %s: signatures differ", method, iname)
		}
		for i := offs[j]; i < len(fi.params); i++ {
			if !sameType(fi.params[i].typ, d.params[i-offs[j]+1].typ) {
				tr.fail(at, "method %s through the interface %s: signatures differ", method, iname)
			}
			if fi.mutates[i] {
				d.mutates[i-offs[j]+1] = true
			}
		}
		if offs[j] == 1 && fi.mutates[0] {
			tr.fail(at, "method %s through the interface %s writes through its receiver", method, iname)
		}
		if fi.usesRx {
			d.usesRx = true
		}
		if fi.usesTstr {
			tr.fail(at, "method %s through the interface %s: an implementation needs the oracle tstr", method, iname)
		}
	}
	// an implementation writes through all the pointer parameters the dispatcher threads, or through none
	wraps := make([]bool, len(impls))
	for j, fi := range impls {
		all, none := true, true
		for i := 1; i < len(d.params); i++ {
			if !d.mutates[i] {
				continue
			}
			if fi.mutates[i-1+offs[j]] {
				none = false
			} else {
				all = false
			}
		}
		if !all && !none {
			tr.fail(at, "method %s through the interface %s: implementations differ in the parameters they write through", method, iname)
		}
		wraps[j] = !all
	}
	tr.finishSig(d)
	var sig, argNames, mutNames []string
	if d.usesRx {
		sig = append(sig, "(rx : bytes -> bytes -> option bool)")
	}
	sig = append(sig, fmt.Sprintf("(recv : %s)", coqType(rt)))
	for i, p := range d.params[1:] {
		n := fmt.Sprintf("a%d", i+1)
		argNames = append(argNames, n)
		sig = append(sig, fmt.Sprintf("(%s : %s)", n, coqType(p.typ)))
		if d.mutates[i+1] {
			mutNames = append(mutNames, n)
		}
	}
	var arms []string
	for i, fi := range impls {
		app := fi.coqName
		if fi.usesRx {
			app += " rx"
		}
		if offs[i] == 1 {
			app += " x"
		}
		if len(argNames) > 0 {
			app += " " + strings.Join(argNames, " ")
		}
		if wraps[i] {
			app = "(" + strings.Join(mutNames, ", ") + ", " + app + ")"
		}
		arms = append(arms, fmt.Sprintf("| %s => %s", fillPat(pats[i], "x"), app))
	}
	what := "the dynamic type of a Term"
	if atom {
		what = "the dynamic type of an element of a Set"
	} else if iname != "Term" {
		what = "the dynamic type of a value of the interface " + iname
	}
	text := fmt.Sprintf("(* method %s selected by %s *)\nDefinition %s %s : %s :=\n  match recv with\n  %s\n  end.\n#[global] Hint Unfold %s : go_fn.\n",
		method, what, coq, strings.Join(sig, " "), d.fullRet, strings.Join(arms, "\n  "), coq)
	tr.out = append(tr.out, text)
	tr.infos[key] = d
	return d
}

// termViaStringer: the text fmt prints for %v / %s of a non-nil value of the interface type Term.
// fmt (print.go handleMethods) tries, in this order, Formatter (Format), then for %v/%s error (Error),
// then Stringer (String).  The source is checked: every implementor of Term (table termImpls) must
// declare String() with a value receiver and must declare neither Format nor Error nor GoString;
// then the text is x.String(), i.e. the oracle `tstr x` (the same oracle as an explicit x.String()).
// A nil Term (printed "<nil>") is not represented as data (GENFN.md section 3).
func (tr *Tr) termViaStringer(a Val, at ast.Node) string {
	for _, im := range termImpls {
		d, has := tr.p.funcs[im.goType+".String"]
		if !has {
			tr.fail(at, "%%v of a Term: the implementor %s does not declare String()", im.goType)
		}
		if _, ptr := d.Recv.List[0].Type.(*ast.StarExpr); ptr {
			tr.fail(at, "%%v of a Term: %s.String has a pointer receiver", im.goType)
		}
		if d.Type.Params != nil && len(d.Type.Params.List) != 0 || d.Type.Results == nil || len(d.Type.Results.List) != 1 || typeStr(d.Type.Results.List[0].Type) != "string" {
			tr.fail(at, "%%v of a Term: %s.String is not String() string", im.goType)
		}
		for _, m := range []string{"Format", "Error", "GoString"} {
			if _, bad := tr.p.funcs[im.goType+"."+m]; bad {
				tr.fail(at, "%%v of a Term: the implementor %s declares %s, which fmt prefers to String()", im.goType, m)
			}
		}
	}
	if !tr.fn.usesTstr {
		tr.fail(at, "%%v of a Term in a function without the oracle tstr (the operand must be the value variable of a range statement)")
	}
	return "tstr " + paren(a.term)
}
