#!/usr/bin/env python3
"""Self-test of genfn + Proofs/GenFnProofs.v (recorded in /verif/notes/GENFN.md).

Takes the COMMITTED datalog package (git HEAD of /repo, not the working tree: other
agents seed defects into the working tree while they test) into /tmp/genfn_scratch,
applies one source edit at a time, runs genfn on the copy and compiles the UNCHANGED
proof script against the regenerated definitions.

The Coq base (Generated.vo, Model/*.vo) is snapshotted into the scratch dir at the
start -- COMPILED there from the committed sources (git HEAD of /verif), not copied
from /verif/coq -- so a rebuild of /verif/coq by someone else cannot change a
verdict; case R0 (no edit) must pass on that snapshot, otherwise the run is aborted as
"environment not usable" instead of reporting verdicts that mean nothing.

  harmless rewrites : genfn must translate, the proof script must pass
  semantic mutations: genfn must translate, the proof script must FAIL, in the
                      theorem about the mutated function

usage: python3 /verif/genfn/selftest.py [name ...]     (scratch dir is deleted at the end)
"""
import os, re, shutil, subprocess, sys, time

REPO = "/repo"
VERIF = "/verif"
# overridable, so that a private copy of the translator / of the proof scripts can be tested
# without touching /verif (GENFN_SRC=/tmp/x/genfn GENFN_PROOFS=/tmp/x/coq/Proofs GENFN_BIN=/tmp/x/genfn.bin
# GENFN_SCRATCH=/tmp/x/scratch python3 selftest.py ...)
GENFN_SRC = os.environ.get("GENFN_SRC", os.path.join(VERIF, "genfn"))
PROOFS = os.environ.get("GENFN_PROOFS", os.path.join(VERIF, "coq", "Proofs"))
SCRATCH = os.environ.get("GENFN_SCRATCH", "/tmp/genfn_scratch")
GENFN = os.environ.get("GENFN_BIN", os.path.join(VERIF, "build", "genfn"))

# stage D (cases whose name starts with "D"): genfn -all, then GenFnProofs.v AND GenFnEvalProofs.v

# (name, kind, file, old text, new text, theorem expected to fail)
CASES = [
    ("R0_unmodified_baseline", "harmless", "symbol.go", "", "", None),
    ("R1_Str_early_returns_renamed", "harmless", "symbol.go",
     '''	if uint64(sym) < 1024 {
		if uint64(sym) > uint64(len(DEFAULT_SYMBOLS)-1) {
			return fmt.Sprintf("<invalid symbol %d>", sym)
		} else {
			return DEFAULT_SYMBOLS[int(sym)]
		}
	}
	if uint64(sym)-1024 >= uint64(len(*t)) {
		return fmt.Sprintf("<invalid symbol %d>", sym)
	}
	return (*t)[int(sym)-1024]
''',
     '''	index := uint64(sym)
	var last uint64 = uint64(len(DEFAULT_SYMBOLS) - 1)
	if index < 1024 && index > last {
		return fmt.Sprintf("<invalid symbol %d>", sym)
	}
	if index < 1024 {
		position := int(index)
		return DEFAULT_SYMBOLS[position]
	}
	rest := index - 1024
	if !(rest < uint64(len(*t))) {
		return fmt.Sprintf("<invalid symbol %d>", index)
	}
	return (*t)[int(rest)]
''', None),
    ("R2_Div_guards_in_one_switch", "harmless", "expressions.go",
     '''	if iright == 0 {
		return nil, ErrExprDivByZero
	}

	// the only quotient that does not fit in 64 bits
	if ileft == math.MinInt64 && iright == -1 {
		return nil, ErrInt64Overflow
	}

	return Integer(ileft / iright), nil
''',
     '''	switch {
	case ileft == math.MinInt64 && iright == -1:
		return nil, ErrInt64Overflow
	case iright == 0:
		return nil, ErrExprDivByZero
	}
	quotient := ileft / iright
	return quotient, nil
''', None),
    ("R3_LessThan_type_switch", "harmless", "expressions.go",
     '''	if g, w := left.Type(), right.Type(); g != w {
		return nil, fmt.Errorf("datalog: LessThan type mismatch: %d != %d", g, w)
	}

	var out Term
	switch left.Type() {
	case TermTypeInteger:
		out = Bool(left.(Integer) < right.(Integer))
	case TermTypeDate:
		out = Bool(left.(Date) < right.(Date))
	default:
		return nil, fmt.Errorf("datalog: unexpected LessThan value type: %d", left.Type())
	}

	return out, nil
''',
     '''	switch l := left.(type) {
	case Integer:
		if r, isInt := right.(Integer); isInt {
			return Bool(l < r), nil
		}
	case Date:
		r, isDate := right.(Date)
		if !isDate {
			return nil, errors.New("datalog: LessThan type mismatch")
		}
		return Bool(r > l), nil
	default:
		if lessThanMismatch(left, right) {
			return nil, fmt.Errorf("datalog: LessThan type mismatch: %d != %d", left.Type(), right.Type())
		}
		return nil, fmt.Errorf("datalog: unexpected LessThan value type: %d", left.Type())
	}
	return nil, errors.New("datalog: LessThan type mismatch")
}

func lessThanMismatch(a, b Term) bool {
	return a.Type() != b.Type()
''', None),
    ("R4_Mul_hoisted_temporaries_op_assign", "harmless", "expressions.go",
     '''	bleft := big.NewInt(int64(ileft))
	bright := big.NewInt(int64(iright))
	res := big.NewInt(0)
	res.Mul(bleft, bright)

	if !res.IsInt64() {
		return nil, ErrInt64Overflow
	}

	return Integer(res.Int64()), nil
}

// Div performs''',
     '''	var product *big.Int = new(big.Int).Mul(big.NewInt(int64(ileft)), big.NewInt(int64(iright)))
	fits := product.IsInt64()
	if fits {
		var out Integer
		out += Integer(product.Int64())
		return out, nil
	} else {
		return nil, ErrInt64Overflow
	}
}

// Div performs''', None),
    ("R5_lookup_helper_extracted_from_Insert_Sym_Index", "harmless", "symbol.go",
     '''func (t *SymbolTable) Insert(s string) String {
	for i, v := range DEFAULT_SYMBOLS {
		if string(v) == s {
			return String(i)
		}
	}

	for i, v := range *t {
		if string(v) == s {
			return String(OFFSET + i)
		}
	}
	*t = append(*t, s)

	return String(OFFSET + len(*t) - 1)
}

func (t *SymbolTable) Sym(s string) Term {
	for i, v := range DEFAULT_SYMBOLS {
		if string(v) == s {
			return String(i)
		}
	}

	for i, v := range *t {
		if string(v) == s {
			return String(OFFSET + i)
		}
	}
	return nil
}

func (t *SymbolTable) Index(s string) uint64 {
	for i, v := range DEFAULT_SYMBOLS {
		if string(v) == s {
			return uint64(i)
		}
	}

	for i, v := range *t {
		if string(v) == s {
			return uint64(OFFSET + i)
		}
	}
	panic("index not found")
}

''',
     '''// lookup returns the index of s, searching the default symbols first and then
// the table itself. The second result is false when s is not known.
func (t *SymbolTable) lookup(s string) (int, bool) {
	for i, v := range DEFAULT_SYMBOLS {
		if string(v) == s {
			return i, true
		}
	}

	for i, v := range *t {
		if string(v) == s {
			return OFFSET + i, true
		}
	}
	return 0, false
}

func (t *SymbolTable) Insert(s string) String {
	if idx, ok := t.lookup(s); ok {
		return String(idx)
	}
	*t = append(*t, s)

	return String(OFFSET + len(*t) - 1)
}

func (t *SymbolTable) Sym(s string) Term {
	if idx, ok := t.lookup(s); ok {
		return String(idx)
	}
	return nil
}

func (t *SymbolTable) Index(s string) uint64 {
	if idx, ok := t.lookup(s); ok {
		return uint64(idx)
	}
	panic("index not found")
}

''', None),
    ("R6_Sym_inverted_test_continue_swapped_operands", "harmless", "symbol.go",
     '''func (t *SymbolTable) Sym(s string) Term {
	for i, v := range DEFAULT_SYMBOLS {
		if string(v) == s {
			return String(i)
		}
	}

	for i, v := range *t {
		if string(v) == s {
			return String(OFFSET + i)
		}
	}
	return nil
}
''',
     '''func (t *SymbolTable) Sym(s string) Term {
	for i, v := range DEFAULT_SYMBOLS {
		if s != v {
			continue
		}
		return String(i)
	}

	for position, candidate := range *t {
		if !(s == candidate) {
			continue
		}
		index := OFFSET
		index += position
		return String(index)
	}
	return nil
}
''', None),
    ("M1_Str_bound_off_by_one", "mutation", "symbol.go",
     "if uint64(sym) > uint64(len(DEFAULT_SYMBOLS)-1) {",
     "if uint64(sym) > uint64(len(DEFAULT_SYMBOLS)) {",
     "go_SymbolTable_Str_eq"),
    ("M2_Mul_fast_path_skips_overflow_check", "mutation", "expressions.go",
     '''	bleft := big.NewInt(int64(ileft))
	bright := big.NewInt(int64(iright))
	res := big.NewInt(0)
	res.Mul(bleft, bright)
''',
     '''	if ileft <= 1<<32 && ileft >= -(1<<32) && iright <= 1<<32 && iright >= -(1<<32) {
		return ileft * iright, nil
	}
	bleft := big.NewInt(int64(ileft))
	bright := big.NewInt(int64(iright))
	res := big.NewInt(0)
	res.Mul(bleft, bright)
''', "go_Mul_Eval_eq"),
    ("M3_Div_without_MinInt64_guard", "mutation", "expressions.go",
     '''	if ileft == math.MinInt64 && iright == -1 {
		return nil, ErrInt64Overflow
	}
''', "\t_ = math.MinInt64 // guard removed\n", "go_Div_Eval_eq"),
    ("M4_Insert_returns_index_without_offset", "mutation", "symbol.go",
     '''	*t = append(*t, s)

	return String(OFFSET + len(*t) - 1)''',
     '''	*t = append(*t, s)

	return String(OFFSET + len(*t))''', "go_SymbolTable_Insert_eq"),
    ("M5_LessOrEqual_date_strict", "mutation", "expressions.go",
     "out = Bool(left.(Date) <= right.(Date))", "out = Bool(left.(Date) < right.(Date))",
     "go_LessOrEqual_Eval_eq"),
    ("D0_unmodified_baseline_all", "harmless", "expressions.go", "", "", None),
    ("DR1_Evaluate_type_switch_on_op", "harmless", "expressions.go",
     [('''		switch op.Type() {
		case OpTypeValue:
			id := op.(Value).ID
			switch id.Type() {
			case TermTypeVariable:
''',
       '''		switch o := op.(type) {
		case Value:
			id := o.ID
			switch id.Type() {
			case TermTypeVariable:
'''),
      ('''		case OpTypeUnary:
			v, err := s.Pop()
			if err != nil {
				return nil, fmt.Errorf("datalog: expressions: failed to pop unary''',
       '''		case UnaryOp:
			v, err := s.Pop()
			if err != nil {
				return nil, fmt.Errorf("datalog: expressions: failed to pop unary'''),
      ("res, err := op.(UnaryOp).Eval(v, symbols)", "res, err := o.Eval(v, symbols)"),
      ('''		case OpTypeBinary:
			right, err := s.Pop()
			if err != nil {
				return nil, fmt.Errorf("datalog: expressions: failed to pop binary''',
       '''		case BinaryOp:
			right, err := s.Pop()
			if err != nil {
				return nil, fmt.Errorf("datalog: expressions: failed to pop binary'''),
      ("res, err := op.(BinaryOp).Eval(left, right, symbols)", "res, err := o.Eval(left, right, symbols)")],
     "", None),
    ("DR2_Evaluate_hoisted_assertion_renamed_temporaries_inverted_final_test", "harmless", "expressions.go",
     '''			right, err := s.Pop()
			if err != nil {
				return nil, fmt.Errorf("datalog: expressions: failed to pop binary right value: %w", err)
			}
			left, err := s.Pop()
			if err != nil {
				return nil, fmt.Errorf("datalog: expressions: failed to pop binary left value: %w", err)
			}

			res, err := op.(BinaryOp).Eval(left, right, symbols)
			if err != nil {
				return nil, fmt.Errorf("datalog: expressions: binary eval failed: %w", err)
			}
			err = s.Push(res)
			if err != nil {
				return nil, fmt.Errorf("datalog: expressions: stack overflow")
			}
		default:
			return nil, fmt.Errorf("datalog: expressions: unsupported Op: %v", op.Type())
		}
	}

	// after processing all operations, there must be a single value left in the stack
	if len(*s) != 1 {
		return nil, fmt.Errorf("datalog: expressions: invalid resulting stack: %#v", *s)
	}

	return s.Pop()
}
''',
     '''			bop := op.(BinaryOp)
			rhs, errR := s.Pop()
			if errR != nil {
				return nil, fmt.Errorf("datalog: expressions: failed to pop binary right value: %w", errR)
			}
			lhs, errL := s.Pop()
			if errL != nil {
				return nil, fmt.Errorf("datalog: expressions: failed to pop binary left value: %w", errL)
			}

			out, evalErr := bop.Eval(lhs, rhs, symbols)
			if evalErr != nil {
				return nil, fmt.Errorf("datalog: expressions: binary eval failed: %w", evalErr)
			}
			if pushErr := s.Push(out); pushErr != nil {
				return nil, fmt.Errorf("datalog: expressions: stack overflow")
			}
		default:
			return nil, fmt.Errorf("datalog: expressions: unsupported Op: %v", op.Type())
		}
	}

	// after processing all operations, there must be a single value left in the stack
	n := len(*s)
	if n == 1 {
		return s.Pop()
	}
	return nil, fmt.Errorf("datalog: expressions: invalid resulting stack: %#v", *s)
}
''', None),
    ("DM1_Evaluate_pops_left_before_right", "mutation", "expressions.go",
     '''			right, err := s.Pop()
			if err != nil {
				return nil, fmt.Errorf("datalog: expressions: failed to pop binary right value: %w", err)
			}
			left, err := s.Pop()
''',
     '''			left, err := s.Pop()
			if err != nil {
				return nil, fmt.Errorf("datalog: expressions: failed to pop binary right value: %w", err)
			}
			right, err := s.Pop()
''', "go_Expression_Evaluate_eq"),
    ("DM2_Evaluate_accepts_several_values_left", "mutation", "expressions.go",
     "	if len(*s) != 1 {\n\t\treturn nil, fmt.Errorf(\"datalog: expressions: invalid resulting stack: %#v\", *s)",
     "	if len(*s) < 1 {\n\t\treturn nil, fmt.Errorf(\"datalog: expressions: invalid resulting stack: %#v\", *s)",
     "go_Expression_Evaluate_eq"),
    ("DM3_stack_Push_bound_off_by_one", "mutation", "expressions.go",
     '''func (s *stack) Push(v Term) error {
	if len(*s) >= maxStackSize {''',
     '''func (s *stack) Push(v Term) error {
	if len(*s) > maxStackSize {''', "go_stack_Push_eq"),
    # ---- stage E (names starting with "E"): GenFnProofs.v, GenFnSetProofs.v, then GenFnDatalogProofs.v ----
    ("E0_unmodified_baseline_stageE", "harmless", "datalog.go", "", "", None),
    ("ER1_Predicate_Equal_swapped_guards_continue", "harmless", "datalog.go",
     """func (p Predicate) Equal(p2 Predicate) bool {
	if p.Name != p2.Name || len(p.Terms) != len(p2.Terms) {
		return false
	}
	for i, id := range p.Terms {
		if !id.Equal(p2.Terms[i]) {
			return false
		}
	}

	return true
}""",
     """func (p Predicate) Equal(p2 Predicate) bool {
	if len(p2.Terms) != len(p.Terms) {
		return false
	}
	if p2.Name != p.Name {
		return false
	}
	for position, mine := range p.Terms {
		other := p2.Terms[position]
		if mine.Equal(other) {
			continue
		}
		return false
	}
	return true
}""", None),
    ("ER2_FactSet_Insert_continue_style", "harmless", "datalog.go",
     """	for _, v := range *s {
		if v.Equal(f.Predicate) {
			return false
		}
	}
	*s = append(*s, f)
	return true""",
     """	for _, existing := range *s {
		if !existing.Equal(f.Predicate) {
			continue
		}
		return false
	}
	added := true
	*s = append(*s, f)
	return added""", None),
    ("ER3_advanceIndexes_early_return_instead_of_break", "harmless", "datalog.go",
     """		if (*indexes)[i] < len(*facts)-1 {
			(*indexes)[i] += 1
			break
		} else {
			if i > 0 {
				(*indexes)[i] = 0
				*current -= 1
			} else {
				// we reached the first predicate, we cannot generate more
				// combinations, so we stop the task
				return false
			}
		}""",
     """		last := len(*facts) - 1
		if (*indexes)[i] < last {
			(*indexes)[i] = (*indexes)[i] + 1
			return true
		}
		if i == 0 {
			return false
		}
		*current = *current - 1
		(*indexes)[i] = 0""", None),
    ("EM1_Predicate_Equal_without_length_test", "mutation", "datalog.go",
     """func (p Predicate) Equal(p2 Predicate) bool {
	if p.Name != p2.Name || len(p.Terms) != len(p2.Terms) {""",
     """func (p Predicate) Equal(p2 Predicate) bool {
	if p.Name != p2.Name {""", "go_Predicate_Equal_eq"),
    ("EM2_Predicate_Match_only_receiver_variables_are_wildcards", "mutation", "datalog.go",
     "		if v1 || v2 {\n			continue",
     "		if v1 || v1 && v2 {\n			continue", "go_Predicate_Match_eq"),
    ("EM3_advanceIndexes_current_from_cached_start", "mutation", "datalog.go",
     [("func advanceIndexes(current *int, indexes *[]int, facts *FactSet) bool {\n",
       "func advanceIndexes(current *int, indexes *[]int, facts *FactSet) bool {\n	start := *current\n"),
      ("				*current -= 1\n", "				*current = start - 1\n")],
     None, "go_advanceIndexes_eq"),
    ("EM4_FactSet_Equal_without_length_test", "mutation", "datalog.go",
     """func (s *FactSet) Equal(x *FactSet) bool {
	if len(*s) != len(*x) {
		return false
	}
""",
     """func (s *FactSet) Equal(x *FactSet) bool {
""", "go_FactSet_Equal_eq"),
    ("EU1_ascending_for_loop_is_refused", "unsupported", "datalog.go",
     """	for i, id := range p.Terms {
		if !id.Equal(p2.Terms[i]) {
			return false
		}
	}

	return true""",
     """	for i := 0; i < len(p.Terms); i++ {
		if !p.Terms[i].Equal(p2.Terms[i]) {
			return false
		}
	}

	return true""", None),
    ("F0_unmodified_baseline_stageF", "harmless", "expressions.go", "", "", None),
    ("FR1_Print_type_switch_dispatch", "harmless", "expressions.go",
     [("""	for _, op := range *e {
		switch op.Type() {
		case OpTypeValue:
			id := op.(Value).ID
			switch id.Type() {
			case TermTypeString:
				err := s.Push(fmt.Sprintf("\\"%s\\"", symbols.Str(id.(String))))""",
       """	for _, op := range *e {
		switch o := op.(type) {
		case Value:
			id := o.ID
			switch id.Type() {
			case TermTypeString:
				err := s.Push(fmt.Sprintf("\\"%s\\"", symbols.Str(id.(String))))"""),
      ("""		case OpTypeUnary:
			v, err := s.Pop()
			if err != nil {
				return "<invalid expression: unary operation failed to pop value>"
			}
			res := op.(UnaryOp).Print(v)""",
       """		case UnaryOp:
			v, err := s.Pop()
			if err != nil {
				return "<invalid expression: unary operation failed to pop value>"
			}
			res := o.Print(v)"""),
      ("""		case OpTypeBinary:
			right, err := s.Pop()
			if err != nil {
				return "<invalid expression: binary operation failed to pop right value>"
			}
			left, err := s.Pop()
			if err != nil {
				return "<invalid expression: binary operation failed to pop left value>"
			}
			res := op.(BinaryOp).Print(left, right)""",
       """		case BinaryOp:
			right, err := s.Pop()
			if err != nil {
				return "<invalid expression: binary operation failed to pop right value>"
			}
			left, err := s.Pop()
			if err != nil {
				return "<invalid expression: binary operation failed to pop left value>"
			}
			res := o.Print(left, right)""")],
     None, None),
    ("FR2_UnaryOp_Print_string_concatenation", "harmless", "expressions.go",
     [('		out = fmt.Sprintf("(%s)", value)', '		out = "(" + value + ")"'),
      ('		out = fmt.Sprintf("!%s", value)', '		out = "!" + value')],
     None, None),
    ("FM1_parens_elided_when_already_parenthesised", "mutation", "expressions.go",
     '		out = fmt.Sprintf("(%s)", value)',
     '		if strings.HasPrefix(value, "(") && strings.HasSuffix(value, ")") {\n			out = value\n		} else {\n			out = fmt.Sprintf("(%s)", value)\n		}',
     "go_UnaryOp_Print_eq"),
    ("FM2_length_printed_as_len", "mutation", "expressions.go",
     '		out = fmt.Sprintf("%s.length()", value)', '		out = fmt.Sprintf("%s.len()", value)', "go_UnaryOp_Print_eq"),
    ("FM3_GreaterThan_printed_as_less_than", "mutation", "expressions.go",
     '		out = fmt.Sprintf("%s > %s", left, right)', '		out = fmt.Sprintf("%s < %s", left, right)', "go_BinaryOp_Print_eq"),
    ("FM4_Print_result_when_two_values_left", "mutation", "expressions.go",
     "	if len(*s) == 1 {\n		v, err := s.Pop()\n		if err != nil {\n			return \"<invalid expression: failed to pop result value>\"",
     "	if len(*s) >= 1 {\n		v, err := s.Pop()\n		if err != nil {\n			return \"<invalid expression: failed to pop result value>\"",
     "go_Expression_Print_eq"),
    ("G0_unmodified_baseline_stageG", "harmless", "symbol.go", "", "", None),
    ("GR1_IsDisjoint_renamed_no_hint_inverted_test", "harmless", "symbol.go",
     """	m := make(map[string]struct{}, len(*t))
	for _, s := range *t {
		m[s] = struct{}{}
	}

	for _, os := range *other {
		if _, ok := m[os]; ok {
			return false
		}
	}

	return true""",
     """	seen := make(map[string]struct{})
	for _, mine := range *t {
		seen[mine] = struct{}{}
	}
	for _, theirs := range *other {
		_, found := seen[theirs]
		if !found {
			continue
		}
		return false
	}
	return true""", None),
    ("GR2_Insert_test_not_nil_first", "harmless", "datalog.go",
     """	existing := m[k]
	if existing == nil {
		m[k] = &v
		return true
	}
	return v.Equal(*existing)""",
     """	bound := m[k]
	if bound != nil {
		return v.Equal(*bound)
	}
	m[k] = &v
	return true""", None),
    ("GM1_IsDisjoint_true_on_first_non_member", "mutation", "symbol.go",
     """		if _, ok := m[os]; ok {
			return false
		}
	}""",
     """		if _, ok := m[os]; ok {
			return false
		}
		return true
	}""", "go_SymbolTable_IsDisjoint_eq"),
    ("GM2_IsDisjoint_set_built_from_other", "mutation", "symbol.go",
     """	for _, s := range *t {
		m[s] = struct{}{}
	}""",
     """	for _, s := range *other {
		m[s] = struct{}{}
	}""", "go_SymbolTable_IsDisjoint_eq"),
    ("GM3_Insert_true_without_comparing", "mutation", "datalog.go",
     "	return v.Equal(*existing)\n}\n\nfunc (m MatchedVariables) Complete()",
     "	return true\n}\n\nfunc (m MatchedVariables) Complete()", "go_MatchedVariables_Insert_eq"),
    ("GM4_Insert_overwrites_existing_binding", "mutation", "datalog.go",
     "	return v.Equal(*existing)\n}\n\nfunc (m MatchedVariables) Complete()",
     "	same := v.Equal(*existing)\n	m[k] = &v\n	return same\n}\n\nfunc (m MatchedVariables) Complete()", "go_MatchedVariables_Insert_eq"),
    ("GU1_copy_of_the_local_set_is_refused", "unsupported", "symbol.go",
     """	for _, os := range *other {
		if _, ok := m[os]; ok {""",
     """	alias := m
	_ = alias
	for _, os := range *other {
		if _, ok := m[os]; ok {""", None),
    ("GU2_assignment_to_the_variable_whose_address_is_stored_is_refused", "unsupported", "datalog.go",
     "		m[k] = &v\n		return true",
     "		m[k] = &v\n		v = Integer(0)\n		return true", None),
    ("U1_unsupported_construct_is_refused", "unsupported", "symbol.go",
     '''	*t = append(*t, s)

	return String(OFFSET + len(*t) - 1)''',
     '''	*t = append(*t, s)
	defer func() {}()

	return String(OFFSET + len(*t) - 1)''', None),
]


def sh(cmd, **kw):
    return subprocess.run(cmd, stdout=subprocess.PIPE, stderr=subprocess.STDOUT, text=True, **kw)


BASE = SCRATCH + "_base"


def pristine_datalog(dst):
    """the committed datalog package (HEAD), independent of the working tree of /repo"""
    os.makedirs(dst)
    ar = subprocess.run(["git", "-C", REPO, "archive", "HEAD", "datalog", "go.mod"], stdout=subprocess.PIPE, check=True)
    subprocess.run(["tar", "-x", "-C", dst], input=ar.stdout, check=True)


NEEDED = ["Base", "Term", "Expr", "DTerm", "Symbols", "Datalog", "Authz", "Wire", "Token", "DEval", "GoSem", "Odometer", "Printer"]
# a private GoSem.v (stage E adds set_idx / down_loop to the prelude) replaces the committed one in the private base
GOSEM = os.environ.get("GENFN_GOSEM", "")
# model files that are not committed yet (stage G: Model/GoMap.v), comma separated: copied into the private base
EXTRA_MODEL = [x for x in os.environ.get("GENFN_EXTRA_MODEL", "").split(",") if x]


def snapshot_base():
    """private base, COMPILED HERE from the committed sources (git HEAD of /verif:
    coq/Model/*.v; coq/Generated.v regenerated by /verif/build/gen from git HEAD of /repo): other agents rebuild /verif/coq while they test,
    so its .vo files cannot be relied on.  Only the dependency closure of what
    GenFnProofs.v imports is compiled."""
    shutil.rmtree(BASE, ignore_errors=True)
    os.makedirs(BASE)
    ar = subprocess.run(["git", "-C", VERIF, "archive", "HEAD", "coq/Model"], stdout=subprocess.PIPE, check=True)
    subprocess.run(["tar", "-x", "-C", BASE, "--strip-components=1", "--wildcards", "coq/Model/*.v"],
                   input=ar.stdout, check=True)
    if GOSEM:
        shutil.copy(GOSEM, os.path.join(BASE, "Model", "GoSem.v"))
    for x in EXTRA_MODEL:
        shutil.copy(x, os.path.join(BASE, "Model", os.path.basename(x)))
        NEEDED.append(os.path.basename(x)[:-2])
    if not EXTRA_MODEL and os.path.exists(os.path.join(BASE, "Model", "GoMap.v")):
        NEEDED.append("GoMap")
    # coq/Generated.v is not tracked: regenerate it with /verif/build/gen from the COMMITTED /repo
    head = os.path.join(BASE, "repo_head")
    os.makedirs(head)
    ar = subprocess.run(["git", "-C", REPO, "archive", "HEAD"], stdout=subprocess.PIPE, check=True)
    subprocess.run(["tar", "-x", "-C", head], input=ar.stdout, check=True)
    r = sh([os.path.join(VERIF, "build", "gen"), head, os.path.join(BASE, "Generated.v")])
    if r.returncode != 0:
        print("cannot build the private base: gen failed\n" + r.stdout[-600:])
        sys.exit(2)
    shutil.rmtree(head)
    files = ["Generated.v"] + sorted("Model/" + f for f in os.listdir(os.path.join(BASE, "Model")) if f.endswith(".v"))
    dep = sh(["coqdep", "-Q", ".", "BV"] + files, cwd=BASE).stdout
    deps = {}
    for line in dep.splitlines():
        if ":" not in line:
            continue
        left, right = line.split(":", 1)
        tgt = [x for x in left.split() if x.endswith(".vo")]
        if not tgt:
            continue
        deps[tgt[0]] = [x for x in right.split() if x.endswith(".vo")]
    order, seen = [], set()

    def visit(vo):
        if vo in seen:
            return
        seen.add(vo)
        for d in deps.get(vo, []):
            visit(d)
        order.append(vo)

    for n in NEEDED:
        visit("Model/" + n + ".vo")
    t0 = time.time()
    for vo in order:
        r = sh(["timeout", "900", "coqc", "-Q", ".", "BV", vo[:-1]], cwd=BASE)
        if r.returncode != 0:
            print("cannot build the private base: " + vo + "\n" + r.stdout[-600:])
            sys.exit(2)
    print(f"private base: {len(order)} files of /verif HEAD compiled in {time.time() - t0:.0f}s")


def theorem_at(path, line):
    """name of the Theorem/Lemma/Example whose proof contains the given line"""
    name = None
    with open(path) as f:
        for i, l in enumerate(f, 1):
            m = re.match(r"\s*(Theorem|Lemma|Example)\s+(\w+)", l)
            if m:
                name = m.group(2)
            if i >= line:
                break
    return name


def main():
    want = sys.argv[1:]
    env = dict(os.environ, GOFLAGS="-mod=mod", GOPROXY="off", GOSUMDB="off", GOTOOLCHAIN="local")
    r = sh(["go", "build", "-o", GENFN, "."], cwd=GENFN_SRC, env=env)
    if r.returncode != 0:
        print(r.stdout)
        sys.exit(2)
    results = []
    ok_all = True
    dirty = sh(["git", "-C", REPO, "status", "--short", "datalog"]).stdout.strip()
    if dirty:
        print("note: the working tree of /repo differs from HEAD (ignored, HEAD is used):\n  " + dirty.replace("\n", "\n  "))
    snapshot_base()
    try:
        for name, kind, fname, old, new, expect_fail in CASES:
            if want and name not in want and name != "R0_unmodified_baseline":
                continue
            stage_d = name.startswith("D")
            stage_e = name.startswith("E")
            stage_f = name.startswith("F")
            stage_g = name.startswith("G")
            shutil.rmtree(SCRATCH, ignore_errors=True)
            os.makedirs(os.path.join(SCRATCH, "coq"))
            pristine_datalog(os.path.join(SCRATCH, "repo"))
            p = os.path.join(SCRATCH, "repo", "datalog", fname)
            src = open(p).read()
            # one edit (old, new), or a list of (old, new) pairs applied in order
            pairs = old if isinstance(old, list) else ([] if old == "" and new == "" else [(old, new)])
            bad = False
            for a, b2 in pairs:
                if src.count(a) != 1:
                    print(f"{name}: the text to replace occurs {src.count(a)} times in {fname}: {a[:60]!r}")
                    bad = True
                    break
                src = src.replace(a, b2)
            if bad:
                ok_all = False
                continue
            open(p, "w").write(src)
            if kind != "unsupported":
                # the edited package must still compile as Go
                r = sh(["go", "build", "./datalog/"], cwd=os.path.join(SCRATCH, "repo"), env=env)
                if r.returncode != 0:
                    print(f"{name}: the edited package does not compile:\n{r.stdout}")
                    ok_all = False
                    continue
            t0 = time.time()
            gen = os.path.join(SCRATCH, "coq", "GeneratedFn.v")
            r = sh([GENFN] + (["-all"] if stage_d else []) + [os.path.join(SCRATCH, "repo"), gen])
            tgen = time.time() - t0
            if kind == "unsupported":
                good = r.returncode != 0 and "unsupported construct" in r.stdout
                results.append((name, kind, "refused" if good else "NOT refused", r.stdout.strip().replace(SCRATCH + "/repo/", ""), good))
                ok_all &= good
                continue
            if r.returncode != 0:
                results.append((name, kind, "genfn FAILED", r.stdout.strip(), False))
                ok_all = False
                continue
            proofs = open(os.path.join(PROOFS, "GenFnProofs.v")).read()
            proofs = proofs.replace("From BV Require Import GeneratedFn.", "From BVS Require Import GeneratedFn.")
            pp = os.path.join(SCRATCH, "coq", "GenFnProofs.v")
            open(pp, "w").write(proofs)
            args = ["-Q", BASE, "BV", "-Q", os.path.join(SCRATCH, "coq"), "BVS"]
            r1 = sh(["timeout", "900", "coqc"] + args + [gen])
            if r1.returncode != 0:
                env_err = "inconsistent assumptions" in r1.stdout
                results.append((name, kind, "ENVIRONMENT: the snapshot of /verif/coq is not consistent" if env_err
                                else "GeneratedFn.v does not compile", r1.stdout.strip()[-400:], False))
                ok_all = False
                if env_err:
                    break
                continue
            t0 = time.time()
            r2 = sh(["timeout", "1800", "coqc"] + args + [pp])
            if stage_d and r2.returncode == 0:
                # stage D: the stack machine, proved in GenFnEvalProofs.v against the same regenerated definitions
                proofs = open(os.path.join(PROOFS, "GenFnEvalProofs.v")).read()
                proofs = proofs.replace("From BV Require Import GeneratedFn GenFnProofs.", "From BVS Require Import GeneratedFn GenFnProofs.")
                pp = os.path.join(SCRATCH, "coq", "GenFnEvalProofs.v")
                open(pp, "w").write(proofs)
                r2 = sh(["timeout", "1800", "coqc"] + args + [pp])
            if stage_e and r2.returncode == 0:
                # stage E: GenFnSetProofs.v (go_Term_Equal_eq, loop lemmas), then GenFnDatalogProofs.v
                for fn, imp in (("GenFnSetProofs.v", "From BV Require Import GeneratedFn GenFnProofs."),
                                ("GenFnDatalogProofs.v", "From BV Require Import GeneratedFn GenFnProofs GenFnSetProofs.")):
                    proofs = open(os.path.join(PROOFS, fn)).read()
                    assert imp in proofs, fn
                    proofs = proofs.replace(imp, imp.replace("From BV ", "From BVS "))
                    pp = os.path.join(SCRATCH, "coq", fn)
                    open(pp, "w").write(proofs)
                    r2 = sh(["timeout", "1800", "coqc"] + args + [pp])
                    if r2.returncode != 0:
                        break
            if stage_f and r2.returncode == 0:
                # stage F: GenFnEvalProofs.v (slice lemmas), then GenFnPrintProofs.v
                for fn, imp in (("GenFnEvalProofs.v", "From BV Require Import GeneratedFn GenFnProofs."),
                                ("GenFnPrintProofs.v", "From BV Require Import GeneratedFn GenFnProofs GenFnEvalProofs.")):
                    proofs = open(os.path.join(PROOFS, fn)).read()
                    assert imp in proofs, fn
                    proofs = proofs.replace(imp, imp.replace("From BV ", "From BVS "))
                    pp = os.path.join(SCRATCH, "coq", fn)
                    open(pp, "w").write(proofs)
                    r2 = sh(["timeout", "1800", "coqc"] + args + [pp])
                    if r2.returncode != 0:
                        break
            if stage_g and r2.returncode == 0:
                # stage G: GenFnSetProofs.v (go_Term_Equal_eq, loop lemmas), then GenFnMapProofs.v
                for fn, imp in (("GenFnSetProofs.v", "From BV Require Import GeneratedFn GenFnProofs."),
                                ("GenFnMapProofs.v", "From BV Require Import GeneratedFn GenFnProofs GenFnSetProofs.")):
                    proofs = open(os.path.join(PROOFS, fn)).read()
                    assert imp in proofs, fn
                    proofs = proofs.replace(imp, imp.replace("From BV ", "From BVS "))
                    pp = os.path.join(SCRATCH, "coq", fn)
                    open(pp, "w").write(proofs)
                    r2 = sh(["timeout", "1800", "coqc"] + args + [pp])
                    if r2.returncode != 0:
                        break
            tcoq = time.time() - t0
            passed = r2.returncode == 0 and "Closed under the global context" in r2.stdout
            if "inconsistent assumptions" in r1.stdout + r2.stdout or "Cannot find a physical path" in r2.stdout:
                results.append((name, kind, "ENVIRONMENT: the snapshot of /verif/coq is not consistent", r2.stdout.strip()[-400:], False))
                ok_all = False
                break
            if name in ("R0_unmodified_baseline", "D0_unmodified_baseline_all") and not passed:
                results.append((name, kind, "ENVIRONMENT or script: the unmodified source does not pass; no verdict below would mean anything",
                                r2.stdout.strip()[-600:], False))
                ok_all = False
                break
            where = ""
            if not passed:
                m = re.search(r'line (\d+), characters', r2.stdout)
                if m:
                    where = theorem_at(pp, int(m.group(1))) or ""
            if kind == "harmless":
                good = passed
                verdict = "translated, proofs PASS" if passed else f"proofs FAIL in {where}"
            else:
                good = (not passed) and where == expect_fail
                verdict = f"translated, proofs FAIL in {where}" if not passed else "proofs still PASS"
            ok_all &= good
            if kind == "mutation" and not passed and where != expect_fail:
                verdict += f" -- EXPECTED the failure in {expect_fail}"
            results.append((name, kind, verdict + f" (genfn {tgen:.2f}s, coqc {tcoq:.0f}s)", "" if good else r2.stdout.strip()[-600:], good))
    finally:
        shutil.rmtree(SCRATCH, ignore_errors=True)
        shutil.rmtree(BASE, ignore_errors=True)
    for name, kind, verdict, detail, good in results:
        print(f"{'ok ' if good else '?? '}{kind:11s} {name}: {verdict}")
        if detail:
            print("      " + detail.replace("\n", "\n      "))
    print("SELF-TEST " + ("OK" if ok_all else "NOT OK"))
    sys.exit(0 if ok_all else 1)


if __name__ == "__main__":
    main()
