// genfn translates the Go source text of selected functions of
// <repo>/datalog to Gallina definitions over the prelude coq/Model/GoSem.v.
//
// usage: genfn [-all] <repo root> <output .v>
//
// The translation is syntax-directed over a documented subset of Go
// (/verif/notes/GENFN.md).  A construct outside the subset is an error that
// names file, line, function and construct; nothing is skipped or guessed.
package main

import (
	"fmt"
	"os"
	"path/filepath"
	"strings"
)

// whitelist: the functions whose translation is requested, in order.  Their
// callees in the package are translated too, before them.
var whitelist = []string{
	// (A) datalog/symbol.go
	"SymbolTable.Str", "SymbolTable.Var", "SymbolTable.Sym", "SymbolTable.Insert",
	"SymbolTable.Extend", "SymbolTable.SplitOff", "SymbolTable.Clone", "SymbolTable.Len",
	// (B) datalog/expressions.go: integers and booleans
	"Add.Eval", "Sub.Eval", "Mul.Eval", "Div.Eval",
	"LessThan.Eval", "LessOrEqual.Eval", "GreaterThan.Eval", "GreaterOrEqual.Eval",
	"And.Eval", "Or.Eval", "Negate.Eval", "Parens.Eval",
	// (C) strings through the table
	"Length.Eval", "Prefix.Eval", "Suffix.Eval", "Regex.Eval",
}

// the set operators (equality theorems in Proofs/GenFnSetProofs.v); part of the default
// run since the fourth build session (the flag -all is kept and now changes nothing)
var unproved = []string{
	"Equal.Eval", "Contains.Eval", "Intersection.Eval", "Union.Eval",
}

// (D) the expression stack machine (with its callees stack.Push/Pop, the dispatch
// over Op / UnaryOpFunc / BinaryOpFunc, hence all 17 binary operators); equality theorem in
// Proofs/GenFnEvalProofs.v
var stageD = []string{
	"Expression.Evaluate",
}

// (E) datalog/datalog.go: predicates, fact sets, the carry step of the join odometer;
// equality theorems in Proofs/GenFnDatalogProofs.v
var stageE = []string{
	"Predicate.Equal", "Predicate.Match",
	"FactSet.Insert", "FactSet.InsertAll", "FactSet.Equal",
	"advanceIndexes",
}

// (F) the remaining symbol-table functions and the expression printer; equality theorems in
// Proofs/GenFnPrintProofs.v
var stageF = []string{
	"SymbolTable.Index", // SymbolTable.IsDisjoint: NOT translated (map[string]struct{} is outside the subset)
	"stringstack.Push", "stringstack.Pop", "UnaryOp.Print", "BinaryOp.Print",
	"Expression.Print",
}

// (G) maps with writes; equality theorems in Proofs/GenFnMapProofs.v.
// MatchedVariables.Complete is NOT translated: it ranges over the map and tests v == nil, and the
// representation of map[Variable]*Term (the keys with a non-nil value only) cannot express it.
var stageG = []string{
	"SymbolTable.IsDisjoint", "MatchedVariables.Insert",
}

// (H) the predicate / rule / check printers of datalog/symbol.go; equality theorems in
// Proofs/GenFnPrintPredProofs.v
var stageH = []string{
	"SymbolDebugger.Predicate", "SymbolDebugger.Expression", "SymbolDebugger.CheckQuery",
	"SymbolDebugger.Rule", "SymbolDebugger.Check",
}

func main() {
	args := os.Args[1:]
	whitelist = append(whitelist, unproved...)
	whitelist = append(whitelist, stageD...)
	whitelist = append(whitelist, stageE...)
	whitelist = append(whitelist, stageF...)
	whitelist = append(whitelist, stageG...)
	whitelist = append(whitelist, stageH...)
	if len(args) > 0 && args[0] == "-all" {
		args = args[1:]
	}
	if len(args) != 2 {
		fmt.Fprintln(os.Stderr, "usage: genfn [-all] <repo root> <output .v>")
		os.Exit(2)
	}
	root, outPath := args[0], args[1]
	p := loadPkg(filepath.Join(root, "datalog"))
	tr := &Tr{p: p, infos: map[string]*FuncInfo{}, state: map[string]int{}, emitted: map[string]bool{},
		mutMemo: map[string][]bool{}, rxMemo: map[string]int{}, tstrMemo: map[string]int{}}
	var failure *transError
	func() {
		defer func() {
			if r := recover(); r != nil {
				if te, ok := r.(transError); ok {
					failure = &te
					return
				}
				panic(r)
			}
		}()
		for _, key := range whitelist {
			if _, ok := p.funcs[key]; !ok {
				panic(transError{fmt.Sprintf("%s: function %s: not found in the package", filepath.Join(root, "datalog"), key)})
			}
			tr.translate(key, p.funcs[key])
		}
	}()
	if failure != nil {
		fmt.Fprintln(os.Stderr, "genfn: "+failure.msg)
		os.Exit(1)
	}
	var b strings.Builder
	b.WriteString("(* GeneratedFn.v — written by /verif/genfn from the Go source text of <repo>/datalog on every run.\n")
	b.WriteString("   DO NOT EDIT.  One Definition per translated function, callees first. *)\n")
	b.WriteString("From BV Require Import Base Term Expr DTerm Symbols GoSem.\n")
	if tr.needDEval {
		b.WriteString("From BV Require Import DEval. (* dbindings, dlookup: the representation of map[Variable]*Term *)\n")
	}
	if tr.needGoMap {
		b.WriteString("From BV Require Import GoMap. (* strset_empty/add/mem: map[string]struct{}; map_set: the write m[k] = &v *)\n")
	}
	if tr.needPrinter {
		b.WriteString("From BV Require Printer. (* Printer.join: strings.Join *)\n")
	}
	b.WriteString("\n")
	b.WriteString("Definition genfn_whitelist : list (list N) := (* names of the requested functions *)\n  [")
	for i, k := range whitelist {
		if i > 0 {
			b.WriteString(";\n   ")
		}
		b.WriteString(bytesLit(k) + " (* " + k + " *)")
	}
	b.WriteString("].\n\n")
	for _, item := range tr.out {
		b.WriteString(item)
		b.WriteString("\n")
	}
	tmp := outPath + ".tmp"
	if err := os.WriteFile(tmp, []byte(b.String()), 0o644); err != nil {
		fatal("%v", err)
	}
	if err := os.Rename(tmp, outPath); err != nil {
		fatal("%v", err)
	}
	fmt.Printf("genfn: %d definitions written to %s\n", len(tr.out), outPath)
}
