package main

import (
	"fmt"
	"go/ast"
	"go/token"
	"math/big"
	"strconv"
	"strings"
)

// ---------- environments ----------

// Binding is one declared Go variable (parameter or local).
type Binding struct {
	goName    string
	typ       *T
	depth     int
	ptrParam  bool // pointer parameter whose pointee is threaded
	ptrLocal  bool // local pointer to a fresh allocation (x := &T{...}): the only name of its pointee, threaded like a pointer parameter
	madeAt    ast.Stmt
	madeHere  bool // a local map initialised by make(...) in its declaration: the only name of that map
	madeSlice bool // stage H: a local slice declared by x := make([]T, n): element assignment x[i] = v is allowed when x has no other name (checkLocalElemWrites)
}

// Val is the translation of a Go expression: a total, pure Gallina term.
type Val struct {
	term     string
	typ      *T
	cst      *big.Int // integer constant
	poison   string   // non-empty: the value must not be used (reason)
	fresh    bool     // a pointer to a fresh allocation (&T{...}); term is the pointee
	nilState int      // a pointer read out of a map: 1 = known nil, 2 = known non-nil (term is the pointee)
}

type loopCtx struct {
	carried []*Binding
}

type Env struct {
	scope    map[string]*Binding
	val      map[*Binding]Val
	depth    int
	loop     *loopCtx
	inSwitch bool
}

func (e *Env) clone() *Env {
	n := &Env{scope: make(map[string]*Binding, len(e.scope)), val: make(map[*Binding]Val, len(e.val)),
		depth: e.depth, loop: e.loop, inSwitch: e.inSwitch}
	for k, v := range e.scope {
		n.scope[k] = v
	}
	for k, v := range e.val {
		n.val[k] = v
	}
	return n
}

func (e *Env) push() *Env {
	n := e.clone()
	n.depth++
	return n
}

// popTo leaves a block: the scope of outer, the current values.
func (e *Env) popTo(outer *Env) *Env {
	n := outer.clone()
	for b := range outer.val {
		if v, ok := e.val[b]; ok {
			n.val[b] = v
		}
	}
	return n
}

func (e *Env) set(b *Binding, v Val) *Env {
	n := e.clone()
	n.val[b] = v
	return n
}

func (e *Env) declare(b *Binding, v Val) *Env {
	n := e.clone()
	n.scope[b.goName] = b
	n.val[b] = v
	return n
}

// ---------- functions ----------

type retKind int

const (
	RUnit retKind = iota
	RVal
	RValErr
	RErr
	RTuple
)

type Param struct {
	goName string
	typ    *T
	blank  bool
}

type FuncInfo struct {
	key      string
	coqName  string
	decl     *ast.FuncDecl
	params   []*Param
	results  []*T
	mutates  []bool
	usesRx   bool
	usesTstr bool // Term.String() through the interface: the oracle tstr : dterm -> bytes
	rk       retKind
	payload  string
	fullRet  string
	dispatch bool
}

type Tr struct {
	p           *Pkg
	needDEval   bool // a map[Variable]*Term was translated: dbindings / dlookup of Model/DEval.v
	needGoMap   bool // a map write or a set of strings was translated: Model/GoMap.v
	needPrinter bool // strings.Join was translated: Printer.join (Model/Printer.v)
	infos       map[string]*FuncInfo
	state       map[string]int // 1 = in progress, 2 = done
	out         []string       // emitted items, in dependency order
	emitted     map[string]bool
	mutMemo     map[string][]bool
	rxMemo      map[string]int
	tstrMemo    map[string]int
	// per function
	fn      *FuncInfo
	counter int
	pbind   []*Binding
}

func (tr *Tr) fail(n ast.Node, construct string, a ...interface{}) {
	fname := "<package level>"
	if tr.fn != nil {
		fname = tr.fn.key
	}
	panic(transError{fmt.Sprintf("%s: function %s: unsupported construct: %s",
		tr.p.pos(n), fname, fmt.Sprintf(construct, a...))})
}

func (tr *Tr) fresh(base string) string {
	tr.counter++
	base = strings.TrimLeft(base, "_")
	if base == "" {
		base = "x"
	}
	return fmt.Sprintf("%s_%d", base, tr.counter)
}

func ind(s string) string {
	return "  " + strings.ReplaceAll(s, "\n", "\n  ")
}

// ---------- signatures ----------

func (tr *Tr) resolveType(e ast.Expr) *T {
	t, err := tr.p.resolveTypeErr(e)
	if err != nil {
		tr.fail(e, "%v", err)
	}
	return t
}

func (tr *Tr) info(key string, at ast.Node) *FuncInfo {
	if fi, ok := tr.infos[key]; ok {
		return fi
	}
	d, ok := tr.p.funcs[key]
	if !ok {
		tr.fail(at, "call of %s, which is not a function of the package", key)
	}
	saved := tr.fn
	fi := &FuncInfo{key: key, decl: d, coqName: "go_" + strings.ReplaceAll(key, ".", "_")}
	tr.fn = fi
	defer func() { tr.fn = saved }()
	if d.Type.TypeParams != nil {
		tr.fail(d, "type parameters")
	}
	if d.Body == nil {
		tr.fail(d, "function without a body")
	}
	addParam := func(name string, t *T) {
		blank := name == "" || name == "_"
		fi.params = append(fi.params, &Param{goName: name, typ: t, blank: blank})
	}
	if d.Recv != nil {
		f := d.Recv.List[0]
		t := tr.resolveType(f.Type)
		name := ""
		if len(f.Names) == 1 {
			name = f.Names[0].Name
		}
		if !(t.K == KStruct || (t.K == KPtr && t.Elem.K == KStruct)) {
			addParam(name, t)
		} else if name != "" && name != "_" {
			// a struct{} receiver carries nothing; it may be named but not used as a value
			addParam(name, t)
		}
	}
	for _, f := range d.Type.Params.List {
		if _, ok := f.Type.(*ast.Ellipsis); ok {
			tr.fail(f, "variadic parameter")
		}
		t := tr.resolveType(f.Type)
		if len(f.Names) == 0 {
			addParam("", t)
		}
		for _, n := range f.Names {
			addParam(n.Name, t)
		}
	}
	if d.Type.Results != nil {
		for _, f := range d.Type.Results.List {
			if len(f.Names) > 0 {
				tr.fail(f, "named results")
			}
			fi.results = append(fi.results, tr.resolveType(f.Type))
		}
	}
	for _, p := range fi.params {
		if p.typ.K == KStrSet {
			tr.fail(d, "parameter of type map[string]struct{} (a set of strings is represented only as a local made by make)")
		}
	}
	for _, r := range fi.results {
		if r.K == KStrSet {
			tr.fail(d, "result of type map[string]struct{} (a set of strings is represented only as a local made by make)")
		}
	}
	fi.mutates = tr.mutatesOf(key)
	fi.usesRx = tr.usesRxOf(key)
	fi.usesTstr = tr.usesTstrOf(key)
	tr.finishSig(fi)
	tr.infos[key] = fi
	return fi
}

func (tr *Tr) finishSig(fi *FuncInfo) {
	rs := fi.results
	resT := func(t *T) string {
		if t.K == KPtr {
			return coqType(t.Elem)
		}
		return coqType(t)
	}
	switch {
	case len(rs) == 0:
		fi.rk, fi.payload = RUnit, "unit"
	case len(rs) == 1 && rs[0].K == KError:
		fi.rk, fi.payload = RErr, "unit"
	case len(rs) == 1:
		fi.rk, fi.payload = RVal, resT(rs[0])
		if rs[0].K == KIface {
			fi.payload = "option dterm"
		}
	case len(rs) == 2 && rs[1].K == KError && rs[0].K != KError:
		fi.rk, fi.payload = RValErr, resT(rs[0])
	default:
		fi.rk = RTuple
		var parts []string
		for _, r := range rs {
			if r.K == KError || r.K == KIface {
				tr.fail(fi.decl, "result list %v", rs)
			}
			parts = append(parts, resT(r))
		}
		fi.payload = "(" + strings.Join(parts, " * ") + ")"
	}
	fi.fullRet = "res " + paren(fi.payload)
	var muts []string
	for i, m := range fi.mutates {
		if m {
			muts = append(muts, coqType(fi.params[i].typ))
		}
	}
	if len(muts) > 0 {
		fi.fullRet = "(" + strings.Join(muts, " * ") + " * " + fi.fullRet + ")"
	}
}

// ---------- pre-passes: which pointer parameters are written, who needs rx ----------

func (tr *Tr) paramNames(d *ast.FuncDecl) []string {
	var names []string
	if d.Recv != nil {
		f := d.Recv.List[0]
		t, err := tr.p.resolveTypeErr(f.Type)
		isStruct := err == nil && (t.K == KStruct || (t.K == KPtr && t.Elem.K == KStruct))
		name := ""
		if len(f.Names) == 1 {
			name = f.Names[0].Name
		}
		if !isStruct || (name != "" && name != "_") {
			names = append(names, name)
		}
	}
	for _, f := range d.Type.Params.List {
		if len(f.Names) == 0 {
			names = append(names, "")
		}
		for _, n := range f.Names {
			names = append(names, n.Name)
		}
	}
	return names
}

// paramTypeExprs: the type expressions of the parameters, aligned with paramNames.
func (tr *Tr) paramTypeExprs(d *ast.FuncDecl) []ast.Expr {
	var out []ast.Expr
	if d.Recv != nil {
		f := d.Recv.List[0]
		t, err := tr.p.resolveTypeErr(f.Type)
		isStruct := err == nil && (t.K == KStruct || (t.K == KPtr && t.Elem.K == KStruct))
		name := ""
		if len(f.Names) == 1 {
			name = f.Names[0].Name
		}
		if !isStruct || (name != "" && name != "_") {
			out = append(out, f.Type)
		}
	}
	for _, f := range d.Type.Params.List {
		n := len(f.Names)
		if n == 0 {
			n = 1
		}
		for j := 0; j < n; j++ {
			out = append(out, f.Type)
		}
	}
	return out
}

// isMapParam: parameter idx is a map[Variable]*Term (a reference: a write m[k] = v in the
// function is visible to the caller, so the new map is returned beside the result).
func (tr *Tr) isMapParam(d *ast.FuncDecl, idx int) bool {
	ts := tr.paramTypeExprs(d)
	if idx >= len(ts) {
		return false
	}
	t, err := tr.p.resolveTypeErr(ts[idx])
	return err == nil && t.K == KMap
}

func (tr *Tr) isPtrParam(d *ast.FuncDecl, idx int) bool {
	i := 0
	check := func(e ast.Expr) bool {
		t, err := tr.p.resolveTypeErr(e)
		return err == nil && t.K == KPtr && t.Elem.K != KStruct
	}
	names := tr.paramNames(d)
	_ = names
	if d.Recv != nil {
		f := d.Recv.List[0]
		t, err := tr.p.resolveTypeErr(f.Type)
		isStruct := err == nil && (t.K == KStruct || (t.K == KPtr && t.Elem.K == KStruct))
		name := ""
		if len(f.Names) == 1 {
			name = f.Names[0].Name
		}
		if !isStruct || (name != "" && name != "_") {
			if i == idx {
				return check(f.Type)
			}
			i++
		}
	}
	for _, f := range d.Type.Params.List {
		n := len(f.Names)
		if n == 0 {
			n = 1
		}
		for j := 0; j < n; j++ {
			if i == idx {
				return check(f.Type)
			}
			i++
		}
	}
	return false
}

// candidates returns the functions a call may reach, found by name only (an
// over-approximation that needs no type information).
func (tr *Tr) candidates(call *ast.CallExpr) (keys []string, recvArg ast.Expr) {
	switch f := call.Fun.(type) {
	case *ast.Ident:
		if _, ok := tr.p.funcs[f.Name]; ok {
			return []string{f.Name}, nil
		}
	case *ast.SelectorExpr:
		if x, ok := f.X.(*ast.Ident); ok {
			switch x.Name {
			case "fmt", "strings", "errors", "big", "regexp", "math", "bytes", "sort":
				if _, shadow := tr.p.funcs[x.Name]; !shadow {
					return nil, nil
				}
			}
		}
		for k := range tr.p.funcs {
			if i := strings.Index(k, "."); i >= 0 && k[i+1:] == f.Sel.Name {
				keys = append(keys, k)
			}
		}
		return keys, f.X
	}
	return nil, nil
}

func (tr *Tr) mutatesOf(key string) []bool {
	if m, ok := tr.mutMemo[key]; ok {
		return m
	}
	d := tr.p.funcs[key]
	names := tr.paramNames(d)
	res := make([]bool, len(names))
	tr.mutMemo[key] = res // recursion: assume no mutation, fixed below by the recursion check of translation
	idxOf := func(e ast.Expr) int {
		for {
			if pe, ok := e.(*ast.ParenExpr); ok {
				e = pe.X
				continue
			}
			break
		}
		id, ok := e.(*ast.Ident)
		if !ok {
			return -1
		}
		for i, n := range names {
			if n != "" && n == id.Name && tr.isPtrParam(d, i) {
				return i
			}
		}
		return -1
	}
	// the pointer written by an assignment to l: *p = v, (*p)[i] = v
	written := func(l ast.Expr) ast.Expr {
		l = unparen(l)
		if ix, ok := l.(*ast.IndexExpr); ok {
			l = unparen(ix.X)
		}
		if s, ok := l.(*ast.StarExpr); ok {
			return s.X
		}
		return nil
	}
	ast.Inspect(d.Body, func(n ast.Node) bool {
		switch n := n.(type) {
		case *ast.AssignStmt:
			for _, l := range n.Lhs {
				if x := written(l); x != nil {
					if i := idxOf(x); i >= 0 {
						res[i] = true
					}
				}
				// m[k] = v on a map parameter
				if ix, ok := unparen(l).(*ast.IndexExpr); ok {
					if id, ok := unparen(ix.X).(*ast.Ident); ok {
						for i, pn := range names {
							if pn != "" && pn == id.Name && tr.isMapParam(d, i) {
								res[i] = true
							}
						}
					}
				}
			}
		case *ast.IncDecStmt:
			if x := written(n.X); x != nil {
				if i := idxOf(x); i >= 0 {
					res[i] = true
				}
			}
		case *ast.CallExpr:
			keys, recv := tr.candidates(n)
			for _, k := range keys {
				cd := tr.p.funcs[k]
				cm := tr.mutatesOf(k)
				cn := tr.paramNames(cd)
				off := 0
				if cd.Recv != nil && len(cn) == len(n.Args)+1 {
					off = 1
					if recv != nil && cm[0] {
						if i := idxOf(recv); i >= 0 {
							res[i] = true
						}
					}
				}
				if len(cn) != len(n.Args)+off {
					continue
				}
				for j, a := range n.Args {
					if cm[j+off] {
						if i := idxOf(a); i >= 0 {
							res[i] = true
						}
					}
				}
			}
		}
		return true
	})
	return res
}

func (tr *Tr) usesRxOf(key string) bool {
	if v, ok := tr.rxMemo[key]; ok {
		return v == 1
	}
	tr.rxMemo[key] = 0
	d := tr.p.funcs[key]
	uses := false
	ast.Inspect(d.Body, func(n ast.Node) bool {
		switch n := n.(type) {
		case *ast.SelectorExpr:
			if x, ok := n.X.(*ast.Ident); ok && x.Name == "regexp" {
				uses = true
			}
		case *ast.CallExpr:
			keys, _ := tr.candidates(n)
			for _, k := range keys {
				if tr.usesRxOf(k) {
					uses = true
				}
			}
		}
		return true
	})
	if uses {
		tr.rxMemo[key] = 1
	}
	return uses
}

// usesTstrOf: the function (or, by name, a function it may call) contains a call x.String() without
// arguments on something that is not a package name.  An over-approximation made before types are
// known; the translation of the call itself (exprs.go) decides: only String() through the interface
// Term becomes the oracle `tstr`, every other String() is translated as a method or refused.
func (tr *Tr) usesTstrOf(key string) bool {
	if v, ok := tr.tstrMemo[key]; ok {
		return v == 1
	}
	tr.tstrMemo[key] = 0
	d := tr.p.funcs[key]
	uses := false
	ast.Inspect(d.Body, func(n ast.Node) bool {
		if c, ok := n.(*ast.CallExpr); ok {
			if f, ok := c.Fun.(*ast.SelectorExpr); ok && f.Sel.Name == "String" && len(c.Args) == 0 {
				uses = true
			}
			// stage H: fmt.Sprintf("...%v...", x) / %s where the operand x is a variable bound by the
			// value of a range clause or by a comma-ok type assertion's operand ... decided with types
			// in exprs.go; here (before types) the over-approximation is: the operand of a %v / %s verb
			// is a plain identifier that is the VALUE variable of an enclosing range statement of this
			// function (tstrSprintfOperand).
			if tr.tstrSprintfOperand(d, c) {
				uses = true
			}
			keys, _ := tr.candidates(c)
			for _, k := range keys {
				if tr.usesTstrOf(k) {
					uses = true
				}
			}
		}
		return true
	})
	if uses {
		tr.tstrMemo[key] = 1
	}
	return uses
}

// tstrSprintfOperand: c is fmt.Sprintf(lit, args...) and some %v / %s verb of lit has as operand a
// plain identifier naming the value variable of a range statement of d whose range expression is a
// selector ending in a field named Terms or an identifier/selector of a []Term-typed struct field
// cannot be known before types: so every range VALUE variable counts.  exprs.go then decides with
// types: the operand becomes `tstr x` only when it has the interface type Term; otherwise the
// function merely carries an unused parameter tstr (never a wrong translation).
func (tr *Tr) tstrSprintfOperand(d *ast.FuncDecl, c *ast.CallExpr) bool {
	f, ok := c.Fun.(*ast.SelectorExpr)
	if !ok || exprStr(f) != "fmt.Sprintf" || len(c.Args) < 2 {
		return false
	}
	lit, ok := unparen(c.Args[0]).(*ast.BasicLit)
	if !ok || lit.Kind != token.STRING {
		return false
	}
	format, err := strconv.Unquote(lit.Value)
	if err != nil {
		return false
	}
	verbs := parseVerbs(format)
	rangeVals := map[string]bool{}
	ast.Inspect(d.Body, func(n ast.Node) bool {
		if r, ok := n.(*ast.RangeStmt); ok && r.Value != nil {
			if id, ok := r.Value.(*ast.Ident); ok && id.Name != "_" {
				rangeVals[id.Name] = true
			}
		}
		return true
	})
	ai := 0
	for _, v := range verbs {
		if v.verb == 0 {
			continue
		}
		if ai+1 < len(c.Args) && (v.verb == 'v' || v.verb == 's') {
			if id, ok := unparen(c.Args[ai+1]).(*ast.Ident); ok && rangeVals[id.Name] {
				return true
			}
		}
		ai++
	}
	return false
}

// ---------- translation of one function ----------

func (tr *Tr) translate(key string, at ast.Node) *FuncInfo {
	fi := tr.info(key, at)
	switch tr.state[key] {
	case 2:
		return fi
	case 1:
		tr.fail(at, "recursive call of %s", key)
	}
	tr.state[key] = 1
	savedFn, savedCounter, savedPbind := tr.fn, tr.counter, tr.pbind
	tr.fn, tr.counter, tr.pbind = fi, 0, nil
	defer func() { tr.fn, tr.counter, tr.pbind = savedFn, savedCounter, savedPbind }()

	env := &Env{scope: map[string]*Binding{}, val: map[*Binding]Val{}}
	var sig []string
	if fi.usesRx {
		sig = append(sig, "(rx : bytes -> bytes -> option bool)")
	}
	if fi.usesTstr {
		sig = append(sig, "(tstr : dterm -> bytes)")
	}
	for i, p := range fi.params {
		cn := tr.fresh(p.goName)
		if p.blank {
			cn = tr.fresh("unused")
		}
		sig = append(sig, fmt.Sprintf("(%s : %s)", cn, coqType(p.typ)))
		b := &Binding{goName: p.goName, typ: p.typ, depth: 0}
		if p.typ.K == KPtr {
			b.ptrParam = true
		}
		tr.pbind = append(tr.pbind, b)
		if !p.blank {
			env.scope[p.goName] = b
		}
		env.val[b] = Val{term: cn, typ: p.typ}
		_ = i
	}
	body := tr.stmts(fi.decl.Body.List, env.push(), func(e *Env) string {
		if fi.rk != RUnit {
			tr.fail(fi.decl, "control reaches the end of a function with results")
		}
		return tr.ret(e, "Ok tt")
	})
	text := fmt.Sprintf("(* %s: func %s *)\nDefinition %s %s : %s :=\n%s.\n#[global] Hint Unfold %s : go_fn.\n",
		tr.p.pos(fi.decl), fi.key, fi.coqName, strings.Join(sig, " "), fi.fullRet, ind(body), fi.coqName)
	tr.out = append(tr.out, text)
	tr.state[key] = 2
	return fi
}

// ret builds the function-level result from an outcome term of type res payload,
// at a point where the environment is env.
func (tr *Tr) ret(env *Env, outcome string) string {
	parts := []string{}
	for i, m := range tr.fn.mutates {
		if m {
			parts = append(parts, env.val[tr.pbind[i]].term)
		}
	}
	t := outcome
	if len(parts) > 0 {
		t = "(" + strings.Join(parts, ", ") + ", " + outcome + ")"
	}
	return tr.leave(env, t)
}

// leave wraps a function-level result when inside a loop body.
func (tr *Tr) leave(env *Env, fnResult string) string {
	if env.loop != nil {
		return "Done " + paren(fnResult)
	}
	return fnResult
}

func (tr *Tr) panicOut(env *Env, site string) string {
	return tr.ret(env, "Panic "+site)
}

// ---------- statements ----------

type cont func(env *Env) string

func (tr *Tr) stmts(list []ast.Stmt, env *Env, k cont) string {
	if len(list) == 0 {
		return k(env)
	}
	s := list[0]
	rest := func(e *Env) string { return tr.stmts(list[1:], e, k) }
	switch s := s.(type) {
	case *ast.EmptyStmt:
		return rest(env)
	case *ast.ReturnStmt:
		if len(list) > 1 {
			tr.fail(list[1], "statement after return")
		}
		return tr.returnStmt(s, env)
	case *ast.BlockStmt:
		return tr.stmts(s.List, env.push(), func(e *Env) string { return rest(e.popTo(env)) })
	case *ast.IfStmt:
		return tr.ifStmt(s, env, rest)
	case *ast.AssignStmt:
		var next ast.Stmt
		if len(list) > 1 {
			next = list[1]
		}
		return tr.assignStmt(s, env, next, rest)
	case *ast.DeclStmt:
		return tr.declStmt(s, env, rest)
	case *ast.IncDecStmt:
		op := token.ADD
		if s.Tok == token.DEC {
			op = token.SUB
		}
		return tr.assignOp(s, s.X, op, &ast.BasicLit{ValuePos: s.Pos(), Kind: token.INT, Value: "1"}, env, rest)
	case *ast.ExprStmt:
		return tr.exprStmt(s, env, rest)
	case *ast.SwitchStmt:
		return tr.switchStmt(s, env, rest)
	case *ast.TypeSwitchStmt:
		return tr.typeSwitchStmt(s, env, rest)
	case *ast.RangeStmt:
		return tr.rangeStmt(s, env, rest)
	case *ast.ForStmt:
		return tr.forStmt(s, env, rest)
	case *ast.BranchStmt:
		if s.Label != nil {
			tr.fail(s, "labelled %s", s.Tok)
		}
		if len(list) > 1 {
			tr.fail(list[1], "statement after %s", s.Tok)
		}
		switch s.Tok {
		case token.CONTINUE:
			if env.loop == nil {
				tr.fail(s, "continue outside a loop")
			}
			return "Continue " + tr.carriedTuple(env)
		case token.BREAK:
			if env.loop == nil || env.inSwitch {
				tr.fail(s, "break that does not leave a range loop directly")
			}
			return "Break " + tr.carriedTuple(env)
		}
		tr.fail(s, "%s statement", s.Tok)
	}
	tr.fail(s, "statement %T", s)
	return ""
}

func (tr *Tr) ifStmt(s *ast.IfStmt, env *Env, rest cont) string {
	inner := env.push()
	after := func(e *Env) string { return rest(e.popTo(env)) }
	body := func(e0 *Env) string {
		return tr.expr(s.Cond, e0, func(e1 *Env, c Val) string {
			c = tr.use(c, s.Cond)
			if c.typ.K != KBool {
				tr.fail(s.Cond, "condition of type %v", c.typ)
			}
			thenF := func() string {
				return tr.stmts(s.Body.List, e1.push(), func(e *Env) string { return after(e) })
			}
			elseF := func() string {
				if s.Else == nil {
					return after(e1)
				}
				return tr.stmts([]ast.Stmt{s.Else}, e1.push(), func(e *Env) string { return after(e) })
			}
			switch c.term {
			case "true":
				return thenF()
			case "false":
				return elseF()
			}
			return "if " + c.term + " then\n" + ind(thenF()) + "\nelse\n" + ind(elseF())
		})
	}
	if s.Init != nil {
		return tr.stmts([]ast.Stmt{s.Init}, inner, body)
	}
	return body(inner)
}

// use checks that a value may be read.
func (tr *Tr) use(v Val, at ast.Node) Val {
	if v.poison != "" {
		tr.fail(at, "use of a value that is not represented: %s", v.poison)
	}
	return v
}

func (tr *Tr) zero(t *T, at ast.Node) Val {
	switch {
	case t.isSigned():
		return Val{term: "0%Z", typ: t, cst: big.NewInt(0)}
	case t.isUnsigned():
		return Val{term: "0%N", typ: t, cst: big.NewInt(0)}
	case t.K == KBool:
		return Val{term: "false", typ: t}
	case t.K == KString, t.K == KSlice:
		return Val{term: "[]", typ: t}
	case t.K == KError:
		return Val{term: "None", typ: t}
	case t.K == KIface:
		return Val{term: "?", typ: t, poison: "nil Term (a variable declared without a value)"}
	case t.K == KBigInt, t.K == KRegexp, t.K == KPtr:
		return Val{term: "?", typ: t, poison: "nil pointer"}
	}
	tr.fail(at, "zero value of type %v", t)
	return Val{}
}

func (tr *Tr) declStmt(s *ast.DeclStmt, env *Env, rest cont) string {
	gd, ok := s.Decl.(*ast.GenDecl)
	if !ok || gd.Tok != token.VAR {
		tr.fail(s, "local declaration other than var")
	}
	var specs []*ast.ValueSpec
	for _, sp := range gd.Specs {
		specs = append(specs, sp.(*ast.ValueSpec))
	}
	var doSpec func(i int, e *Env) string
	doSpec = func(i int, e *Env) string {
		if i == len(specs) {
			return rest(e)
		}
		vs := specs[i]
		var dt *T
		if vs.Type != nil {
			dt = tr.resolveType(vs.Type)
		}
		if len(vs.Values) == 0 {
			for _, n := range vs.Names {
				b := &Binding{goName: n.Name, typ: dt, depth: e.depth}
				if n.Name == "_" {
					continue
				}
				e = e.declare(b, tr.zero(dt, vs))
			}
			return doSpec(i+1, e)
		}
		if len(vs.Values) != len(vs.Names) {
			tr.fail(vs, "var declaration with a multi-valued initialiser")
		}
		var doVal func(j int, e *Env, vals []Val) string
		doVal = func(j int, e *Env, vals []Val) string {
			if j == len(vs.Values) {
				return tr.bindAll(vs, identExprs(vs.Names), vals, true, dt, e, func(e2 *Env) string { return doSpec(i+1, e2) })
			}
			return tr.expr(vs.Values[j], e, func(e2 *Env, v Val) string {
				return doVal(j+1, e2, append(append([]Val{}, vals...), v))
			})
		}
		return doVal(0, e, nil)
	}
	return doSpec(0, env)
}

func identExprs(ids []*ast.Ident) []ast.Expr {
	var r []ast.Expr
	for _, i := range ids {
		r = append(r, i)
	}
	return r
}

// isAtomic: a term that needs no let.
func isAtomic(s string) bool {
	if s == "" {
		return false
	}
	for _, c := range s {
		if c == ' ' || c == '\n' || c == '(' {
			return false
		}
	}
	return true
}

func isKnown(v Val) bool {
	return isAtomic(v.term) || v.term == "[]" || strings.HasPrefix(v.term, "Some ") && isAtomic(v.term[5:]) || v.cst != nil
}

// bindAll performs lhs[i] (:)= vals[i] for all i (the values are already
// evaluated, so a parallel assignment is correct).
func (tr *Tr) bindAll(at ast.Node, lhs []ast.Expr, vals []Val, define bool, declT *T, env *Env, k cont) string {
	var lets []string
	e := env
	for i, l := range lhs {
		v := vals[i]
		// target
		var b *Binding
		isNew := false
		deref := false
		switch l := l.(type) {
		case *ast.Ident:
			if l.Name == "_" {
				continue
			}
			old, exists := e.scope[l.Name]
			if define && (!exists || old.depth != e.depth || old == nil) {
				isNew = true
			} else if !exists {
				tr.fail(l, "assignment to %s, which is not a local variable", l.Name)
			} else {
				b = old
			}
			if isNew {
				t := declT
				if t == nil {
					t = v.typ
					switch t.K {
					case KUntypedInt:
						t = tInt
					case KUntypedNil:
						tr.fail(l, "variable initialised with untyped nil")
					}
				}
				b = &Binding{goName: l.Name, typ: t, depth: e.depth}
				if v.fresh && t.K == KPtr {
					b.ptrLocal = true
				}
			}
		case *ast.StarExpr:
			id, ok := unparen(l.X).(*ast.Ident)
			if !ok {
				tr.fail(l, "assignment through a pointer expression")
			}
			pb, exists := e.scope[id.Name]
			if !exists || !(pb.ptrParam || pb.ptrLocal) {
				tr.fail(l, "assignment through %s, which is not a pointer parameter", id.Name)
			}
			if pb.ptrParam && !tr.isMutated(pb) {
				tr.fail(l, "internal: write through %s not found by the pre-pass", id.Name)
			}
			b = pb
			deref = true
		default:
			tr.fail(l, "assignment to %T", l)
		}
		target := b.typ
		if deref || b.ptrParam {
			target = b.typ.Elem
		}
		if !deref && !isNew && b.ptrLocal {
			tr.fail(l, "assignment to the pointer variable %s (aliasing is not represented)", b.goName)
		}
		if v.poison == "" {
			v = tr.coerce(v, target, at)
		} else {
			v.typ = target
		}
		nv := v
		nv.typ = b.typ
		nv.fresh = false
		if v.poison == "" && !isKnown(v) {
			name := tr.fresh(b.goName)
			lets = append(lets, fmt.Sprintf("let %s := %s in", name, v.term))
			nv.term = name
		}
		if isNew {
			e = e.declare(b, nv)
		} else {
			e = e.set(b, nv)
		}
	}
	body := k(e)
	if len(lets) == 0 {
		return body
	}
	return strings.Join(lets, "\n") + "\n" + body
}

func (tr *Tr) isMutated(b *Binding) bool {
	for i, pb := range tr.pbind {
		if pb == b {
			return tr.fn.mutates[i]
		}
	}
	return false
}

func unparen(e ast.Expr) ast.Expr {
	for {
		p, ok := e.(*ast.ParenExpr)
		if !ok {
			return e
		}
		e = p.X
	}
}

func (tr *Tr) assignStmt(s *ast.AssignStmt, env *Env, next ast.Stmt, rest cont) string {
	switch s.Tok {
	case token.DEFINE, token.ASSIGN:
	case token.ADD_ASSIGN, token.SUB_ASSIGN, token.MUL_ASSIGN, token.QUO_ASSIGN, token.REM_ASSIGN:
		ops := map[token.Token]token.Token{token.ADD_ASSIGN: token.ADD, token.SUB_ASSIGN: token.SUB,
			token.MUL_ASSIGN: token.MUL, token.QUO_ASSIGN: token.QUO, token.REM_ASSIGN: token.REM}
		if len(s.Lhs) != 1 || len(s.Rhs) != 1 {
			tr.fail(s, "compound assignment with several operands")
		}
		return tr.assignOp(s, s.Lhs[0], ops[s.Tok], s.Rhs[0], env, rest)
	default:
		tr.fail(s, "assignment operator %s", s.Tok)
	}
	define := s.Tok == token.DEFINE
	// (*p)[i] = v
	if len(s.Lhs) == 1 && len(s.Rhs) == 1 && !define {
		if ix, ok := unparen(s.Lhs[0]).(*ast.IndexExpr); ok {
			if id, ok := unparen(ix.X).(*ast.Ident); ok {
				if mb := env.scope[id.Name]; mb != nil && (mb.typ.K == KStrSet || mb.typ.K == KMap) {
					return tr.mapStore(s, ix, mb, env, rest)
				}
			}
			// Go: the index operand, then the right-hand side, then the store
			iv := tr.storeIndex(s, ix, env)
			return tr.expr(s.Rhs[0], env, func(e *Env, v Val) string {
				return tr.indexStore(s, ix, iv, v, e, rest)
			})
		}
	}
	// x, ok := v.(T)
	if len(s.Lhs) == 2 && len(s.Rhs) == 1 {
		if ta, ok := unparen(s.Rhs[0]).(*ast.TypeAssertExpr); ok && ta.Type != nil {
			return tr.commaOk(s, ta, define, env, rest)
		}
		if ix, ok := unparen(s.Rhs[0]).(*ast.IndexExpr); ok {
			return tr.commaOkMap(s, ix, define, env, rest)
		}
	}
	// multi-valued call
	if len(s.Rhs) == 1 && len(s.Lhs) > 1 {
		call, ok := unparen(s.Rhs[0]).(*ast.CallExpr)
		if !ok {
			tr.fail(s, "multi-valued right-hand side %T", s.Rhs[0])
		}
		return tr.callMulti(call, env, func(e *Env, vals []Val) string {
			if len(vals) != len(s.Lhs) {
				tr.fail(s, "assignment count mismatch")
			}
			return tr.bindAll(s, s.Lhs, vals, define, nil, e, rest)
		})
	}
	if len(s.Lhs) != len(s.Rhs) {
		tr.fail(s, "assignment count mismatch")
	}
	// aliasing checks and the make marker
	for i, r := range s.Rhs {
		if c, ok := unparen(r).(*ast.CallExpr); ok {
			if id, ok := c.Fun.(*ast.Ident); ok && id.Name == "make" {
				if lid, ok := s.Lhs[i].(*ast.Ident); ok && define && len(s.Lhs) == 1 {
					_ = lid
				}
			}
		}
	}
	var doVal func(j int, e *Env, vals []Val) string
	doVal = func(j int, e *Env, vals []Val) string {
		if j == len(s.Rhs) {
			out := tr.bindAll(s, s.Lhs, vals, define, nil, e, func(e2 *Env) string {
				// remember x := make(...) for an immediately following copy(x, ...)
				if len(s.Lhs) == 1 && define {
					if c, ok := unparen(s.Rhs[0]).(*ast.CallExpr); ok {
						if id, ok := c.Fun.(*ast.Ident); ok && id.Name == "make" {
							if lid, ok := s.Lhs[0].(*ast.Ident); ok {
								if b := e2.scope[lid.Name]; b != nil {
									b.madeAt = next
									if b.typ.K == KStrSet {
										b.madeHere = true
									}
									if b.typ.K == KSlice && b.typ.Name == "" && !isAtomList(b.typ) {
										b.madeSlice = true
									}
								}
							}
						}
					}
				}
				return rest(e2)
			})
			return out
		}
		return tr.expr(s.Rhs[j], e, func(e2 *Env, v Val) string {
			if v.typ.K == KBigInt || v.typ.K == KRegexp || v.typ.K == KPtr || v.typ.K == KStrSet {
				if _, isId := unparen(s.Rhs[j]).(*ast.Ident); isId {
					tr.fail(s.Rhs[j], "copy of a pointer (%v): aliasing is not represented", v.typ)
				}
			}
			return doVal(j+1, e2, append(append([]Val{}, vals...), v))
		})
	}
	return doVal(0, env, nil)
}

// x op= y, x++, x--
func (tr *Tr) assignOp(at ast.Node, lhs ast.Expr, op token.Token, rhs ast.Expr, env *Env, rest cont) string {
	bin := &ast.BinaryExpr{X: lhs, OpPos: at.Pos(), Op: op, Y: rhs}
	if ix, ok := unparen(lhs).(*ast.IndexExpr); ok {
		// (*p)[i] op= v: the element is read (panic when out of range), then stored
		iv := tr.storeIndex(at, ix, env)
		return tr.expr(bin, env, func(e *Env, v Val) string {
			return tr.indexStore(at, ix, iv, v, e, rest)
		})
	}
	return tr.expr(bin, env, func(e *Env, v Val) string {
		return tr.bindAll(at, []ast.Expr{lhs}, []Val{v}, false, nil, e, rest)
	})
}

func (tr *Tr) exprStmt(s *ast.ExprStmt, env *Env, rest cont) string {
	call, ok := unparen(s.X).(*ast.CallExpr)
	if !ok {
		tr.fail(s, "expression statement %T", s.X)
	}
	if id, ok := call.Fun.(*ast.Ident); ok {
		switch id.Name {
		case "panic":
			if _, shadow := env.scope["panic"]; !shadow {
				if len(call.Args) != 1 {
					tr.fail(s, "panic with %d arguments", len(call.Args))
				}
				return tr.expr(call.Args[0], env, func(e *Env, v Val) string {
					return tr.panicOut(e, "site_panic")
				})
			}
		case "copy":
			if len(call.Args) != 2 {
				tr.fail(s, "copy with %d arguments", len(call.Args))
			}
			did, ok := unparen(call.Args[0]).(*ast.Ident)
			if !ok {
				tr.fail(s, "copy into %T (only into a local made by the preceding statement)", call.Args[0])
			}
			b := env.scope[did.Name]
			if b == nil || b.madeAt != ast.Stmt(s) {
				tr.fail(s, "copy into %s, which is not a local slice made by the immediately preceding statement", did.Name)
			}
			return tr.expr(call.Args[1], env, func(e *Env, src Val) string {
				src = tr.use(src, call.Args[1])
				dst := tr.use(e.val[b], did)
				if !dst.typ.isList() || !src.typ.isList() && src.typ.K != KString {
					tr.fail(s, "copy(%v, %v)", dst.typ, src.typ)
				}
				nv := Val{term: fmt.Sprintf("copy_list %s %s", paren(dst.term), paren(src.term)), typ: dst.typ}
				return tr.bindAll(s, []ast.Expr{did}, []Val{nv}, false, nil, e, rest)
			})
		}
	}
	// receiver-mutating math/big operations: z.Add(x, y) as a statement
	if sel, ok := call.Fun.(*ast.SelectorExpr); ok {
		if rid, ok := unparen(sel.X).(*ast.Ident); ok {
			if b := env.scope[rid.Name]; b != nil && b.typ.K == KBigInt {
				return tr.bigOp(call, sel, env, func(e *Env, v Val) string {
					return tr.bindAll(s, []ast.Expr{rid}, []Val{v}, false, nil, e, rest)
				})
			}
		}
	}
	return tr.callMulti(call, env, func(e *Env, vals []Val) string { return rest(e) })
}

// ---------- return ----------

func (tr *Tr) returnStmt(s *ast.ReturnStmt, env *Env) string {
	fi := tr.fn
	if len(s.Results) == 1 && len(fi.results) > 1 {
		call, ok := unparen(s.Results[0]).(*ast.CallExpr)
		if !ok {
			tr.fail(s, "return of one expression for %d results", len(fi.results))
		}
		return tr.callMulti(call, env, func(e *Env, vals []Val) string {
			return tr.returnVals(s, vals, nil, e)
		})
	}
	if len(s.Results) != len(fi.results) {
		tr.fail(s, "return with %d values for %d results", len(s.Results), len(fi.results))
	}
	var doVal func(j int, e *Env, vals []Val) string
	doVal = func(j int, e *Env, vals []Val) string {
		if j == len(s.Results) {
			return tr.returnVals(s, vals, s.Results, e)
		}
		r := unparen(s.Results[j])
		// &local: a pointer to a variable that dies with the function is its value
		if u, ok := r.(*ast.UnaryExpr); ok && u.Op == token.AND {
			id, ok := unparen(u.X).(*ast.Ident)
			if !ok {
				tr.fail(u, "address of %T", u.X)
			}
			b := e.scope[id.Name]
			if b == nil || b.depth == 0 {
				tr.fail(u, "address of %s, which is not a local variable", id.Name)
			}
			v := tr.use(e.val[b], u)
			v.typ = &T{K: KPtr, Elem: b.typ}
			return doVal(j+1, e, append(append([]Val{}, vals...), v))
		}
		return tr.expr(r, e, func(e2 *Env, v Val) string {
			return doVal(j+1, e2, append(append([]Val{}, vals...), v))
		})
	}
	return doVal(0, env, nil)
}

func (tr *Tr) returnVals(s *ast.ReturnStmt, vals []Val, exprs []ast.Expr, env *Env) string {
	fi := tr.fn
	conv := func(v Val, t *T) string {
		if t.K == KPtr && v.typ.K == KPtr {
			if !sameType(t.Elem, v.typ.Elem) {
				tr.fail(s, "return of %v as %v", v.typ, t)
			}
			return tr.use(v, s).term
		}
		return tr.coerce(tr.use(v, s), t, s).term
	}
	switch fi.rk {
	case RUnit:
		return tr.ret(env, "Ok tt")
	case RVal:
		t := fi.results[0]
		if t.K == KIface {
			if vals[0].typ.K == KUntypedNil {
				return tr.ret(env, "Ok None")
			}
			return tr.ret(env, "Ok (Some "+paren(conv(vals[0], t))+")")
		}
		return tr.ret(env, "Ok "+paren(conv(vals[0], t)))
	case RErr:
		ev := tr.coerce(tr.use(vals[0], s), tError, s)
		if ev.term == "None" {
			return tr.ret(env, "Ok tt")
		}
		if strings.HasPrefix(ev.term, "Some ") {
			return tr.ret(env, "Err "+paren(ev.term[5:]))
		}
		return tr.ret(env, fmt.Sprintf("match %s with Some e => Err e | None => Ok tt end", ev.term))
	case RValErr:
		ev := tr.coerce(tr.use(vals[1], s), tError, s)
		if ev.term == "None" {
			if vals[0].typ.K == KUntypedNil && fi.results[0].K == KIface {
				tr.fail(s, "return nil, nil: a nil Term without an error is not represented")
			}
			return tr.ret(env, "Ok "+paren(conv(vals[0], fi.results[0])))
		}
		if strings.HasPrefix(ev.term, "Some ") {
			// the value returned beside a non-nil error must be nil / the zero value: callers cannot observe it
			v0 := vals[0]
			okZero := v0.typ.K == KUntypedNil || v0.poison != "" ||
				(v0.cst != nil && v0.cst.Sign() == 0) || v0.term == "[]" || v0.term == "false"
			if !okZero {
				tr.fail(s, "return of a non-zero value beside a non-nil error")
			}
			return tr.ret(env, "Err "+paren(ev.term[5:]))
		}
		tr.fail(s, "return with an error value not known to be nil or non-nil here")
	case RTuple:
		var parts []string
		for i, v := range vals {
			parts = append(parts, conv(v, fi.results[i]))
		}
		return tr.ret(env, "Ok ("+strings.Join(parts, ", ")+")")
	}
	return ""
}

// ---------- switch ----------

func (tr *Tr) switchStmt(s *ast.SwitchStmt, env *Env, rest cont) string {
	inner := env.push()
	after := func(e *Env) string {
		o := e.popTo(env)
		return rest(o)
	}
	body := func(e0 *Env) string {
		withTag := func(e1 *Env, tag *Val) string {
			var clauses []*ast.CaseClause
			var def *ast.CaseClause
			for _, c := range s.Body.List {
				cc := c.(*ast.CaseClause)
				if cc.List == nil {
					def = cc
				} else {
					clauses = append(clauses, cc)
				}
			}
			runBody := func(cc *ast.CaseClause, e *Env) string {
				for _, st := range cc.Body {
					if b, ok := st.(*ast.BranchStmt); ok && b.Tok == token.FALLTHROUGH {
						tr.fail(b, "fallthrough")
					}
				}
				be := e.push()
				be.inSwitch = true
				return tr.stmts(cc.Body, be, func(e2 *Env) string { return after(e2) })
			}
			var doClause func(i int, e *Env) string
			doClause = func(i int, e *Env) string {
				if i == len(clauses) {
					if def != nil {
						return runBody(def, e)
					}
					return after(e)
				}
				cc := clauses[i]
				var doAlt func(j int, e *Env) string
				doAlt = func(j int, e *Env) string {
					if j == len(cc.List) {
						return doClause(i+1, e)
					}
					var cond ast.Expr = cc.List[j]
					test := func(e2 *Env, c Val) string {
						c = tr.use(c, cond)
						switch c.term {
						case "true":
							return runBody(cc, e2)
						case "false":
							return doAlt(j+1, e2)
						}
						return "if " + c.term + " then\n" + ind(runBody(cc, e2)) + "\nelse\n" + ind(doAlt(j+1, e2))
					}
					if tag == nil {
						return tr.expr(cond, e, test)
					}
					return tr.expr(cond, e, func(e2 *Env, cv Val) string {
						return tr.compare(cond, token.EQL, *tag, cv, e2, test)
					})
				}
				return doAlt(0, e)
			}
			return doClause(0, e1)
		}
		if s.Tag == nil {
			return withTag(e0, nil)
		}
		return tr.expr(s.Tag, e0, func(e1 *Env, tag Val) string {
			tag = tr.use(tag, s.Tag)
			if tag.typ.K == KUntypedInt {
				tag = tr.coerce(tag, tInt, s.Tag)
			}
			if !isKnown(tag) {
				name := tr.fresh("tag")
				t2 := tag
				t2.term = name
				return fmt.Sprintf("let %s := %s in\n", name, tag.term) + withTag(e1, &t2)
			}
			return withTag(e1, &tag)
		})
	}
	if s.Init != nil {
		return tr.stmts([]ast.Stmt{s.Init}, inner, body)
	}
	return body(inner)
}

// patterns of a scrutinee of type Term / element-of-Set against a concrete type
func (tr *Tr) patFor(scrut *T, typeName string, binder string) (string, bool) {
	im := implIn(scrut, typeName)
	if im == nil {
		return "", false
	}
	if scrut.K == KAtom {
		if im.atomPat == "" {
			return "", true // a Set is never an element of a Set in the model
		}
		return fmt.Sprintf(im.atomPat, binder), true
	}
	return fillPat(im.termPat, binder), true
}

func (tr *Tr) payloadType(typeName string, at ast.Node) *T {
	t, err := tr.p.resolveTypeErr(&ast.Ident{Name: typeName})
	if err != nil {
		tr.fail(at, "%v", err)
	}
	return t
}

func (tr *Tr) commaOk(s *ast.AssignStmt, ta *ast.TypeAssertExpr, define bool, env *Env, rest cont) string {
	return tr.expr(ta.X, env, func(e *Env, x Val) string {
		x = tr.use(x, ta.X)
		if x.typ.K != KIface && x.typ.K != KAtom {
			tr.fail(ta, "type assertion on a value of type %v", x.typ)
		}
		tid, ok := ta.Type.(*ast.Ident)
		if !ok {
			tr.fail(ta, "type assertion to %T", ta.Type)
		}
		binder := tr.fresh("a")
		pat, known := tr.patFor(x.typ, tid.Name, binder)
		if !known {
			tr.fail(ta, "type assertion to %s, which is not a represented Term type", tid.Name)
		}
		pt := tr.payloadType(tid.Name, ta)
		failV := []Val{tr.zeroOrPoison(pt, ta), {term: "false", typ: tBool}}
		failBranch := tr.bindAll(s, s.Lhs, failV, define, nil, e, rest)
		if pat == "" {
			return failBranch
		}
		okV := []Val{{term: binder, typ: pt}, {term: "true", typ: tBool}}
		okBranch := tr.bindAll(s, s.Lhs, okV, define, nil, e, rest)
		return tr.letScrut(x, func(sc string) string {
			return fmt.Sprintf("match %s with\n| %s =>\n%s\n| _ =>\n%s\nend", sc, pat, ind(ind(okBranch)), ind(ind(failBranch)))
		})
	})
}

// v, ok := m[k] on a map[Variable]*Term: the model's dlookup (Model/DEval.v).  The
// pointer read out of the map is taken to be non-nil (its later dereference is not
// a panic branch): the callers build these maps from addresses of variables.
func (tr *Tr) commaOkMap(s *ast.AssignStmt, ix *ast.IndexExpr, define bool, env *Env, rest cont) string {
	return tr.expr(ix.X, env, func(e1 *Env, m Val) string {
		m = tr.use(m, ix.X)
		if m.typ.K == KStrSet {
			// _, ok := m[k] on a set of strings: ok = strset_mem m k; the value is struct{}{}
			return tr.expr(ix.Index, e1, func(e2 *Env, kv Val) string {
				kv = tr.coerce(tr.use(kv, ix.Index), tString, ix.Index)
				tr.needGoMap = true
				vals := []Val{{term: "tt", typ: &T{K: KStruct}}, {term: fmt.Sprintf("strset_mem %s %s", paren(m.term), paren(kv.term)), typ: tBool}}
				return tr.bindAll(s, s.Lhs, vals, define, nil, e2, rest)
			})
		}
		if m.typ.K != KMap {
			tr.fail(s, "comma-ok index of a value of type %v", m.typ)
		}
		return tr.expr(ix.Index, e1, func(e2 *Env, kv Val) string {
			kv = tr.coerce(tr.use(kv, ix.Index), m.typ.Key, ix.Index)
			tr.needDEval = true
			binder := tr.fresh("p")
			okV := []Val{{term: binder, typ: m.typ.Elem}, {term: "true", typ: tBool}}
			failV := []Val{tr.zero(m.typ.Elem, ix), {term: "false", typ: tBool}}
			okBranch := tr.bindAll(s, s.Lhs, okV, define, nil, e2, rest)
			failBranch := tr.bindAll(s, s.Lhs, failV, define, nil, e2, rest)
			return fmt.Sprintf("match dlookup %s %s with\n| Some %s =>\n%s\n| None =>\n%s\nend", paren(m.term), paren(kv.term),
				binder, ind(ind(okBranch)), ind(ind(failBranch)))
		})
	})
}

func (tr *Tr) zeroOrPoison(t *T, at ast.Node) Val {
	return tr.zero(t, at)
}

func (tr *Tr) letScrut(x Val, f func(string) string) string {
	if isAtomic(x.term) {
		return f(x.term)
	}
	name := tr.fresh("scrut")
	return fmt.Sprintf("let %s := %s in\n%s", name, x.term, f(name))
}

func (tr *Tr) typeSwitchStmt(s *ast.TypeSwitchStmt, env *Env, rest cont) string {
	inner := env.push()
	after := func(e *Env) string { return rest(e.popTo(env)) }
	body := func(e0 *Env) string {
		var bindName string
		var ta *ast.TypeAssertExpr
		switch a := s.Assign.(type) {
		case *ast.AssignStmt:
			bindName = a.Lhs[0].(*ast.Ident).Name
			ta = unparen(a.Rhs[0]).(*ast.TypeAssertExpr)
		case *ast.ExprStmt:
			ta = unparen(a.X).(*ast.TypeAssertExpr)
		}
		return tr.expr(ta.X, e0, func(e1 *Env, x Val) string {
			x = tr.use(x, ta.X)
			if x.typ.K != KIface && x.typ.K != KAtom {
				tr.fail(ta, "type switch on a value of type %v", x.typ)
			}
			// which clause takes each implementor
			var def *ast.CaseClause
			chosen := map[string]*ast.CaseClause{}
			for _, c := range s.Body.List {
				cc := c.(*ast.CaseClause)
				if cc.List == nil {
					def = cc
					continue
				}
				for _, te := range cc.List {
					id, ok := te.(*ast.Ident)
					if !ok {
						tr.fail(te, "type switch case %T", te)
					}
					if id.Name == "nil" {
						continue // a represented Term is never nil
					}
					if implIn(x.typ, id.Name) == nil {
						tr.fail(te, "type switch case %s, which is not a represented implementor of %v", id.Name, x.typ)
					}
					if _, dup := chosen[id.Name]; !dup {
						chosen[id.Name] = cc
					}
				}
			}
			runBody := func(cc *ast.CaseClause, e *Env, bound *Val) string {
				be := e.push()
				be.inSwitch = true
				if bindName != "" && bindName != "_" && bound != nil {
					b := &Binding{goName: bindName, typ: bound.typ, depth: be.depth}
					be = be.declare(b, *bound)
				}
				for _, st := range cc.Body {
					if b, ok := st.(*ast.BranchStmt); ok && b.Tok == token.FALLTHROUGH {
						tr.fail(b, "fallthrough")
					}
				}
				return tr.stmts(cc.Body, be, func(e2 *Env) string { return after(e2) })
			}
			return tr.letScrut(x, func(sc string) string {
				var arms []string
				for _, im := range implsOf(x.typ) {
					binder := tr.fresh("a")
					pat, _ := tr.patFor(x.typ, im.goType, binder)
					if pat == "" {
						continue
					}
					cc := chosen[im.goType]
					var armBody string
					switch {
					case cc != nil && len(cc.List) == 1:
						bv := Val{term: binder, typ: tr.payloadType(im.goType, s)}
						if !strings.Contains(pat, binder) {
							bv.term = "tt" // a struct{} implementor carries nothing
						}
						armBody = runBody(cc, e1, &bv)
					case cc != nil:
						bv := Val{term: sc, typ: x.typ}
						armBody = runBody(cc, e1, &bv)
					case def != nil:
						bv := Val{term: sc, typ: x.typ}
						armBody = runBody(def, e1, &bv)
					default:
						armBody = after(e1)
					}
					arms = append(arms, fmt.Sprintf("| %s =>\n%s", pat, ind(ind(armBody))))
				}
				return fmt.Sprintf("match %s with\n%s\nend", sc, strings.Join(arms, "\n"))
			})
		})
	}
	if s.Init != nil {
		return tr.stmts([]ast.Stmt{s.Init}, inner, body)
	}
	return body(inner)
}

// ---------- range loops ----------

func (tr *Tr) carriedTuple(env *Env) string {
	c := env.loop.carried
	if len(c) == 0 {
		return "tt"
	}
	var parts []string
	for _, b := range c {
		parts = append(parts, tr.use(env.val[b], nil).term)
	}
	if len(parts) == 1 {
		return paren(parts[0])
	}
	return "(" + strings.Join(parts, ", ") + ")"
}

// assignedIn collects the names assigned (or mutated through a call) in a body.
func (tr *Tr) assignedIn(body *ast.BlockStmt, env *Env) []*Binding {
	seen := map[*Binding]bool{}
	var order []*Binding
	add := func(e ast.Expr) {
		e = unparen(e)
		if ix, ok := e.(*ast.IndexExpr); ok {
			e = unparen(ix.X) // (*p)[i] = v writes the pointee of p
		}
		if s, ok := e.(*ast.StarExpr); ok {
			e = unparen(s.X)
		}
		if id, ok := e.(*ast.Ident); ok {
			if b, ok := env.scope[id.Name]; ok && !seen[b] {
				seen[b] = true
				order = append(order, b)
			}
		}
	}
	ast.Inspect(body, func(n ast.Node) bool {
		switch n := n.(type) {
		case *ast.AssignStmt:
			for _, l := range n.Lhs {
				add(l)
			}
		case *ast.IncDecStmt:
			add(n.X)
		case *ast.CallExpr:
			// a call that may write through a pointer parameter, a math/big receiver, copy
			if sel, ok := n.Fun.(*ast.SelectorExpr); ok {
				if id, ok := unparen(sel.X).(*ast.Ident); ok {
					if b, ok := env.scope[id.Name]; ok && (b.typ.K == KBigInt || b.ptrParam && tr.isMutated(b) || b.ptrLocal) {
						add(id)
					}
				}
			}
			if id, ok := n.Fun.(*ast.Ident); ok && id.Name == "copy" && len(n.Args) > 0 {
				add(n.Args[0])
			}
			for _, a := range n.Args {
				if id, ok := unparen(a).(*ast.Ident); ok {
					if b, ok := env.scope[id.Name]; ok && (b.ptrParam && tr.isMutated(b) || b.ptrLocal) {
						add(id)
					}
				}
			}
		}
		return true
	})
	return order
}

func (tr *Tr) rangeStmt(s *ast.RangeStmt, env *Env, rest cont) string {
	if s.Tok != token.DEFINE && (s.Key != nil || s.Value != nil) {
		tr.fail(s, "range loop assigning to existing variables")
	}
	return tr.expr(s.X, env, func(e0 *Env, xs Val) string {
		xs = tr.use(xs, s.X)
		if xs.typ.K == KPtr && xs.typ.Elem.K == KArray {
			xs.typ = xs.typ.Elem
		}
		if !xs.typ.isList() {
			tr.fail(s.X, "range over a value of type %v", xs.typ)
		}
		carried := tr.assignedIn(s.Body, e0)
		for _, b := range carried {
			tr.use(e0.val[b], s)
		}
		outerLoop := &Env{loop: e0.loop}
		initTuple := tr.carriedTuple(&Env{loop: &loopCtx{carried: carried}, val: e0.val})
		// the body
		be := e0.push()
		be.loop = &loopCtx{carried: carried}
		be.inSwitch = false
		iName, vName := tr.fresh("i"), tr.fresh("v")
		var stNames []string
		for _, b := range carried {
			n := tr.fresh(b.goName)
			stNames = append(stNames, n)
			v := be.val[b]
			v.term = n
			v.cst = nil
			be.val[b] = v
		}
		if id, ok := s.Key.(*ast.Ident); ok && id.Name != "_" {
			b := &Binding{goName: id.Name, typ: tInt, depth: be.depth}
			be = be.declare(b, Val{term: iName, typ: tInt})
		} else if s.Key != nil {
			if _, ok := s.Key.(*ast.Ident); !ok {
				tr.fail(s.Key, "range key %T", s.Key)
			}
		}
		if s.Value != nil {
			id, ok := s.Value.(*ast.Ident)
			if !ok {
				tr.fail(s.Value, "range value %T", s.Value)
			}
			if id.Name != "_" {
				et := elemType(xs.typ)
				b := &Binding{goName: id.Name, typ: et, depth: be.depth}
				be = be.declare(b, Val{term: vName, typ: et})
			}
		}
		stPat := func(names []string) string {
			switch len(names) {
			case 0:
				return "_"
			case 1:
				return names[0]
			}
			return "'(" + strings.Join(names, ", ") + ")"
		}
		bodyText := tr.stmts(s.Body.List, be, func(e *Env) string {
			return "Continue " + tr.carriedTuple(e)
		})
		// after the loop
		var afterNames []string
		ae := e0.clone()
		for _, b := range carried {
			n := tr.fresh(b.goName)
			afterNames = append(afterNames, n)
			v := ae.val[b]
			v.term = n
			v.cst = nil
			ae.val[b] = v
		}
		restText := rest(ae)
		var bind, bindAfter string
		switch len(carried) {
		case 0:
			bind, bindAfter = "_", "_"
		case 1:
			bind, bindAfter = stNames[0], afterNames[0]
		default:
			st, sa := tr.fresh("st"), tr.fresh("st")
			bodyText = fmt.Sprintf("let %s := %s in\n%s", stPat(stNames), st, bodyText)
			restText = fmt.Sprintf("let %s := %s in\n%s", stPat(afterNames), sa, restText)
			bind, bindAfter = st, sa
		}
		r := tr.fresh("r")
		return fmt.Sprintf("match range_loop (R := %s) (fun %s %s %s =>\n%s) %s %s with\n| Continue %s | Break %s =>\n%s\n| Done %s => %s\nend",
			paren(tr.fn.fullRet), iName, vName, bind, ind(ind(bodyText)), paren(xs.term), initTuple,
			bindAfter, bindAfter, ind(ind(restText)), r, tr.leave(outerLoop, r))
	})
}

// ---------- element assignment through a pointer to a slice ----------

// indexStore: (*p)[i] = v where p is a pointer parameter (or a local pointer to a fresh
// allocation) to a slice: the pointee is replaced by set_idx pointee i v; an index out of
// range is Panic site_index.  Slices are values in the translation, so the function must
// not hold another name of the backing array: checkElemWrites refuses every use of p
// other than (*p)[i] and len(*p).
func (tr *Tr) indexStore(at ast.Node, ix *ast.IndexExpr, i Val, v Val, env *Env, rest cont) string {
	pb := tr.storeTarget(at, ix, env)
	lt := pb.typ.Elem
	if pb.madeSlice && pb.typ.K == KSlice {
		lt = pb.typ
	}
	it := i.term
	if i.typ.isUnsigned() {
		it = "Z.of_N " + paren(i.term)
	}
	v = tr.coerce(tr.use(v, at), elemType(lt), at)
	cur := tr.use(env.val[pb], at)
	name := tr.fresh(pb.goName)
	nv := cur
	nv.term = name
	nv.cst = nil
	return fmt.Sprintf("match set_idx %s %s %s with\n| Some %s =>\n%s\n| None => %s\nend",
		paren(cur.term), paren(it), paren(v.term), name, ind(ind(rest(env.set(pb, nv)))), tr.panicOut(env, "site_index"))
}

// storeIndex: the index of an element assignment, a total expression evaluated where the
// statement starts (before the right-hand side, as in Go).
func (tr *Tr) storeIndex(at ast.Node, ix *ast.IndexExpr, env *Env) Val {
	tr.storeTarget(at, ix, env)
	i, pure := tr.tryPure(ix.Index, env)
	if !pure {
		tr.fail(ix.Index, "index of an element assignment that can panic or calls a function")
	}
	i = tr.use(i, ix.Index)
	if i.typ.K == KUntypedInt {
		i = tr.coerce(i, tInt, ix.Index)
	}
	if !i.typ.isInteger() {
		tr.fail(ix.Index, "index of type %v", i.typ)
	}
	return i
}

// storeTarget: the pointer p of (*p)[i] = v, with the checks on it.
func (tr *Tr) storeTarget(at ast.Node, ix *ast.IndexExpr, env *Env) *Binding {
	// stage H: x[i] = v where x is a LOCAL slice declared by x := make([]T, n) and used in this
	// function only as x[i], len(x) and as the first argument of strings.Join (checkLocalElemWrites):
	// no second name of its backing array can exist, so the value representation is exact.
	if lid, isId := unparen(ix.X).(*ast.Ident); isId {
		if lb, exists := env.scope[lid.Name]; exists && lb.madeSlice && lb.typ.K == KSlice {
			tr.checkLocalElemWrites(lid.Name, at)
			return lb
		}
	}
	star, ok := unparen(ix.X).(*ast.StarExpr)
	if !ok {
		tr.fail(at, "assignment to an element of %s (only (*p)[i] = v through a pointer parameter: a slice variable may share its backing array)", exprStr(ix.X))
	}
	id, ok := unparen(star.X).(*ast.Ident)
	if !ok {
		tr.fail(at, "assignment to an element through a pointer expression")
	}
	pb, exists := env.scope[id.Name]
	if !exists || !(pb.ptrParam || pb.ptrLocal) || pb.typ.K != KPtr {
		tr.fail(at, "assignment to an element through %s, which is not a pointer parameter", id.Name)
	}
	if pb.ptrParam && !tr.isMutated(pb) {
		tr.fail(at, "internal: write through %s not found by the pre-pass", id.Name)
	}
	lt := pb.typ.Elem
	if lt.K != KSlice || isAtomList(lt) {
		tr.fail(at, "assignment to an element of a value of type %v", lt)
	}
	tr.checkElemWrites(id.Name, at)
	return pb
}

// checkElemWrites: in a function that assigns to (*p)[i], the name p may occur only as
// (*p)[i] (read or written) and len(*p): any other use (a copy of *p, a range over it, a
// slice of it, passing p on) could create or observe a second name of the backing array,
// which the value representation of slices does not track.
func (tr *Tr) checkElemWrites(name string, at ast.Node) {
	var stack []ast.Node
	ast.Inspect(tr.fn.decl.Body, func(n ast.Node) bool {
		if n == nil {
			stack = stack[:len(stack)-1]
			return true
		}
		stack = append(stack, n)
		id, ok := n.(*ast.Ident)
		if !ok || id.Name != name {
			return true
		}
		// parents, skipping parentheses
		up := func(from int) (int, ast.Node) {
			j := from - 1
			for j >= 0 {
				if _, isParen := stack[j].(*ast.ParenExpr); !isParen {
					return j, stack[j]
				}
				j--
			}
			return -1, nil
		}
		j, p1 := up(len(stack) - 1)
		star, isStar := p1.(*ast.StarExpr)
		if !isStar {
			tr.fail(id, "use of %s other than (*%s)[i] and len(*%s) in a function that assigns to (*%s)[i] (sharing of the backing array is not represented)", name, name, name, name)
		}
		_ = star
		j2, p2 := up(j)
		switch p := p2.(type) {
		case *ast.IndexExpr:
			if containsNode(p.X, stack[j]) {
				return true
			}
		case *ast.CallExpr:
			if f, ok := p.Fun.(*ast.Ident); ok && f.Name == "len" && len(p.Args) == 1 {
				return true
			}
		}
		_ = j2
		tr.fail(id, "use of *%s other than (*%s)[i] and len(*%s) in a function that assigns to (*%s)[i] (sharing of the backing array is not represented)", name, name, name, name)
		return true
	})
}

// checkLocalElemWrites: in a function that assigns to x[i] for a local slice x made by
// x := make([]T, n), the name x may occur only as the left-hand side of that declaration, as x[i]
// (read or written), in len(x), and as the first argument of strings.Join (a library function that
// only reads its argument).  Any other use (a copy, a slice expression, append, range, return,
// passing it to a function of the package) could create or observe a second name of the backing
// array and is refused.  The check is by name over the whole function body (conservative when the
// name is also declared elsewhere in the function).
func (tr *Tr) checkLocalElemWrites(name string, at ast.Node) {
	var stack []ast.Node
	ast.Inspect(tr.fn.decl.Body, func(n ast.Node) bool {
		if n == nil {
			stack = stack[:len(stack)-1]
			return true
		}
		stack = append(stack, n)
		id, ok := n.(*ast.Ident)
		if !ok || id.Name != name {
			return true
		}
		j := len(stack) - 2
		for j >= 0 {
			if _, isParen := stack[j].(*ast.ParenExpr); !isParen {
				break
			}
			j--
		}
		if j >= 0 {
			switch p := stack[j].(type) {
			case *ast.IndexExpr:
				if containsNode(p.X, id) {
					return true
				}
			case *ast.CallExpr:
				if f, ok := p.Fun.(*ast.Ident); ok && f.Name == "len" && len(p.Args) == 1 {
					return true
				}
				if f, ok := p.Fun.(*ast.SelectorExpr); ok && exprStr(f) == "strings.Join" && len(p.Args) == 2 && containsNode(p.Args[0], id) {
					return true
				}
			case *ast.AssignStmt:
				if p.Tok == token.DEFINE && len(p.Lhs) == 1 && len(p.Rhs) == 1 && p.Lhs[0] == ast.Expr(id) {
					if c, ok := unparen(p.Rhs[0]).(*ast.CallExpr); ok {
						if f, ok := c.Fun.(*ast.Ident); ok && f.Name == "make" {
							return true
						}
					}
				}
			case *ast.SelectorExpr:
				if p.Sel == id { // a field or method of that name, not the variable
					return true
				}
			}
		}
		tr.fail(id, "use of %s other than %s[i], len(%s) and strings.Join(%s, sep) in a function that assigns to %s[i] (sharing of the backing array is not represented)", name, name, name, name, name)
		return true
	})
}

func containsNode(root ast.Node, target ast.Node) bool {
	found := false
	ast.Inspect(root, func(n ast.Node) bool {
		if n == target {
			found = true
		}
		return !found
	})
	return found
}

// ---------- the descending three-clause loop ----------

// forStmt: for i := e; i >= 0; i-- { body } where the body does not assign i:
// down_loop body e state (GoSem.v) runs the body for i = e, e-1, ..., 0 (not at all when
// e < 0); continue goes to the next i, break leaves the loop.  Every other for statement
// is refused.
func (tr *Tr) forStmt(s *ast.ForStmt, env *Env, rest cont) string {
	bad := func(n ast.Node, what string) {
		if n == nil {
			n = s
		}
		tr.fail(n, "for statement: %s (only `for i := e; i >= 0; i--` with i not assigned in the body)", what)
	}
	init, ok := s.Init.(*ast.AssignStmt)
	if !ok || init.Tok != token.DEFINE || len(init.Lhs) != 1 || len(init.Rhs) != 1 {
		bad(s.Init, "init clause")
	}
	iv, ok := init.Lhs[0].(*ast.Ident)
	if !ok || iv.Name == "_" {
		bad(s.Init, "init clause")
	}
	isI := func(e ast.Expr) bool { id, ok := unparen(e).(*ast.Ident); return ok && id.Name == iv.Name }
	isLit := func(e ast.Expr, v string) bool {
		l, ok := unparen(e).(*ast.BasicLit)
		return ok && l.Kind == token.INT && l.Value == v
	}
	cond, ok := unparen(s.Cond).(*ast.BinaryExpr)
	if s.Cond == nil || !ok || !(cond.Op == token.GEQ && isI(cond.X) && isLit(cond.Y, "0") || cond.Op == token.LEQ && isLit(cond.X, "0") && isI(cond.Y)) {
		bad(s.Cond, "condition")
	}
	switch post := s.Post.(type) {
	case *ast.IncDecStmt:
		if post.Tok != token.DEC || !isI(post.X) {
			bad(s.Post, "post clause")
		}
	case *ast.AssignStmt:
		if post.Tok != token.SUB_ASSIGN || len(post.Lhs) != 1 || len(post.Rhs) != 1 || !isI(post.Lhs[0]) || !isLit(post.Rhs[0], "1") {
			bad(s.Post, "post clause")
		}
	default:
		bad(s.Post, "post clause")
	}
	ast.Inspect(s.Body, func(n ast.Node) bool {
		switch n := n.(type) {
		case *ast.AssignStmt:
			for _, l := range n.Lhs {
				if isI(l) {
					bad(n, "the loop variable is assigned in the body")
				}
			}
		case *ast.IncDecStmt:
			if isI(n.X) {
				bad(n, "the loop variable is assigned in the body")
			}
		case *ast.UnaryExpr:
			if n.Op == token.AND && isI(n.X) {
				bad(n, "the address of the loop variable is taken")
			}
		case *ast.RangeStmt:
			if n.Tok == token.ASSIGN && (n.Key != nil && isI(n.Key) || n.Value != nil && isI(n.Value)) {
				bad(n, "the loop variable is assigned in the body")
			}
		case *ast.FuncLit:
			bad(n, "function literal in the body")
		}
		return true
	})
	return tr.expr(init.Rhs[0], env, func(e0 *Env, start Val) string {
		start = tr.use(start, init.Rhs[0])
		if start.typ.K == KUntypedInt {
			start = tr.coerce(start, tInt, init.Rhs[0])
		}
		if !start.typ.isSigned() {
			bad(s.Init, fmt.Sprintf("loop variable of type %v", start.typ))
		}
		carried := tr.assignedIn(s.Body, e0)
		for _, b := range carried {
			tr.use(e0.val[b], s)
		}
		outerLoop := &Env{loop: e0.loop}
		initTuple := tr.carriedTuple(&Env{loop: &loopCtx{carried: carried}, val: e0.val})
		be := e0.push()
		be.loop = &loopCtx{carried: carried}
		be.inSwitch = false
		iName := tr.fresh(iv.Name)
		var stNames []string
		for _, b := range carried {
			n := tr.fresh(b.goName)
			stNames = append(stNames, n)
			v := be.val[b]
			v.term = n
			v.cst = nil
			be.val[b] = v
		}
		ib := &Binding{goName: iv.Name, typ: start.typ, depth: be.depth}
		be = be.declare(ib, Val{term: iName, typ: start.typ})
		stPat := func(names []string) string {
			switch len(names) {
			case 0:
				return "_"
			case 1:
				return names[0]
			}
			return "'(" + strings.Join(names, ", ") + ")"
		}
		bodyText := tr.stmts(s.Body.List, be.push(), func(e *Env) string {
			return "Continue " + tr.carriedTuple(e)
		})
		var afterNames []string
		ae := e0.clone()
		for _, b := range carried {
			n := tr.fresh(b.goName)
			afterNames = append(afterNames, n)
			v := ae.val[b]
			v.term = n
			v.cst = nil
			ae.val[b] = v
		}
		restText := rest(ae)
		var bind, bindAfter string
		switch len(carried) {
		case 0:
			bind, bindAfter = "_", "_"
		case 1:
			bind, bindAfter = stNames[0], afterNames[0]
		default:
			st, sa := tr.fresh("st"), tr.fresh("st")
			bodyText = fmt.Sprintf("let %s := %s in\n%s", stPat(stNames), st, bodyText)
			restText = fmt.Sprintf("let %s := %s in\n%s", stPat(afterNames), sa, restText)
			bind, bindAfter = st, sa
		}
		r := tr.fresh("r")
		return fmt.Sprintf("match down_loop (R := %s) (fun %s %s =>\n%s) %s %s with\n| Continue %s | Break %s =>\n%s\n| Done %s => %s\nend",
			paren(tr.fn.fullRet), iName, bind, ind(ind(bodyText)), paren(start.term), initTuple,
			bindAfter, bindAfter, ind(ind(restText)), r, tr.leave(outerLoop, r))
	})
}

// ---------- maps with writes (stage G) ----------

// mapStore: m[k] = v.
//   - m a LOCAL map[string]struct{} made by make in this function, v = struct{}{}:
//     m becomes strset_add m k (the local is the only name of the map: copies are refused);
//   - m a PARAMETER of type map[Variable]*Term, v = &x with x a Term variable that nothing
//     else assigns or takes the address of: m becomes map_set m k x (replace the value of k
//     where it stands, else append); maps are reference types, so the function returns the
//     new map beside its result (pre-pass mutatesOf), like a written-through pointer.
func (tr *Tr) mapStore(s *ast.AssignStmt, ix *ast.IndexExpr, b *Binding, env *Env, rest cont) string {
	isParam := false
	for _, pb := range tr.pbind {
		if pb == b {
			isParam = true
		}
	}
	finish := func(e *Env, newTerm string) string {
		name := tr.fresh(b.goName)
		nv := e.val[b]
		nv.term, nv.cst = name, nil
		return fmt.Sprintf("let %s := %s in\n%s", name, newTerm, rest(e.set(b, nv)))
	}
	switch b.typ.K {
	case KStrSet:
		if isParam || !b.madeHere {
			tr.fail(s, "write to the map %s, which is not a local made by make in this function", b.goName)
		}
		lit, ok := unparen(s.Rhs[0]).(*ast.CompositeLit)
		st, ok2 := func() (*ast.StructType, bool) {
			if !ok {
				return nil, false
			}
			st, ok := lit.Type.(*ast.StructType)
			return st, ok
		}()
		if !ok || !ok2 || structFieldCount(st) != 0 || len(lit.Elts) != 0 {
			tr.fail(s.Rhs[0], "value stored in a map[string]struct{} that is not struct{}{}")
		}
		return tr.expr(ix.Index, env, func(e *Env, kv Val) string {
			kv = tr.coerce(tr.use(kv, ix.Index), tString, ix.Index)
			m := tr.use(e.val[b], ix.X)
			tr.needGoMap = true
			return finish(e, fmt.Sprintf("strset_add %s %s", paren(m.term), paren(kv.term)))
		})
	case KMap:
		if !isParam || !tr.isMutated(b) {
			tr.fail(s, "write to the map %s, which is not a map parameter found by the pre-pass", b.goName)
		}
		u, ok := unparen(s.Rhs[0]).(*ast.UnaryExpr)
		if !ok || u.Op != token.AND {
			tr.fail(s.Rhs[0], "value stored in a map[Variable]*Term that is not &x")
		}
		xid, ok := unparen(u.X).(*ast.Ident)
		if !ok {
			tr.fail(s.Rhs[0], "value stored in a map[Variable]*Term that is not &x for a variable x")
		}
		xb := env.scope[xid.Name]
		if xb == nil || xb.typ.K != KIface || xb.typ.Name != "Term" {
			tr.fail(s.Rhs[0], "&%s stored in a map[Variable]*Term: %s is not a Term variable", xid.Name, xid.Name)
		}
		tr.checkStableVar(xid.Name, u)
		return tr.expr(ix.Index, env, func(e *Env, kv Val) string {
			kv = tr.coerce(tr.use(kv, ix.Index), b.typ.Key, ix.Index)
			m := tr.use(e.val[b], ix.X)
			x := tr.use(e.val[xb], xid)
			tr.needGoMap, tr.needDEval = true, true
			return finish(e, fmt.Sprintf("map_set %s %s %s", paren(m.term), paren(kv.term), paren(x.term)))
		})
	}
	tr.fail(s, "write to an element of a value of type %v", b.typ)
	return ""
}

// checkStableVar: the map keeps the ADDRESS of the variable, so the stored value is the
// variable's value only if the function never assigns the variable and takes its address
// nowhere else (allowed: addr, and every other &x that is itself the whole right-hand side of a
// store m[k] = &x into a map -- all these pointers are equal and x never changes).  Names are
// compared, which is conservative (a shadowing variable of the same name is refused too).
func (tr *Tr) checkStableVar(name string, addr *ast.UnaryExpr) {
	stored := map[*ast.UnaryExpr]bool{addr: true}
	ast.Inspect(tr.fn.decl.Body, func(n ast.Node) bool {
		if as, ok := n.(*ast.AssignStmt); ok && as.Tok == token.ASSIGN && len(as.Lhs) == 1 && len(as.Rhs) == 1 {
			if ix, ok := unparen(as.Lhs[0]).(*ast.IndexExpr); ok {
				if id, ok := unparen(ix.X).(*ast.Ident); ok {
					if u, ok := unparen(as.Rhs[0]).(*ast.UnaryExpr); ok && u.Op == token.AND {
						for i, pn := range tr.paramNames(tr.fn.decl) {
							if pn == id.Name && tr.isMapParam(tr.fn.decl, i) {
								stored[u] = true
							}
						}
					}
				}
			}
		}
		return true
	})
	ast.Inspect(tr.fn.decl.Body, func(n ast.Node) bool {
		switch n := n.(type) {
		case *ast.AssignStmt:
			for _, l := range n.Lhs {
				if id, ok := unparen(l).(*ast.Ident); ok && id.Name == name {
					tr.fail(n, "assignment to %s, whose address is stored in a map", name)
				}
			}
		case *ast.IncDecStmt:
			if id, ok := unparen(n.X).(*ast.Ident); ok && id.Name == name {
				tr.fail(n, "assignment to %s, whose address is stored in a map", name)
			}
		case *ast.UnaryExpr:
			if n.Op == token.AND && !stored[n] {
				if id, ok := unparen(n.X).(*ast.Ident); ok && id.Name == name {
					tr.fail(n, "second address of %s, whose address is stored in a map", name)
				}
			}
		case *ast.FuncLit:
			tr.fail(n, "function literal in a function that stores an address in a map")
		}
		return true
	})
}
