module genfn

go 1.19
