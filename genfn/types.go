package main

import (
	"fmt"
	"go/ast"
	"go/token"
	"math/big"
	"strings"
)

// Kind is the kind of a Go type of the supported subset.
type Kind int

const (
	KInt Kind = iota
	KInt64
	KInt32
	KUint64
	KUint32
	KUint8
	KBool
	KString
	KError
	KSlice
	KArray
	KPtr
	KIface // the interface Term, represented by dterm
	KAtom  // a Term known to be an element of a Set, represented by datom
	KBigInt
	KRegexp
	KStruct
	KUntypedInt
	KUntypedNil
	KWrap   // a struct with exactly one field (named or embedded), represented by that field
	KMap    // map[Variable]*Term, represented by the model's dbindings
	KRec    // a struct with several fields represented by a record of the model (table recReps)
	KStrSet // map[string]struct{}: a set of strings, represented by list bytes (Model/GoMap.v: strset_add, strset_mem)
)

// T is a Go type.  Name is the declared name of a named type ("" otherwise).
type T struct {
	K        Kind
	Name     string
	Elem     *T
	Len      int64
	Field    string     // KWrap: the name of the single field (the type name when embedded)
	Embedded bool       // KWrap: the field is embedded (its methods are promoted)
	Key      *T         // KMap
	Fields   []RecField // KRec: the fields in declaration order
	Ctor     string     // KRec: the constructor of the model's record
	Coq      string     // KRec: the model's record type
}

// RecField is one field of a struct represented by a record of the model.
type RecField struct {
	name string
	typ  *T
	proj string // the projection of the model's record
}

var (
	tInt        = &T{K: KInt}
	tInt64      = &T{K: KInt64}
	tInt32      = &T{K: KInt32}
	tUint64     = &T{K: KUint64}
	tUint32     = &T{K: KUint32}
	tUint8      = &T{K: KUint8}
	tBool       = &T{K: KBool}
	tString     = &T{K: KString}
	tError      = &T{K: KError}
	tBigInt     = &T{K: KBigInt}
	tRegexp     = &T{K: KRegexp}
	tUntypedInt = &T{K: KUntypedInt}
	tUntypedNil = &T{K: KUntypedNil}
	tTerm       = &T{K: KIface, Name: "Term"}
	tAtom       = &T{K: KAtom, Name: "Term"}
	tBytesSlice = &T{K: KSlice, Elem: tUint8}
)

func (t *T) String() string {
	if t == nil {
		return "<nil>"
	}
	if t.Name != "" && t.K != KAtom {
		return t.Name
	}
	switch t.K {
	case KInt:
		return "int"
	case KInt64:
		return "int64"
	case KInt32:
		return "int32"
	case KUint64:
		return "uint64"
	case KUint32:
		return "uint32"
	case KUint8:
		return "byte"
	case KBool:
		return "bool"
	case KString:
		return "string"
	case KError:
		return "error"
	case KSlice:
		return "[]" + t.Elem.String()
	case KArray:
		return fmt.Sprintf("[%d]%s", t.Len, t.Elem.String())
	case KPtr:
		return "*" + t.Elem.String()
	case KIface:
		return "Term"
	case KAtom:
		return "Term(element of a Set)"
	case KWrap:
		return "struct{" + t.Field + " " + t.Elem.String() + "}"
	case KMap:
		return "map[" + t.Key.String() + "]" + t.Elem.String()
	case KStrSet:
		return "map[string]struct{}"
	case KBigInt:
		return "*big.Int"
	case KRegexp:
		return "*regexp.Regexp"
	case KStruct:
		return "struct{}"
	case KUntypedInt:
		return "untyped int"
	case KUntypedNil:
		return "untyped nil"
	}
	return "?"
}

func sameType(a, b *T) bool {
	if a == nil || b == nil {
		return a == b
	}
	if a.K != b.K || a.Name != b.Name {
		return false
	}
	switch a.K {
	case KSlice, KPtr:
		return sameType(a.Elem, b.Elem)
	case KArray:
		return a.Len == b.Len && sameType(a.Elem, b.Elem)
	case KMap:
		return sameType(a.Key, b.Key) && sameType(a.Elem, b.Elem)
	case KWrap:
		return a.Field == b.Field && a.Embedded == b.Embedded && sameType(a.Elem, b.Elem)
	}
	return true
}

// isAtomList: the slice type Set = []Term holds atoms (DTerm.v: DSet (l : list datom));
// every other slice of Term (type stack []Term) holds arbitrary terms.
func isAtomList(t *T) bool {
	return t.isList() && t.Elem.K == KIface && t.Elem.Name == "Term" && t.Name == "Set"
}

func (t *T) isSigned() bool   { return t.K == KInt || t.K == KInt64 || t.K == KInt32 }
func (t *T) isUnsigned() bool { return t.K == KUint64 || t.K == KUint32 || t.K == KUint8 }
func (t *T) isInteger() bool  { return t.isSigned() || t.isUnsigned() }
func (t *T) isList() bool     { return t.K == KSlice || t.K == KArray }

// intRange returns the range of an integer kind.
func (t *T) intRange() (lo, hi *big.Int) {
	one := big.NewInt(1)
	pow := func(n uint) *big.Int { return new(big.Int).Lsh(one, n) }
	switch t.K {
	case KInt, KInt64:
		return new(big.Int).Neg(pow(63)), new(big.Int).Sub(pow(63), one)
	case KInt32:
		return new(big.Int).Neg(pow(31)), new(big.Int).Sub(pow(31), one)
	case KUint64:
		return big.NewInt(0), new(big.Int).Sub(pow(64), one)
	case KUint32:
		return big.NewInt(0), new(big.Int).Sub(pow(32), one)
	case KUint8:
		return big.NewInt(0), big.NewInt(255)
	}
	return nil, nil
}

// opPrefix is the prefix of the prelude's wrapping operations of an integer kind.
func (t *T) opPrefix() string {
	switch t.K {
	case KInt, KInt64:
		return "i64"
	case KUint64:
		return "u64"
	case KUint32:
		return "u32"
	case KUint8:
		return "u8"
	}
	return ""
}

// wrapFn is the prelude function Z -> representation that wraps into the kind.
func (t *T) wrapFn() string {
	switch t.K {
	case KInt:
		return "wrap_int"
	case KInt64:
		return "wrap_i64"
	case KInt32:
		return "wrap_i32"
	case KUint64:
		return "wrap_u64"
	case KUint32:
		return "wrap_u32"
	case KUint8:
		return "wrap_u8"
	}
	return ""
}

// coqType is the Gallina type representing a Go type.
func coqType(t *T) string {
	switch t.K {
	case KInt, KInt64, KInt32, KBigInt:
		return "Z"
	case KUint64, KUint32, KUint8:
		return "N"
	case KBool:
		return "bool"
	case KString, KRegexp:
		return "bytes"
	case KError:
		return "option err"
	case KSlice, KArray:
		if t.Name == "SymbolTable" {
			return "table"
		}
		if t.Elem.K == KUint8 {
			return "bytes"
		}
		if isAtomList(t) {
			return "list datom"
		}
		return "list " + paren(coqType(t.Elem))
	case KPtr:
		return coqType(t.Elem)
	case KIface:
		if r := ifaceFor(t.Name); r != nil {
			return r.coq
		}
	case KAtom:
		return "datom"
	case KStruct:
		return "unit"
	case KWrap:
		return coqType(t.Elem)
	case KMap:
		return "dbindings"
	case KStrSet:
		return "list bytes"
	case KRec:
		return t.Coq
	}
	return "UNSUPPORTED"
}

// elemType is the type of an element read out of a list: the elements of a
// []Term are atoms (DTerm.v: DSet holds a list of datom).
func elemType(t *T) *T {
	if isAtomList(t) {
		return tAtom
	}
	return t.Elem
}

func paren(s string) string {
	for _, c := range s {
		if c == ' ' || c == '\n' {
			return "(" + s + ")"
		}
	}
	return s
}

// ---------- the Term implementors and their dterm constructors ----------

type implementor struct {
	goType  string
	termPat string // pattern over dterm, %s is the payload binder
	atomPat string // pattern over datom ("" = not an atom)
}

var termImpls = []implementor{
	{"Variable", "DA (DVar %s)", "DVar %s"},
	{"Integer", "DA (DInt %s)", "DInt %s"},
	{"String", "DA (DStr %s)", "DStr %s"},
	{"Date", "DA (DDate %s)", "DDate %s"},
	{"Bytes", "DA (DBytes %s)", "DBytes %s"},
	{"Bool", "DA (DBool %s)", "DBool %s"},
	{"Set", "DSet %s", ""},
}

func implFor(name string) *implementor {
	for i := range termImpls {
		if termImpls[i].goType == name {
			return &termImpls[i]
		}
	}
	return nil
}

// ---------- the represented interfaces ----------

// ifaceRep: a Go interface of the package represented by a Gallina inductive type of
// the model; each implementor is one constructor (termPat; %s is the payload, absent
// for a struct{} implementor).  The list of implementors is CHECKED against the
// method sets found in the source (Pkg.checkIface): a type that implements the
// interface without a constructor here, or a constructor without its type, is an error.
type ifaceRep struct {
	name  string
	coq   string
	impls []implementor
}

var ifaceReps = []*ifaceRep{
	{"Term", "dterm", termImpls},
	// Model/DTerm.v: Inductive dop := DOVal (t : dterm) | DOUn (u : unop) | DOBin (b : binop)
	{"Op", "dop", []implementor{{"Value", "DOVal %s", ""}, {"UnaryOp", "DOUn %s", ""}, {"BinaryOp", "DOBin %s", ""}}},
	// Model/Term.v: Inductive unop / binop, one constant constructor per operator type
	{"UnaryOpFunc", "unop", []implementor{{"Negate", "UNegate", ""}, {"Parens", "UParens", ""}, {"Length", "ULength", ""}}},
	{"BinaryOpFunc", "binop", []implementor{
		{"LessThan", "BLessThan", ""}, {"LessOrEqual", "BLessOrEqual", ""}, {"GreaterThan", "BGreaterThan", ""},
		{"GreaterOrEqual", "BGreaterOrEqual", ""}, {"Equal", "BEqual", ""}, {"Contains", "BContains", ""},
		{"Prefix", "BPrefix", ""}, {"Suffix", "BSuffix", ""}, {"Regex", "BRegex", ""}, {"Add", "BAdd", ""},
		{"Sub", "BSub", ""}, {"Mul", "BMul", ""}, {"Div", "BDiv", ""}, {"And", "BAnd", ""}, {"Or", "BOr", ""},
		{"Intersection", "BIntersection", ""}, {"Union", "BUnion", ""}}},
}

func ifaceFor(name string) *ifaceRep {
	for _, r := range ifaceReps {
		if r.name == name {
			return r
		}
	}
	return nil
}

// implsOf: the implementors of the interface a scrutinee has.
func implsOf(scrut *T) []implementor {
	if scrut.K == KAtom {
		return termImpls
	}
	if r := ifaceFor(scrut.Name); r != nil && scrut.K == KIface {
		return r.impls
	}
	return nil
}

func implIn(scrut *T, name string) *implementor {
	impls := implsOf(scrut)
	for i := range impls {
		if impls[i].goType == name {
			return &impls[i]
		}
	}
	return nil
}

// fillPat instantiates a constructor pattern; a constant constructor has no payload.
func fillPat(pat, binder string) string {
	if strings.Contains(pat, "%s") {
		return fmt.Sprintf(pat, binder)
	}
	return pat
}

// ---------- structs represented by records of the model ----------

// recRep: a struct type of the package with several fields, represented by a Record of
// the model; field reads are the projections, a composite literal is the constructor.
// The table is CHECKED against the source (Pkg.resolveRec): the struct must declare
// exactly these fields, with these type expressions, in this order.
type recRep struct {
	name, coq, ctor string
	fields          []recFieldRep
}

type recFieldRep struct{ goName, goType, proj string }

var recReps = []*recRep{
	// Model/DTerm.v: Record dpred := { dp_name : N; dp_terms : list dterm }
	{"Predicate", "dpred", "Build_dpred", []recFieldRep{{"Name", "String", "dp_name"}, {"Terms", "[]Term", "dp_terms"}}},
	// Model/DTerm.v: Record drule := { dr_head : dpred; dr_body : list dpred; dr_exprs : list dexpr }
	{"Rule", "drule", "Build_drule", []recFieldRep{{"Head", "Predicate", "dr_head"}, {"Body", "[]Predicate", "dr_body"}, {"Expressions", "[]Expression", "dr_exprs"}}},
}

func recFor(name string) *recRep {
	for _, r := range recReps {
		if r.name == name {
			return r
		}
	}
	return nil
}

// ---------- the package ----------

type Pkg struct {
	fset         *token.FileSet
	files        []*ast.File
	types        map[string]*ast.TypeSpec
	funcs        map[string]*ast.FuncDecl // "Recv.Name" or "Name"
	consts       map[string]*constInfo
	vars         map[string]*ast.ValueSpec
	varIdx       map[string]int
	ifaceChecked map[string]error
	recMemo      map[string]*T
}

type constInfo struct {
	val *big.Int
	typ *T // tUntypedInt when untyped
}

type transError struct{ msg string }

func (p *Pkg) pos(n ast.Node) string {
	if n == nil {
		return "?"
	}
	ps := p.fset.Position(n.Pos())
	return fmt.Sprintf("%s:%d", ps.Filename, ps.Line)
}
