#!/bin/sh
# setup: from a fresh restore, offline — build the translator, regenerate
# coq/Generated.v from /repo, full .vo build of the Coq development, build the harness.
set -e
cd "$(dirname "$0")"
export GOFLAGS=-mod=mod GOPROXY=off GOSUMDB=off GOTOOLCHAIN=local
mkdir -p build coq/Run evidence replays
(cd gen && go build -o ../build/gen .)
./build/gen /repo coq/Generated.v
(cd genfn && go build -o ../build/genfn .)
./build/genfn /repo coq/GeneratedFn.v
(cd coq && coq_makefile -f _CoqProject -o Makefile >/dev/null && timeout 3000 make -j16 2>&1 | grep -v -i 'conda' | tail -5)
cp /repo/go.sum harness/go.sum
(cd harness && go build -tags verif -o ../build/harness .)
if [ -d ocaml ] && [ -f ocaml/build.sh ]; then sh ocaml/build.sh; fi
echo "setup done"
